/-
C01, without the atomicity assumption — convergence when an exchange is NOT atomic with respect to
the peer.

`Props/C01.lean` treats an exchange `j ← i` as one step that applies exactly the difference against
the peer's CURRENT state.  The code takes the peer's state first (`GetState`), computes the
difference, and fetches the documents of the modified half LATER (`FetchDocs` reads the peer's store
as it is then): between the two the peer may have applied late deliveries or other exchanges.  What
`j` applies is then: the removals as listed; for a listed modification whatever the peer's store
holds for that id at fetch time — the listed document, a newer one, or nothing (deleted since).

`exchangeNA j i snapA order`: `snapA` is what the peer had applied when its state was taken, `order`
what `j` ends up applying.  Admissibility (`Valid`): `j` only applies operations the peer has
applied by now, and every operation of the snapshot that is STILL the peer's current record of its
key is either already known to `j` or among the applied ones.

An operation that has been superseded at the peer in between may be missed by this exchange — so
`exchange_transfers` ("j knows everything i knew") is false here.  But the greatest operation on a
key can never be superseded, its origin holds it from the moment it was issued, and the exchange
against that origin (atomic or not) transfers it: `convergence_na` has the same conclusion as
`C01.convergence`.

The executable counterpart is `Model/Cluster.lean: repairBegin / repairEnd`, exercised against the
real poller with the peer's fetch held at a gate while the peer is written to (checks/C01.py).
-/
import Datacake.Props.C01
import Datacake.Model.Cluster

namespace Datacake.C01c
open Datacake.Lww Datacake.OrSwot Datacake.Ts Datacake.C05 Datacake.C01

inductive Ev where
  | apply (j src : Nat) (o : Op)
  | exchange (j i : Nat) (order : List SrcOp)
  | exchangeNA (j i : Nat) (snapA : List Op) (order : List SrcOp)

def step (F : Nat) (c : Cl) : Ev → Cl
  | .apply j src o => upd c j ⟨(applyOp F (c j).s ⟨src, o⟩).1, o :: (c j).A⟩
  | .exchange j _ order => upd c j ⟨applyAll F (c j).s order, (order.map (·.op)).reverse ++ (c j).A⟩
  | .exchangeNA j _ _ order => upd c j ⟨applyAll F (c j).s order, (order.map (·.op)).reverse ++ (c j).A⟩

def run (F : Nat) (c : Cl) (evs : List Ev) : Cl := evs.foldl (step F) c

/-- `o` is the replica's current record of its key. -/
def Current (r : Replica) (o : Op) : Prop := view r.s o.key = some (rank o)

def Valid (H : List Op) (c : Cl) : Ev → Prop
  | .apply _ _ o => o ∈ H
  | .exchange j i order =>
    (∀ o ∈ order, o.op ∈ diffOps (c j).s (c i).s) ∧ (∀ o ∈ diffOps (c j).s (c i).s, ∃ so ∈ order, so.op = o)
  | .exchangeNA j i snapA order =>
    (∀ o ∈ snapA, o ∈ (c i).A) ∧ (∀ so ∈ order, so.op ∈ (c i).A) ∧
    (∀ o ∈ snapA, Current (c i) o → Knows (c j) o ∨ ∃ so ∈ order, so.op = o)

def ValidRun (F : Nat) (H : List Op) : Cl → List Ev → Prop
  | _, [] => True
  | c, e :: es => Valid H c e ∧ ValidRun F H (step F c e) es

/-- The part of an event that changes a node: which node, and the operations it applies. -/
def target : Ev → Nat
  | .apply j _ _ => j
  | .exchange j _ _ => j
  | .exchangeNA j _ _ _ => j

def applied : Ev → List Op
  | .apply _ _ o => [o]
  | .exchange _ _ order => (order.map (·.op)).reverse
  | .exchangeNA _ _ _ order => (order.map (·.op)).reverse

theorem step_other (F : Nat) (c : Cl) (e : Ev) (x : Nat) (hx : x ≠ target e) : step F c e x = c x := by
  cases e <;> simp only [step, upd, target] at * <;> rw [if_neg hx]

theorem step_A (F : Nat) (c : Cl) (e : Ev) : (step F c e (target e)).A = applied e ++ (c (target e)).A := by
  cases e <;> simp [step, upd, target, applied]

theorem good_step (F : Nat) (H : List Op) (hh : Hist F H) (c : Cl) (e : Ev) (hg : Good F H c)
    (hv : Valid H c e) : Good F H (step F c e) := by
  cases e with
  | apply j src o => exact C01.good_step F H hh c (.apply j src o) hg hv
  | exchange j i order => exact C01.good_step F H hh c (.exchange j i order) hg hv
  | exchangeNA j i snapA order =>
    intro x
    simp only [step, upd]
    by_cases hx : x = j
    · subst hx
      simp only [if_true]
      obtain ⟨ra, hA⟩ := hg x
      obtain ⟨_, hB⟩ := hg i
      have hopsH : ∀ o ∈ order, o.op ∈ H := fun o ho => hB _ (hv.2.1 o ho)
      refine ⟨applyAll_rep F hh.f4 H hh.good hh.window order hopsH _ _ ra hA, ?_⟩
      intro o ho
      rcases List.mem_append.1 ho with h | h
      · rw [List.mem_reverse, List.mem_map] at h
        obtain ⟨so, hso, rfl⟩ := h
        exact hopsH so hso
      · exact hA _ h
    · simp only [if_neg hx]; exact hg x

theorem good_run (F : Nat) (H : List Op) (hh : Hist F H) (evs : List Ev) (c : Cl) (hg : Good F H c)
    (hv : ValidRun F H c evs) : Good F H (run F c evs) := by
  induction evs generalizing c with
  | nil => exact hg
  | cons e es ih => exact ih _ (good_step F H hh c e hg hv.1) hv.2

/-- What a node has applied it keeps. -/
theorem grows_step (F : Nat) (c : Cl) (e : Ev) (x : Nat) (o : Op) (ho : o ∈ (c x).A) : o ∈ (step F c e x).A := by
  by_cases hx : x = target e
  · subst hx; rw [step_A]; exact List.mem_append_right _ ho
  · rw [step_other F c e x hx]; exact ho

theorem grows_run (F : Nat) (evs : List Ev) (c : Cl) (x : Nat) (o : Op) (ho : o ∈ (c x).A) :
    o ∈ (run F c evs x).A := by
  induction evs generalizing c with
  | nil => exact ho
  | cons e es ih => exact ih _ (grows_step F c e x o ho)

/-- A good node knows every operation it has applied. -/
theorem knows_of_mem (F : Nat) (H : List Op) (c : Cl) (hg : Good F H c) (x : Nat) (o : Op) (ho : o ∈ (c x).A) :
    Knows (c x) o := by
  unfold Knows
  rw [(hg x).1.view]
  exact lww_ge _ o.key o ho rfl

theorem knows_step (F : Nat) (H : List Op) (hh : Hist F H) (c : Cl) (e : Ev) (hg : Good F H c)
    (hv : Valid H c e) (x : Nat) (o : Op) (hk : Knows (c x) o) : Knows (step F c e x) o := by
  have hg' := good_step F H hh c e hg hv
  unfold Knows at *
  obtain ⟨y, hy, hle⟩ := hk
  rw [(hg x).1.view] at hy
  obtain ⟨o0, ho0, hk0, hr0⟩ := lww_mem _ _ _ hy
  obtain ⟨y', hy', hle'⟩ := lww_ge _ o.key o0 (grows_step F c e x o0 ho0) hk0
  exact ⟨y', by rw [(hg' x).1.view]; exact hy', by omega⟩

theorem knows_run (F : Nat) (H : List Op) (hh : Hist F H) (evs : List Ev) (c : Cl) (hg : Good F H c)
    (hv : ValidRun F H c evs) (x : Nat) (o : Op) (hk : Knows (c x) o) : Knows (run F c evs x) o := by
  induction evs generalizing c with
  | nil => exact hk
  | cons e es ih =>
    exact ih _ (good_step F H hh c e hg hv.1) hv.2 (knows_step F H hh c e hg hv.1 x o hk)

/-- `o` is the last-writer-wins winner of its key in the whole history. -/
def Winner (H : List Op) (o : Op) : Prop := o ∈ H ∧ ∀ o' ∈ H, o'.key = o.key → rank o' ≤ rank o

theorem rank_inj (o o' : Op) (h : rank o = rank o') : o.ts = o'.ts := by
  unfold rank liveRec deadRec at h
  split at h <;> split at h <;> omega

/-- The winner of a key, once a good node has applied it, is and stays that node's current record. -/
theorem current_of_winner (F : Nat) (H : List Op) (c : Cl) (hg : Good F H c) (x : Nat) (o : Op)
    (hw : Winner H o) (ho : o ∈ (c x).A) : Current (c x) o := by
  unfold Current
  rw [(hg x).1.view]
  obtain ⟨y, hy, hle⟩ := lww_ge _ o.key o ho rfl
  obtain ⟨o2, ho2, hk2, hr2⟩ := lww_mem _ _ _ hy
  have := hw.2 o2 ((hg x).2 o2 ho2) hk2
  rw [hy]; congr 1; omega

/-- A good node that knows the winner of a key has applied it (stamps on a key are distinct). -/
theorem mem_of_knows_winner (F : Nat) (H : List Op) (hh : Hist F H) (c : Cl) (hg : Good F H c) (x : Nat) (o : Op)
    (hw : Winner H o) (hk : Knows (c x) o) : o ∈ (c x).A := by
  unfold Knows at hk
  obtain ⟨y, hy, hle⟩ := hk
  rw [(hg x).1.view] at hy
  obtain ⟨o2, ho2, hk2, hr2⟩ := lww_mem _ _ _ hy
  have h2H := (hg x).2 o2 ho2
  have hle2 := hw.2 o2 h2H hk2
  have hrank : rank o2 = rank o := by omega
  have hts := rank_inj o2 o hrank
  have : o2 = o := hh.distinct o2 h2H o hw.1 hk2 hts
  exact this ▸ ho2

/-- **exchangeNA_transfers_winner**: a non-atomic exchange against a peer whose state — when it was
taken — contained the winner of a key leaves the repairing node knowing that winner. -/
theorem exchangeNA_transfers_winner (F : Nat) (H : List Op) (hh : Hist F H) (c : Cl) (j i : Nat)
    (snapA : List Op) (order : List SrcOp) (hg : Good F H c) (hv : Valid H c (.exchangeNA j i snapA order))
    (o : Op) (hw : Winner H o) (ho : o ∈ snapA) : Knows (step F c (.exchangeNA j i snapA order) j) o := by
  have hcur := current_of_winner F H c hg i o hw (hv.1 o ho)
  rcases hv.2.2 o ho hcur with hk | ⟨so, hso, rfl⟩
  · exact knows_step F H hh c _ hg hv j o hk
  · have hg' := good_step F H hh c (.exchangeNA j i snapA order) hg hv
    apply knows_of_mem F H _ hg' j
    have : (step F c (.exchangeNA j i snapA order) j).A = (order.map (·.op)).reverse ++ (c j).A := by
      simp [step, upd]
    rw [this]
    exact List.mem_append_left _ (List.mem_reverse.2 (List.mem_map.2 ⟨so, hso, rfl⟩))

/-- The atomic exchange, restated for this event type. -/
theorem exchange_transfers (F : Nat) (H : List Op) (hh : Hist F H) (c : Cl) (j i : Nat)
    (order : List SrcOp) (hg : Good F H c) (hv : Valid H c (.exchange j i order)) (o : Op)
    (hk : Knows (c i) o) : Knows (step F c (.exchange j i order) j) o :=
  C01.exchange_transfers F H hh c j i order hg hv o hk

/-- An exchange `j ← i` of either kind somewhere in an admissible history; a non-atomic one took the
peer's state when the peer had applied at least `A0`. -/
def IsExchange (j i : Nat) (A0 : List Op) : Ev → Prop
  | .apply _ _ _ => False
  | .exchange j' i' _ => j' = j ∧ i' = i
  | .exchangeNA j' i' snapA _ => j' = j ∧ i' = i ∧ ∀ o ∈ A0, o ∈ snapA

/-- In a history that contains an exchange `j ← i` of either kind, followed by anything: at the end
`j` knows every WINNER that `i` has applied at the start — provided a non-atomic exchange took the
peer's state when the peer had applied at least `A0 ∋ o`. -/
theorem learns_winner_through_run (F : Nat) (H : List Op) (hh : Hist F H) (evs : List Ev) (c : Cl)
    (hg : Good F H c) (hv : ValidRun F H c evs) (j i : Nat) (A0 : List Op) (e : Ev) (hmem : e ∈ evs)
    (he : IsExchange j i A0 e) (o : Op) (hw : Winner H o) (hoA0 : o ∈ A0) (ho : o ∈ (c i).A) :
    Knows (run F c evs j) o := by
  induction evs generalizing c with
  | nil => cases hmem
  | cons e' es ih =>
    have hg1 := good_step F H hh c e' hg hv.1
    rcases List.mem_cons.1 hmem with rfl | hrest
    · -- this is the exchange
      cases e with
      | apply _ _ _ => exact absurd he (by simp [IsExchange])
      | exchange j' i' order =>
        obtain ⟨rfl, rfl⟩ := he
        have := exchange_transfers F H hh c j' i' order hg hv.1 o (knows_of_mem F H c hg i' o ho)
        exact knows_run F H hh es _ hg1 hv.2 j' o this
      | exchangeNA j' i' snapA order =>
        obtain ⟨rfl, rfl, hsnap⟩ := he
        have := exchangeNA_transfers_winner F H hh c j' i' snapA order hg hv.1 o hw (hsnap o hoA0)
        exact knows_run F H hh es _ hg1 hv.2 j' o this
    · -- later: the peer keeps what it has applied
      exact ih _ hg1 hv.2 hrest (grows_step F c e' i o ho)

/-- **convergence_na**: as `C01.convergence`, but the exchanges of the quiescent phase may each be
atomic or NOT: let `pre` be any admissible history after which every operation of `H` has been
applied at some node (its origin), and `post` any admissible history — late deliveries, duplicates,
further exchanges of both kinds, in any order — in which every ordered pair of distinct nodes
completes at least one exchange, the non-atomic ones having taken the peer's state after `pre`.
Then every node holds, for every key, exactly the last-writer-wins record of the whole history,
and all nodes return the same for every key. -/
theorem convergence_na (F n : Nat) (H : List Op) (hh : Hist F H) (c0 : Cl) (hg0 : Good F H c0)
    (pre post : List Ev) (hvpre : ValidRun F H c0 pre) (hvpost : ValidRun F H (run F c0 pre) post)
    (origin : Op → Nat)
    (horigin : ∀ o ∈ H, origin o < n ∧ o ∈ (run F c0 pre (origin o)).A)
    (hpairs : ∀ j i, j < n → i < n → j ≠ i →
      ∃ e ∈ post, IsExchange j i (run F c0 pre i).A e)
    (j : Nat) (hj : j < n) (k : Nat) :
    view (run F (run F c0 pre) post j).s k = lww H k ∧
    ∀ j' < n, OrSwot.get (run F (run F c0 pre) post j).s k = OrSwot.get (run F (run F c0 pre) post j').s k := by
  have hg1 := good_run F H hh pre c0 hg0 hvpre
  have hg2 := good_run F H hh post _ hg1 hvpost
  -- every node knows the winner of every key at the end
  have hwin : ∀ x < n, ∀ o, Winner H o → Knows (run F (run F c0 pre) post x) o := by
    intro x hx o hw
    obtain ⟨hon, hmem⟩ := horigin o hw.1
    by_cases he : x = origin o
    · rw [he]
      exact knows_of_mem F H _ hg2 _ o (grows_run F post _ _ o hmem)
    · obtain ⟨e, hepost, hex⟩ := hpairs x (origin o) hx hon he
      exact learns_winner_through_run F H hh post _ hg1 hvpost x (origin o) _ e hepost hex o hw hmem hmem
  have hview : ∀ x < n, view (run F (run F c0 pre) post x).s k = lww H k := by
    intro x hx
    obtain ⟨rep, hsub⟩ := hg2 x
    rw [rep.view]
    cases h1 : lww H k with
    | none =>
      cases h2 : lww (run F (run F c0 pre) post x).A k with
      | none => rfl
      | some r =>
        obtain ⟨o, ho, hk, _⟩ := lww_mem _ k r h2
        obtain ⟨y, hy, _⟩ := lww_ge H k o (hsub o ho) hk
        rw [h1] at hy; cases hy
    | some r =>
      obtain ⟨w, hw, hkw, hrw⟩ := lww_mem H k r h1
      -- `w` is the winner of key `k`
      have hwinner : Winner H w := by
        refine ⟨hw, fun o' ho' hk' => ?_⟩
        obtain ⟨y, hy, hle⟩ := lww_ge H k o' ho' (hk'.trans hkw)
        rw [h1] at hy; injection hy with hy
        omega
      obtain ⟨y, hy, hle⟩ := hwin x hx w hwinner
      rw [hkw, rep.view] at hy
      obtain ⟨o2, ho2, hk2, hr2⟩ := lww_mem _ k y hy
      obtain ⟨z, hz, hle2⟩ := lww_ge H k o2 (hsub o2 ho2) hk2
      rw [h1] at hz; injection hz with hz
      rw [hy]; congr 1; omega
  refine ⟨hview j hj, ?_⟩
  intro j' hj'
  exact C03.get_of_view _ _ k ((hview j hj).trans (hview j' hj').symm)

/-- Why the weaker guarantee: a non-atomic exchange CAN miss an operation the peer's state listed.
The peer's snapshot holds `put k @5000`; before the fetch the peer applies `del k @6000`; the fetch
finds nothing for `k` and the exchange applies nothing — admissible, and afterwards the repairing
node does not know the put (it will learn the delete from the delete's origin). -/
example :
    let put : Op := ⟨1, pack 5000 0 1, false⟩
    let del : Op := ⟨1, pack 6000 0 2, true⟩
    let peer : Replica := ⟨(applyOp 3600000 (applyOp 3600000 (OrSwot.empty 2) ⟨0, put⟩).1 ⟨0, del⟩).1, [del, put]⟩
    let me : Replica := ⟨OrSwot.empty 2, []⟩
    let c : Cl := fun x => if x = 0 then peer else me
    Valid [put, del] c (.exchangeNA 1 0 [put] []) ∧ ¬ Current (c 0) put := by
  refine ⟨⟨?_, ?_, ?_⟩, ?_⟩
  · intro o ho; simp only [List.mem_singleton] at ho; subst ho; simp
  · intro so hso; cases hso
  · intro o ho hc
    simp only [List.mem_singleton] at ho; subst ho
    exact absurd hc (by unfold Current; decide)
  · unfold Current; decide

/-! ### The executable model: the split exchange is the exchange -/

namespace Split
open Datacake.Cluster

theorem applyModified_nil (c : Cluster) (j i : Nat) : applyModified c j i [] = (c, true) := rfl

/-- **repair_split_eq**: in the executable cluster model, `repairBegin` followed at once by `repairEnd`
(nothing happens at the peer in between) is exactly `repair`: the split adds behaviours, it changes
none. -/
theorem repair_split_eq (c : Cluster) (j i : Nat) (rf : Bool) :
    match repairBegin c j i rf with
    | (c1, .finished out) => repair c j i rf = (c1, out)
    | (c1, .fetching p) => repair c j i rf = repairEnd c1 j p := by
  unfold repairBegin repair
  by_cases h1 : (getNode c i).exists_ = true
  · simp only [h1, Bool.not_true, Bool.false_eq_true, if_false]
    by_cases h2 : ((getNode c j).tracker.getD i none == some (getNode c i).change) = true
    · simp only [h2, if_true]
    · simp only [h2, Bool.false_eq_true, if_false]
      generalize hD : OrSwot.diff (getNode (touch c j) j).ks.set (getNode c i).ks.set = D
      obtain ⟨modified, removed⟩ := D
      simp only
      cases rf with
      | true =>
        simp only [if_true]
        generalize hR : applyRemovals (touch c j) j removed = R
        obtain ⟨c1, ok1⟩ := R
        cases ok1 with
        | false => simp
        | true =>
          simp only [Bool.not_true, Bool.false_eq_true, if_false, if_true]
          cases modified with
          | nil => simp [applyModified_nil, finishTracker]
          | cons m ms =>
            simp only [List.isEmpty_cons, Bool.false_eq_true, if_false, repairEnd]
            generalize hM : applyModified c1 j i (m :: ms) = M
            obtain ⟨c2, ok2⟩ := M
            cases ok2 <;> simp [finishTracker]
      | false =>
        simp only [Bool.false_eq_true, if_false]
        cases modified with
        | nil =>
          simp only [List.isEmpty_nil, if_true, applyModified_nil]
          generalize hR : applyRemovals (touch c j) j removed = R
          obtain ⟨c1, ok1⟩ := R
          cases ok1 <;> simp [finishTracker]
        | cons m ms =>
          simp only [List.isEmpty_cons, Bool.false_eq_true, if_false, repairEnd]
          generalize hM : applyModified (touch c j) j i (m :: ms) = M
          obtain ⟨c2, ok2⟩ := M
          cases ok2 with
          | false => simp
          | true =>
            simp only [Bool.not_true, Bool.false_eq_true, if_false, if_true]
            generalize hR : applyRemovals c2 j removed = R
            obtain ⟨c3, ok3⟩ := R
            cases ok3 <;> simp [finishTracker]
  · simp only [h1, Bool.not_false, if_true]

end Split

end Datacake.C01c
