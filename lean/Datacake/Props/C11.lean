/-
C11 — Node clock serialises concurrent callers: no duplicate or regressing stamps.

Model: the clock actor (`datacake-node/src/clock.rs: run_clock`) handles one event at a time from
a FIFO queue: `Get` runs `HLCTimestamp::send` and replies with the result, `Register(ts)` runs
`recv` and ignores a refusal.  Whatever the interleaving of the callers' enqueues, the actor sees
*some* sequence of events, each with the wall reading at its processing time — `C09.Call` lists.
So "for all interleavings of get_time/register_ts calls from several tasks" is "for all event
lists", and the statements are corollaries of `C09.history_monotone`.

What is assumed of the runtime (and observed by the correspondence run, not proved): the flume
channel is FIFO with a single consumer, and a reply reaches the caller that asked.
-/
import Datacake.Props.C09

namespace Datacake.C11
open Datacake.Ts Datacake.C09

/-- The replies to `Get` events, in processing order. -/
def replies : List Ev → List Nat
  | [] => []
  | .issued t :: rest => t :: replies rest
  | .accepted _ :: rest => replies rest

theorem mem_replies (evs : List Ev) (t : Nat) : t ∈ replies evs ↔ Ev.issued t ∈ evs := by
  induction evs with
  | nil => simp [replies]
  | cons e es ih =>
    cases e with
    | issued u => simp [replies, ih]
    | accepted m => simp [replies, ih]

/-- **replies_strictly_increasing**: for every sequence of events the actor processes — i.e. every
interleaving of any number of concurrent callers, with stalled, jumping or backwards wall clock —
the replies to `get_time` are strictly increasing in processing order, hence pairwise distinct. -/
theorem replies_strictly_increasing (c : Nat) (calls : List Call) (hw : ∀ call ∈ calls, call.WallOk) :
    (replies (run c calls)).Pairwise (· < ·) := by
  have h := history_monotone c calls hw
  generalize run c calls = evs at h
  induction evs with
  | nil => exact List.Pairwise.nil
  | cons e es ih =>
    obtain ⟨h1, h2⟩ := List.pairwise_cons.1 h
    cases e with
    | issued u =>
      simp only [replies]
      refine List.Pairwise.cons ?_ (ih h2)
      intro t ht
      exact h1 _ ((mem_replies es t).1 ht) t rfl
    | accepted m => simpa [replies] using ih h2

/-- All replies are pairwise distinct. -/
theorem replies_distinct (c : Nat) (calls : List Call) (hw : ∀ call ∈ calls, call.WallOk) :
    (replies (run c calls)).Nodup :=
  (replies_strictly_increasing c calls hw).imp (fun h => Nat.ne_of_lt h)

/-- **per_task_increasing**: a task asks for its next stamp only after it received the previous
one, so its own replies are a subsequence of the processing order — and every subsequence of the
replies is strictly increasing. -/
theorem per_task_increasing (c : Nat) (calls : List Call) (hw : ∀ call ∈ calls, call.WallOk)
    (mine : List Nat) (hsub : mine.Sublist (replies (run c calls))) : mine.Pairwise (· < ·) :=
  List.Pairwise.sublist hsub (replies_strictly_increasing c calls hw)

/-- **after_register_greater**: a `get_time` processed after an accepted `register_ts(r)` replies
with a stamp greater than `r`.  (A registration is refused — and then has no effect — exactly when
`r` carries the clock's own node id, is beyond the allowed drift, or would exhaust the counter:
`C09.recv_error_iff`.) -/
theorem after_register_greater (c : Nat) (calls : List Call) (hw : ∀ call ∈ calls, call.WallOk)
    (pre post : List Ev) (r t : Nat) (h : run c calls = pre ++ Ev.accepted r :: post)
    (ht : Ev.issued t ∈ post) : r < t := by
  have hm := history_monotone c calls hw
  rw [h] at hm
  have h2 := (List.pairwise_append.1 hm).2.1
  exact (List.pairwise_cons.1 h2).1 _ ht t rfl

/-- Every reply carries the node's own id. -/
theorem replies_node (c : Nat) (calls : List Call) (hw : ∀ call ∈ calls, call.WallOk) (t : Nat)
    (h : t ∈ replies (run c calls)) : node t = node c :=
  issued_node c calls hw t ((mem_replies _ t).1 h)

/-- Non-vacuity: three callers interleaved, a stalled wall clock and a registration in between. -/
example :
    replies (run (pack 1000000 0 1)
      [.send 1000000, .send 1000000, .recv 1000000 (pack 1000400 9 7), .send 1000000, .send 999000]) =
      [pack 1000000 1 1, pack 1000000 2 1, pack 1000400 11 1, pack 1000400 12 1] := by decide

end Datacake.C11
