/-
C11 — Node clock serialises concurrent callers: no duplicate or regressing stamps.

Model (`Model/Clock.lean`): the clock actor (`datacake-node/src/clock.rs: run_clock`) handles one
event at a time from a FIFO queue: `Get` runs `HLCTimestamp::send` and replies with the result,
`Register(ts)` runs `recv`; since fix D19 an exhausted counter makes the clock carry on with the next
instant instead of stopping the actor / dropping the registration.  Whatever the interleaving of the
callers' enqueues, the actor sees *some* sequence of events, each with the wall reading at its
processing time.  So "for all interleavings of get_time/register_ts calls from several tasks" is
"for all event lists".

What is assumed of the runtime (and observed by the correspondence run, not proved): the flume
channel is FIFO with a single consumer, and a reply reaches the caller that asked.
-/
import Datacake.Props.C09
import Datacake.Model.Clock

namespace Datacake.C11
open Datacake.Ts Datacake.Clock
open Datacake.C09 (IsU64 send_spec recv_spec recv_error_iff recv_no_panic)

/-- The replies to `Get` events, in processing order. -/
def replies : List Ev → List Nat
  | [] => []
  | .issued t :: rest => t :: replies rest
  | .registered _ _ :: rest => replies rest

theorem mem_replies (evs : List Ev) (t : Nat) : t ∈ replies evs ↔ Ev.issued t ∈ evs := by
  induction evs with
  | nil => simp [replies]
  | cons e es ih =>
    cases e with
    | issued u => simp [replies, ih]
    | registered w m => simp [replies, ih]

def _root_.Datacake.Clock.Req.WallOk : Req → Prop
  | .get w => C09.WallOk w
  | .register w _ => C09.WallOk w

/-! ### One event -/

theorem nextInstant_spec (t nd n : Nat) (hnd : nd < 256) (h : nextInstant t nd = some n) :
    t < n ∧ node n = nd ∧ dts n = dts t + 4 ∧ counter n = 0 ∧ IsU64 n ∧ fractional n < 250 := by
  unfold nextInstant new? at h
  split at h
  · rename_i hs
    injection h with h; subst h
    unfold durSecs at hs
    have h4 := dts_mod4 t
    have hs' : (dts t + 4) / 1000 < 4294967296 := by omega
    obtain ⟨_, f2, f3, f4⟩ := pack_fields (dts t + 4) 0 nd hs' (by omega) hnd
    refine ⟨lt_pack t (dts t + 4) 0 nd hs' (by omega) (Or.inl (by omega)), f4,
      dts_pack _ _ _ hs' (by omega) hnd (by omega), f3, ?_, by rw [f2]; omega⟩
    unfold IsU64; rw [pack_eq _ _ _ hs']; omega
  · cases h

/-- The stamp following a valid clock value is strictly above it, under the same node id, valid. -/
theorem following_spec (c n : Nat) (hc : IsU64 c ∧ fractional c < 250) (h : following c = some n) :
    c < n ∧ node n = node c ∧ IsU64 n ∧ fractional n < 250 := by
  unfold following at h
  split at h
  · rename_i hk
    unfold new? at h
    split at h
    · rename_i hs
      injection h with h; subst h
      unfold durSecs at hs
      have h4 := dts_mod4 c
      have hs' : dts c / 1000 < 4294967296 := by omega
      obtain ⟨_, f2, _, f4⟩ := pack_fields (dts c) (counter c + 1) (node c) hs' (by omega) (node_lt c)
      refine ⟨lt_pack c (dts c) (counter c + 1) (node c) hs' h4 (Or.inr ⟨rfl, by omega⟩), f4, ?_, by rw [f2]; omega⟩
      unfold IsU64; rw [pack_eq _ _ _ hs']; have := node_lt c; omega
    · cases h
  · obtain ⟨g1, g2, _, _, g5, g6⟩ := nextInstant_spec c (node c) n (node_lt c) h
    exact ⟨g1, g2, g5, g6⟩

/-- `Get`: the reply is strictly above the clock, under the clock's node id, and a valid stamp. -/
theorem onGet_spec (c w c' : Nat) (hw : C09.WallOk w) (hc : IsU64 c ∧ fractional c < 250) (h : onGet c w = some c') :
    c < c' ∧ node c' = node c ∧ IsU64 c' ∧ fractional c' < 250 := by
  unfold onGet at h
  cases hs : send c w with
  | ok c1 =>
    rw [hs] at h; injection h with h; subst h
    obtain ⟨h1, h2, _, _, _, h6, h7⟩ := send_spec c w c1 hw hs
    exact ⟨h1, h2, h6, h7⟩
  | error e =>
    rw [hs] at h
    exact following_spec c c' hc h

/-- **onGet_total** (liveness of the actor, fix D34): whatever the wall clock reads - stalled,
stepped back by any amount, absurdly far ahead - a `Get` is answered, as long as the clock itself
is not within 4 ms of the end of the representable time (7 February 2159). -/
theorem onGet_total (c w : Nat) (hc : IsU64 c ∧ fractional c < 250)
    (hend : durSecs (dts c + 4) ≤ TIMESTAMP_MAX) : (onGet c w).isSome = true := by
  unfold onGet
  cases hs : send c w with
  | ok c1 => rfl
  | error e =>
    simp only
    unfold durSecs at hend
    unfold following
    split
    · unfold new? durSecs; rw [if_pos (by omega)]; rfl
    · unfold nextInstant new? durSecs; rw [if_pos hend]; rfl

/-- `Register`: the clock never moves backwards and keeps its node id and validity. -/
theorem onRegister_mono (c w r : Nat) (hw : C09.WallOk w) (hc : IsU64 c ∧ fractional c < 250) :
    c ≤ onRegister c w r ∧ node (onRegister c w r) = node c ∧
    IsU64 (onRegister c w r) ∧ fractional (onRegister c w r) < 250 := by
  unfold onRegister
  cases h1 : recv c w r with
  | ok p =>
    obtain ⟨c', x⟩ := p
    obtain ⟨g1, _, g3, _, _, _, _, _, g9, g10⟩ := recv_spec c w r c' x hw h1
    exact ⟨by simp only; omega, g3, g9, g10⟩
  | panic => exact ⟨Nat.le_refl _, rfl, hc.1, hc.2⟩
  | err e =>
    cases e with
    | duplicatedNode => exact ⟨Nat.le_refl _, rfl, hc.1, hc.2⟩
    | clockDrift => exact ⟨Nat.le_refl _, rfl, hc.1, hc.2⟩
    | overflow =>
      simp only
      cases hn : nextInstant r (node c) with
      | none => exact ⟨Nat.le_refl _, rfl, hc.1, hc.2⟩
      | some n =>
        simp only
        obtain ⟨_, g2, _, _, g5, g6⟩ := nextInstant_spec r (node c) n (node_lt c) hn
        split
        · exact ⟨by omega, g2, g5, g6⟩
        · exact ⟨Nat.le_refl _, rfl, hc.1, hc.2⟩

/-- When `recv` must succeed. -/
theorem recv_ok_of (c w m : Nat) (hnode : node c ≠ node m) (hd1 : dts m ≤ w + MAX_CLOCK_DRIFT_MS)
    (hd2 : dts c ≤ w + MAX_CLOCK_DRIFT_MS) (hrg : ¬ durSecs (max (max (dts c) w) (dts m)) > TIMESTAMP_MAX)
    (hctr : recvCounter (max (max (dts c) w) (dts m)) (dts c) (dts m) (counter c) (counter m) ≠ .error .overflow) :
    ∃ c' x, recv c w m = .ok (c', x) := by
  obtain ⟨e1, e2, e3⟩ := recv_error_iff c w m
  cases h : recv c w m with
  | ok p => exact ⟨p.1, p.2, rfl⟩
  | panic => exact absurd h (recv_no_panic c w m)
  | err e =>
    cases e with
    | duplicatedNode => exact absurd (e1.1 h) hnode
    | clockDrift =>
      obtain ⟨_, hh⟩ := e2.1 h
      rcases hh with hh | hh <;> omega
    | overflow =>
      obtain ⟨_, _, _, hh⟩ := e3.1 h
      rcases hh with hh | hh
      · exact absurd hh hrg
      · exact absurd hh hctr

/-- A stamp with a later time is greater than a VALID stamp with an earlier one. -/
theorem lt_of_dts_lt (a c : Nat) (hc : IsU64 c ∧ fractional c < 250) (h : dts a < dts c) : a < c := by
  have hs := seconds_lt c hc.1
  have hsd : dts c / 1000 < 4294967296 := by unfold dts partsAsDuration; omega
  have := lt_pack a (dts c) (counter c) (node c) hsd (dts_mod4 c) (Or.inl h)
  have hrep : pack (dts c) (counter c) (node c) = c := by
    rw [pack_eq _ _ _ hsd]
    have hd := decomp c
    unfold dts partsAsDuration at *
    omega
  omega

/-- **register_takes_effect**: a `Register(r)` of a remote stamp (another node's) that is not
beyond the allowed drift - AT the limit included - leaves the clock strictly above `r`, whatever the
counters are (fixes D19 and D36: an exhausted counter no longer makes the actor drop the registration).
`hrange`: the wall clock (plus the drift) is representable, i.e. it is before the year 2159. -/
theorem register_takes_effect (c w r : Nat) (hw : C09.WallOk w) (hc : IsU64 c ∧ fractional c < 250)
    (hnode : node c ≠ node r) (hdrift : dts r ≤ w + MAX_CLOCK_DRIFT_MS)
    (hrange : (w + MAX_CLOCK_DRIFT_MS + 4) / 1000 ≤ TIMESTAMP_MAX) :
    r < onRegister c w r := by
  unfold C09.WallOk at hw
  have h4c := dts_mod4 c
  have h4r := dts_mod4 r
  obtain ⟨e1, e2, e3⟩ := recv_error_iff c w r
  cases h1 : recv c w r with
  | ok p =>
    obtain ⟨c', x⟩ := p
    have := (recv_spec c w r c' x hw h1).2.1
    unfold onRegister; rw [h1]; exact this
  | panic => exact absurd h1 (recv_no_panic c w r)
  | err e =>
    cases e with
    | duplicatedNode => exact absurd (e1.1 h1) hnode
    | clockDrift =>
      obtain ⟨_, hh⟩ := e2.1 h1
      rcases hh with hh | hh
      · omega
      · -- the clock itself is beyond the drift: it is above the remote stamp already
        have : r < c := lt_of_dts_lt r c hc (by omega)
        unfold onRegister; rw [h1]; exact this
    | overflow =>
      -- no counter value is left at the instant of `r`: the clock moves to the instant after `r`, or is beyond it
      have hs' : durSecs (dts r + 4) ≤ TIMESTAMP_MAX := by unfold durSecs; omega
      have hn : nextInstant r (node c) = some (pack (dts r + 4) 0 (node c)) := by
        unfold nextInstant new?; rw [if_pos hs']
      obtain ⟨g1, _⟩ := nextInstant_spec r (node c) _ (node_lt c) hn
      unfold onRegister
      rw [h1]
      simp only
      rw [hn]
      simp only
      split <;> omega

/-! ### Every queue of events -/

/-- Everything the actor issues is above the clock it started from and carries its node id. -/
theorem run_issued_gt (reqs : List Req) : ∀ (c : Nat), (∀ q ∈ reqs, q.WallOk) → (IsU64 c ∧ fractional c < 250) →
    ∀ t, Ev.issued t ∈ run (some c) reqs → c < t ∧ node t = node c := by
  induction reqs with
  | nil => intro c _ _ t ht; simp [run] at ht
  | cons q rest ih =>
    intro c hw hc t ht
    have hwq := hw q List.mem_cons_self
    have hwr : ∀ x ∈ rest, x.WallOk := fun x hx => hw x (List.mem_cons_of_mem _ hx)
    cases q with
    | get w =>
      simp only [run] at ht
      cases hg : onGet c w with
      | none => rw [hg] at ht; simp at ht
      | some c' =>
        rw [hg] at ht
        simp only [List.mem_cons] at ht
        obtain ⟨g1, g2, g3, g4⟩ := onGet_spec c w c' hwq hc hg
        rcases ht with ht | ht
        · injection ht with ht; subst ht; exact ⟨g1, g2⟩
        · obtain ⟨i1, i2⟩ := ih c' hwr ⟨g3, g4⟩ t ht
          exact ⟨by omega, by rw [i2, g2]⟩
    | register w r =>
      simp only [run, List.mem_cons] at ht
      obtain ⟨g1, g2, g3, g4⟩ := onRegister_mono c w r hwq hc
      rcases ht with ht | ht
      · cases ht
      · obtain ⟨i1, i2⟩ := ih _ hwr ⟨g3, g4⟩ t ht
        exact ⟨by omega, by rw [i2, g2]⟩

/-- **replies_strictly_increasing**: for every sequence of events the actor processes — i.e. every
interleaving of any number of concurrent callers, with stalled, jumping or backwards wall clock,
registrations of any remote stamps, counters exhausted or not — the replies to `get_time` are
strictly increasing in processing order, hence pairwise distinct. -/
theorem replies_strictly_increasing (reqs : List Req) : ∀ (c : Nat), (∀ q ∈ reqs, q.WallOk) →
    (IsU64 c ∧ fractional c < 250) → (replies (run (some c) reqs)).Pairwise (· < ·) := by
  induction reqs with
  | nil => intro c _ _; simp [run, replies]
  | cons q rest ih =>
    intro c hw hc
    have hwq := hw q List.mem_cons_self
    have hwr : ∀ x ∈ rest, x.WallOk := fun x hx => hw x (List.mem_cons_of_mem _ hx)
    cases q with
    | get w =>
      simp only [run]
      cases hg : onGet c w with
      | none => simp [replies]
      | some c' =>
        simp only [replies]
        obtain ⟨_, _, g3, g4⟩ := onGet_spec c w c' hwq hc hg
        refine List.Pairwise.cons ?_ (ih c' hwr ⟨g3, g4⟩)
        intro t ht
        exact (run_issued_gt rest c' hwr ⟨g3, g4⟩ t ((mem_replies _ t).1 ht)).1
    | register w r =>
      simp only [run, replies]
      obtain ⟨_, _, g3, g4⟩ := onRegister_mono c w r hwq hc
      exact ih _ hwr ⟨g3, g4⟩

theorem replies_distinct (reqs : List Req) (c : Nat) (hw : ∀ q ∈ reqs, q.WallOk)
    (hc : IsU64 c ∧ fractional c < 250) : (replies (run (some c) reqs)).Nodup :=
  (replies_strictly_increasing reqs c hw hc).imp (fun h => Nat.ne_of_lt h)

/-- **per_task_increasing**: a task asks for its next stamp only after it received the previous
one, so its own replies are a subsequence of the processing order — and every subsequence of the
replies is strictly increasing. -/
theorem per_task_increasing (reqs : List Req) (c : Nat) (hw : ∀ q ∈ reqs, q.WallOk)
    (hc : IsU64 c ∧ fractional c < 250) (mine : List Nat) (hsub : mine.Sublist (replies (run (some c) reqs))) :
    mine.Pairwise (· < ·) :=
  List.Pairwise.sublist hsub (replies_strictly_increasing reqs c hw hc)

/-- **after_register_greater**: every `get_time` processed after a `register_ts(r)` of a remote
stamp that is not beyond the allowed drift (AT the limit included, fix D36) replies with a stamp
greater than `r`.  No condition on counters. -/
theorem after_register_greater (reqs : List Req) : ∀ (c : Nat), (∀ q ∈ reqs, q.WallOk) →
    (IsU64 c ∧ fractional c < 250) → ∀ (pre post : List Ev) (w r t : Nat),
    run (some c) reqs = pre ++ Ev.registered w r :: post →
    node c ≠ node r → dts r ≤ w + MAX_CLOCK_DRIFT_MS → (w + MAX_CLOCK_DRIFT_MS + 4) / 1000 ≤ TIMESTAMP_MAX →
    Ev.issued t ∈ post → r < t := by
  induction reqs with
  | nil => intro c _ _ pre post w r t h; simp [run] at h
  | cons q rest ih =>
    intro c hw hc pre post w r t h hnode hdrift hrange ht
    have hwq := hw q List.mem_cons_self
    have hwr : ∀ x ∈ rest, x.WallOk := fun x hx => hw x (List.mem_cons_of_mem _ hx)
    cases q with
    | get w0 =>
      simp only [run] at h
      cases hg : onGet c w0 with
      | none => rw [hg] at h; simp at h
      | some c' =>
        rw [hg] at h
        simp only at h
        obtain ⟨_, g2, g3, g4⟩ := onGet_spec c w0 c' hwq hc hg
        cases pre with
        | nil => simp at h
        | cons e pre' =>
          simp only [List.cons_append, List.cons.injEq] at h
          exact ih c' hwr ⟨g3, g4⟩ pre' post w r t h.2 (by rw [g2]; exact hnode) hdrift hrange ht
    | register w0 r0 =>
      simp only [run] at h
      obtain ⟨_, g2, g3, g4⟩ := onRegister_mono c w0 r0 hwq hc
      cases pre with
      | nil =>
        simp only [List.nil_append, List.cons.injEq] at h
        obtain ⟨he, hpost⟩ := h
        injection he with hw0 hr0
        subst hw0; subst hr0
        have heff := register_takes_effect c w0 r0 hwq hc hnode hdrift hrange
        rw [← hpost] at ht
        have := (run_issued_gt rest _ hwr ⟨g3, g4⟩ t ht).1
        omega
      | cons e pre' =>
        simp only [List.cons_append, List.cons.injEq] at h
        exact ih _ hwr ⟨g3, g4⟩ pre' post w r t h.2 (by rw [g2]; exact hnode) hdrift hrange ht

/-- Every reply carries the clock's own node id. -/
theorem replies_node (reqs : List Req) (c : Nat) (hw : ∀ q ∈ reqs, q.WallOk) (hc : IsU64 c ∧ fractional c < 250)
    (t : Nat) (h : t ∈ replies (run (some c) reqs)) : node t = node c :=
  (run_issued_gt reqs c hw hc t ((mem_replies _ t).1 h)).2

/-! ### Witnesses -/

/-- Defect D19 (pinned arms of the actor): a remote stamp 50 s ahead whose counter is `u16::MAX` is
dropped - the clock stays where it was and the next reply is BELOW the registered stamp; with the
counter at `u16::MAX - 1` the registration is taken and the next `get_time` stops the actor.  The
current arms move on to the next instant in both cases. -/
theorem legacy_drops_registration :
    let c := pack 1000000 0 1
    let r := pack 1050000 65535 2
    onRegisterLegacy c 1000000 r = c ∧ onGetLegacy c 1000000 = some (pack 1000000 1 1) ∧ pack 1000000 1 1 < r ∧
    onRegister c 1000000 r = pack 1050004 0 1 ∧ r < pack 1050004 0 1 ∧
    onGetLegacy (onRegisterLegacy c 1000000 (pack 1050000 65534 2)) 1000000 = none ∧
    onGet (onRegister c 1000000 (pack 1050000 65534 2)) 1000000 = some (pack 1050004 0 1) := by
  decide

/-- Non-vacuity: three callers interleaved, a stalled wall clock and a registration in between. -/
example :
    replies (run (some (pack 1000000 0 1))
      [.get 1000000, .get 1000000, .register 1000000 (pack 1000400 9 7), .get 1000000, .get 999000]) =
      [pack 1000000 1 1, pack 1000000 2 1, pack 1000400 11 1, pack 1000400 12 1] := by decide

/-- The tree between the fixes D19 and D34: a wall clock that stepped back by two hours (an NTP
step, a resumed VM) made the next `Get` kill the actor, and so did a clock pinned exactly at the
drift limit once its counter values were used up; the repaired arm answers both with the stamp
following the clock. -/
theorem d19_get_dies_on_drift :
    onGetD19 (pack 10000000 0 1) 2800000 = none ∧
    onGet (pack 10000000 0 1) 2800000 = some (pack 10000000 1 1) ∧
    onGetD19 (pack (1000000 + MAX_CLOCK_DRIFT_MS) 65535 1) 1000000 = none ∧
    onGet (pack (1000000 + MAX_CLOCK_DRIFT_MS) 65535 1) 1000000 = some (pack (1000004 + MAX_CLOCK_DRIFT_MS) 0 1) := by
  decide


/-- The tree between the fixes D19 and D36: a remote stamp exactly AT the drift limit whose counter
is exhausted was dropped (the instant after it went through a second `recv`, which refused it as
beyond the drift), so the next `Get` answered BELOW a registered stamp that was not beyond the
drift; the repaired arm moves the clock to that instant. -/
theorem d19_drops_remote_at_the_limit :
    let c := pack 1000000 0 1
    let r := pack (1000000 + MAX_CLOCK_DRIFT_MS) 65535 2
    onRegisterD19 c 1000000 r = c ∧
    (onGet (onRegisterD19 c 1000000 r) 1000000).map (fun t => decide (r < t)) = some false ∧
    onRegister c 1000000 r = pack (1000004 + MAX_CLOCK_DRIFT_MS) 0 1 ∧
    (onGet (onRegister c 1000000 r) 1000000).map (fun t => decide (r < t)) = some true := by
  decide


end Datacake.C11
