/-
C01 — The cluster converges: every node ends with the same last-writer-wins documents.

Two layers.

* This file proves convergence for the *replicated sets* of any number of nodes at the level of
  abstraction at which it is a theorem about the CRDT and the repair protocol: a node is its set
  together with the list of operations it has applied; an event either applies one operation of
  the history to a node through some source (a local client write, a delivered / duplicated /
  reordered / batched replication message — any of them, any number of times, or never), or lets a
  node complete one anti-entropy exchange against the *current* state of a peer (the items of the
  computed difference applied in any order: removals first, modifications first, or interleaved).
  Any finite sequence of such events is a history.
* That every node's *store* agrees with its set after every request is C02 (`agree_reachable`),
  that a document read from the store carries the bytes of the put that wrote it is the storage
  contract (C17); the executable cluster model (`Model/Cluster.lean`: real handlers, fetch of the
  peer's store, tracker) is tied to the code by the correspondence run of this property, which also
  evaluates the final statement (documents = LWW documents) on the implementation with the Lean
  `lww` as oracle.

Proved fallback rung (DESIGN §8 C01): exchanges are atomic with respect to the peer (the fetch
returns the documents of the snapshot), halves in any order and interleaved; late deliveries and
other exchanges anywhere between exchanges.
-/
import Datacake.Props.C05b
import Datacake.Props.C03

namespace Datacake.C01
open Datacake.Lww Datacake.OrSwot Datacake.Ts Datacake.C05

/-- A node at the level of the replicated set: its state and what it has applied. -/
structure Replica where
  s : OrSwot
  A : List Op

/-- The cluster: node index ↦ replica (indices beyond the cluster size are simply unused). -/
abbrev Cl := Nat → Replica

inductive Ev where
  | apply (j src : Nat) (o : Op)                 -- node j applies `o` through source `src`
  | exchange (j i : Nat) (order : List SrcOp)    -- node j applies its difference against node i

def upd (c : Cl) (j : Nat) (r : Replica) : Cl := fun x => if x = j then r else c x

def step (F : Nat) (c : Cl) : Ev → Cl
  | .apply j src o => upd c j ⟨(applyOp F (c j).s ⟨src, o⟩).1, o :: (c j).A⟩
  | .exchange j _ order => upd c j ⟨applyAll F (c j).s order, (order.map (·.op)).reverse ++ (c j).A⟩

def run (F : Nat) (c : Cl) (evs : List Ev) : Cl := evs.foldl (step F) c

/-- An event is admissible in a state: applied operations belong to the history; an exchange
applies exactly the items of the difference it computed against the peer's current state. -/
def Valid (H : List Op) (c : Cl) : Ev → Prop
  | .apply _ _ o => o ∈ H
  | .exchange j i order =>
    (∀ o ∈ order, o.op ∈ diffOps (c j).s (c i).s) ∧ (∀ o ∈ diffOps (c j).s (c i).s, ∃ so ∈ order, so.op = o)

def ValidRun (F : Nat) (H : List Op) : Cl → List Ev → Prop
  | _, [] => True
  | c, e :: es => Valid H c e ∧ ValidRun F H (step F c e) es

/-- Every node represents what it applied, and has applied only operations of the history. -/
def Good (F : Nat) (H : List Op) (c : Cl) : Prop := ∀ j, Rep F (c j).s (c j).A ∧ ∀ o ∈ (c j).A, o ∈ H

/-- Node `r` knows operation `o`: its record of `o`'s key is at least `o`. -/
def Knows (r : Replica) (o : Op) : Prop := AtLeast (view r.s o.key) (rank o)

structure Hist (F : Nat) (H : List Op) : Prop where
  f4 : F % 4 = 0
  good : GoodHist H
  window : WindowH F H
  distinct : KeyStampDistinct H

theorem good_step (F : Nat) (H : List Op) (hh : Hist F H) (c : Cl) (e : Ev) (hg : Good F H c)
    (hv : Valid H c e) : Good F H (step F c e) := by
  cases e with
  | apply j src o =>
    intro x
    simp only [step, upd]
    by_cases hx : x = j
    · subst hx
      simp only [if_true]
      obtain ⟨r, hA⟩ := hg x
      have snd := sound_of_window F hh.f4 (c x).s (c x).A H hh.good hA hh.window r.vers
      refine ⟨applyOp_rep F (c x).s (c x).A H ⟨src, o⟩ r snd hv, ?_⟩
      intro o' ho'
      rcases List.mem_cons.1 ho' with rfl | h
      · exact hv
      · exact hA _ h
    · simp only [if_neg hx]; exact hg x
  | exchange j i order =>
    intro x
    simp only [step, upd]
    by_cases hx : x = j
    · subst hx
      simp only [if_true]
      obtain ⟨ra, hA⟩ := hg x
      obtain ⟨rb, hB⟩ := hg i
      have hopsB : ∀ o ∈ order, o.op ∈ (c i).A := fun o ho =>
        op_of_rec F _ _ rb _ _ _ ((mem_diffOps _ _ o.op).1 (hv.1 o ho)).1
      have hopsH : ∀ o ∈ order, o.op ∈ H := fun o ho => hB _ (hopsB o ho)
      refine ⟨applyAll_rep F hh.f4 H hh.good hh.window order hopsH _ _ ra hA, ?_⟩
      intro o ho
      rcases List.mem_append.1 ho with h | h
      · rw [List.mem_reverse, List.mem_map] at h
        obtain ⟨so, hso, rfl⟩ := h
        exact hopsH so hso
      · exact hA _ h
    · simp only [if_neg hx]; exact hg x

theorem good_run (F : Nat) (H : List Op) (hh : Hist F H) (evs : List Ev) (c : Cl) (hg : Good F H c)
    (hv : ValidRun F H c evs) : Good F H (run F c evs) := by
  induction evs generalizing c with
  | nil => exact hg
  | cons e es ih => exact ih _ (good_step F H hh c e hg hv.1) hv.2

/-- What a node knows it keeps knowing: records only grow. -/
theorem knows_step (F : Nat) (H : List Op) (hh : Hist F H) (c : Cl) (e : Ev) (hg : Good F H c)
    (hv : Valid H c e) (x : Nat) (o : Op) (hk : Knows (c x) o) : Knows (step F c e x) o := by
  have hg' := good_step F H hh c e hg hv
  -- the applied list of every node only grows
  have hgrow : ∀ o' ∈ (c x).A, o' ∈ (step F c e x).A := by
    intro o' ho'
    cases e with
    | apply j src o2 =>
      simp only [step, upd]
      by_cases hx : x = j
      · subst hx; simp only [if_true]; exact List.mem_cons_of_mem _ ho'
      · simp only [if_neg hx]; exact ho'
    | exchange j i order =>
      simp only [step, upd]
      by_cases hx : x = j
      · subst hx; simp only [if_true]; exact List.mem_append_right _ ho'
      · simp only [if_neg hx]; exact ho'
  unfold Knows at *
  obtain ⟨y, hy, hle⟩ := hk
  rw [(hg x).1.view] at hy
  obtain ⟨o0, ho0, hk0, hr0⟩ := lww_mem _ _ _ hy
  obtain ⟨y', hy', hle'⟩ := lww_ge _ o.key o0 (hgrow o0 ho0) hk0
  exact ⟨y', by rw [(hg' x).1.view]; exact hy', by omega⟩

theorem knows_run (F : Nat) (H : List Op) (hh : Hist F H) (evs : List Ev) (c : Cl) (hg : Good F H c)
    (hv : ValidRun F H c evs) (x : Nat) (o : Op) (hk : Knows (c x) o) : Knows (run F c evs x) o := by
  induction evs generalizing c with
  | nil => exact hk
  | cons e es ih =>
    exact ih _ (good_step F H hh c e hg hv.1) hv.2 (knows_step F H hh c e hg hv.1 x o hk)

/-- **exchange_transfers**: after node `j` completed an exchange against node `i`, `j` knows
everything `i` knew at that moment. -/
theorem exchange_transfers (F : Nat) (H : List Op) (hh : Hist F H) (c : Cl) (j i : Nat)
    (order : List SrcOp) (hg : Good F H c) (hv : Valid H c (.exchange j i order)) (o : Op)
    (hk : Knows (c i) o) : Knows (step F c (.exchange j i order) j) o := by
  obtain ⟨ra, hA⟩ := hg j
  obtain ⟨rb, hB⟩ := hg i
  have hdom := exchange_dominates F hh.f4 H hh.good hh.window hh.distinct (c j).s (c i).s (c j).A (c i).A
    ra rb hA hB order hv.1 hv.2 o.key
  unfold Knows at *
  simp only [step, upd, if_true]
  rw [hdom]
  obtain ⟨y, hy, hle⟩ := hk
  rw [hy]
  cases view (c j).s o.key with
  | none => exact ⟨y, rfl, hle⟩
  | some z => exact ⟨max z y, rfl, by omega⟩

/-- In a history that contains the exchange `j ← i` somewhere, followed by anything: at the end
`j` knows what `i` knew before the history started. -/
theorem learns_through_run (F : Nat) (H : List Op) (hh : Hist F H) (evs : List Ev) (c : Cl)
    (hg : Good F H c) (hv : ValidRun F H c evs) (j i : Nat) (order : List SrcOp)
    (hmem : Ev.exchange j i order ∈ evs) (o : Op) (hk : Knows (c i) o) : Knows (run F c evs j) o := by
  induction evs generalizing c with
  | nil => cases hmem
  | cons e es ih =>
    have hg1 := good_step F H hh c e hg hv.1
    rcases List.mem_cons.1 hmem with rfl | hrest
    · -- this is the exchange: j learns it now and keeps it
      have := exchange_transfers F H hh c j i order hg hv.1 o hk
      exact knows_run F H hh es _ hg1 hv.2 j o this
    · -- later: i keeps knowing it until then
      exact ih _ hg1 hv.2 hrest (knows_step F H hh c e hg hv.1 i o hk)

/-- **convergence**: let `pre` be any admissible history after which every operation of `H` is
known at some node (its origin applied it when it was issued), and `post` any admissible history
— late deliveries, duplicates, further exchanges, in any order — in which every ordered pair of
distinct nodes completes at least one exchange.  Then every one of the `n` nodes holds, for every
key, exactly the last-writer-wins record of the whole history: live with the stamp of the
greatest-stamp operation if that is a put, tombstoned if it is a delete. -/
theorem convergence (F n : Nat) (H : List Op) (hh : Hist F H) (c0 : Cl) (hg0 : Good F H c0)
    (pre post : List Ev) (hvpre : ValidRun F H c0 pre) (hvpost : ValidRun F H (run F c0 pre) post)
    (origin : Op → Nat)
    (horigin : ∀ o ∈ H, origin o < n ∧ Knows (run F c0 pre (origin o)) o)
    (hpairs : ∀ j i, j < n → i < n → j ≠ i → ∃ order, Ev.exchange j i order ∈ post)
    (j : Nat) (hj : j < n) (k : Nat) :
    view (run F (run F c0 pre) post j).s k = lww H k ∧
    ∀ j' < n, OrSwot.get (run F (run F c0 pre) post j).s k = OrSwot.get (run F (run F c0 pre) post j').s k := by
  have hg1 := good_run F H hh pre c0 hg0 hvpre
  have hg2 := good_run F H hh post _ hg1 hvpost
  -- every node knows every operation at the end
  have hall : ∀ x < n, ∀ o ∈ H, Knows (run F (run F c0 pre) post x) o := by
    intro x hx o ho
    obtain ⟨hon, hko⟩ := horigin o ho
    by_cases he : x = origin o
    · rw [he]; exact knows_run F H hh post _ hg1 hvpost _ o hko
    · obtain ⟨order, hmem⟩ := hpairs x (origin o) hx hon he
      exact learns_through_run F H hh post _ hg1 hvpost x (origin o) order hmem o hko
  have hview : ∀ x < n, view (run F (run F c0 pre) post x).s k = lww H k := by
    intro x hx
    obtain ⟨rep, hsub⟩ := hg2 x
    rw [rep.view]
    -- both are maxima over key k: compare through membership
    cases h1 : lww H k with
    | none =>
      cases h2 : lww (run F (run F c0 pre) post x).A k with
      | none => rfl
      | some r =>
        obtain ⟨o, ho, hk, _⟩ := lww_mem _ k r h2
        obtain ⟨y, hy, _⟩ := lww_ge H k o (hsub o ho) hk
        rw [h1] at hy; cases hy
    | some r =>
      obtain ⟨w, hw, hkw, hrw⟩ := lww_mem H k r h1
      obtain ⟨y, hy, hle⟩ := hall x hx w hw
      rw [hkw, rep.view] at hy
      obtain ⟨o2, ho2, hk2, hr2⟩ := lww_mem _ k y hy
      obtain ⟨z, hz, hle2⟩ := lww_ge H k o2 (hsub o2 ho2) hk2
      rw [h1] at hz; injection hz with hz
      rw [hy]; congr 1; omega
  refine ⟨hview j hj, ?_⟩
  intro j' hj'
  exact C03.get_of_view _ _ k ((hview j hj).trans (hview j' hj').symm)

/-- The empty cluster is good. -/
theorem good_empty (F nsrc : Nat) (H : List Op) : Good F H (fun _ => ⟨OrSwot.empty nsrc, []⟩) :=
  fun _ => ⟨rep_empty F nsrc, fun _ h => by cases h⟩

/-! ### Witnesses -/

/-- Defect D1 at cluster level (pinned acceptance rule): the origin does put k1, put k2, delete
k1; a fresh node repairs from it with the removal half first: the delete raises the per-source
maximum above the put of k2, which is then refused — k2 never enters its set, and the next
difference lists it again, for ever. -/
theorem legacy_counterexample :
    let t1 := pack 5000000 0 1
    let t2 := pack 5000004 0 1
    let t3 := pack 5000008 0 1
    let o := (deleteWithSourceLegacy 3600000 (insertWithSourceLegacy 3600000
      (insertWithSourceLegacy 3600000 (OrSwot.empty 2) 0 1 t1).1 0 2 t2).1 0 1 t3).1
    let j0 := OrSwot.empty 2
    let j1 := (deleteWithSourceLegacy 3600000 j0 1 1 t3).1
    let j2 := (insertWithSourceLegacy 3600000 j1 1 2 t2).1
    diff j0 o = ([(2, t2)], [(1, t3)]) ∧ OrSwot.get j2 2 = none ∧ diff j2 o = ([(2, t2)], []) ∧
    -- the current rule converges
    OrSwot.get (insertWithSource 3600000 (deleteWithSource 3600000 j0 1 1 t3).1 1 2 t2).1 2 = some t2 := by
  decide

end Datacake.C01
