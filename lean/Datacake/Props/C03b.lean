/-
C03 / C02 (support) — every state the public API of `OrSWotSet` can build keeps its safe cut-offs
exact, merges included.

`Built F s`: `s` was produced from the empty set by `insert/delete_with_source` (valid stamps),
`purge_old_deletes` and `merge` (of two such states) in ANY order and nesting.  For every such
state the cut-off of each origin is exactly the forgiveness of the minimum over the sources of the
newest stamp seen from it (`SafeExact`) — so what `will_apply` answers at the start of a request
stays true while a batch sorted by stamp is applied (`built_accepts_sorted`): a merged replica
never half-applies a sorted batch that `will_apply` admitted.

Model: `Model/Orswot.lean`; lemmas: `Lemmas/SafeExact.lean`, `Lemmas/SafeExactMerge.lean`.
-/
import Datacake.Lemmas.SafeExactMerge

namespace Datacake.C03b
open Datacake.OrSwot Datacake.Lww Datacake.Ts

inductive Built (F : Nat) : OrSwot → Prop where
  | empty (n : Nat) : Built F (OrSwot.empty n)
  | apply (s : OrSwot) (o : SrcOp) : Built F s → ValidStamp o.op.ts → Built F (applyOp F s o).1
  | purge (s : OrSwot) : Built F s → Built F (purgeOldDeletes s).1
  | merge (a b : OrSwot) : Built F a → Built F b → Built F (OrSwot.merge F a b)

theorem goodMaxs_empty (n : Nat) : GoodMaxs (OrSwot.empty n) := by
  intro m hm X v hv
  simp only [OrSwot.empty] at hm
  rw [(List.mem_replicate.1 hm).2] at hv
  cases hv

/-- **built_safeExact**: the invariant holds of every state the API can build. -/
theorem built_safeExact (F : Nat) (s : OrSwot) (h : Built F s) : SafeExact F s ∧ GoodMaxs s := by
  induction h with
  | empty n => exact ⟨safeExact_empty F n, goodMaxs_empty n⟩
  | apply s o _ hv ih => exact safeExact_applyOp F s o ih.1 ih.2 hv
  | purge s _ ih => exact ⟨safeExact_purge F s ih.1, goodMaxs_congr s _ rfl ih.2⟩
  | merge a b _ _ iha ihb => exact ⟨safeExact_merge F a b iha.1, goodMaxs_merge F a b iha.2 ihb.2⟩

/-- **built_accepts_sorted**: on any such state, a batch in ascending stamp order whose elements
all pass the cut-off check of the state the request started from is accepted element by element
(never refused half-way because an earlier element of the same batch moved the cut-off). -/
theorem built_accepts_sorted (F : Nat) (s : OrSwot) (h : Built F s) (ops : List SrcOp)
    (hsorted : ops.Pairwise (fun a b => a.op.ts ≤ b.op.ts))
    (hall : ∀ o ∈ ops, ValidStamp o.op.ts ∧ isBefore s.safe o.op.ts = false) : C04.Accepted F s ops :=
  accepted_sorted F ops s (built_safeExact F s h).1 (built_safeExact F s h).2 hsorted hall

/-- Non-vacuity: a merge of two one-insert replicas is `Built`. -/
example : Built 3600000
    (OrSwot.merge 3600000 (applyOp 3600000 (OrSwot.empty 2) ⟨0, ⟨1, pack 5000 0 1, false⟩⟩).1
      (applyOp 3600000 (OrSwot.empty 2) ⟨1, ⟨2, pack 6000 0 2, false⟩⟩).1) := by
  refine Built.merge _ _ (Built.apply _ _ (Built.empty 2) ?_) (Built.apply _ _ (Built.empty 2) ?_) <;>
    (unfold ValidStamp; decide)

end Datacake.C03b
