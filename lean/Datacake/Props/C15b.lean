/-
C15, EachQuorum — every data centre contributes a majority of its own.

`Props/C15.lean: select_sound` proves for EachQuorum that the selection is duplicate-free, excludes
the local node and lies in the layout; its `required` says nothing about HOW MANY nodes (the level
is "per data centre").  This file states and proves that part: from every data centre exactly
`len / 2 + 1` nodes are selected — `len / 2` from the local one, where the issuing node itself is
the missing member — so that in EVERY data centre the holders (the selected nodes, plus the issuer
in its own data centre) are a strict majority of that data centre.

Hypotheses: a well-formed layout (distinct names, every address once), no empty data centre, the
local node listed in its own data centre only — what `watch_membership_changes` builds from a
membership snapshot.
-/
import Datacake.Props.C15

namespace Datacake.C15b
open Datacake.Selector Datacake.C15

/-- What EachQuorum takes from data centre `p`. -/
def eachMajority (localDc : Nat) (p : Nat × Cycler) : Nat :=
  if p.1 = localDc then p.2.nodes.length / 2 else p.2.nodes.length / 2 + 1

/-- The part of the selection that comes from data centre `p`. -/
def part (local_ localDc : Nat) (p : Nat × Cycler) : List Nat :=
  (p.2.nodes.filter (· ≠ local_)).take (eachMajority localDc p)

theorem eachQuorum_eq (local_ localDc total : Nat) (dcs : Dcs) (choice : List Nat) :
    (selectNodes local_ localDc total dcs .eachQuorum choice).1 = .ok (dcs.map (part local_ localDc)).flatten := by
  simp only [selectNodes]
  rfl

theorem nodup_of_mem (dcs : Dcs) (wf : WF dcs) (p : Nat × Cycler) (hp : p ∈ dcs) : p.2.nodes.Nodup := by
  have hsub : p.2.nodes.Sublist (allNodes dcs) := by
    unfold allNodes
    exact List.sublist_flatten_of_mem (List.mem_map.2 ⟨p, hp, rfl⟩)
  exact List.Nodup.sublist hsub wf.addrs

theorem filter_all (l : List Nat) (a : Nat) (h : a ∉ l) : l.filter (· ≠ a) = l := by
  apply List.filter_eq_self.2
  intro x hx
  simp only [ne_eq, decide_not, Bool.not_eq_eq_eq_not, Bool.not_true, decide_eq_false_iff_not]
  intro e; exact h (e ▸ hx)

/-- **each_quorum_sound**: per data centre, exactly the majority the level asks for is selected, all of
them members of that data centre other than the local node. -/
theorem each_quorum_sound (local_ localDc : Nat) (dcs : Dcs) (wf : WF dcs)
    (hne : ∀ p ∈ dcs, p.2.nodes ≠ [])
    (hloc : ∀ p ∈ dcs, local_ ∈ p.2.nodes → p.1 = localDc)
    (p : Nat × Cycler) (hp : p ∈ dcs) :
    (part local_ localDc p).length = eachMajority localDc p ∧
    (part local_ localDc p).Sublist p.2.nodes ∧ local_ ∉ part local_ localDc p := by
  have hnd := nodup_of_mem dcs wf p hp
  have hpos : 0 < p.2.nodes.length := List.length_pos_iff.2 (hne p hp)
  refine ⟨?_, (List.take_sublist _ _).trans List.filter_sublist, ?_⟩
  · unfold part
    rw [List.length_take]
    apply Nat.min_eq_left
    unfold eachMajority
    by_cases hl : p.1 = localDc
    · rw [if_pos hl]
      have := filter_ne_length p.2.nodes local_ hnd
      omega
    · rw [if_neg hl]
      have hnot : local_ ∉ p.2.nodes := fun h => hl (hloc p hp h)
      rw [filter_all _ _ hnot]
      omega
  · intro h
    have := List.mem_of_mem_take h
    simp at this

/-- **each_quorum_majority**: in every data centre the nodes that hold an acknowledged write — the
selected ones, and the issuer in its own data centre — are a strict majority of that data centre. -/
theorem each_quorum_majority (local_ localDc : Nat) (dcs : Dcs) (wf : WF dcs)
    (hne : ∀ p ∈ dcs, p.2.nodes ≠ [])
    (hloc : ∀ p ∈ dcs, local_ ∈ p.2.nodes → p.1 = localDc)
    (p : Nat × Cycler) (hp : p ∈ dcs) :
    2 * ((part local_ localDc p).length + (if p.1 = localDc then 1 else 0)) > p.2.nodes.length := by
  rw [(each_quorum_sound local_ localDc dcs wf hne hloc p hp).1]
  unfold eachMajority
  split <;> omega

/-- The whole-cluster levels, for comparison: Quorum selects `total / 2` others, with the issuer a
strict majority of `total`; LocalQuorum the same within the local data centre. -/
theorem quorum_majority (total : Nat) : 2 * (total / 2 + 1) > total := by omega

/-- Non-vacuity: two data centres (the local node 1 in dc 0), EachQuorum takes 1 of {2,3} and 2 of {4,5,6}. -/
example :
    (selectNodes 1 0 6 [(0, ⟨0, [1, 2, 3]⟩), (1, ⟨0, [4, 5, 6]⟩)] .eachQuorum []).1 = .ok [2, 4, 5] := by decide

end Datacake.C15b
