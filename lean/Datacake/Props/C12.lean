/-
C12 — RPC delivers exactly the bytes sent; damaged or short frames are rejected.

Model: `Model/Rpc.lean` (`crc32`, `mkFrame` = `to_view_bytes`, `checkFrame` = `DataView::using`).
The `rkyv` archive itself is a codec pair `enc`/`dec` with `dec (enc v) = some v` (trusted base);
everything about the frame — checksum, trailer, length guard — is proved here for every body of
every length and every bit position.
-/
import Datacake.Lemmas.Crc

namespace Datacake.C12
open Datacake.Rpc

def Bytes (l : List Nat) : Prop := ∀ b ∈ l, b < 256

theorem crc32_lt (b : List Nat) : crc32 b < 4294967296 := by
  unfold crc32; exact (BitVec.isLt _)

theorem fromLe32_le32 (c : Nat) (h : c < 4294967296) : fromLe32 (le32 c) = c := by
  simp only [fromLe32, le32]; omega

theorem check_append (fixed : Nat) (b t : List Nat) (ht : t.length = 4) :
    checkFrame fixed (b ++ t) =
      if fromLe32 t ≠ crc32 b then none else if b.length < fixed then none else some b := by
  unfold checkFrame
  have hl : (b ++ t).length - 4 = b.length := by simp [ht]
  rw [if_neg (by simp [ht])]
  simp only [hl, List.take_left', List.drop_left']

/-- **frame_roundtrip**: what `to_view_bytes` produced is accepted and yields exactly the body. -/
theorem frame_roundtrip (fixed : Nat) (b : List Nat) (h : fixed ≤ b.length) :
    checkFrame fixed (mkFrame b) = some b := by
  unfold mkFrame
  rw [check_append fixed b _ (by simp [le32]), fromLe32_le32 _ (crc32_lt b)]
  simp; omega

/-- With the codec assumption: the receiver decodes exactly the value that was sent (request and
reply direction alike; a handler error travels as a `Status` value through the same frame). -/
theorem value_roundtrip {α : Type} (enc : α → List Nat) (dec : List Nat → Option α)
    (hcodec : ∀ v, dec (enc v) = some v) (fixed : Nat) (v : α) (hfix : fixed ≤ (enc v).length) :
    (checkFrame fixed (mkFrame (enc v))).bind dec = some v := by
  rw [frame_roundtrip fixed _ hfix]; exact hcodec v

/-- **short_frame_rejected**: a frame shorter than the fixed-size part plus the trailer is refused —
whatever its bytes are, in particular every truncation of a valid frame below that size. -/
theorem short_frame_rejected (fixed : Nat) (frame : List Nat) (h : frame.length < fixed + 4) :
    checkFrame fixed frame = none := by
  unfold checkFrame
  split
  · rfl
  · simp only [List.length_take]
    split
    · rfl
    · rw [if_pos (by omega)]

/-- A refused frame yields no body: the handler is never invoked on it (`try_handle` returns the
`Status::invalid()` before `on_message`). -/
theorem no_handler_on_invalid {α : Type} (dec : List Nat → Option α) (fixed : Nat)
    (frame : List Nat) (h : checkFrame fixed frame = none) : (checkFrame fixed frame).bind dec = none := by
  rw [h]; rfl

/-! ### the position of the root (D35) -/

/-- Whatever the plain check refuses, the check with the alignment guard refuses too: every theorem
of this file that ends in `checkFrame .. = none` holds for `checkFrameA`. -/
theorem checkA_none_of_check_none (fixed align : Nat) (frame : List Nat) (h : checkFrame fixed frame = none) :
    checkFrameA fixed align frame = none := by
  unfold checkFrameA; rw [h]

/-- What the guard adds: a frame with a matching checksum whose root would sit at a position that is
not aligned for it is refused (the pinned check accepted it and formed the reference). -/
theorem misplaced_root_rejected (fixed align : Nat) (b : List Nat) (hpos : (b.length - fixed) % align ≠ 0) :
    checkFrameA fixed align (mkFrame b) = none := by
  unfold checkFrameA
  cases h : checkFrame fixed (mkFrame b) with
  | none => rfl
  | some body =>
    have hb : body = b := by
      unfold mkFrame at h
      rw [check_append fixed b _ (by simp [le32]), fromLe32_le32 _ (crc32_lt b)] at h
      simp only [ne_eq, not_true_eq_false, if_false] at h
      split at h
      · cases h
      · injection h with h; exact h.symm
    simp only [hb]
    rw [if_neg hpos]

/-- **frame_roundtrip** with the guard: what `to_view_bytes` produced - the serializer aligns the
root, `hpos` - is accepted and yields exactly the body. -/
theorem frame_roundtripA (fixed align : Nat) (b : List Nat) (h : fixed ≤ b.length)
    (hpos : (b.length - fixed) % align = 0) : checkFrameA fixed align (mkFrame b) = some b := by
  unfold checkFrameA
  rw [frame_roundtrip fixed b h]
  simp only
  rw [if_pos hpos]

/-- The guard never lets through what the plain check refused, and yields the same body. -/
theorem checkA_some (fixed align : Nat) (frame body : List Nat) (h : checkFrameA fixed align frame = some body) :
    checkFrame fixed frame = some body ∧ (body.length - fixed) % align = 0 := by
  unfold checkFrameA at h
  cases hc : checkFrame fixed frame with
  | none => rw [hc] at h; cases h
  | some b' =>
    rw [hc] at h
    simp only at h
    split at h
    · rename_i hp; injection h with h; subst h; exact ⟨rfl, hp⟩
    · cases h

theorem short_frame_rejectedA (fixed align : Nat) (frame : List Nat) (h : frame.length < fixed + 4) :
    checkFrameA fixed align frame = none :=
  checkA_none_of_check_none fixed align frame (short_frame_rejected fixed frame h)

/-- The witness of D35: an 8-byte root with one stray byte in front of it, checksum recomputed. -/
theorem legacy_misplaced_root :
    (checkFrame 8 (mkFrame [9, 1, 2, 3, 4, 5, 6, 7, 8])).isSome = true ∧
    checkFrameA 8 8 (mkFrame [9, 1, 2, 3, 4, 5, 6, 7, 8]) = none := by
  refine ⟨?_, misplaced_root_rejected 8 8 _ (by decide)⟩
  rw [frame_roundtrip 8 _ (by decide)]; rfl

/-! ### single-bit corruption -/

theorem byteBits_flip (x i : Nat) (hi : i < 8) :
    ∃ pre post, byteBits x = pre ++ x.testBit i :: post ∧
      byteBits (x ^^^ (1 <<< i)) = pre ++ (!x.testBit i) :: post := by
  have hcases : i = 0 ∨ i = 1 ∨ i = 2 ∨ i = 3 ∨ i = 4 ∨ i = 5 ∨ i = 6 ∨ i = 7 := by omega
  have hb : ∀ j, (x ^^^ (1 <<< i)).testBit j = (x.testBit j ^^ decide (i = j)) := by
    intro j
    rw [Nat.testBit_xor, Nat.one_shiftLeft, Nat.testBit_two_pow]
  simp only [byteBits, List.range, List.range.loop, List.map, hb]
  rcases hcases with rfl | rfl | rfl | rfl | rfl | rfl | rfl | rfl
  · exact ⟨[], _, rfl, by simp⟩
  · exact ⟨[_], _, rfl, by simp⟩
  · exact ⟨[_, _], _, rfl, by simp⟩
  · exact ⟨[_, _, _], _, rfl, by simp⟩
  · exact ⟨[_, _, _, _], _, rfl, by simp⟩
  · exact ⟨[_, _, _, _, _], _, rfl, by simp⟩
  · exact ⟨[_, _, _, _, _, _], _, rfl, by simp⟩
  · exact ⟨[_, _, _, _, _, _, _], _, rfl, by simp⟩

theorem bitsOf_flip (b : List Nat) (j i : Nat) (hj : j < b.length) (hi : i < 8) :
    ∃ pre post bit, bitsOf b = pre ++ bit :: post ∧ bitsOf (flipBit b j i) = pre ++ (!bit) :: post := by
  unfold flipBit
  have hsplit : b = b.take j ++ b.drop j := (List.take_append_drop j b).symm
  cases hd : b.drop j with
  | nil =>
    have : (b.drop j).length = b.length - j := List.length_drop
    rw [hd] at this; simp at this; omega
  | cons x rest =>
    simp only
    obtain ⟨p, q, h1, h2⟩ := byteBits_flip x i hi
    refine ⟨bitsOf (b.take j) ++ p, q ++ bitsOf rest, x.testBit i, ?_, ?_⟩
    · conv => lhs; rw [hsplit, hd]
      simp only [bitsOf, List.flatMap_append, List.flatMap_cons, h1]
      simp
    · simp only [bitsOf, List.flatMap_append, List.flatMap_cons, h2]
      simp

theorem crc32_flip_ne (b : List Nat) (j i : Nat) (hj : j < b.length) (hi : i < 8) :
    crc32 (flipBit b j i) ≠ crc32 b := by
  obtain ⟨pre, post, bit, h1, h2⟩ := bitsOf_flip b j i hj hi
  unfold crc32
  rw [h1, h2]
  intro h
  have h3 := BitVec.eq_of_toNat_eq h
  have h4 := congrArg (fun v => v ^^^ 0xFFFFFFFF#32) h3
  simp only [BitVec.xor_assoc, BitVec.xor_self, BitVec.xor_zero] at h4
  exact crcRaw_flip_ne _ pre post bit h4

theorem xor_bit_ne (x i : Nat) : x ^^^ (1 <<< i) ≠ x := by
  intro h
  have := congrArg (fun v => v.testBit i) h
  simp [Nat.testBit_xor, Nat.one_shiftLeft, Nat.testBit_two_pow] at this

theorem xor_bit_lt (x i : Nat) (hx : x < 256) (hi : i < 8) : x ^^^ (1 <<< i) < 256 := by
  have h1 : 1 <<< i < 2 ^ 8 := by
    rw [Nat.one_shiftLeft]; exact Nat.pow_lt_pow_right (by omega) hi
  exact Nat.xor_lt_two_pow (n := 8) hx h1

/-- **single_bit_flip_rejected**: for every body (of any length), every byte position of the frame —
body or checksum trailer — and every bit of that byte, the corrupted frame is refused. -/
theorem single_bit_flip_rejected (fixed : Nat) (b : List Nat) (j i : Nat)
    (hj : j < (mkFrame b).length) (hi : i < 8) :
    checkFrame fixed (flipBit (mkFrame b) j i) = none := by
  unfold mkFrame at hj ⊢
  have hc := crc32_lt b
  by_cases hjb : j < b.length
  · -- the flipped bit is in the body
    have hflip : flipBit (b ++ le32 (crc32 b)) j i = flipBit b j i ++ le32 (crc32 b) := by
      unfold flipBit
      rw [List.drop_append_of_le_length (by omega), List.take_append_of_le_length (by omega)]
      cases hd : b.drop j with
      | nil =>
        have : (b.drop j).length = b.length - j := List.length_drop
        rw [hd] at this; simp at this; omega
      | cons x rest => simp
    rw [hflip, check_append _ _ _ (by simp [le32]), fromLe32_le32 _ hc]
    rw [if_pos (fun h => crc32_flip_ne b j i hjb hi h.symm)]
  · -- the flipped bit is in the trailer
    have hlen : (b ++ le32 (crc32 b)).length = b.length + 4 := by simp [le32]
    have hm : j - b.length < 4 := by omega
    have hflip : flipBit (b ++ le32 (crc32 b)) j i = b ++ flipBit (le32 (crc32 b)) (j - b.length) i := by
      unfold flipBit
      have e1 : (b ++ le32 (crc32 b)).drop j = (le32 (crc32 b)).drop (j - b.length) := by
        rw [List.drop_append]
        have : b.drop j = [] := List.drop_eq_nil_of_le (by omega)
        rw [this]; rfl
      have e2 : (b ++ le32 (crc32 b)).take j = b ++ (le32 (crc32 b)).take (j - b.length) := by
        rw [List.take_append]
        have : b.take j = b := List.take_of_length_le (by omega)
        rw [this]
      rw [e1, e2]
      cases (le32 (crc32 b)).drop (j - b.length) with
      | nil => rfl
      | cons x rest => simp
    rw [hflip]
    generalize hcv : crc32 b = c at *
    have hne := fun x => xor_bit_ne x i
    have hlt := fun x (hx : x < 256) => xor_bit_lt x i hx hi
    have hcases : j - b.length = 0 ∨ j - b.length = 1 ∨ j - b.length = 2 ∨ j - b.length = 3 := by omega
    have hb0 : c % 256 < 256 := by omega
    have hb1 : c / 256 % 256 < 256 := by omega
    have hb2 : c / 65536 % 256 < 256 := by omega
    have hb3 : c / 16777216 % 256 < 256 := by omega
    rcases hcases with h | h | h | h <;> rw [h] <;>
      simp only [le32, flipBit, List.drop, List.take, List.nil_append, List.cons_append] <;>
      rw [check_append _ _ _ rfl, ← hcv, if_pos] <;>
      simp only [fromLe32, hcv]
    · have := hne (c % 256); have := hlt _ hb0; omega
    · have := hne (c / 256 % 256); have := hlt _ hb1; omega
    · have := hne (c / 65536 % 256); have := hlt _ hb2; omega
    · have := hne (c / 16777216 % 256); have := hlt _ hb3; omega

/-! ### Witnesses -/

theorem single_bit_flip_rejectedA (fixed align : Nat) (b : List Nat) (j i : Nat)
    (hj : j < (mkFrame b).length) (hi : i < 8) :
    checkFrameA fixed align (flipBit (mkFrame b) j i) = none :=
  checkA_none_of_check_none fixed align _ (single_bit_flip_rejected fixed b j i hj hi)

/-- Defect D3 of the pinned tree: the four-byte frame `[0,0,0,0]` carries the correct CRC of the
empty body (`crc32 [] = 0`), so the pinned check accepts it for *every* message type and hands an
empty slice to `archived_root` (subtraction overflow / out-of-bounds read).  The current check
refuses it for every type with a non-empty root. -/
theorem legacy_zero_frame (fixed : Nat) (h : 0 < fixed) :
    checkFrameLegacy fixed [0, 0, 0, 0] = some [] ∧ checkFrame fixed [0, 0, 0, 0] = none := by
  have hc : crc32 [] = 0 := by
    simp [crc32, bitsOf, crcRaw]
  constructor
  · unfold checkFrameLegacy; simp [fromLe32, hc]
  · exact short_frame_rejected fixed _ (by simp; omega)

-- Non-vacuity: the CRC model computes the standard check value of "123456789".
set_option maxRecDepth 100000 in
example : crc32 [49, 50, 51, 52, 53, 54, 55, 56, 57] = 0xCBF43926 := by decide

end Datacake.C12
