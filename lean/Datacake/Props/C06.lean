/-
C06 — A successful write has reached the replicas its consistency level promises.

Model: `Cluster.applyAt` (the handler a replica runs for a replicated put / delete, with a
possible storage fault) and `handle_consistency_distribution` (count the acknowledgements; `Ok`
iff all selected replicas acknowledged).  Which replicas a level selects — distinct, live, not the
issuer, at least as many as the level requires — is `C15.select_sound`.
-/
import Datacake.Model.Cluster
import Datacake.Props.C02

namespace Datacake.C06
open Datacake.Lww Datacake.OrSwot Datacake.Storage Datacake.Keyspace Datacake.Cluster

/-- "Node `n` holds the mutation or a newer record for its id": its store's record of the id is at
least the mutation's. -/
def Holds (n : Node) (id rank : Nat) : Prop := AtLeast (storeView n.store id) rank

/-- A replica that acknowledges a replicated `put` holds the document or a record of that id with
a stamp at least as new: either the handler wrote it, or `will_apply` refused it because the
replica's record is already newer.  `hfresh`: the write is not older than the replica's purge
cut-off for its origin — true of every fresh write, whose stamp exceeds everything its origin
issued before (C09). -/
theorem ack_put_holds (F : Nat) (n : Node) (src : Nat) (d : Doc) (fail : Bool) (h : Agree n)
    (hfresh : isBefore n.set.safe d.2.1 = false)
    (hack : (onSet F n src d fail).2 = .ok) :
    ∃ r, storeView (onSet F n src d fail).1.store d.1 = some r ∧ d.2.1 ≤ r / 2 := by
  unfold onSet at *
  cases hw : willApply n.set d.1 d.2.1 with
  | true =>
    rw [hw] at hack
    simp only [Bool.not_true, Bool.false_eq_true, if_false] at hack ⊢
    cases fail with
    | true => simp at hack
    | false =>
      simp only [Bool.false_eq_true, if_false]
      rw [storeView_put]; simp only [if_true]
      exact ⟨_, rfl, by unfold liveRec; omega⟩
  | false =>
    simp only [Bool.not_false, if_true]
    unfold willApply at hw
    simp only [hfresh, Bool.false_eq_true, if_false] at hw
    rw [← h.same d.1, view_of_gets]
    cases he : Map.get n.set.entries d.1 with
    | some e =>
      rw [he] at hw; simp at hw
      exact ⟨_, rfl, by unfold liveRec; omega⟩
    | none =>
      rw [he] at hw
      cases hd : Map.get n.set.dead d.1 with
      | some dd =>
        rw [hd] at hw; simp at hw
        exact ⟨_, rfl, by unfold deadRec; omega⟩
      | none => rw [hd] at hw; simp at hw

/-- The same for a replicated delete. -/
theorem ack_del_holds (F : Nat) (n : Node) (src id ts : Nat) (fail : Bool) (h : Agree n)
    (hfresh : isBefore n.set.safe ts = false)
    (hack : (onDel F n src id ts fail).2 = .ok) :
    ∃ r, storeView (onDel F n src id ts fail).1.store id = some r ∧ ts ≤ r / 2 := by
  unfold onDel at *
  cases hw : willApply n.set id ts with
  | true =>
    rw [hw] at hack
    simp only [Bool.not_true, Bool.false_eq_true, if_false] at hack ⊢
    cases fail with
    | true => simp at hack
    | false =>
      simp only [Bool.false_eq_true, if_false]
      rw [storeView_tomb]; simp only [if_true]
      exact ⟨_, rfl, by unfold deadRec; omega⟩
  | false =>
    simp only [Bool.not_false, if_true]
    unfold willApply at hw
    simp only [hfresh, Bool.false_eq_true, if_false] at hw
    rw [← h.same id, view_of_gets]
    cases he : Map.get n.set.entries id with
    | some e =>
      rw [he] at hw; simp at hw
      exact ⟨_, rfl, by unfold liveRec; omega⟩
    | none =>
      rw [he] at hw
      cases hd : Map.get n.set.dead id with
      | some dd =>
        rw [hd] at hw; simp at hw
        exact ⟨_, rfl, by unfold deadRec; omega⟩
      | none => rw [hd] at hw; simp at hw

/-- **ok_means_all_acked / failure_reports_count**: the call returns `Ok` exactly when every
selected replica acknowledged; otherwise the error carries exactly the number of acknowledgements
and the number of selected replicas. -/
theorem distribute_spec (acks : List Bool) :
    (distributeAcks acks = .ok () ↔ ∀ a ∈ acks, a = true) ∧
    (∀ r q, distributeAcks acks = .error (r, q) → r = (acks.filter id).length ∧ q = acks.length ∧ r < q) := by
  unfold distributeAcks
  constructor
  · constructor
    · intro h
      split at h
      · rename_i hl
        intro a ha
        cases a with
        | true => rfl
        | false =>
          exfalso
          have hlt : (acks.filter id).length < acks.length := by
            have hsub : (acks.filter id).Sublist acks := List.filter_sublist
            rcases Nat.lt_or_ge (acks.filter id).length acks.length with hlt | hge
            · exact hlt
            · have := hsub.eq_of_length_le hge
              have hm : false ∈ acks.filter id := by rw [this]; exact ha
              simp at hm
          omega
      · cases h
    · intro h
      have : acks.filter id = acks := List.filter_eq_self.2 (fun a ha => by simp [h a ha])
      rw [this]; simp
  · intro r q h
    split at h
    · cases h
    · rename_i hne
      injection h with h; injection h with h1 h2
      have hle : (acks.filter id).length ≤ acks.length := List.length_filter_le _ _
      exact ⟨h1.symm, h2.symm, by omega⟩

/-- **ok_means_stored**: put the pieces together for a `put` at level `L`: if the issuer's local
handler returned `Ok` and the distribution over the selected replicas returned `Ok`, then the issuer
and every selected replica hold the document or a newer record of that id. -/
theorem ok_means_stored (F : Nat) (issuer : Node) (replicas : List Node) (d : Doc)
    (fails : List Bool) (hlen : fails.length = replicas.length)
    (hagree : Agree issuer ∧ ∀ n ∈ replicas, Agree n)
    (hfresh : isBefore issuer.set.safe d.2.1 = false ∧ ∀ n ∈ replicas, isBefore n.set.safe d.2.1 = false)
    (hlocal : (onSet F issuer 0 d false).2 = .ok)
    (hdist : distributeAcks ((replicas.zip fails).map (fun p => decide ((onSet F p.1 0 d p.2).2 = .ok))) = .ok ()) :
    (∃ r, storeView (onSet F issuer 0 d false).1.store d.1 = some r ∧ d.2.1 ≤ r / 2) ∧
    ∀ p ∈ replicas.zip fails, ∃ r, storeView (onSet F p.1 0 d p.2).1.store d.1 = some r ∧ d.2.1 ≤ r / 2 := by
  refine ⟨ack_put_holds F issuer 0 d false hagree.1 hfresh.1 hlocal, ?_⟩
  intro p hp
  have hall := (distribute_spec _).1.1 hdist
  have hmem : decide ((onSet F p.1 0 d p.2).2 = .ok) ∈
      (replicas.zip fails).map (fun p => decide ((onSet F p.1 0 d p.2).2 = .ok)) :=
    List.mem_map.2 ⟨p, hp, rfl⟩
  have hok := hall _ hmem
  simp only [decide_eq_true_eq] at hok
  have hin : p.1 ∈ replicas := (List.of_mem_zip hp).1
  exact ack_put_holds F p.1 0 d p.2 (hagree.2 _ hin) (hfresh.2 _ hin) hok

/-- Whatever the replicas do, the local write stays in place (the distribution never touches the
issuer's node) — and it is queued for the batch broadcast (`task_service.mutation`, not modelled). -/
theorem failure_keeps_local (F : Nat) (issuer : Node) (d : Doc) (h : Agree issuer)
    (hw : willApply issuer.set d.1 d.2.1 = true) :
    storeView (onSet F issuer 0 d false).1.store d.1 = some (liveRec d.2.1) ∧
    Agree (onSet F issuer 0 d false).1 := by
  refine ⟨?_, C02.agree_onSet F issuer 0 d false h⟩
  unfold onSet
  simp only [hw, Bool.not_true, Bool.false_eq_true, if_false]
  rw [storeView_put]; simp

/-- `hfresh` holds for every fresh write: a stamp that is at least every stamp of its origin the
replica has applied (clocks issue strictly increasing stamps per origin: C09, C11) is never before
the replica's cut-off for that origin. -/
theorem fresh_not_before (F : Nat) (s : OrSwot) (S : Nat → Prop) (hv : VersInv F s S) (t : Nat)
    (hS : ∀ m, S m → m < 18446744073709551616 ∧ Ts.fractional m < 250 ∧ (Ts.node m = Ts.node t → m ≤ t)) :
    isBefore s.safe t = false := by
  unfold isBefore
  cases hg : Map.get s.safe (Ts.node t) with
  | none => rfl
  | some v =>
    simp only [decide_eq_false_iff_not]
    obtain ⟨m, hm1, hm2, hm3⟩ := hv.safe _ _ hg
    rw [hm3]
    rcases hm1 with hm1 | hm1
    · obtain ⟨h1, h2, h3⟩ := hS m hm1
      have := forgive_le F m h1 h2
      have := h3 hm2
      omega
    · have hn := Ts.node_lt t
      have hp : Ts.pack 0 0 (Ts.node t) = Ts.node t := by unfold Ts.pack Ts.durSecs Ts.durFrac; omega
      rw [hp] at hm1
      have hfl := forgive_le F m (by omega) (by rw [hm1]; unfold Ts.fractional; omega)
      have : Ts.node t ≤ t := by unfold Ts.node; omega
      omega

/-- `ack_put_holds` for a replica that represents what it applied and a write that is fresh for it. -/
theorem ack_put_holds_fresh (F : Nat) (n : Node) (A : List Op) (src : Nat) (d : Doc) (fail : Bool)
    (h : Agree n) (hr : Rep F n.set A)
    (hvalid : ∀ o ∈ A, o.ts < 18446744073709551616 ∧ Ts.fractional o.ts < 250)
    (hnew : ∀ o ∈ A, Ts.node o.ts = Ts.node d.2.1 → o.ts ≤ d.2.1)
    (hack : (onSet F n src d fail).2 = .ok) :
    ∃ r, storeView (onSet F n src d fail).1.store d.1 = some r ∧ d.2.1 ≤ r / 2 :=
  ack_put_holds F n src d fail h
    (fresh_not_before F n.set (Stamps A) hr.vers d.2.1 (by
      rintro m ⟨o, ho, rfl⟩
      exact ⟨(hvalid o ho).1, (hvalid o ho).2, hnew o ho⟩)) hack

/-- Non-vacuity: two replicas, one fails: the error says 1 of 2. -/
example : distributeAcks [true, false] = .error (1, 2) ∧ distributeAcks [true, true] = .ok () ∧
    distributeAcks [] = .ok () := ⟨rfl, rfl, rfl⟩

/-! ### Replicas that do not answer (D18) -/

/-- **distribute_replies**: whatever the selected replicas do before the deadline — acknowledge,
answer with an error, or stay silent — the call returns: `Ok` exactly when all of them
acknowledged, otherwise the consistency error with exactly the number that did. -/
theorem distribute_replies (rs : List Reply) :
    (distribute rs = .ok () ↔ ∀ r ∈ rs, r = .ack) ∧
    (∀ a q, distribute rs = .error (a, q) →
      a = (rs.filter (fun r => r == .ack)).length ∧ q = rs.length ∧ a < q) := by
  unfold distribute
  obtain ⟨h1, h2⟩ := distribute_spec (rs.map (fun r => r == .ack))
  constructor
  · rw [h1]
    constructor
    · intro h r hr
      have := h (r == .ack) (List.mem_map.2 ⟨r, hr, rfl⟩)
      simpa using this
    · intro h a ha
      obtain ⟨r, hr, rfl⟩ := List.mem_map.1 ha
      simp [h r hr]
  · intro a q h
    obtain ⟨ha, hq, hlt⟩ := h2 a q h
    refine ⟨?_, by simpa using hq, hlt⟩
    rw [ha, List.filter_map, List.length_map]
    rfl

/-- **silent_is_counted_out**: a replica that stays silent makes the call fail with the count of
the others' acknowledgements; it does not make it wait. -/
theorem silent_is_counted_out (rs : List Reply) (h : Reply.silent ∈ rs) :
    ∃ a, distribute rs = .error (a, rs.length) ∧ a = (rs.filter (fun r => r == .ack)).length ∧ a < rs.length := by
  cases hd : distribute rs with
  | ok u =>
    have := ((distribute_replies rs).1.1 hd) _ h
    cases this
  | error e =>
    obtain ⟨a, q⟩ := e
    obtain ⟨ha, hq, hlt⟩ := (distribute_replies rs).2 a q hd
    subst hq
    exact ⟨a, rfl, ha, hlt⟩

/-- The pinned loop agrees with the current one whenever every replica answers … -/
theorem legacy_agrees_when_all_answer (rs : List Reply) (h : Reply.silent ∉ rs) :
    distributeLegacy rs = some (distribute rs) := by
  unfold distributeLegacy
  have : rs.contains Reply.silent = false := by
    cases hc : rs.contains Reply.silent with
    | false => rfl
    | true => exact absurd (List.contains_iff_mem.1 hc) h
  rw [this]; rfl

/-- … and never returns when one does not (D18: the advertised timeout did not exist): one of two
replicas acknowledged, the other is silent — no consistency error, no `Ok`, nothing. -/
theorem legacy_blocks :
    distributeLegacy [.ack, .silent] = none ∧ distribute [.ack, .silent] = .error (1, 2) :=
  ⟨rfl, rfl⟩

end Datacake.C06
