/-
C01 / C02, the chain completed — along every run of the executable cluster model the invariants of
the refinement (`Props/C01d.lean`) are MAINTAINED, not assumed.

`xrun_refines` (C01d) assumes at every exchange that the peer's store agrees with its set.  Here that
is derived: every step of the cluster model acts on one node's keyspace through one `handle` call of
the single-node model of `Props/C02.lean` (`applyAt_ks`), which keeps `C02.Good` (set = store, exact
cut-offs; `good_handle`) for requests with valid stamps and distinct ids — and the stamps an exchange
handles are valid because they belong to operations the peer has applied (`repair_good`).

`xrun_inv` / `xrun_from_fresh`: from `n` fresh nodes, ANY sequence of requests and exchanges that act at
existing nodes with working storage yields sets that are those of an admissible abstract run, with
set = store on every node throughout.
-/
import Datacake.Props.C01d
import Datacake.Props.C02b

namespace Datacake.C01d
open Datacake.Lww Datacake.OrSwot Datacake.Keyspace Datacake.Storage Datacake.Cluster Datacake.C01 Datacake.C05

/-! ### The keyspace of a node after a step: one `handle` call of the single-node model (C02) -/

/-- The request of the single-node model (`Props/C02.lean`) that a cluster request is at the node
that handles it (storage working). -/
def reqOf (src : Nat) : Issued → C02.Req
  | .put d => .set src d false
  | .del id ts => .del src id ts false
  | .mput ds => .mset src ds none
  | .mdel ds => .mdel src ds none

theorem applyAt_ks (c : Cluster) (i src : Nat) (iss : Issued) (h : i < c.nodes.length)
    (hf : (getNode c i).failNext = false) (x : Nat) :
    (getNode (applyAt c i src iss).1 x).ks =
      if x = i then C02.handle Cluster.F (getNode c i).ks (reqOf src iss) else (getNode c x).ks := by
  unfold applyAt
  simp only []
  have hks : (getNode (touch c i) i).ks = (getNode c i).ks := touch_ks c i i
  have hfn : (getNode (touch c i) i).failNext = false := by rw [touch_failNext]; exact hf
  cases iss with
  | put d =>
    simp only [reqOf, C02.handle]
    rw [hks]
    by_cases hw : willApply (getNode c i).ks.set d.1 d.2.1 = true
    · simp only [hw, Bool.not_true, Bool.false_eq_true, if_false]
      have hout : (onSet Cluster.F (getNode c i).ks src d false).2 = .ok := by simp [onSet, hw]
      rw [hfn]
      simp only [hout, beq_self_eq_true, if_true]
      rw [ks_written_bump c i x _ h]
    · simp only [hw, Bool.not_false, if_true]
      rw [touch_ks]
      have : (onSet Cluster.F (getNode c i).ks src d false).1 = (getNode c i).ks := by simp [onSet, hw]
      rw [this]
      split
      · rename_i hx; rw [hx]
      · rfl
  | del id ts =>
    simp only [reqOf, C02.handle]
    rw [hks]
    by_cases hw : willApply (getNode c i).ks.set id ts = true
    · simp only [hw, Bool.not_true, Bool.false_eq_true, if_false]
      have hout : (onDel Cluster.F (getNode c i).ks src id ts false).2 = .ok := by simp [onDel, hw]
      rw [hfn]
      simp only [hout, beq_self_eq_true, if_true]
      rw [ks_written_bump c i x _ h]
    · simp only [hw, Bool.not_false, if_true]
      rw [touch_ks]
      have : (onDel Cluster.F (getNode c i).ks src id ts false).1 = (getNode c i).ks := by simp [onDel, hw]
      rw [this]
      split
      · rename_i hx; rw [hx]
      · rfl
  | mput ds =>
    simp only [reqOf, C02.handle]
    rw [hks, hfn]
    simp only [Bool.false_eq_true, if_false]
    rw [ks_written_bump c i x _ h]
  | mdel ds =>
    simp only [reqOf, C02.handle]
    rw [hks, hfn]
    simp only [Bool.false_eq_true, if_false]
    rw [ks_written_bump c i x _ h]

/-- Every node's keyspace is `Good` in the sense of C02: set and store agree, cut-offs exact. -/
def NodesGood (c : Cluster) : Prop := ∀ x, C02.Good Cluster.F (getNode c x).ks

theorem applyAt_good (c : Cluster) (i src : Nat) (iss : Issued) (h : i < c.nodes.length)
    (hf : (getNode c i).failNext = false) (hg : NodesGood c) (hv : C02.ReqValid (reqOf src iss)) :
    NodesGood (applyAt c i src iss).1 := by
  intro x
  rw [applyAt_ks c i src iss h hf x]
  split
  · exact C02.good_handle Cluster.F _ _ (hg i) hv
  · exact hg x


theorem fetched_origin' (store : Storage.Keyspace) (modified : List (Nat × Nat)) (d : Doc)
    (hd : d ∈ fetched store modified) : ∃ m ∈ modified, m.1 = d.1 := by
  unfold fetched at hd
  rw [List.mem_filterMap] at hd
  obtain ⟨m, hm, hmd⟩ := hd
  refine ⟨m, hm, ?_⟩
  cases hdat : aget store.data m.1 with
  | none => rw [hdat] at hmd; simp at hmd
  | some bytes =>
    cases hrow : aget store.rows m.1 with
    | none => rw [hdat, hrow] at hmd; simp at hmd
    | some row =>
      obtain ⟨ts, tomb⟩ := row
      rw [hdat, hrow] at hmd
      simp only [Option.some.injEq] at hmd
      subst hmd; rfl

theorem applyRemovals_good (c : Cluster) (j : Nat) (removed : List (Nat × Nat)) (h : j < c.nodes.length)
    (hf : (getNode c j).failNext = false) (hg : NodesGood c) (hnd : C02.NoDupIds removed)
    (hv : ∀ p ∈ removed, ValidStamp p.2) : NodesGood (applyRemovals c j removed).1 := by
  unfold applyRemovals
  match removed with
  | [] => exact hg
  | [r] => exact applyAt_good c j 1 _ h hf hg (hv r List.mem_cons_self)
  | r1 :: r2 :: rest => exact applyAt_good c j 1 _ h hf hg hv

theorem applyModified_good (c : Cluster) (j i : Nat) (modified : List (Nat × Nat)) (h : j < c.nodes.length)
    (hf : (getNode c j).failNext = false) (hg : NodesGood c) (hnd : (modified.map (·.1)).Nodup)
    (hv : ∀ d ∈ fetched (getNode c i).ks.store modified, ValidStamp d.2.1) : NodesGood (applyModified c j i modified).1 := by
  unfold applyModified
  match modified with
  | [] => exact hg
  | m :: ms => exact applyAt_good c j 1 _ h hf hg hv

theorem nodesGood_of_ks (c c' : Cluster) (h : ∀ x, (getNode c' x).ks = (getNode c x).ks) (hg : NodesGood c) : NodesGood c' :=
  fun x => by rw [h x]; exact hg x

/-- **repair_good**: an exchange keeps every node's keyspace `Good` (set = store, exact cut-offs),
provided the stamps of the peer's records are valid. -/
theorem repair_good (c : Cluster) (j i : Nat) (rf : Bool) (h : j < c.nodes.length)
    (hf : (getNode c j).failNext = false) (hji : j ≠ i) (hg : NodesGood c)
    (hvr : ∀ p ∈ (diff (absSet c j) (absSet c i)).2, ValidStamp p.2)
    (hvm : ∀ d ∈ fetched (getNode c i).ks.store (diff (absSet c j) (absSet c i)).1, ValidStamp d.2.1) :
    NodesGood (repair c j i rf).1 := by
  unfold repair
  by_cases h1 : (getNode c i).exists_ = true
  · simp only [h1, Bool.not_true, Bool.false_eq_true, if_false]
    by_cases h2 : ((getNode c j).tracker.getD i none == some (getNode c i).change) = true
    · simp only [h2, if_true]; exact hg
    · simp only [h2, Bool.false_eq_true, if_false]
      have hl0 : j < (touch c j).nodes.length := by rw [touch_length]; exact h
      have hf0 : (getNode (touch c j) j).failNext = false := by rw [touch_failNext]; exact hf
      have hg0 : NodesGood (touch c j) := nodesGood_of_ks c _ (fun x => touch_ks c j x) hg
      have hs0 : (getNode (touch c j) j).ks.set = absSet c j := by unfold absSet; rw [touch_ks]
      have hpeer0 : getNode (touch c j) i = getNode c i := getNode_touch_other c j i (fun e => hji e.symm)
      rw [hs0]
      have hpi : (getNode c i).ks.set = absSet c i := rfl
      rw [hpi]
      have hnd := diff_nodup (absSet c j) (absSet c i)
      generalize hD : OrSwot.diff (absSet c j) (absSet c i) = D at hvr hvm hnd
      obtain ⟨modified, removed⟩ := D
      simp only at hvr hvm hnd ⊢
      cases rf with
      | true =>
        simp only [if_true]
        have hok1 := applyRemovals_ok (touch c j) j removed hf0
        have hl1 : j < (applyRemovals (touch c j) j removed).1.nodes.length := by rw [applyRemovals_length]; exact hl0
        have hf1 := applyRemovals_failNext (touch c j) j removed hl0 hf0
        have hg1 := applyRemovals_good (touch c j) j removed hl0 hf0 hg0 hnd.2 hvr
        have hpeer1 : getNode (applyRemovals (touch c j) j removed).1 i = getNode c i := by
          rw [applyRemovals_other _ _ _ _ (fun e => hji e.symm), hpeer0]
        have hok2 := applyModified_ok (applyRemovals (touch c j) j removed).1 j i modified hf1
        have hg2 := applyModified_good (applyRemovals (touch c j) j removed).1 j i modified hl1 hf1 hg1 hnd.1 (by rw [hpeer1]; exact hvm)
        simp only [hok1, hok2, if_true, Bool.and_self]
        exact nodesGood_of_ks _ _ (fun x => by rw [setNode_ks]; split <;> simp_all) hg2
      | false =>
        simp only [Bool.false_eq_true, if_false]
        have hok1 := applyModified_ok (touch c j) j i modified hf0
        have hl1 : j < (applyModified (touch c j) j i modified).1.nodes.length := by rw [applyModified_length]; exact hl0
        have hf1 := applyModified_failNext (touch c j) j i modified hl0 hf0
        have hg1 := applyModified_good (touch c j) j i modified hl0 hf0 hg0 hnd.1 (by rw [hpeer0]; exact hvm)
        have hok2 := applyRemovals_ok (applyModified (touch c j) j i modified).1 j removed hf1
        have hg2 := applyRemovals_good (applyModified (touch c j) j i modified).1 j removed hl1 hf1 hg1 hnd.2 hvr
        simp only [hok1, hok2, if_true, Bool.and_self]
        exact nodesGood_of_ks _ _ (fun x => by rw [setNode_ks]; split <;> simp_all) hg2
  · simp only [h1, Bool.not_false, if_true]; exact hg


/-! ### Self-contained runs: the invariants are maintained, not assumed -/

/-- The relation maintained between the executable cluster and the abstract one. -/
structure Inv (H : List Op) (c : Cluster) (a : Cl) : Prop where
  sim : ∀ x, (a x).s = absSet c x
  good : Good Cluster.F H a
  nodes : NodesGood c

/-- What a step needs from its environment: it acts at an existing node whose storage call does not
fail, requests carry operations of the history (a bulk request may name a document several times:
fix D13), a node does not repair from itself. -/
def Admissible' (H : List Op) (c : Cluster) : XStep → Prop
  | .request i _ iss => i < c.nodes.length ∧ (getNode c i).failNext = false ∧ (∀ o ∈ carried iss, o ∈ H)
  | .exchange j i _ => j < c.nodes.length ∧ (getNode c j).failNext = false ∧ j ≠ i

def AdmissibleRun' (H : List Op) : Cluster → List XStep → Prop
  | _, [] => True
  | c, s :: rest => Admissible' H c s ∧ AdmissibleRun' H (xstep c s) rest

theorem reqValid_of_carried (H : List Op) (hh : Hist Cluster.F H) (src : Nat) (iss : Issued)
    (hH : ∀ o ∈ carried iss, o ∈ H) : C02.ReqValid (reqOf src iss) := by
  cases iss with
  | put d => exact hh.good.valid _ (hH ⟨d.1, d.2.1, false⟩ (by simp [carried]))
  | del id ts => exact hh.good.valid _ (hH ⟨id, ts, true⟩ (by simp [carried]))
  | mput ds =>
    intro d hd
    exact hh.good.valid _ (hH ⟨d.1, d.2.1, false⟩ (by simp only [carried, List.mem_map]; exact ⟨d, hd, rfl⟩))
  | mdel ds =>
    intro d hd
    exact hh.good.valid _ (hH ⟨d.1, d.2, true⟩ (by simp only [carried, List.mem_map]; exact ⟨d, hd, rfl⟩))

/-- **xstep_inv**: one step of the executable cluster keeps the whole relation and is matched by
admissible abstract events. -/
theorem xstep_inv (H : List Op) (hh : Hist Cluster.F H) (c : Cluster) (a : Cl) (inv : Inv H c a)
    (s : XStep) (hadm : Admissible' H c s) :
    C01c.ValidRun Cluster.F H a (eventsOf c a s) ∧ Inv H (xstep c s) (C01c.run Cluster.F a (eventsOf c a s)) := by
  obtain ⟨hs, hg, hn⟩ := inv
  cases s with
  | request i src iss =>
    obtain ⟨hl, hf, hH⟩ := hadm
    obtain ⟨hv, hsets, hgood⟩ := xstep_refines H hh c a hg hs (.request i src iss) ⟨hl, hf, hH⟩
    exact ⟨hv, hsets, hgood, applyAt_good c i src iss hl hf hn (reqValid_of_carried H hh src iss hH)⟩
  | exchange j i rf =>
    obtain ⟨hl, hf, hji⟩ := hadm
    have hagree : Agree (getNode c i).ks := (hn i).agree
    obtain ⟨hv, hsets, hgood⟩ := xstep_refines H hh c a hg hs (.exchange j i rf) ⟨hl, hf, hji, hagree⟩
    refine ⟨hv, hsets, hgood, ?_⟩
    obtain ⟨repi, hsubi⟩ := hg i
    have hsi : (a i).s = absSet c i := hs i
    apply repair_good c j i rf hl hf hji hn
    · intro p hp
      have := ((diff_exact (absSet c j) (absSet c i) p.1 p.2).2.1 hp).1
      have hrec : HasRec (a i).s p.1 p.2 true := by unfold HasRec; rw [hsi]; simpa using this
      exact hh.good.valid _ (hsubi _ (op_of_rec Cluster.F (a i).s (a i).A repi p.1 p.2 true hrec))
    · intro d hd
      have hrec0 : Map.get (absSet c i).entries d.1 = some d.2.1 := fetched_rec (getNode c i).ks hagree _ d hd
      have hrec : HasRec (a i).s d.1 d.2.1 false := by unfold HasRec; rw [hsi]; simpa using hrec0
      exact hh.good.valid _ (hsubi _ (op_of_rec Cluster.F (a i).s (a i).A repi d.1 d.2.1 false hrec))

/-- **xrun_inv**: along EVERY run of the executable cluster model whose steps act at existing nodes
with working storage, the sets it computes are the sets of an admissible run of the abstract cluster,
every node's store agrees with its set, and the abstract cluster stays good. -/
theorem xrun_inv (H : List Op) (hh : Hist Cluster.F H) (steps : List XStep) (c : Cluster) (a : Cl)
    (inv : Inv H c a) (hadm : AdmissibleRun' H c steps) :
    ∃ evs, C01c.ValidRun Cluster.F H a evs ∧ Inv H (xrun c steps) (C01c.run Cluster.F a evs) := by
  induction steps generalizing c a with
  | nil => exact ⟨[], trivial, inv⟩
  | cons s rest ih =>
    obtain ⟨hv1, inv1⟩ := xstep_inv H hh c a inv s hadm.1
    obtain ⟨evs, hv2, inv2⟩ := ih (xstep c s) _ inv1 hadm.2
    refine ⟨eventsOf c a s ++ evs, validRun_append _ H a _ _ hv1 hv2, ?_⟩
    have : C01c.run Cluster.F a (eventsOf c a s ++ evs) = C01c.run Cluster.F (C01c.run Cluster.F a (eventsOf c a s)) evs := by
      simp [C01c.run, List.foldl_append]
    rw [this]
    exact inv2

/-- The fresh cluster of `n` nodes and the empty abstract cluster are related. -/
theorem default_node (N : List CNode) (x : Nat) (h : ∀ n ∈ N, n = ({} : CNode)) : N.getD x default = ({} : CNode) := by
  simp only [List.getD]
  cases hx : N[x]? with
  | none => rfl
  | some n => exact h n (List.mem_of_getElem? hx)

theorem inv_init (H : List Op) (n : Nat) :
    Inv H { nodes := List.replicate n {} } (fun _ => ⟨OrSwot.empty 2, []⟩) := by
  have hd : ∀ x, getNode ({ nodes := List.replicate n {} } : Cluster) x = ({} : CNode) := by
    intro x
    rw [getNode_def]
    exact default_node _ x (fun m hm => (List.mem_replicate.1 hm).2)
  refine ⟨fun x => ?_, good_empty Cluster.F 2 H, fun x => ?_⟩
  · unfold absSet; rw [hd x]
  · rw [hd x]; exact C02.good_empty Cluster.F 2


/-- **xrun_from_fresh**: start `n` fresh nodes and run ANY sequence of requests and exchanges (acting at
existing nodes, storage working, operations of a history `H` within one forgiveness window): the
sets the executable model computes are those of an admissible run of the abstract cluster from the
empty state, and on every node the store agrees with the set (C02) — so `convergence` /
`convergence_na` and the C02 theorems speak about the model that is run against the code. -/
theorem xrun_from_fresh (H : List Op) (hh : Hist Cluster.F H) (n : Nat) (steps : List XStep)
    (hadm : AdmissibleRun' H { nodes := List.replicate n {} } steps) :
    ∃ evs, C01c.ValidRun Cluster.F H (fun _ => ⟨OrSwot.empty 2, []⟩) evs ∧
      (∀ x, (C01c.run Cluster.F (fun _ => ⟨OrSwot.empty 2, []⟩) evs x).s = absSet (xrun { nodes := List.replicate n {} } steps) x) ∧
      (∀ x, Agree (getNode (xrun { nodes := List.replicate n {} } steps) x).ks) := by
  obtain ⟨evs, hv, inv⟩ := xrun_inv H hh steps _ _ (inv_init H n) hadm
  exact ⟨evs, hv, inv.sim, fun x => (inv.nodes x).agree⟩

end Datacake.C01d
