/-
C19 — A peer receives the sender's keyspace state unchanged.

What travels is a serialised `OrSWotSet<2>`: four finite maps (`entries`, `dead`, one maximum map
per source, the safe cut-offs).  `rkyv` (de)serialisation is a codec assumption (`dec (enc s) = s`
up to the order in which hash maps are iterated), observed on every run by the correspondence
check (real `GetState` round trip over loopback, states up to 20 000 entries).  What is proved
here is the part that is logic: a state whose four maps answer every look-up like the sender's is
*observably identical* — same live ids, same tombstones, same stamps, same accept / refuse
decision for any further operation, and after any further operation the two are again
observably identical.  So "the maps were transferred" implies everything the property lists.
-/
import Datacake.Props.C05
import Datacake.Lemmas.ApplyRep

namespace Datacake.C19
open Datacake.Lww Datacake.OrSwot Datacake.Map Datacake.Ts

/-- Two states answer every map look-up alike. -/
structure ObsEq (s s' : OrSwot) : Prop where
  entries : ∀ k, Map.get s.entries k = Map.get s'.entries k
  dead : ∀ k, Map.get s.dead k = Map.get s'.dead k
  safe : ∀ n, Map.get s.safe n = Map.get s'.safe n
  nsrc : s.maxs.length = s'.maxs.length
  maxs : ∀ i n, Map.get (s.maxs.getD i []) n = Map.get (s'.maxs.getD i []) n

theorem obs_refl (s : OrSwot) : ObsEq s s := ⟨fun _ => rfl, fun _ => rfl, fun _ => rfl, rfl, fun _ _ => rfl⟩

theorem obs_isBefore (s s' : OrSwot) (h : ObsEq s s') (t : Nat) : isBefore s.safe t = isBefore s'.safe t := by
  unfold isBefore; rw [h.safe]

/-- Same live ids with the same stamps, same tombstones, same predictions. -/
theorem obs_queries (s s' : OrSwot) (h : ObsEq s s') (k t : Nat) :
    OrSwot.get s k = OrSwot.get s' k ∧ view s k = view s' k ∧
    willApply s k t = willApply s' k t ∧ lacks s k t = lacks s' k t := by
  refine ⟨h.entries k, ?_, ?_, ?_⟩
  · rw [view_of_gets, view_of_gets, h.entries, h.dead]
  · unfold willApply; rw [obs_isBefore s s' h, h.entries, h.dead]
  · unfold lacks; rw [obs_isBefore s s' h, h.entries, h.dead]

/-- The difference computed against either state lists the same items, whichever side the
transferred state is on. -/
theorem obs_diff (a a' b b' : OrSwot) (ha : ObsEq a a') (hb : ObsEq b b') (k t : Nat) :
    ((k, t) ∈ (diff a b).1 ↔ (k, t) ∈ (diff a' b').1) ∧ ((k, t) ∈ (diff a b).2 ↔ (k, t) ∈ (diff a' b').2) := by
  have hl : C05.Lacks a k t ↔ C05.Lacks a' k t := by
    rw [← C05.lacks_iff, ← C05.lacks_iff, (obs_queries a a' ha k t).2.2.2]
  rw [(C05.diff_exact a b k t).1, (C05.diff_exact a' b' k t).1, (C05.diff_exact a b k t).2,
    (C05.diff_exact a' b' k t).2, hb.entries, hb.dead, hl]
  exact ⟨Iff.rfl, Iff.rfl⟩

theorem getD_modifyNth (l : List Map) (i j : Nat) (f : Map → Map) (hi : i < l.length) :
    (modifyNth l i f).getD j [] = if j = i then f (l.getD i []) else l.getD j [] := by
  induction l generalizing i j with
  | nil => simp at hi
  | cons x xs ih =>
    cases i with
    | zero =>
      cases j with
      | zero => simp [modifyNth]
      | succ j => simp [modifyNth]
    | succ i =>
      cases j with
      | zero => simp [modifyNth]
      | succ j =>
        simp only [modifyNth, List.getD_cons_succ]
        rw [ih i j (by simpa using hi)]
        simp

theorem length_modifyNth (l : List Map) (i : Nat) (f : Map → Map) : (modifyNth l i f).length = l.length := by
  induction l generalizing i with
  | nil => rfl
  | cons x xs ih => cases i <;> simp [modifyNth, ih]

theorem modifyNth_oob (l : List Map) (i : Nat) (f : Map → Map) (hi : l.length ≤ i) : modifyNth l i f = l := by
  induction l generalizing i with
  | nil => rfl
  | cons x xs ih =>
    cases i with
    | zero => simp at hi
    | succ i => simp only [modifyNth]; rw [ih i (by simpa using hi)]

/-- The list of per-source values `compute_safe_last_stamp` takes its minimum over depends only
on look-ups. -/
theorem srcVals_eq (m m' : List Map) (hl : m.length = m'.length)
    (h : ∀ i n, Map.get (m.getD i []) n = Map.get (m'.getD i []) n) (nd : Nat) :
    m.map (fun x => (Map.get x nd).getD (pack 0 0 nd)) = m'.map (fun x => (Map.get x nd).getD (pack 0 0 nd)) := by
  induction m generalizing m' with
  | nil => cases m' with
    | nil => rfl
    | cons _ _ => simp at hl
  | cons x xs ih =>
    cases m' with
    | nil => simp at hl
    | cons y ys =>
      simp only [List.map_cons, List.cons.injEq]
      refine ⟨by have := h 0 nd; simp at this; rw [this], ?_⟩
      exact ih ys (by simpa using hl) (fun i n => by have := h (i + 1) n; simpa using this)

theorem computeSafe_obs (F : Nat) (m m' : List Map) (sf sf' : Map) (nd : Nat) (hl : m.length = m'.length)
    (hm : ∀ i n, Map.get (m.getD i []) n = Map.get (m'.getD i []) n)
    (hs : ∀ n, Map.get sf n = Map.get sf' n) (n : Nat) :
    Map.get (computeSafe F m sf nd) n = Map.get (computeSafe F m' sf' nd) n := by
  unfold computeSafe
  rw [srcVals_eq m m' hl hm nd]
  split
  · exact hs n
  · simp only [Map.get_set, hs n]

theorem obs_insertCore (s s' : OrSwot) (h : ObsEq s s') (k t : Nat) :
    (insertCore s k t).2 = (insertCore s' k t).2 ∧ ObsEq (insertCore s k t).1 (insertCore s' k t).1 := by
  unfold insertCore
  simp only [h.dead k, h.entries k]
  cases Map.get s'.dead k <;> cases Map.get s'.entries k <;> simp only <;> (try split) <;> (try split) <;>
    (refine ⟨by first | rfl | trivial, ⟨?_, ?_, h.safe, h.nsrc, h.maxs⟩⟩ <;> intro k' <;>
      simp only [Map.get_set, Map.get_erase, h.entries k', h.dead k'])

theorem obs_deleteCore (s s' : OrSwot) (h : ObsEq s s') (k t : Nat) :
    (deleteCore s k t).2 = (deleteCore s' k t).2 ∧ ObsEq (deleteCore s k t).1 (deleteCore s' k t).1 := by
  unfold deleteCore
  simp only [h.entries k, h.dead k]
  cases Map.get s'.dead k <;> cases Map.get s'.entries k <;> simp only <;> (try split) <;> (try split) <;>
    (refine ⟨by first | rfl | trivial, ⟨?_, ?_, h.safe, h.nsrc, h.maxs⟩⟩ <;> intro k' <;>
      simp only [Map.get_set, Map.get_erase, h.entries k', h.dead k'])

/-- The acceptance step is decided alike and leaves observably identical version vectors. -/
theorem obs_tryUpdate (F : Nat) (s s' : OrSwot) (h : ObsEq s s') (src ts : Nat) :
    (tryUpdateMax F s src ts = none ∧ tryUpdateMax F s' src ts = none) ∨
    (∃ p p', tryUpdateMax F s src ts = some p ∧ tryUpdateMax F s' src ts = some p' ∧
      ObsEq { s with maxs := p.1, safe := p.2 } { s' with maxs := p'.1, safe := p'.2 }) := by
  have hb := obs_isBefore s s' h ts
  unfold tryUpdateMax
  rw [← hb]
  cases hbb : isBefore s.safe ts with
  | true => left; simp
  | false =>
    right
    simp only [Bool.false_eq_true, if_false]
    refine ⟨_, _, rfl, rfl, ?_⟩
    have hlen : (modifyNth s.maxs src (fun m =>
          match Map.get m (node ts) with
          | some old => if old < ts then Map.set m (node ts) ts else m
          | none => Map.set m (node ts) ts)).length =
        (modifyNth s'.maxs src (fun m =>
          match Map.get m (node ts) with
          | some old => if old < ts then Map.set m (node ts) ts else m
          | none => Map.set m (node ts) ts)).length := by
      rw [length_modifyNth, length_modifyNth]; exact h.nsrc
    have hmaxs : ∀ i n, Map.get ((modifyNth s.maxs src (fun m =>
          match Map.get m (node ts) with
          | some old => if old < ts then Map.set m (node ts) ts else m
          | none => Map.set m (node ts) ts)).getD i []) n =
        Map.get ((modifyNth s'.maxs src (fun m =>
          match Map.get m (node ts) with
          | some old => if old < ts then Map.set m (node ts) ts else m
          | none => Map.set m (node ts) ts)).getD i []) n := by
      intro i n
      by_cases hsrc : src < s.maxs.length
      · rw [getD_modifyNth _ _ _ _ hsrc, getD_modifyNth _ _ _ _ (h.nsrc ▸ hsrc)]
        by_cases hi : i = src
        · simp only [if_pos hi]
          have hm := h.maxs src
          rw [hm (node ts)]
          cases Map.get (s'.maxs.getD src []) (node ts) with
          | none => simp only [Map.get_set, hm n]
          | some old =>
            simp only
            split
            · simp only [Map.get_set, hm n]
            · exact hm n
        · simp only [if_neg hi]; exact h.maxs i n
      · rw [modifyNth_oob _ _ _ (by omega), modifyNth_oob _ _ _ (by rw [← h.nsrc]; omega)]
        exact h.maxs i n
    exact ⟨h.entries, h.dead, computeSafe_obs F _ _ _ _ (node ts) hlen hmaxs h.safe, hlen, hmaxs⟩

/-- **obs_apply**: any further insert or delete — through any source — is accepted or refused
alike, returns the same Boolean, and leaves the two states observably identical again. -/
theorem obs_apply (F : Nat) (s s' : OrSwot) (h : ObsEq s s') (o : SrcOp) :
    (applyOp F s o).2 = (applyOp F s' o).2 ∧ ObsEq (applyOp F s o).1 (applyOp F s' o).1 := by
  unfold applyOp insertWithSource deleteWithSource
  rcases obs_tryUpdate F s s' h o.src o.op.ts with ⟨e1, e2⟩ | ⟨p, p', e1, e2, hobs⟩
  · rw [e1, e2]; split <;> exact ⟨rfl, h⟩
  · rw [e1, e2]
    obtain ⟨m1, sf1⟩ := p
    obtain ⟨m2, sf2⟩ := p'
    simp only at hobs ⊢
    split
    · exact obs_deleteCore _ _ hobs o.op.key o.op.ts
    · exact obs_insertCore _ _ hobs o.op.key o.op.ts

/-- **obs_equiv_forever**: after ANY sequence of further operations the two states still give the
same answers (by induction with `obs_apply`). -/
theorem obs_equiv_forever (F : Nat) (ops : List SrcOp) (s s' : OrSwot) (h : ObsEq s s') :
    ObsEq (applyAll F s ops) (applyAll F s' ops) := by
  induction ops generalizing s s' with
  | nil => exact h
  | cons o os ih => exact ih _ _ (obs_apply F s s' h o).2

/-- Non-vacuity: two different representations (binding order) of the same state. -/
example : ObsEq ⟨[(1, 10), (2, 20)], [], [[], []], []⟩ ⟨[(2, 20), (1, 10)], [], [[], []], []⟩ := by
  refine ⟨fun k => ?_, fun _ => rfl, fun _ => rfl, rfl, fun _ _ => rfl⟩
  by_cases h1 : k = 1
  · subst h1; decide
  · by_cases h2 : k = 2
    · subst h2; decide
    · have e1 : ¬ 1 = k := fun e => h1 e.symm
      have e2 : ¬ 2 = k := fun e => h2 e.symm
      simp [Map.get, e1, e2]

end Datacake.C19
