/-
C02, unconditional form — the hypothesis `Accepted` of the bulk theorems is discharged.

`agree_reachable` (Props/C02.lean) assumes, for every bulk request, that no element of the batch is
refused as too old when its turn comes.  Here that is PROVED for the batches the actor applies:
they are applied in ascending stamp order (`sort_by_key`), every element passed `will_apply` when
the request started, and the safe cut-offs of an actor's set are exact (`SafeExact`, an invariant of
every request handler).  What remains is that stamps are valid clock outputs; a bulk request may
name a document several times (the handler keeps the newest entry, fix D13).
-/
import Datacake.Props.C02
import Datacake.Lemmas.SafeExact

namespace Datacake.C02
open Datacake.Lww Datacake.OrSwot Datacake.Storage Datacake.Keyspace

/-- The premise of the property for one request: valid stamps.  (Until fix D13 a bulk request also
had to name every document at most once.) -/
def ReqValid : Req → Prop
  | .set _ d _ => ValidStamp d.2.1
  | .del _ _ ts _ => ValidStamp ts
  | .mset _ docs _ => ∀ d ∈ docs, ValidStamp d.2.1
  | .mdel _ docs _ => ∀ d ∈ docs, ValidStamp d.2
  | .purge _ => True

/-- Agreement together with the bookkeeping invariants that make it self-sustaining. -/
structure Good (F : Nat) (n : Node) : Prop where
  agree : Agree n
  exact : SafeExact F n.set
  maxs : GoodMaxs n.set

theorem willApply_notBefore (s : OrSwot) (k t : Nat) (h : willApply s k t = true) :
    isBefore s.safe t = false := by
  unfold willApply at h
  cases hb : isBefore s.safe t with
  | false => rfl
  | true => rw [hb] at h; simp at h

theorem safeExact_applyAll (F : Nat) : ∀ (ops : List SrcOp) (s : OrSwot), SafeExact F s → GoodMaxs s →
    (∀ o ∈ ops, ValidStamp o.op.ts) → SafeExact F (applyAll F s ops) ∧ GoodMaxs (applyAll F s ops) := by
  intro ops
  induction ops with
  | nil => intro s he hg _; exact ⟨he, hg⟩
  | cons o rest ih =>
    intro s he hg hv
    obtain ⟨he', hg'⟩ := safeExact_applyOp F s o he hg (hv o List.mem_cons_self)
    exact ih _ he' hg' (fun o' ho' => hv o' (List.mem_cons_of_mem _ ho'))

/-- The hypothesis of `agree_onMultiSetCore` / `agree_onMultiDelCore`, proved. -/
theorem accepted_batch (F : Nat) (s : OrSwot) (src : Nat) (isDel : Bool) (l : List (Nat × Nat))
    (he : SafeExact F s) (hg : GoodMaxs s) (hsorted : l.Pairwise (fun a b => a.2 ≤ b.2))
    (hok : ∀ e ∈ l, ValidStamp e.2 ∧ willApply s e.1 e.2 = true) :
    C04.Accepted F s (toOps src isDel l) := by
  apply accepted_sorted F _ s he hg
  · unfold toOps
    rw [List.pairwise_map]
    exact hsorted
  · intro o ho
    unfold toOps at ho
    obtain ⟨e, hel, rfl⟩ := List.mem_map.1 ho
    exact ⟨(hok e hel).1, willApply_notBefore s e.1 e.2 (hok e hel).2⟩

theorem good_onMultiSetCore (F : Nat) (n : Node) (src : Nat) (docs : List Doc) (w : Option (List Nat))
    (h : Good F n) (hnd : NoDupIds docs) (hval : ∀ d ∈ docs, ValidStamp d.2.1) :
    Good F (onMultiSetCore F n src docs w).1 := by
  obtain ⟨ha, he, hg⟩ := h
  have hvalid : ∀ e ∈ (docs.filter (fun d => willApply n.set d.1 d.2.1)).map (fun d => (d.1, d.2.1)),
      ValidStamp e.2 ∧ willApply n.set e.1 e.2 = true := by
    intro e he'
    obtain ⟨d, hd, rfl⟩ := List.mem_map.1 he'
    obtain ⟨hd1, hd2⟩ := List.mem_filter.1 hd
    exact ⟨hval d hd1, by simpa using hd2⟩
  suffices hk : SafeExact F (onMultiSetCore F n src docs w).1.set ∧ GoodMaxs (onMultiSetCore F n src docs w).1.set from
    ⟨agree_onMultiSetCore F n src docs w ha hnd
      (fun l hl _ hs => accepted_batch F n.set src false l he hg hs (fun e hel => hvalid e (hl e hel))), hk.1, hk.2⟩
  have hent : ∀ e ∈ sortByTs ((docs.filter (fun d => willApply n.set d.1 d.2.1)).map (fun d => (d.1, d.2.1))),
      ValidStamp e.2 := fun e hel => (hvalid e ((sortByTs_perm _).mem_iff.1 hel)).1
  simp only [onMultiSetCore]
  cases w with
  | none =>
    simp only
    rw [fold_insert_eq]
    apply safeExact_applyAll F _ n.set he hg
    intro o ho
    unfold toOps at ho
    obtain ⟨e, hel, rfl⟩ := List.mem_map.1 ho
    exact hent e hel
  | some idxs =>
    simp only
    rw [fold_insert_eq]
    apply safeExact_applyAll F _ n.set he hg
    intro o ho
    unfold toOps at ho
    obtain ⟨e, hel, rfl⟩ := List.mem_map.1 ho
    exact hent e (List.mem_filter.1 hel).1

theorem good_onMultiDelCore (F : Nat) (n : Node) (src : Nat) (docs : List (Nat × Nat)) (w : Option (List Nat))
    (h : Good F n) (hnd : NoDupIds docs) (hval : ∀ d ∈ docs, ValidStamp d.2) :
    Good F (onMultiDelCore F n src docs w).1 := by
  obtain ⟨ha, he, hg⟩ := h
  have hvalid : ∀ e ∈ (docs.filter (fun d => willApply n.set d.1 d.2)).map (fun d => (d.1, d.2)),
      ValidStamp e.2 ∧ willApply n.set e.1 e.2 = true := by
    intro e he'
    obtain ⟨d, hd, rfl⟩ := List.mem_map.1 he'
    obtain ⟨hd1, hd2⟩ := List.mem_filter.1 hd
    exact ⟨hval d hd1, by simpa using hd2⟩
  suffices hk : SafeExact F (onMultiDelCore F n src docs w).1.set ∧ GoodMaxs (onMultiDelCore F n src docs w).1.set from
    ⟨agree_onMultiDelCore F n src docs w ha hnd
      (fun l hl _ hs => accepted_batch F n.set src true l he hg hs (fun e hel => hvalid e (hl e hel))), hk.1, hk.2⟩
  have hent : ∀ e ∈ sortByTs (docs.filter (fun d => willApply n.set d.1 d.2)), ValidStamp e.2 := by
    intro e hel
    have := (sortByTs_perm _).mem_iff.1 hel
    exact hval e (List.mem_filter.1 this).1
  simp only [onMultiDelCore]
  cases w with
  | none =>
    simp only
    rw [fold_delete_eq]
    apply safeExact_applyAll F _ n.set he hg
    intro o ho
    unfold toOps at ho
    obtain ⟨e, hel, rfl⟩ := List.mem_map.1 ho
    exact hent e hel
  | some idxs =>
    simp only
    rw [fold_delete_eq]
    apply safeExact_applyAll F _ n.set he hg
    intro o ho
    unfold toOps at ho
    obtain ⟨e, hel, rfl⟩ := List.mem_map.1 ho
    exact hent e (List.mem_filter.1 hel).1

theorem good_handle (F : Nat) (n : Node) (r : Req) (h : Good F n) (hv : ReqValid r) :
    Good F (handle F n r) := by
  obtain ⟨ha, he, hg⟩ := h
  cases r with
  | set src d fail =>
    suffices hk : SafeExact F (handle F n (.set src d fail)).set ∧ GoodMaxs (handle F n (.set src d fail)).set from
      ⟨agree_onSet F n src d fail ha, hk.1, hk.2⟩
    simp only [handle, onSet]
    split
    · exact ⟨he, hg⟩
    · split
      · exact ⟨he, hg⟩
      · exact safeExact_applyOp F n.set ⟨src, ⟨d.1, d.2.1, false⟩⟩ he hg hv
  | del src id ts fail =>
    suffices hk : SafeExact F (handle F n (.del src id ts fail)).set ∧ GoodMaxs (handle F n (.del src id ts fail)).set from
      ⟨agree_onDel F n src id ts fail ha, hk.1, hk.2⟩
    simp only [handle, onDel]
    split
    · exact ⟨he, hg⟩
    · split
      · exact ⟨he, hg⟩
      · exact safeExact_applyOp F n.set ⟨src, ⟨id, ts, true⟩⟩ he hg hv
  | mset src docs w =>
    exact good_onMultiSetCore F n src _ w ⟨ha, he, hg⟩ (newest_nodup _ docs)
      (fun d hd => hv d (newest_mem _ docs d hd))
  | mdel src docs w =>
    exact good_onMultiDelCore F n src _ w ⟨ha, he, hg⟩ (newest_nodup _ docs)
      (fun d hd => hv d (newest_mem _ docs d hd))
  | purge rm =>
    suffices hk : SafeExact F (handle F n (.purge rm)).set ∧ GoodMaxs (handle F n (.purge rm)).set from
      ⟨agree_onPurge n rm ha, hk.1, hk.2⟩
    simp only [handle, onPurge]
    cases rm with
    | none => exact ⟨safeExact_congr F n.set _ rfl rfl he, goodMaxs_congr n.set _ rfl hg⟩
    | some idxs => exact ⟨safeExact_congr F n.set _ rfl rfl he, goodMaxs_congr n.set _ rfl hg⟩

def ReqsValid : List Req → Prop
  | [] => True
  | r :: rs => ReqValid r ∧ ReqsValid rs

/-- **agree_reachable_exact**: after every completed request of every history — single or bulk,
any stamps (any time span), origins and sources, in any arrival order, with storage failing at any
of the modelled points, bulk requests naming documents any number of times — the set and the store
of the node agree; the only premise is that stamps are valid clock outputs. -/
theorem agree_reachable_exact (F : Nat) (reqs : List Req) (n : Node) (h : Good F n)
    (hv : ReqsValid reqs) : Good F (reqs.foldl (handle F) n) := by
  induction reqs generalizing n with
  | nil => exact h
  | cons r rs ih => exact ih _ (good_handle F n r h hv.1) hv.2

/-- A fresh node is good. -/
theorem good_empty (F nsrc : Nat) : Good F { set := OrSwot.empty nsrc, store := {} } :=
  ⟨⟨fun _ => rfl, fun _ => Or.inl rfl, fun _ => ⟨fun h => (by cases h), fun ⟨_, h⟩ => (by cases h)⟩⟩,
   safeExact_empty F nsrc,
   fun m hm X v hv => by
     simp only [OrSwot.empty] at hm
     rw [(List.mem_replicate.1 hm).2] at hv; cases hv⟩

end Datacake.C02
