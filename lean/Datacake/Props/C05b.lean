/-
C05 (second part) — one exchange repairs.

`apply_diff_closes`, `exchange_converges`: under the window alternative of the precondition, for
replicas that represent what they applied (`Rep`, which every state reachable by insert / delete /
merge / diff-application is: `C03.reach_rep`, `applyAll_rep`).  The gap-free alternative for a
two-source set is argued in DESIGN.md and validated differentially; it is not yet a Lean theorem
(`…_partial` below is the proved statement).
-/
import Datacake.Lemmas.Exchange

namespace Datacake.C05
open Datacake.Lww Datacake.OrSwot Datacake.Ts

/-- **apply_diff_closes_partial** (window alternative): apply the items of `diff a b` to `a` as
deletes / inserts — in ANY order (so: removals first, modifications first, or any interleaving of
the two batches), through any sources — and nothing is left to fetch from that peer. -/
theorem apply_diff_closes_partial (F : Nat) (hF : F % 4 = 0) (H : List Op) (hg : GoodHist H)
    (hw : WindowH F H) (a b : OrSwot) (A B : List Op) (ra : Rep F a A) (rb : Rep F b B)
    (hA : ∀ o ∈ A, o ∈ H) (hB : ∀ o ∈ B, o ∈ H)
    (order : List SrcOp) (hsub : ∀ o ∈ order, o.op ∈ diffOps a b)
    (hall : ∀ o ∈ diffOps a b, ∃ so ∈ order, so.op = o) :
    diff (applyAll F a order) b = ([], []) := by
  have hopsH : ∀ o ∈ order, o.op ∈ H := by
    intro o ho
    obtain ⟨hr, _⟩ := (mem_diffOps a b o.op).1 (hsub o ho)
    exact hB _ (op_of_rec F b B rb _ _ _ hr)
  have rep' := applyAll_rep F hF H hg hw order hopsH a A ra hA
  have key : ∀ k t isDel, HasRec b k t isDel → ¬ Lacks (applyAll F a order) k t := by
    intro k t isDel hrec
    obtain ⟨r, hr, hle⟩ := exchange_learns F hF H hg hw a b A B ra rb hA hB order hsub hall k t isDel hrec
    rw [lacks_iff_view _ rep'.disj]
    intro ⟨h1, _⟩
    have := h1 r hr
    omega
  have e1 : (diff (applyAll F a order) b).1 = [] := by
    apply List.eq_nil_iff_forall_not_mem.2
    intro p hp
    obtain ⟨h1, h2⟩ := (diff_exact _ b p.1 p.2).1.1 hp
    exact key p.1 p.2 false (by simpa [HasRec] using h1) h2
  have e2 : (diff (applyAll F a order) b).2 = [] := by
    apply List.eq_nil_iff_forall_not_mem.2
    intro p hp
    obtain ⟨h1, h2⟩ := (diff_exact _ b p.1 p.2).2.1 hp
    exact key p.1 p.2 true (by simpa [HasRec] using h1) h2
  exact Prod.ext e1 e2

/-- No two different operations of the history on one key carry the same stamp (clocks issue
unique stamps; a bulk operation may reuse its stamp across *different* keys). -/
def KeyStampDistinct (H : List Op) : Prop :=
  ∀ o ∈ H, ∀ o' ∈ H, o.key = o'.key → o.ts = o'.ts → o = o'

/-- After the exchange the replica's record dominates the peer's, by rank. -/
theorem exchange_dominates (F : Nat) (hF : F % 4 = 0) (H : List Op) (hg : GoodHist H)
    (hw : WindowH F H) (hd : KeyStampDistinct H) (a b : OrSwot) (A B : List Op) (ra : Rep F a A)
    (rb : Rep F b B) (hA : ∀ o ∈ A, o ∈ H) (hB : ∀ o ∈ B, o ∈ H)
    (order : List SrcOp) (hsub : ∀ o ∈ order, o.op ∈ diffOps a b)
    (hall : ∀ o ∈ diffOps a b, ∃ so ∈ order, so.op = o) (k : Nat) :
    view (applyAll F a order) k = omax (view a k) (view b k) := by
  have hopsH : ∀ o ∈ order, o.op ∈ H := by
    intro o ho
    obtain ⟨hr, _⟩ := (mem_diffOps a b o.op).1 (hsub o ho)
    exact hB _ (op_of_rec F b B rb _ _ _ hr)
  have hopsB : ∀ o ∈ order, o.op ∈ B := by
    intro o ho
    obtain ⟨hr, _⟩ := (mem_diffOps a b o.op).1 (hsub o ho)
    exact op_of_rec F b B rb _ _ _ hr
  have rep' := applyAll_rep F hF H hg hw order hopsH a A ra hA
  -- upper bound: everything applied is in A or B
  have hsubAB : ∀ o ∈ (order.map (·.op)).reverse ++ A, o ∈ A ++ B := by
    intro o ho
    rcases List.mem_append.1 ho with h | h
    · rw [List.mem_reverse, List.mem_map] at h
      obtain ⟨so, hso, rfl⟩ := h
      exact List.mem_append_right _ (hopsB so hso)
    · exact List.mem_append_left _ h
  have hsubSelf : ∀ o ∈ A, o ∈ (order.map (·.op)).reverse ++ A := fun o ho => List.mem_append_right _ ho
  rw [rep'.view, ra.view, rb.view, ← lww_append]
  -- both are maxima over key k; compare through membership
  have le1 : ∀ r, lww ((order.map (·.op)).reverse ++ A) k = some r → AtLeast (lww (A ++ B) k) r := by
    intro r hr
    obtain ⟨o, ho, hk, hrk⟩ := lww_mem _ k r hr
    rw [← hrk]; exact lww_ge _ k o (hsubAB o ho) hk
  have le2 : ∀ r, lww (A ++ B) k = some r → AtLeast (lww ((order.map (·.op)).reverse ++ A) k) r := by
    intro r hr
    obtain ⟨o, ho, hk, hrk⟩ := lww_mem _ k r hr
    rcases List.mem_append.1 ho with h | h
    · rw [← hrk]; exact lww_ge _ k o (hsubSelf o h) hk
    · -- o is the op behind b's record of k … or older than it
      have hbrec : ∃ rb', lww B k = some rb' ∧ r ≤ rb' := by
        obtain ⟨y, hy, hle⟩ := lww_ge B k o h hk; exact ⟨y, hy, by omega⟩
      obtain ⟨rb', hrb', hle⟩ := hbrec
      -- r is the maximum over A ++ B, so r = rb'
      have hrb_le : rb' ≤ r := by
        obtain ⟨o2, ho2, hk2, hrk2⟩ := lww_mem B k rb' hrb'
        obtain ⟨y, hy, hle2⟩ := lww_ge (A ++ B) k o2 (List.mem_append_right _ ho2) hk2
        rw [hr] at hy; injection hy with hy; omega
      have hreq : rb' = r := by omega
      subst hreq
      -- b's record as a `HasRec`
      obtain ⟨ob, hob, hkb, hrkb⟩ := lww_mem B k rb' hrb'
      have hview : view b k = some (rank ob) := by rw [rb.view, hrb', hrkb]
      have hrec : HasRec b k ob.ts ob.isDel := by
        unfold HasRec
        rw [view_of_gets] at hview
        unfold rank liveRec deadRec at hview
        rcases rb.disj k with he | hdd
        · rw [he] at hview
          cases hg2 : Map.get b.dead k with
          | none => rw [hg2] at hview; cases hview
          | some d =>
            rw [hg2] at hview
            cases hdel : ob.isDel with
            | true => simp [hdel] at hview ⊢; omega
            | false => simp [hdel] at hview; omega
        · cases hg2 : Map.get b.entries k with
          | none => rw [hg2, hdd] at hview; cases hview
          | some e =>
            rw [hg2] at hview
            cases hdel : ob.isDel with
            | true => simp [hdel] at hview; omega
            | false => simp [hdel] at hview ⊢; omega
      obtain ⟨r', hr', hle'⟩ := exchange_learns F hF H hg hw a b A B ra rb hA hB order hsub hall k ob.ts ob.isDel hrec
      rw [rep'.view] at hr'
      obtain ⟨o3, ho3, hk3, hrk3⟩ := lww_mem _ k r' hr'
      refine ⟨r', hr', ?_⟩
      -- o3 has a stamp ≥ ob's; equal stamps on the same key mean the same operation
      have ho3H : o3 ∈ H := by
        rcases List.mem_append.1 (hsubAB o3 ho3) with h3 | h3
        · exact hA _ h3
        · exact hB _ h3
      have hobH : ob ∈ H := hB _ hob
      by_cases hts : o3.ts = ob.ts
      · have := hd o3 ho3H ob hobH (by rw [hk3, hkb]) hts
        rw [← hrkb, ← hrk3, this]; exact Nat.le_refl _
      · rw [← hrkb, ← hrk3]
        unfold recTs at hle'
        rw [← hrk3] at hle'
        unfold rank liveRec deadRec at *
        cases h3 : o3.isDel <;> cases h4 : ob.isDel <;> simp [h3, h4] at hle' ⊢ <;> omega
  cases h1 : lww ((order.map (·.op)).reverse ++ A) k with
  | none =>
    cases h2 : lww (A ++ B) k with
    | none => rfl
    | some r2 => obtain ⟨y, hy, _⟩ := le2 r2 h2; rw [h1] at hy; cases hy
  | some r1 =>
    obtain ⟨y, hy, hle⟩ := le1 r1 h1
    obtain ⟨y', hy', hle'⟩ := le2 y hy
    rw [h1] at hy'; injection hy' with hy'
    rw [hy]; congr 1; omega

/-- **exchange_converges_partial**: two replicas that each apply their difference against the
other (in any order of items) expose identical records — same live ids, same stamps. -/
theorem exchange_converges_partial (F : Nat) (hF : F % 4 = 0) (H : List Op) (hg : GoodHist H)
    (hw : WindowH F H) (hd : KeyStampDistinct H) (a b : OrSwot) (A B : List Op) (ra : Rep F a A)
    (rb : Rep F b B) (hA : ∀ o ∈ A, o ∈ H) (hB : ∀ o ∈ B, o ∈ H)
    (oa ob : List SrcOp)
    (ha1 : ∀ o ∈ oa, o.op ∈ diffOps a b) (ha2 : ∀ o ∈ diffOps a b, ∃ so ∈ oa, so.op = o)
    (hb1 : ∀ o ∈ ob, o.op ∈ diffOps b a) (hb2 : ∀ o ∈ diffOps b a, ∃ so ∈ ob, so.op = o) (k : Nat) :
    view (applyAll F a oa) k = view (applyAll F b ob) k ∧
    OrSwot.get (applyAll F a oa) k = OrSwot.get (applyAll F b ob) k := by
  have h1 := exchange_dominates F hF H hg hw hd a b A B ra rb hA hB oa ha1 ha2 k
  have h2 := exchange_dominates F hF H hg hw hd b a B A rb ra hB hA ob hb1 hb2 k
  have hv : view (applyAll F a oa) k = view (applyAll F b ob) k := by
    rw [h1, h2]
    cases view a k <;> cases view b k <;> simp [omax, Nat.max_comm]
  refine ⟨hv, ?_⟩
  -- equal records give equal live look-ups
  unfold OrSwot.get
  rw [view_of_gets, view_of_gets] at hv
  unfold liveRec deadRec at hv
  cases e1 : Map.get (applyAll F a oa).entries k <;> cases e2 : Map.get (applyAll F b ob).entries k <;>
    cases e3 : Map.get (applyAll F a oa).dead k <;> cases e4 : Map.get (applyAll F b ob).dead k <;>
    simp [e1, e2, e3, e4] at hv ⊢ <;> omega

end Datacake.C05
