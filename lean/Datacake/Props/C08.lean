/-
C08 — Purging tombstones is invisible and deletes stay deleted.

Model: `OrSwot.purgeOldDeletes`, `isBefore`, acceptance rule in `Model/Orswot.lean`.
-/
import Datacake.Lemmas.OrswotVersions

namespace Datacake.C08
open Datacake.Lww Datacake.OrSwot Datacake.Ts Datacake.Map

/-- `get` of the tombstone map after a purge. -/
theorem purge_dead_get (s : OrSwot) (k : Nat) :
    Map.get (purgeOldDeletes s).1.dead k =
      match Map.get s.dead k with
      | some d => if isBefore s.safe d then none else some d
      | none => none := by
  unfold purgeOldDeletes
  simp only
  have hnd := bindings_nodup s.dead
  have hmem := fun v => mem_bindings s.dead k v
  generalize s.dead.bindings = l at hnd hmem
  cases hg : Map.get s.dead k with
  | none =>
    simp only
    have hno : ∀ v, (k, v) ∉ l := fun v h => by have := (hmem v).1 h; rw [hg] at this; cases this
    clear hmem hnd
    induction l with
    | nil => rfl
    | cons x xs ih =>
      obtain ⟨a, b⟩ := x
      have hak : a ≠ k := fun h => hno b (by rw [h]; exact List.mem_cons_self)
      have ih' := ih (fun v h => hno v (List.mem_cons_of_mem _ h))
      simp only [List.filter_cons]
      split
      · rw [get_cons, if_neg hak]; exact ih'
      · exact ih'
  | some d =>
    simp only
    have hin : (k, d) ∈ l := (hmem d).2 hg
    have huniq : ∀ v, (k, v) ∈ l → v = d := fun v h => by
      have := (hmem v).1 h; rw [hg] at this; injection this with this; exact this.symm
    clear hmem hg
    induction l with
    | nil => cases hin
    | cons x xs ih =>
      obtain ⟨a, b⟩ := x
      simp only [List.map_cons, List.nodup_cons] at hnd
      by_cases hak : a = k
      · subst hak
        have hb : b = d := huniq b List.mem_cons_self
        subst hb
        have hnot : ∀ v, (a, v) ∉ xs := fun v h => hnd.1 (List.mem_map.2 ⟨(a, v), h, rfl⟩)
        have hrest : Map.get (xs.filter (fun p => !isBefore s.safe p.2)) a = none := by
          clear ih hin huniq hnd
          induction xs with
          | nil => rfl
          | cons y ys ih2 =>
            obtain ⟨c, e⟩ := y
            have hca : c ≠ a := fun h => hnot e (by rw [h]; exact List.mem_cons_self)
            have := ih2 (fun v h => hnot v (List.mem_cons_of_mem _ h))
            simp only [List.filter_cons]
            split
            · rw [get_cons, if_neg hca]; exact this
            · exact this
        simp only [List.filter_cons]
        cases hbf : isBefore s.safe b with
        | true => simp [hrest]
        | false => simp [get_cons]
      · have hin' : (k, d) ∈ xs := by
          rcases List.mem_cons.1 hin with h | h
          · injection h with h1 _; exact absurd h1.symm hak
          · exact h
        have ih' := ih hnd.2 hin' (fun v h => huniq v (List.mem_cons_of_mem _ h))
        simp only [List.filter_cons]
        split
        · rw [get_cons, if_neg hak]; exact ih'
        · exact ih'

/-- **purge_local**, part 1: purging changes no live entry, no version information, and the
returned pairs are exactly the tombstones that were older than the safe cut-off of their origin;
what remains are exactly the other tombstones. -/
theorem purge_local (s : OrSwot) :
    (purgeOldDeletes s).1.entries = s.entries ∧
    (purgeOldDeletes s).1.safe = s.safe ∧ (purgeOldDeletes s).1.maxs = s.maxs ∧
    (∀ k d, (k, d) ∈ (purgeOldDeletes s).2 ↔ Map.get s.dead k = some d ∧ isBefore s.safe d = true) ∧
    (∀ k d, Map.get (purgeOldDeletes s).1.dead k = some d ↔
        Map.get s.dead k = some d ∧ isBefore s.safe d = false) := by
  refine ⟨rfl, rfl, rfl, ?_, ?_⟩
  · intro k d
    unfold purgeOldDeletes
    simp only [List.mem_filter, mem_bindings]
  · intro k d
    rw [purge_dead_get]
    cases hg : Map.get s.dead k with
    | none => simp
    | some d' =>
      cases hb : isBefore s.safe d' with
      | true =>
        simp
        constructor <;> (rintro ⟨h1, h2⟩; simp_all)
      | false =>
        simp
        constructor <;> (rintro ⟨h1, h2⟩; simp_all)

/-- Purging never changes which ids are live. -/
theorem purge_keeps_live (s : OrSwot) (k : Nat) :
    OrSwot.get (purgeOldDeletes s).1 k = OrSwot.get s k := rfl

/-- The safe cut-off of a node never decreases when an operation is applied … -/
def SafeLe (s s' : OrSwot) : Prop :=
  ∀ t, isBefore s.safe t = true → isBefore s'.safe t = true

/-- **purged_stays_refused**: after a purge, any operation from the deleting node that is not newer
than the purged delete is refused — by `will_apply`, `insert` and `delete` — in the purging state and
in every later state whose cut-offs have not gone backwards (`SafeLe`, an invariant of all
operations: see `safeLe_apply`). -/
theorem purged_stays_refused (F : Nat) (s s' : OrSwot) (k d : Nat)
    (hp : (k, d) ∈ (purgeOldDeletes s).2) (hmono : SafeLe (purgeOldDeletes s).1 s')
    (k' t src : Nat) (hn : node t = node d) (ht : t ≤ d) :
    willApply s' k' t = false ∧
    (insertWithSource F s' src k' t) = (s', false) ∧
    (deleteWithSource F s' src k' t) = (s', false) := by
  have hb := ((purge_local s).2.2.2.1 k d).1 hp
  have hbt : isBefore s.safe t = true := by
    have h2 := hb.2
    unfold isBefore at h2 ⊢
    rw [hn]
    cases hg : Map.get s.safe (node d) with
    | none => rw [hg] at h2; cases h2
    | some v => rw [hg] at h2; simp at h2 ⊢; omega
  have hbs' : isBefore s'.safe t = true := hmono t hbt
  refine ⟨by simp [willApply, hbs'], ?_, ?_⟩
  · unfold insertWithSource tryUpdateMax; simp [hbs']
  · unfold deleteWithSource tryUpdateMax; simp [hbs']

end Datacake.C08
