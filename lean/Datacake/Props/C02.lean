/-
C02 — On each node the replicated metadata and the persisted store never disagree.

Model: `Model/Keyspace.lean` (the `KeyspaceActor` handlers over the reference store, storage
failures as explicit oracle arguments).  `Agree` (`Lemmas/Keyspace.lean`) is the property: per
document id the set and the store say the same thing, with the same stamp.
-/
import Datacake.Lemmas.Keyspace
import Datacake.Lemmas.Newest
import Datacake.Props.C04
import Datacake.Lemmas.SortByTs
import Datacake.Props.C08

namespace Datacake.C02
open Datacake.Lww Datacake.OrSwot Datacake.Storage Datacake.Keyspace

theorem insert_accepted_view (F : Nat) (s : OrSwot) (src k ts : Nat) (hd : Disj s)
    (hw : willApply s k ts = true) :
    (∀ k', view (insertWithSource F s src k ts).1 k' =
      if k' = k then some (liveRec ts) else view s k') ∧ Disj (insertWithSource F s src k ts).1 := by
  obtain ⟨hb, hlt⟩ := willApply_spec s k ts hw
  obtain ⟨h1, h2, _⟩ := applyOp_step F s ⟨src, ⟨k, ts, false⟩⟩ hd hb
  simp only [applyOp, Bool.false_eq_true, if_false] at h1 h2
  refine ⟨?_, h2⟩
  intro k'
  rw [h1 k']
  by_cases e : k' = k
  · subst e
    simp only [if_true, rank, Bool.false_eq_true, if_false]
    exact join_of_lt _ _ (fun y hy => by have := hlt y hy; unfold liveRec deadRec at *; omega)
  · simp [e]

theorem delete_accepted_view (F : Nat) (s : OrSwot) (src k ts : Nat) (hd : Disj s)
    (hw : willApply s k ts = true) :
    (∀ k', view (deleteWithSource F s src k ts).1 k' =
      if k' = k then some (deadRec ts) else view s k') ∧ Disj (deleteWithSource F s src k ts).1 := by
  obtain ⟨hb, hlt⟩ := willApply_spec s k ts hw
  obtain ⟨h1, h2, _⟩ := applyOp_step F s ⟨src, ⟨k, ts, true⟩⟩ hd hb
  simp only [applyOp, if_true] at h1 h2
  refine ⟨?_, h2⟩
  intro k'
  rw [h1 k']
  by_cases e : k' = k
  · subst e
    simp only [if_true, rank]
    exact join_of_lt _ _ (fun y hy => hlt y hy)
  · simp [e]

/-- **agree_onSet**: a `Set` request — any stamp, origin, source; storage failing or not — keeps
the set and the store in agreement: the document is applied to both or to neither. -/
theorem agree_onSet (F : Nat) (n : Node) (src : Nat) (d : Doc) (fail : Bool) (h : Agree n) :
    Agree (onSet F n src d fail).1 := by
  unfold onSet
  cases hw : willApply n.set d.1 d.2.1 with
  | false => simpa using h
  | true =>
    simp only [Bool.not_true, Bool.false_eq_true, if_false]
    cases fail with
    | true => simpa using h
    | false =>
      simp only [Bool.false_eq_true, if_false]
      obtain ⟨hv, hdj⟩ := insert_accepted_view F n.set src d.1 d.2.1 h.disj hw
      refine ⟨?_, hdj, dataOk_put _ _ h.data⟩
      intro k
      rw [hv k, storeView_put, h.same k]

/-- **agree_onDel**: likewise for a `Del` request. -/
theorem agree_onDel (F : Nat) (n : Node) (src id ts : Nat) (fail : Bool) (h : Agree n) :
    Agree (onDel F n src id ts fail).1 := by
  unfold onDel
  cases hw : willApply n.set id ts with
  | false => simpa using h
  | true =>
    simp only [Bool.not_true, Bool.false_eq_true, if_false]
    cases fail with
    | true => simpa using h
    | false =>
      simp only [Bool.false_eq_true, if_false]
      obtain ⟨hv, hdj⟩ := delete_accepted_view F n.set src id ts h.disj hw
      refine ⟨?_, hdj, dataOk_tomb _ _ _ h.data⟩
      intro k
      rw [hv k, storeView_tomb, h.same k]

/-- The single-document handlers apply a mutation to both the set and the store, or to neither,
and report an error exactly when storage failed on a document that would have been applied. -/
theorem set_both_or_neither (F : Nat) (n : Node) (src : Nat) (d : Doc) (fail : Bool) (h : Agree n) :
    let r := onSet F n src d fail
    (r.1 = n ∨ (view r.1.set d.1 = some (liveRec d.2.1) ∧ storeView r.1.store d.1 = some (liveRec d.2.1))) ∧
    (r.2 ≠ .ok ↔ (willApply n.set d.1 d.2.1 = true ∧ fail = true)) := by
  unfold onSet
  cases hw : willApply n.set d.1 d.2.1 with
  | false => simp
  | true =>
    cases fail with
    | true => simp
    | false =>
      simp only [Bool.not_true, Bool.false_eq_true, if_false]
      obtain ⟨hv, _⟩ := insert_accepted_view F n.set src d.1 d.2.1 h.disj hw
      refine ⟨Or.inr ⟨by rw [hv]; simp, by rw [storeView_put]; simp⟩, by simp⟩

/-! ### Bulk requests -/

/-- LWW fold over operations with pairwise distinct keys: at most one operation touches `k`. -/
theorem lwwFrom_nodup (r : Option Nat) (ops : List Op) (k : Nat) (hnd : (ops.map (·.key)).Nodup) :
    (∀ o ∈ ops, o.key = k → C04.lwwFrom r ops k = join r (rank o)) ∧
    ((∀ o ∈ ops, o.key ≠ k) → C04.lwwFrom r ops k = r) := by
  induction ops generalizing r with
  | nil => exact ⟨fun o ho => (by cases ho), fun _ => rfl⟩
  | cons x xs ih =>
    simp only [List.map_cons, List.nodup_cons] at hnd
    simp only [C04.lwwFrom, List.foldl_cons]
    by_cases hx : x.key = k
    · simp only [if_pos hx]
      have hno : ∀ o ∈ xs, o.key ≠ k := fun o ho e => hnd.1 (List.mem_map.2 ⟨o, ho, by rw [e, hx]⟩)
      have := (ih (join r (rank x)) hnd.2).2 hno
      simp only [C04.lwwFrom] at this
      refine ⟨?_, fun h => absurd hx (h x List.mem_cons_self)⟩
      intro o ho hk
      rcases List.mem_cons.1 ho with rfl | ho
      · exact this
      · exact absurd hk (hno o ho)
    · simp only [if_neg hx]
      obtain ⟨h1, h2⟩ := ih r hnd.2
      simp only [C04.lwwFrom] at h1 h2
      refine ⟨?_, fun h => h2 (fun o ho => h o (List.mem_cons_of_mem _ ho))⟩
      intro o ho hk
      rcases List.mem_cons.1 ho with rfl | ho
      · exact absurd hk hx
      · exact h1 o ho hk

/-- The operations of a bulk request as they reach the set (after the stamp sort). -/
def toOps (src : Nat) (isDel : Bool) (l : List (Nat × Nat)) : List SrcOp :=
  l.map (fun e => ⟨src, ⟨e.1, e.2, isDel⟩⟩)

theorem fold_insert_eq (F : Nat) (s : OrSwot) (src : Nat) (l : List (Nat × Nat)) :
    l.foldl (fun s e => (insertWithSource F s src e.1 e.2).1) s = applyAll F s (toOps src false l) := by
  unfold applyAll toOps
  rw [List.foldl_map]
  rfl

theorem fold_delete_eq (F : Nat) (s : OrSwot) (src : Nat) (l : List (Nat × Nat)) :
    l.foldl (fun s e => (deleteWithSource F s src e.1 e.2).1) s = applyAll F s (toOps src true l) := by
  unfold applyAll toOps
  rw [List.foldl_map]
  rfl

/-- Set side of a bulk request: accepted entries with pairwise distinct ids, each of which
`will_apply` admitted against the initial state, leave exactly their own record on their id. -/
theorem view_fold (F : Nat) (s : OrSwot) (src : Nat) (isDel : Bool) (l : List (Nat × Nat))
    (hd : Disj s) (hnd : (l.map (·.1)).Nodup) (hw : ∀ e ∈ l, willApply s e.1 e.2 = true)
    (hacc : C04.Accepted F s (toOps src isDel l)) (k : Nat) :
    (∀ e ∈ l, e.1 = k →
      view (applyAll F s (toOps src isDel l)) k = some (if isDel then deadRec e.2 else liveRec e.2)) ∧
    ((∀ e ∈ l, e.1 ≠ k) → view (applyAll F s (toOps src isDel l)) k = view s k) ∧
    Disj (applyAll F s (toOps src isDel l)) := by
  obtain ⟨hv, hdj⟩ := C04.apply_ops_lww_from F (toOps src isDel l) s hd hacc
  have hnd' : (((toOps src isDel l).map (·.op)).map (·.key)).Nodup := by
    simp only [toOps, List.map_map]; exact hnd
  obtain ⟨h1, h2⟩ := lwwFrom_nodup (view s k) ((toOps src isDel l).map (·.op)) k hnd'
  refine ⟨?_, ?_, hdj⟩
  · intro e he hk
    rw [hv k, h1 ⟨e.1, e.2, isDel⟩ (by simp only [toOps, List.map_map, List.mem_map]; exact ⟨e, he, rfl⟩) hk]
    obtain ⟨_, hlt⟩ := willApply_spec s e.1 e.2 (hw e he)
    rw [hk] at hlt
    cases isDel with
    | true => simp only [rank, if_true]; exact join_of_lt _ _ hlt
    | false =>
      simp only [rank, Bool.false_eq_true, if_false]
      exact join_of_lt _ _ (fun y hy => by have := hlt y hy; unfold liveRec deadRec at *; omega)
  · intro hno
    rw [hv k, h2 (fun o ho => by
      simp only [toOps, List.map_map, List.mem_map] at ho
      obtain ⟨e, he, rfl⟩ := ho
      exact hno e he)]

/-- Store side of a bulk put of documents with pairwise distinct ids. -/
theorem store_fold_put (ks : Storage.Keyspace) (w : List Doc) (hnd : (w.map (·.1)).Nodup) (hd : DataOk ks)
    (k : Nat) :
    (∀ d ∈ w, d.1 = k → storeView (w.foldl storePut ks) k = some (liveRec d.2.1)) ∧
    ((∀ d ∈ w, d.1 ≠ k) → storeView (w.foldl storePut ks) k = storeView ks k) ∧
    DataOk (w.foldl storePut ks) := by
  obtain ⟨h0, h1, h2⟩ := foldl_keylocal (fun ks k => storeView ks k) (fun d : Doc => d.1) storePut
    (fun d _ => some (liveRec d.2.1)) DataOk (fun s d h => dataOk_put s d h)
    (fun s d k _ => storeView_put s d k) w hnd ks hd k
  exact ⟨fun d hd hk => h2 d hd hk, h1, h0⟩

theorem store_fold_tomb (ks : Storage.Keyspace) (w : List (Nat × Nat)) (hnd : (w.map (·.1)).Nodup)
    (hd : DataOk ks) (k : Nat) :
    (∀ d ∈ w, d.1 = k → storeView (w.foldl (fun ks d => storeTomb ks d.1 d.2) ks) k = some (deadRec d.2)) ∧
    ((∀ d ∈ w, d.1 ≠ k) → storeView (w.foldl (fun ks d => storeTomb ks d.1 d.2) ks) k = storeView ks k) ∧
    DataOk (w.foldl (fun ks d => storeTomb ks d.1 d.2) ks) := by
  obtain ⟨h0, h1, h2⟩ := foldl_keylocal (fun ks k => storeView ks k) (fun d : Nat × Nat => d.1)
    (fun ks d => storeTomb ks d.1 d.2)
    (fun d _ => some (deadRec d.2)) DataOk (fun s d h => dataOk_tomb s d.1 d.2 h)
    (fun s d k _ => storeView_tomb s d.1 d.2 k) w hnd ks hd k
  exact ⟨fun d hd hk => h2 d hd hk, h1, h0⟩

/-- What the bulk handlers need: the documents storage wrote (`w`) and the entries applied to the
set (`l`) are the same `(id, stamp)` pairs (as sets), with pairwise distinct ids. -/
theorem agree_bulk (F : Nat) (n : Node) (src : Nat) (isDel : Bool)
    (l : List (Nat × Nat)) (set' : OrSwot) (store' : Storage.Keyspace) (h : Agree n)
    (hset : set' = applyAll F n.set (toOps src isDel l))
    (hnd : (l.map (·.1)).Nodup) (hw : ∀ e ∈ l, willApply n.set e.1 e.2 = true)
    (hacc : C04.Accepted F n.set (toOps src isDel l))
    (hstoreYes : ∀ k, ∀ e ∈ l, e.1 = k → storeView store' k = some (if isDel then deadRec e.2 else liveRec e.2))
    (hstoreNo : ∀ k, (∀ e ∈ l, e.1 ≠ k) → storeView store' k = storeView n.store k)
    (hdata : DataOk store') :
    Agree { set := set', store := store' } := by
  refine ⟨?_, ?_, hdata⟩
  · intro k
    obtain ⟨v1, v2, _⟩ := view_fold F n.set src isDel l h.disj hnd hw hacc k
    simp only [hset]
    by_cases hex : ∃ e ∈ l, e.1 = k
    · obtain ⟨e, he, hk⟩ := hex
      rw [v1 e he hk, hstoreYes k e he hk]
    · have hno : ∀ e ∈ l, e.1 ≠ k := fun e he hk => hex ⟨e, he, hk⟩
      rw [v2 hno, hstoreNo k hno, h.same k]
  · simp only [hset]
    exact (view_fold F n.set src isDel l h.disj hnd hw hacc 0).2.2

theorem insertByTs_perm (x : Nat × Nat) (l : List (Nat × Nat)) : (insertByTs x l).Perm (x :: l) := by
  induction l with
  | nil => exact List.Perm.refl _
  | cons y ys ih =>
    unfold insertByTs
    split
    · exact List.Perm.refl _
    · exact (List.Perm.cons y ih).trans (List.Perm.swap x y ys)

theorem sortByTs_perm (l : List (Nat × Nat)) : (sortByTs l).Perm l := by
  induction l with
  | nil => exact List.Perm.refl _
  | cons x xs ih =>
    simp only [sortByTs, List.foldr_cons] at ih ⊢
    exact (insertByTs_perm x _).trans (List.Perm.cons x ih)

theorem pick_sublist {α : Type} (l : List α) (idxs : List Nat) : (pick l idxs).Sublist l := by
  unfold pick
  have h := List.Sublist.map Prod.fst (List.filter_sublist (l := l.zipIdx) (p := fun p => idxs.contains p.2))
  rw [List.zipIdx_map_fst] at h
  exact h

theorem eq_of_nodup_map {α : Type} (f : α → Nat) (l : List α) (h : (l.map f).Nodup) (a b : α)
    (ha : a ∈ l) (hb : b ∈ l) (e : f a = f b) : a = b := by
  induction l with
  | nil => cases ha
  | cons x xs ih =>
    simp only [List.map_cons, List.nodup_cons] at h
    rcases List.mem_cons.1 ha with ea | ha' <;> rcases List.mem_cons.1 hb with eb | hb'
    · rw [ea, eb]
    · exact absurd (List.mem_map.2 ⟨b, hb', by rw [← e, ea]⟩) h.1
    · exact absurd (List.mem_map.2 ⟨a, ha', by rw [e, eb]⟩) h.1
    · exact ih h.2 ha' hb'

/-- Pairwise distinct document ids in a bulk request (what the public `put_many` / `del_many`
produce; defect D13 lives outside this hypothesis). -/
def NoDupIds {α : Type} (docs : List (Nat × α)) : Prop := (docs.map (·.1)).Nodup

/-- **agree_onMultiSetCore**: a `MultiSet` request with pairwise distinct ids — storage succeeding, or
failing after having written an arbitrary sub-list which it reports — keeps set and store in
agreement: exactly the documents storage reports as written become visible in the set.
`hacc`: none of the applied entries is refused as too old when its turn comes (it was not too old
when the request started: `will_apply`; see `DESIGN.md` C02 for when this is automatic). -/
theorem agree_onMultiSetCore (F : Nat) (n : Node) (src : Nat) (docs : List Doc) (written : Option (List Nat))
    (h : Agree n) (hnd : NoDupIds docs)
    (hacc : ∀ l, (∀ e ∈ l, e ∈ (docs.filter (fun d => willApply n.set d.1 d.2.1)).map (fun d => (d.1, d.2.1))) →
      (l.map (·.1)).Nodup → l.Pairwise (fun a b => a.2 ≤ b.2) → C04.Accepted F n.set (toOps src false l)) :
    Agree (onMultiSetCore F n src docs written).1 := by
  unfold onMultiSetCore
  simp only
  generalize hvalid : docs.filter (fun d => willApply n.set d.1 d.2.1) = valid at hacc
  have hvnd : (valid.map (·.1)).Nodup := by
    rw [← hvalid]; exact List.Nodup.sublist (List.Sublist.map _ List.filter_sublist) hnd
  have hvw : ∀ d ∈ valid, willApply n.set d.1 d.2.1 = true := by
    intro d hd; rw [← hvalid] at hd; simpa using (List.mem_filter.1 hd).2
  have hent := sortByTs_perm (valid.map (fun d => (d.1, d.2.1)))
  have hentnd : ((sortByTs (valid.map (fun d => (d.1, d.2.1)))).map (·.1)).Nodup := by
    rw [(hent.map _).nodup_iff, List.map_map]; exact hvnd
  have hentmem : ∀ e, e ∈ sortByTs (valid.map (fun d => (d.1, d.2.1))) ↔ ∃ d ∈ valid, (d.1, d.2.1) = e := by
    intro e; rw [hent.mem_iff, List.mem_map]
  cases written with
  | none =>
    simp only
    rw [fold_insert_eq]
    refine agree_bulk F n src false _ _ _ h rfl hentnd ?_ (hacc _ (fun e he => hent.mem_iff.1 he) hentnd (sortByTs_sorted _)) ?_ ?_ ?_
    · intro e he; obtain ⟨d, hd, rfl⟩ := (hentmem e).1 he; exact hvw d hd
    · intro k e he hk
      obtain ⟨d, hd, rfl⟩ := (hentmem e).1 he
      simpa using (store_fold_put n.store valid hvnd h.data k).1 d hd hk
    · intro k hno
      exact (store_fold_put n.store valid hvnd h.data k).2.1 (fun d hd hk => hno (d.1, d.2.1) ((hentmem _).2 ⟨d, hd, rfl⟩) hk)
    · exact (store_fold_put n.store valid hvnd h.data 0).2.2
  | some idxs =>
    simp only
    rw [fold_insert_eq]
    have hsub := pick_sublist valid idxs
    generalize pick valid idxs = w at hsub
    have hwnd : (w.map (·.1)).Nodup := List.Nodup.sublist (List.Sublist.map _ hsub) hvnd
    -- the entries applied to the set are exactly the written documents
    have hfmem : ∀ e, e ∈ (sortByTs (valid.map (fun d => (d.1, d.2.1)))).filter (fun e => (w.map (·.1)).contains e.1)
        ↔ ∃ d ∈ w, (d.1, d.2.1) = e := by
      intro e
      rw [List.mem_filter, hentmem]
      constructor
      · rintro ⟨⟨d, hd, rfl⟩, hc⟩
        simp only [List.contains_iff_mem, List.mem_map] at hc
        obtain ⟨d', hd', hid⟩ := hc
        -- same id within `valid` means same document
        have hd'v := hsub.subset hd'
        have : d' = d := eq_of_nodup_map (·.1) valid hvnd d' d hd'v hd hid
        exact ⟨d', hd', by rw [this]⟩
      · rintro ⟨d, hd, rfl⟩
        exact ⟨⟨d, hsub.subset hd, rfl⟩, by simp only [List.contains_iff_mem, List.mem_map]; exact ⟨d, hd, rfl⟩⟩
    have hfnd : (((sortByTs (valid.map (fun d => (d.1, d.2.1)))).filter (fun e => (w.map (·.1)).contains e.1)).map (·.1)).Nodup :=
      List.Nodup.sublist (List.Sublist.map _ List.filter_sublist) hentnd
    refine agree_bulk F n src false _ _ _ h rfl hfnd ?_
      (hacc _ (fun e he => by
        obtain ⟨d, hd, rfl⟩ := (hfmem e).1 he
        exact List.mem_map.2 ⟨d, hsub.subset hd, rfl⟩) hfnd ((sortByTs_sorted _).filter _)) ?_ ?_ ?_
    · intro e he; obtain ⟨d, hd, rfl⟩ := (hfmem e).1 he; exact hvw d (hsub.subset hd)
    · intro k e he hk
      obtain ⟨d, hd, rfl⟩ := (hfmem e).1 he
      simpa using (store_fold_put n.store w hwnd h.data k).1 d hd hk
    · intro k hno
      exact (store_fold_put n.store w hwnd h.data k).2.1 (fun d hd hk => hno (d.1, d.2.1) ((hfmem _).2 ⟨d, hd, rfl⟩) hk)
    · exact (store_fold_put n.store w hwnd h.data 0).2.2

/-- **agree_onMultiDelCore**: a `MultiDel` request with pairwise distinct ids — storage succeeding, or
failing after having written an arbitrary sub-list which it reports — keeps set and store in
agreement: exactly the tombstones storage reports as written become tombstones of the set.
`hacc`: none of the applied entries is refused as too old when its turn comes (it was not too old
when the request started: `will_apply`; see `DESIGN.md` C02 for when this is automatic). -/
theorem agree_onMultiDelCore (F : Nat) (n : Node) (src : Nat) (docs : List (Nat × Nat)) (written : Option (List Nat))
    (h : Agree n) (hnd : NoDupIds docs)
    (hacc : ∀ l, (∀ e ∈ l, e ∈ (docs.filter (fun d => willApply n.set d.1 d.2)).map (fun d => (d.1, d.2))) →
      (l.map (·.1)).Nodup → l.Pairwise (fun a b => a.2 ≤ b.2) → C04.Accepted F n.set (toOps src true l)) :
    Agree (onMultiDelCore F n src docs written).1 := by
  unfold onMultiDelCore
  simp only
  generalize hvalid : docs.filter (fun d => willApply n.set d.1 d.2) = valid at hacc
  have hvnd : (valid.map (·.1)).Nodup := by
    rw [← hvalid]; exact List.Nodup.sublist (List.Sublist.map _ List.filter_sublist) hnd
  have hvw : ∀ d ∈ valid, willApply n.set d.1 d.2 = true := by
    intro d hd; rw [← hvalid] at hd; simpa using (List.mem_filter.1 hd).2
  have hent := sortByTs_perm valid
  have hentnd : ((sortByTs valid).map (·.1)).Nodup := by
    rw [(hent.map _).nodup_iff]; exact hvnd
  have hentmem : ∀ e, e ∈ sortByTs valid ↔ ∃ d ∈ valid, (d.1, d.2) = e := by
    intro e; rw [hent.mem_iff]
    constructor
    · intro h; exact ⟨e, h, rfl⟩
    · rintro ⟨d, hd, rfl⟩; exact hd
  cases written with
  | none =>
    simp only
    rw [fold_delete_eq]
    refine agree_bulk F n src true _ _ _ h rfl hentnd ?_ (hacc _ (fun e he => List.mem_map.2 ⟨e, hent.mem_iff.1 he, rfl⟩) hentnd (sortByTs_sorted _)) ?_ ?_ ?_
    · intro e he; obtain ⟨d, hd, rfl⟩ := (hentmem e).1 he; exact hvw d hd
    · intro k e he hk
      obtain ⟨d, hd, rfl⟩ := (hentmem e).1 he
      simpa using (store_fold_tomb n.store valid hvnd h.data k).1 d hd hk
    · intro k hno
      exact (store_fold_tomb n.store valid hvnd h.data k).2.1 (fun d hd hk => hno (d.1, d.2) ((hentmem _).2 ⟨d, hd, rfl⟩) hk)
    · exact (store_fold_tomb n.store valid hvnd h.data 0).2.2
  | some idxs =>
    simp only
    rw [fold_delete_eq]
    have hsub := pick_sublist valid idxs
    generalize pick valid idxs = w at hsub
    have hwnd : (w.map (·.1)).Nodup := List.Nodup.sublist (List.Sublist.map _ hsub) hvnd
    -- the entries applied to the set are exactly the written documents
    have hfmem : ∀ e, e ∈ (sortByTs valid).filter (fun e => (w.map (·.1)).contains e.1)
        ↔ ∃ d ∈ w, (d.1, d.2) = e := by
      intro e
      rw [List.mem_filter, hentmem]
      constructor
      · rintro ⟨⟨d, hd, rfl⟩, hc⟩
        simp only [List.contains_iff_mem, List.mem_map] at hc
        obtain ⟨d', hd', hid⟩ := hc
        -- same id within `valid` means same document
        have hd'v := hsub.subset hd'
        have : d' = d := eq_of_nodup_map (·.1) valid hvnd d' d hd'v hd hid
        exact ⟨d', hd', by rw [this]⟩
      · rintro ⟨d, hd, rfl⟩
        exact ⟨⟨d, hsub.subset hd, rfl⟩, by simp only [List.contains_iff_mem, List.mem_map]; exact ⟨d, hd, rfl⟩⟩
    have hfnd : (((sortByTs valid).filter (fun e => (w.map (·.1)).contains e.1)).map (·.1)).Nodup :=
      List.Nodup.sublist (List.Sublist.map _ List.filter_sublist) hentnd
    refine agree_bulk F n src true _ _ _ h rfl hfnd ?_
      (hacc _ (fun e he => by
        obtain ⟨d, hd, rfl⟩ := (hfmem e).1 he
        exact List.mem_map.2 ⟨d, hsub.subset hd, rfl⟩) hfnd ((sortByTs_sorted _).filter _)) ?_ ?_ ?_
    · intro e he; obtain ⟨d, hd, rfl⟩ := (hfmem e).1 he; exact hvw d (hsub.subset hd)
    · intro k e he hk
      obtain ⟨d, hd, rfl⟩ := (hfmem e).1 he
      simpa using (store_fold_tomb n.store w hwnd h.data k).1 d hd hk
    · intro k hno
      exact (store_fold_tomb n.store w hwnd h.data k).2.1 (fun d hd hk => hno (d.1, d.2) ((hfmem _).2 ⟨d, hd, rfl⟩) hk)
    · exact (store_fold_tomb n.store w hwnd h.data 0).2.2


/-! ### Purge -/

theorem storeView_eraseRow (ks : Storage.Keyspace) (id k : Nat) :
    storeView { ks with rows := aerase ks.rows id } k = if k = id then none else storeView ks k := by
  unfold storeView
  simp only [aget_aerase]
  by_cases h : k = id <;> simp [h]

/-- Erasing tombstone rows keeps "bytes exactly for live rows". -/
theorem dataOk_eraseRow (ks : Storage.Keyspace) (id : Nat) (h : DataOk ks)
    (htomb : ∀ ts, aget ks.rows id ≠ some (ts, false)) :
    DataOk { ks with rows := aerase ks.rows id } := by
  intro k
  simp only [aget_aerase]
  by_cases e : k = id
  · subst e
    simp only [if_true]
    constructor
    · intro hs
      obtain ⟨ts, hts⟩ := (h k).1 hs
      exact absurd hts (htomb ts)
    · rintro ⟨ts, hts⟩; cases hts
  · simp only [if_neg e]; exact h k

theorem rawTombstones_get (dead : Map) (l : List (Nat × Nat)) (hnd : (l.map (·.1)).Nodup) (k : Nat) :
    (∀ p ∈ l, p.1 = k → Map.get (l.foldl (fun d p => Map.set d p.1 p.2) dead) k = some p.2) ∧
    ((∀ p ∈ l, p.1 ≠ k) → Map.get (l.foldl (fun d p => Map.set d p.1 p.2) dead) k = Map.get dead k) := by
  obtain ⟨_, h1, h2⟩ := foldl_keylocal (fun (d : Map) k => Map.get d k) (fun p : Nat × Nat => p.1)
    (fun d p => Map.set d p.1 p.2) (fun p _ => some p.2) (fun _ => True) (fun _ _ _ => trivial)
    (fun d p k _ => by simp only [Map.get_set]) l hnd dead trivial k
  exact ⟨fun p hp hk => h2 p hp hk, h1⟩

theorem erase_fold (l : List (Nat × Nat)) : ∀ (ks : Storage.Keyspace),
    (∀ p ∈ l, ∀ ts, aget ks.rows p.1 ≠ some (ts, false)) → DataOk ks →
    DataOk (l.foldl (fun ks p => { ks with rows := aerase ks.rows p.1 }) ks) ∧
    ∀ k, storeView (l.foldl (fun ks p => { ks with rows := aerase ks.rows p.1 }) ks) k =
      if (∃ p ∈ l, p.1 = k) then none else storeView ks k := by
  induction l with
  | nil => intro ks _ hd; exact ⟨hd, fun k => by simp⟩
  | cons x xs ih =>
    intro ks hrows hd
    simp only [List.foldl_cons]
    have hd1 := dataOk_eraseRow ks x.1 hd (hrows x List.mem_cons_self)
    have hrows1 : ∀ p ∈ xs, ∀ ts, aget ({ ks with rows := aerase ks.rows x.1 } : Storage.Keyspace).rows p.1 ≠ some (ts, false) := by
      intro p hp ts
      simp only [aget_aerase]
      by_cases e : p.1 = x.1
      · simp [e]
      · simp only [if_neg e]; exact hrows p (List.mem_cons_of_mem _ hp) ts
    obtain ⟨r1, r2⟩ := ih _ hrows1 hd1
    refine ⟨r1, ?_⟩
    intro k
    rw [r2 k, storeView_eraseRow]
    by_cases e1 : ∃ p ∈ xs, p.1 = k
    · obtain ⟨p, hp, hk⟩ := e1
      rw [if_pos ⟨p, hp, hk⟩, if_pos ⟨p, List.mem_cons_of_mem _ hp, hk⟩]
    · rw [if_neg e1]
      by_cases e2 : k = x.1
      · rw [if_pos e2, if_pos ⟨x, List.mem_cons_self, e2.symm⟩]
      · rw [if_neg e2, if_neg]
        rintro ⟨p, hp, hk⟩
        rcases List.mem_cons.1 hp with rfl | hp
        · exact e2 hk.symm
        · exact e1 ⟨p, hp, hk⟩

/-- **agree_onPurge**: `PurgeDeletes` — storage removing all, none, or an arbitrary reported
sub-list of the purged tombstones — keeps the set and the store in agreement: a tombstone
disappears from both or stays in both. -/
theorem agree_onPurge (n : Node) (removed : Option (List Nat)) (h : Agree n) :
    Agree (onPurge n removed).1 := by
  obtain ⟨hE, hS, hM, hP, hD⟩ := C08.purge_local n.set
  have hdeadget := C08.purge_dead_get n.set
  have hbnd : (((purgeOldDeletes n.set).2).map (·.1)).Nodup := by
    unfold purgeOldDeletes
    exact List.Nodup.sublist (List.Sublist.map _ List.filter_sublist) (Map.bindings_nodup _)
  -- a purged key is a tombstone on both sides
  have hpt : ∀ k d, (k, d) ∈ (purgeOldDeletes n.set).2 →
      Map.get n.set.entries k = none ∧ Map.get n.set.dead k = some d ∧ aget n.store.rows k = some (d, true) := by
    intro k d hp
    have hdk := ((hP k d).1 hp).1
    have hen : Map.get n.set.entries k = none := by
      rcases h.disj k with e | e
      · exact e
      · rw [e] at hdk; cases hdk
    refine ⟨hen, hdk, ?_⟩
    have := h.same k
    rw [view_of_gets, hen, hdk] at this
    unfold storeView at this
    cases hr : aget n.store.rows k with
    | none => rw [hr] at this; cases this
    | some v =>
      obtain ⟨ts, tb⟩ := v
      rw [hr] at this
      cases tb <;> simp [liveRec, deadRec] at this
      · omega
      · have : ts = d := by omega
        rw [this]
  unfold onPurge
  generalize purgeOldDeletes n.set = pr at *
  obtain ⟨s1, purged⟩ := pr
  simp only at hE hS hM hP hD hbnd hpt hdeadget ⊢
  have hrowsP : ∀ l : List (Nat × Nat), (∀ p ∈ l, p ∈ purged) → ∀ p ∈ l, ∀ ts, aget n.store.rows p.1 ≠ some (ts, false) := by
    intro l hsub p hp ts
    rw [(hpt p.1 p.2 (hsub p hp)).2.2]; simp
  have hs1view : ∀ k, view s1 k = if (∃ p ∈ purged, p.1 = k) then none else view n.set k := by
    intro k
    rw [view_of_gets, view_of_gets, hE, hdeadget k]
    by_cases e : ∃ p ∈ purged, p.1 = k
    · obtain ⟨p, hp, hk⟩ := e
      obtain ⟨h1, h2, _⟩ := hpt p.1 p.2 hp
      rw [if_pos ⟨p, hp, hk⟩, ← hk, h1, h2]
      simp [((hP p.1 p.2).1 hp).2]
    · rw [if_neg e]
      cases hg : Map.get n.set.dead k with
      | none => rfl
      | some d =>
        cases hb : isBefore n.set.safe d with
        | false => simp [hb]
        | true => exact absurd ⟨(k, d), (hP k d).2 ⟨hg, hb⟩, rfl⟩ e
  have hs1disj : Disj s1 := by
    intro k
    rcases h.disj k with e | e
    · left; rw [hE]; exact e
    · right; rw [hdeadget k, e]
  cases removed with
  | none =>
    simp only
    obtain ⟨d1, d2⟩ := erase_fold purged n.store (hrowsP purged (fun _ hp => hp)) h.data
    refine ⟨?_, hs1disj, d1⟩
    intro k
    rw [hs1view k, d2 k, h.same k]
  | some idxs =>
    simp only
    have hsub := pick_sublist purged idxs
    generalize pick purged idxs = done at hsub
    obtain ⟨d1, d2⟩ := erase_fold done n.store (hrowsP done (fun p hp => hsub.subset hp)) h.data
    have hrnd : ((purged.filter (fun p => !(done.map (·.1)).contains p.1)).map (·.1)).Nodup :=
      List.Nodup.sublist (List.Sublist.map _ List.filter_sublist) hbnd
    refine ⟨?_, ?_, d1⟩
    · intro k
      obtain ⟨g1, g2⟩ := rawTombstones_get s1.dead _ hrnd k
      rw [d2 k, view_of_gets]
      simp only [addRawTombstones]
      by_cases edone : ∃ p ∈ done, p.1 = k
      · -- removed from the store and not re-added to the set
        obtain ⟨p, hp, hk⟩ := edone
        rw [if_pos ⟨p, hp, hk⟩]
        have hpp := hsub.subset hp
        have hno : ∀ q ∈ purged.filter (fun p => !(done.map (·.1)).contains p.1), q.1 ≠ k := by
          intro q hq hqk
          have := (List.mem_filter.1 hq).2
          simp only [Bool.not_eq_true', List.contains_eq_mem, List.mem_map, decide_eq_false_iff_not] at this
          exact this ⟨p, hp, by rw [hk, hqk]⟩
        rw [g2 hno]
        have := hs1view k
        rw [if_pos ⟨p, hpp, hk⟩, view_of_gets] at this
        exact this
      · rw [if_neg edone]
        by_cases epur : ∃ p ∈ purged, p.1 = k
        · -- purged from the set but the removal failed: re-added with its stamp
          obtain ⟨p, hp, hk⟩ := epur
          have hin : p ∈ purged.filter (fun p => !(done.map (·.1)).contains p.1) := by
            rw [List.mem_filter]
            refine ⟨hp, ?_⟩
            simp only [Bool.not_eq_true', List.contains_eq_mem, List.mem_map, decide_eq_false_iff_not]
            rintro ⟨q, hq, hqk⟩
            exact edone ⟨q, hq, by rw [hqk, hk]⟩
          obtain ⟨h1, _, h3⟩ := hpt p.1 p.2 hp
          rw [g1 p hin hk, hE, ← hk, h1]
          unfold storeView; rw [h3]
        · have hno : ∀ q ∈ purged.filter (fun p => !(done.map (·.1)).contains p.1), q.1 ≠ k :=
            fun q hq hqk => epur ⟨q, (List.mem_filter.1 hq).1, hqk⟩
          rw [g2 hno, ← view_of_gets s1 k, hs1view k, if_neg epur, h.same k]
    · intro k
      simp only [addRawTombstones]
      rcases h.disj k with e | e
      · left; rw [hE]; exact e
      · right
        obtain ⟨_, g2⟩ := rawTombstones_get s1.dead _ hrnd k
        have hno : ∀ q ∈ purged.filter (fun p => !(done.map (·.1)).contains p.1), q.1 ≠ k := by
          intro q hq hqk
          have := (hpt q.1 q.2 (List.mem_filter.1 hq).1).2.1
          rw [hqk, e] at this; cases this
        rw [g2 hno, hdeadget k, e]

/-! ### Every request history -/

/-- A mutation request reaching a node, with the behaviour of storage during it. -/
inductive Req where
  | set (src : Nat) (d : Doc) (fail : Bool)
  | del (src id ts : Nat) (fail : Bool)
  | mset (src : Nat) (docs : List Doc) (written : Option (List Nat))
  | mdel (src : Nat) (docs : List (Nat × Nat)) (written : Option (List Nat))
  | purge (removed : Option (List Nat))

def handle (F : Nat) (n : Node) : Req → Node
  | .set src d fail => (onSet F n src d fail).1
  | .del src id ts fail => (onDel F n src id ts fail).1
  | .mset src docs w => (onMultiSet F n src docs w).1
  | .mdel src docs w => (onMultiDel F n src docs w).1
  | .purge r => (onPurge n r).1

/-- Side conditions of the bulk requests, evaluated at the state in which they arrive (discharged
in `Props/C02b.lean`).  Since fix D13 a request may name a document any number of times. -/
def ReqOk (F : Nat) (n : Node) : Req → Prop
  | .mset src docs _ =>
      ∀ l, (∀ e ∈ l, e ∈ ((newest (fun (v : Nat × List Nat) => v.1) docs).filter (fun d => willApply n.set d.1 d.2.1)).map (fun d => (d.1, d.2.1))) →
        (l.map (·.1)).Nodup → l.Pairwise (fun a b => a.2 ≤ b.2) → C04.Accepted F n.set (toOps src false l)
  | .mdel src docs _ =>
      ∀ l, (∀ e ∈ l, e ∈ ((newest (fun (t : Nat) => t) docs).filter (fun d => willApply n.set d.1 d.2)).map (fun d => (d.1, d.2))) →
        (l.map (·.1)).Nodup → l.Pairwise (fun a b => a.2 ≤ b.2) → C04.Accepted F n.set (toOps src true l)
  | _ => True

def ReqsOk (F : Nat) : Node → List Req → Prop
  | _, [] => True
  | n, r :: rs => ReqOk F n r ∧ ReqsOk F (handle F n r) rs

theorem agree_handle (F : Nat) (n : Node) (r : Req) (h : Agree n) (hok : ReqOk F n r) :
    Agree (handle F n r) := by
  cases r with
  | set src d fail => exact agree_onSet F n src d fail h
  | del src id ts fail => exact agree_onDel F n src id ts fail h
  | mset src docs w => exact agree_onMultiSetCore F n src _ w h (newest_nodup _ docs) hok
  | mdel src docs w => exact agree_onMultiDelCore F n src _ w h (newest_nodup _ docs) hok
  | purge r => exact agree_onPurge n r h

/-- **agree_onMultiSet**: the `MultiSet` handler, for ANY request — a document may be named any
number of times, in any stamp order (fix D13) — keeps set and store in agreement. -/
theorem agree_onMultiSet (F : Nat) (n : Node) (src : Nat) (docs : List Doc) (written : Option (List Nat))
    (h : Agree n) (hok : ReqOk F n (.mset src docs written)) :
    Agree (onMultiSet F n src docs written).1 :=
  agree_handle F n (.mset src docs written) h hok

/-- **agree_onMultiDel**: the same for `MultiDel`. -/
theorem agree_onMultiDel (F : Nat) (n : Node) (src : Nat) (docs : List (Nat × Nat)) (written : Option (List Nat))
    (h : Agree n) (hok : ReqOk F n (.mdel src docs written)) :
    Agree (onMultiDel F n src docs written).1 :=
  agree_handle F n (.mdel src docs written) h hok

/-- **agree_reachable**: after every completed request of every history — single or bulk, any
stamps, origins and sources, in any arrival order, with storage failing at any of the modelled
points — the set and the store of the node agree. -/
theorem agree_reachable (F : Nat) (reqs : List Req) (n : Node) (h : Agree n) (hok : ReqsOk F n reqs) :
    Agree (reqs.foldl (handle F) n) := by
  induction reqs generalizing n with
  | nil => exact h
  | cons r rs ih => exact ih _ (agree_handle F n r h hok.1) hok.2

theorem agree_empty : Agree {} :=
  ⟨fun _ => rfl, fun _ => Or.inl rfl, fun _ => ⟨fun h => (by cases h), fun ⟨_, h⟩ => (by cases h)⟩⟩

/-! ### Witnesses -/

/-- Defect D1 seen from the actor (pinned acceptance rule): `Set(k1 @5000 s)` then `Set(k2 @4000 s)`,
same origin, same source: `will_apply` says yes, storage is written, the set refuses — the store
holds document 2, the set does not. -/
theorem legacy_counterexample :
    let t1 := Ts.pack 5000000 0 0
    let t2 := Ts.pack 4000000 0 0
    let s1 := (insertWithSourceLegacy 3600000 (OrSwot.empty 2) 0 1 t1).1
    willApply s1 2 t2 = true ∧
    view (insertWithSourceLegacy 3600000 s1 0 2 t2).1 2 = none ∧
    storeView (storePut (storePut {} (1, t1, [])) (2, t2, [])) 2 = some (liveRec t2) := by
  decide

/-- Defect D13 (pinned handler = `onMultiSetCore` on the raw request): a bulk request carrying one
id twice with descending stamps — storage applies in request order (the older stamp last), the set
in stamp order (the newer last).  A replica receives such a request when two overlapping mutations
of one key registered with the distributor out of order.  The current handler (`onMultiSet`, which
keeps the newest entry per document first) leaves set and store in agreement on the newer one. -/
theorem dup_ids_descending_disagree :
    let t1 := Ts.pack 5000000 0 0
    let t2 := Ts.pack 5000004 0 0
    let n := (onMultiSetCore 3600000 {} 0 [(7, t2, [2]), (7, t1, [1])] none).1
    let m := (onMultiSet 3600000 {} 0 [(7, t2, [2]), (7, t1, [1])] none).1
    view n.set 7 = some (liveRec t2) ∧ storeView n.store 7 = some (liveRec t1) ∧
    view m.set 7 = some (liveRec t2) ∧ storeView m.store 7 = some (liveRec t2) := by
  decide

/-- Non-vacuity: a concrete failing bulk request satisfies the side conditions, and the handler
makes exactly the reported document visible. -/
example :
    let t1 := Ts.pack 5000000 0 1
    let t2 := Ts.pack 5000004 0 2
    let r := onMultiSetCore 3600000 {} 0 [(1, t1, [1]), (2, t2, [2])] (some [1])
    r.2 = .err [2] ∧ view r.1.set 2 = some (liveRec t2) ∧ view r.1.set 1 = none ∧
    storeView r.1.store 2 = some (liveRec t2) ∧ storeView r.1.store 1 = none := by
  decide

end Datacake.C02
