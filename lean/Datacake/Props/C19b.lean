/-
C19, the envelope of a `GetState` reply at the level of bytes (`Model/Envelope.lean`): what the
asking node reads is what the serving node put in - timestamp, change stamp and the nested state
bytes, unchanged, for states of any size below 2 GiB, however the reply is cut on the wire
(`getState_exact`); and an envelope that declares its nested bytes outside the message, behind the
root or at a misplaced root is NOT used (`bogus_len_refused`, `forward_ptr_refused`,
`misplaced_envelope_refused` - the reading `check_archived_root` allows since fix D24).  Equal
nested bytes decode to equal maps (the codec assumption that remains), and equal maps are
observably the same set for ever (`Props/C19.lean: obs_equiv_forever`).
-/
import Datacake.Model.Envelope
import Datacake.Props.C12b
import Datacake.Props.C19

namespace Datacake.C19b
open Datacake.Rpc Datacake.Exchange Datacake.Envelope Datacake.C12 Datacake.C12b Datacake.OrSwot

theorem pad8_lt (n : Nat) : pad8 n < 8 := by unfold pad8; omega
theorem pad8_aligned (n : Nat) : (n + pad8 n) % 8 = 0 := by unfold pad8; omega

theorem fromLe64_le64 (v : Nat) (h : v < 18446744073709551616) : fromLe64 (le64 v) = v := by
  unfold fromLe64 le64
  have h1 : (le32 (v % 4294967296) ++ le32 (v / 4294967296)).take 4 = le32 (v % 4294967296) := by simp [le32]
  have h2 : (le32 (v % 4294967296) ++ le32 (v / 4294967296)).drop 4 = le32 (v / 4294967296) := by simp [le32]
  rw [h1, h2, fromLe32_le32 _ (by omega), fromLe32_le32 _ (by omega)]
  omega

/-- The envelope has room for its root and the root is aligned: `DataView::using` accepts the frame. -/
theorem archiveEnv_shape (ts lu : Nat) (set : List Nat) :
    ENV_FIXED ≤ (archiveEnv ts lu set).length ∧ ((archiveEnv ts lu set).length - ENV_FIXED) % ENV_ALIGN = 0 := by
  have := pad8_aligned set.length
  unfold archiveEnv ENV_FIXED ENV_ALIGN
  simp only [zeros, le64, le32, List.length_append, List.length_cons, List.length_nil, List.length_replicate]
  omega

/-- **readEnv_archiveEnv**: the bytes rkyv writes for the envelope read back as the same two stamps and
the same nested bytes. -/
theorem readEnv_archiveEnv (ts lu : Nat) (set : List Nat) (hts : ts < 18446744073709551616)
    (hlu : lu < 18446744073709551616) (hl : set.length + 32 ≤ 2147483648) :
    readEnv (archiveEnv ts lu set) = some (ts, lu, set) := by
  have hp := pad8_lt set.length
  have ha := pad8_aligned set.length
  let pre := set ++ zeros (pad8 set.length)
  let K := set.length + pad8 set.length + 16
  let root := le64 ts ++ (le64 lu ++ (le32 (4294967296 - K) ++ le32 set.length))
  have hform : archiveEnv ts lu set = pre ++ root := rfl
  have hpre : pre.length = set.length + pad8 set.length := by simp [pre, zeros]
  have hlen : (archiveEnv ts lu set).length = pre.length + 24 := by rw [hform]; simp [root, le64, le32]
  unfold readEnv ENV_FIXED ENV_ALIGN
  rw [hlen, if_neg (by omega)]
  simp only [Nat.add_sub_cancel]
  rw [if_neg (by rw [hpre]; omega)]
  have d0 : ((archiveEnv ts lu set).drop pre.length).take 8 = le64 ts := by
    rw [hform]; have := drop_append_right pre root 0; simp only [Nat.add_zero] at this; rw [this]; simp [root, le64, le32]
  have d8 : ((archiveEnv ts lu set).drop (pre.length + 8)).take 8 = le64 lu := by
    rw [hform, drop_append_right]; simp [root, le64, le32]
  have d16 : ((archiveEnv ts lu set).drop (pre.length + 16)).take 4 = le32 (4294967296 - K) := by
    rw [hform, drop_append_right]; simp [root, le64, le32]
  have d20 : ((archiveEnv ts lu set).drop (pre.length + 20)).take 4 = le32 set.length := by
    rw [hform, drop_append_right]; simp [root, le64, le32]
  rw [d0, d8, d16, d20]
  have hK : K = set.length + pad8 set.length + 16 := rfl
  rw [fromLe64_le64 _ hts, fromLe64_le64 _ hlu, fromLe32_le32 _ (by omega), fromLe32_le32 _ (by omega)]
  rw [if_neg (by omega)]
  have hback : 4294967296 - (4294967296 - K) = K := by omega
  rw [hback, if_pos (by omega)]
  have hz : pre.length + 16 - K = 0 := by omega
  rw [hz, hform]
  simp only [List.drop_zero]
  have : pre ++ root = set ++ (zeros (pad8 set.length) ++ root) := by simp [pre, List.append_assoc]
  rw [this, List.take_left']
  rfl

/-- Two different replies never share an envelope: stamps and nested bytes can be read off the bytes. -/
theorem archiveEnv_injective (ts lu ts' lu' : Nat) (set set' : List Nat)
    (h1 : ts < 18446744073709551616) (h2 : lu < 18446744073709551616) (h3 : set.length + 32 ≤ 2147483648)
    (h1' : ts' < 18446744073709551616) (h2' : lu' < 18446744073709551616) (h3' : set'.length + 32 ≤ 2147483648)
    (h : archiveEnv ts lu set = archiveEnv ts' lu' set') : ts = ts' ∧ lu = lu' ∧ set = set' := by
  have a := readEnv_archiveEnv ts lu set h1 h2 h3
  have b := readEnv_archiveEnv ts' lu' set' h1' h2' h3'
  rw [h] at a; rw [a] at b
  injection b with b; injection b with b1 b; injection b with b2 b3
  exact ⟨b1, b2, b3⟩

/-- **getState_exact**: the whole way - framed by the serving node, cut in any chunks, checked and
read by the asking node - hands over exactly the stamps and the nested state bytes that were sent. -/
theorem getState_exact (ts lu : Nat) (set : List Nat) (respCuts : List Nat) (hts : ts < 18446744073709551616)
    (hlu : lu < 18446744073709551616) (hl : set.length + 32 ≤ 2147483648) :
    getState ts lu set respCuts = some (ts, lu, set) := by
  unfold getState client envFrame
  simp only [toAligned_bytes, cut_flatten, if_true]
  have hs := archiveEnv_shape ts lu set
  rw [frame_roundtripA ENV_FIXED ENV_ALIGN _ hs.1 hs.2]
  exact readEnv_archiveEnv ts lu set hts hlu hl

/-- The declared length of the nested bytes, and the pointer to them, as they stand in a body. -/
def declaredLen (body : List Nat) : Nat := fromLe32 ((body.drop (body.length - ENV_FIXED + 20)).take 4)
def declaredOff (body : List Nat) : Nat := fromLe32 ((body.drop (body.length - ENV_FIXED + 16)).take 4)

/-- **bogus_len_refused** (D24): an envelope that declares more nested bytes than lie in front of its
root is not used - whatever else it says, matching checksum or not. -/
theorem bogus_len_refused (body : List Nat) (h : body.length - ENV_FIXED < declaredLen body) : readEnv body = none := by
  unfold readEnv
  unfold declaredLen at h
  simp only
  split
  · rfl
  · split
    · rfl
    · split
      · rfl
      · rw [if_neg]
        intro hc
        omega

/-- **forward_ptr_refused**: a pointer that does not point backwards (offset ≥ 0) is not followed. -/
theorem forward_ptr_refused (body : List Nat) (h : declaredOff body < 2147483648) : readEnv body = none := by
  unfold readEnv
  unfold declaredOff at h
  simp only
  split
  · rfl
  · split
    · rfl
    · first | rfl | rw [if_pos h]

/-- **misplaced_envelope_refused** (D35): a root that is not at a multiple of 8 is not read. -/
theorem misplaced_envelope_refused (body : List Nat) (h : (body.length - ENV_FIXED) % ENV_ALIGN ≠ 0) :
    readEnv body = none := by
  unfold readEnv
  simp only
  split
  · rfl
  · first | rfl | rw [if_pos h]

/-- **received_state_is_the_senders**: with the one assumption that is left - the archive of a set
decodes to a set observably equal to the one that was encoded (`hcodec`; compared on every run, not
proved) - the state the asking node ends up with after the whole way (serialise, envelope, frame, any
chunking, frame check, checked envelope reading, decode) is observably the sender's, and carries the
sender's change stamp: same answers to every query, same decisions for every further operation, for
ever (`C19.ObsEq` is what `Props/C19.lean` shows to be preserved by every operation). -/
theorem received_state_is_the_senders (enc : OrSwot → List Nat) (dec : List Nat → Option OrSwot)
    (hcodec : ∀ s, ∃ s', dec (enc s) = some s' ∧ C19.ObsEq s s')
    (s : OrSwot) (ts lu : Nat) (respCuts : List Nat)
    (hts : ts < 18446744073709551616) (hlu : lu < 18446744073709551616) (hl : (enc s).length + 32 ≤ 2147483648) :
    ∃ s', ((getState ts lu (enc s) respCuts).bind (fun r => (dec r.2.2).map (fun x => (r.2.1, x)))) = some (lu, s') ∧
      C19.ObsEq s s' := by
  obtain ⟨s', hd, ho⟩ := hcodec s
  refine ⟨s', ?_, ho⟩
  rw [getState_exact ts lu (enc s) respCuts hts hlu hl]
  simp [hd]

/-! ### non-vacuity -/

example : getState 5 9 [1, 2, 3, 4, 5, 6, 7, 8, 9] [3] = some (5, 9, [1, 2, 3, 4, 5, 6, 7, 8, 9]) :=
  getState_exact 5 9 _ [3] (by decide) (by decide) (by decide)

/-- the honest envelope of three nested bytes with its length field overwritten by 2^30: refused -/
example : readEnv ([1, 2, 3, 0, 0, 0, 0, 0] ++ le64 5 ++ le64 9 ++ le32 (4294967296 - 24) ++ le32 1073741824) = none := by
  decide
example : readEnv ([1, 2, 3, 0, 0, 0, 0, 0] ++ le64 5 ++ le64 9 ++ le32 (4294967296 - 24) ++ le32 3) = some (5, 9, [1, 2, 3]) := by
  decide

end Datacake.C19b
