/-
C16 — Membership change events add up to the live membership.

Model: `Model/Membership.lean` (`watchStep`/`delta` = `membership_delta`, the latest-value
channel carrying snapshots, the per-subscriber `MembershipChanges` stream, a subscriber applying
`left` then `joined`).  Lists are read as sets /
maps: all statements are about membership.
-/
import Datacake.Lemmas.Membership

namespace Datacake.C16
open Datacake.Membership

/-- Two lists hold the same members. -/
def SameSet (a b : List Member) : Prop := ∀ m, m ∈ a ↔ m ∈ b

/-- The watcher remembers the snapshot it processed last. -/
def WatcherOk (w : Watcher) : Prop := w.lastSet = networkSet w.self w.lastSnap ∧ DistinctIds w.lastSnap

/-- **delta_exact**: `left` is exactly the members of the previous snapshot (other than the local
node) that are absent or re-addressed in the new one — *with the address they had* —, `joined` is
exactly the new or re-addressed members; the watcher then remembers the new snapshot. -/
theorem delta_exact (w : Watcher) (snap : Snapshot) (hw : WatcherOk w) (hs : DistinctIds snap) :
    (∀ m, m ∈ (watchStep w snap).1.left ↔
        (m ∈ w.lastSnap ∧ m.1 ≠ w.self) ∧ ¬ (m ∈ snap ∧ m.1 ≠ w.self)) ∧
    (∀ m, m ∈ (watchStep w snap).1.joined ↔
        (m ∈ snap ∧ m.1 ≠ w.self) ∧ ¬ (m ∈ w.lastSnap ∧ m.1 ≠ w.self)) ∧
    WatcherOk (watchStep w snap).2 ∧ (watchStep w snap).2.self = w.self ∧
    (watchStep w snap).2.lastSnap = snap := by
  obtain ⟨hset, hdist⟩ := hw
  unfold watchStep
  simp only
  refine ⟨?_, ?_, ⟨rfl, hs⟩, by first | rfl | trivial, by first | rfl | trivial⟩
  · intro m
    rw [mem_filterMap_lookup w.lastSnap hdist _ (fun x hx => by
      have := ((diffSet_mem x _ _).1 hx).1
      rw [hset] at this
      exact ((networkSet_mem _ _ _).1 this).1)]
    rw [diffSet_mem, hset, networkSet_mem, networkSet_mem]
  · intro m
    rw [mem_filterMap_lookup snap hs _ (fun x hx => by
      have := ((diffSet_mem x _ _).1 hx).1
      exact ((networkSet_mem _ _ _).1 this).1)]
    rw [diffSet_mem, hset, networkSet_mem, networkSet_mem]

/-- **delta_applies**: applying the published delta to a live map that holds the previous
membership yields exactly the new membership (joins, leaves, address changes, rejoin alike). -/
theorem delta_applies (w : Watcher) (snap : Snapshot) (hw : WatcherOk w) (hs : DistinctIds snap)
    (live : List Member) (hlive : SameSet live (networkSet w.self w.lastSnap)) :
    SameSet (applyDelta live (watchStep w snap).1) (networkSet w.self snap) := by
  obtain ⟨hL, hJ, _, _, _⟩ := delta_exact w snap hw hs
  have hdprev := hw.2
  intro m
  unfold applyDelta
  simp only
  have hjd : DistinctIds (watchStep w snap).1.joined := by
    intro a ha b hb e
    exact hs a ((hJ a).1 ha).1.1 b ((hJ b).1 hb).1.1 e
  rw [foldl_insert_mem _ hjd, foldl_remove_mem, networkSet_mem]
  constructor
  · rintro (h | ⟨⟨h1, h2⟩, h3⟩)
    · exact ((hJ m).1 h).1
    · have hm := (hlive m).1 h1
      rw [networkSet_mem] at hm
      -- m was a member before and is not reported as left: it is still there
      by_cases hin : m ∈ snap ∧ m.1 ≠ w.self
      · exact hin
      · exact absurd rfl (h2 m ((hL m).2 ⟨hm, hin⟩))
  · intro hnew
    by_cases hold : m ∈ w.lastSnap ∧ m.1 ≠ w.self
    · right
      refine ⟨⟨(hlive m).2 ((networkSet_mem _ _ _).2 hold), ?_⟩, ?_⟩
      · intro l hl e
        obtain ⟨⟨hl1, _⟩, hl2⟩ := (hL l).1 hl
        have : m = l := hdprev m hold.1 l hl1 e
        exact hl2 (this ▸ hnew)
      · intro j hj e
        obtain ⟨⟨hj1, _⟩, hj2⟩ := (hJ j).1 hj
        have : m = j := hs m hnew.1 j hj1 e
        exact hj2 (this ▸ hold)
    · left; exact (hJ m).2 ⟨hnew, hold⟩

/-! ### Every subscriber tracks the membership (the full statement) -/

/-- **delta_between**: the difference between any two snapshots, applied to a live map that holds
the other members of the first, yields the other members of the second. -/
theorem delta_between (self : Nat) (last snap : Snapshot) (hl : DistinctIds last) (hs : DistinctIds snap)
    (live : List Member) (hlive : SameSet live (networkSet self last)) :
    SameSet (applyDelta live (delta self last snap)) (networkSet self snap) :=
  delta_applies { self := self, lastSet := networkSet self last, lastSnap := last } snap ⟨rfl, hl⟩ hs live hlive

/-- What happens around one node's membership channel: the node's watcher publishes the snapshot
it has processed, a new subscriber appears (at any time), subscriber `i` polls its stream. -/
inductive Ev where
  | pub (snap : Snapshot)
  | sub
  | read (i : Nat)

structure World where
  chan : Chan := {}
  subs : List Sub := []

def step (self : Nat) (w : World) : Ev → World
  | .pub snap => { w with chan := w.chan.send snap }
  | .sub => { w with subs := w.subs ++ [{}] }
  | .read i =>
    match w.subs[i]? with
    | some s => { w with subs := w.subs.set i (s.poll self w.chan).2 }
    | none => w

def run (self : Nat) (evs : List Ev) : World := evs.foldl (step self) {}

/-- Snapshots have distinct ids (they are `BTreeMap`s keyed by node id). -/
def ValidEv : Ev → Prop
  | .pub snap => DistinctIds snap
  | _ => True

/-- The subscriber's live map holds exactly the other members of the snapshot its stream handed
out last; that snapshot is the channel's if the subscriber has seen the channel's version. -/
def SubOk (self : Nat) (c : Chan) (s : Sub) : Prop :=
  SameSet s.live (networkSet self s.last) ∧ DistinctIds s.last ∧
  (s.seen = some c.version → s.last = c.value) ∧ (∀ v, s.seen = some v → v ≤ c.version)

def WorldOk (self : Nat) (w : World) : Prop :=
  DistinctIds w.chan.value ∧ ∀ s ∈ w.subs, SubOk self w.chan s

theorem subOk_new (self : Nat) (c : Chan) : SubOk self c {} :=
  ⟨fun m => (by simp [networkSet]), fun a ha => (by cases ha), fun h => (by cases h), fun v h => (by cases h)⟩

theorem subOk_poll (self : Nat) (c : Chan) (s : Sub) (hc : DistinctIds c.value) (h : SubOk self c s) :
    SubOk self c (s.poll self c).2 ∧ (s.poll self c).2.seen = some c.version := by
  obtain ⟨h1, h2, h3, h4⟩ := h
  unfold Sub.poll
  by_cases hseen : s.seen = some c.version
  · rw [if_pos hseen]; exact ⟨⟨h1, h2, h3, h4⟩, hseen⟩
  · rw [if_neg hseen]
    exact ⟨⟨delta_between self s.last c.value h2 hc s.live h1, hc, fun _ => rfl,
      fun v hv => by cases hv; exact Nat.le_refl _⟩, rfl⟩

theorem subOk_send (self : Nat) (c : Chan) (snap : Snapshot) (s : Sub) (h : SubOk self c s) :
    SubOk self (c.send snap) s := by
  obtain ⟨h1, h2, _, h4⟩ := h
  refine ⟨h1, h2, ?_, ?_⟩
  · intro hv
    have := h4 _ hv
    simp only [Chan.send] at this
    omega
  · intro v hv
    have := h4 v hv
    simp only [Chan.send]
    omega

theorem worldOk_step (self : Nat) (w : World) (e : Ev) (hv : ValidEv e) (h : WorldOk self w) :
    WorldOk self (step self w e) := by
  obtain ⟨hc, hs⟩ := h
  cases e with
  | pub snap => exact ⟨hv, fun s hs' => subOk_send self w.chan snap s (hs s hs')⟩
  | sub =>
    refine ⟨hc, fun s hs' => ?_⟩
    simp only [step, List.mem_append, List.mem_singleton] at hs'
    rcases hs' with h | rfl
    · exact hs s h
    · exact subOk_new self w.chan
  | read i =>
    simp only [step]
    cases hi : w.subs[i]? with
    | none => exact ⟨hc, hs⟩
    | some s0 =>
      refine ⟨hc, fun s hs' => ?_⟩
      simp only at hs'
      rcases List.mem_or_eq_of_mem_set hs' with h | rfl
      · exact hs s h
      · exact (subOk_poll self w.chan s0 hc (hs s0 (List.mem_of_getElem? hi))).1

theorem worldOk_init (self : Nat) : WorldOk self {} :=
  ⟨fun a ha => (by cases ha), fun s hs => (by cases hs)⟩

theorem worldOk_run (self : Nat) (evs : List Ev) (hv : ∀ e ∈ evs, ValidEv e) (w : World) (h : WorldOk self w) :
    WorldOk self (evs.foldl (step self) w) := by
  induction evs generalizing w with
  | nil => exact h
  | cons e es ih =>
    exact ih (fun e' he' => hv e' (List.mem_cons_of_mem _ he')) _ (worldOk_step self w e (hv e List.mem_cons_self) h)

/-- **subscriber_tracks** (C16, full statement): whatever the order of publications, subscriptions
and reads — subscribers created late, subscribers that skip any number of publications — every
subscriber's live map holds exactly the other members of the snapshot its stream handed out last,
and right after a read that is the CURRENT membership. -/
theorem subscriber_tracks (self : Nat) (evs : List Ev) (hv : ∀ e ∈ evs, ValidEv e) (i : Nat) (s : Sub)
    (hs : (run self (evs ++ [.read i])).subs[i]? = some s) :
    SameSet s.live (networkSet self (run self evs).chan.value) ∧
    (run self (evs ++ [.read i])).chan = (run self evs).chan := by
  have hw : WorldOk self (run self evs) := worldOk_run self evs hv {} (worldOk_init self)
  unfold run at hs ⊢
  rw [List.foldl_append] at hs ⊢
  simp only [List.foldl_cons, List.foldl_nil, step] at hs ⊢
  cases hi : (List.foldl (step self) {} evs).subs[i]? with
  | none => rw [hi] at hs; simp only at hs; rw [hi] at hs; cases hs
  | some s0 =>
    rw [hi] at hs
    simp only at hs ⊢
    have hlt : i < (List.foldl (step self) {} evs).subs.length := by
      rcases List.getElem?_eq_some_iff.1 hi with ⟨h, _⟩; exact h
    rw [List.getElem?_set_self hlt] at hs
    cases hs
    obtain ⟨hok, hseen⟩ := subOk_poll self _ s0 hw.1 (hw.2 s0 (List.mem_of_getElem? hi))
    refine ⟨?_, trivial⟩
    have := hok.2.2.1 hseen
    unfold run at this
    rw [← this]
    exact hok.1

/-- Between reads nothing is lost either: at any time every subscriber holds the other members of
SOME published snapshot (the one it read last), never a mixture. -/
theorem subscriber_consistent (self : Nat) (evs : List Ev) (hv : ∀ e ∈ evs, ValidEv e) (s : Sub)
    (hs : s ∈ (run self evs).subs) : SameSet s.live (networkSet self s.last) :=
  ((worldOk_run self evs hv {} (worldOk_init self)).2 s hs).1

/-- Non-vacuity: a late and slow subscriber of the D9 witness ends with both other members. -/
example : ((run 0 [.pub [(0, 100), (1, 101)], .pub [(0, 100), (1, 101), (2, 102)], .sub, .read 0]).subs.map (·.live))
    = [[(1, 101), (2, 102)]] := by decide

/-! ### The tree before the fix for D9: deltas on the latest-value channel lose members -/

def runLegacy (self : Nat) (script : List (Option Snapshot)) : ChanLegacy × SubLegacy × Snapshot :=
  -- `some snap` = a publication, `none` = the subscriber reads
  let r := script.foldl (fun (st : Watcher × ChanLegacy × SubLegacy) ev =>
    match ev with
    | some snap => let (d, w') := watchStep st.1 snap; (w', st.2.1.send d, st.2.2)
    | none => (st.1, st.2.1, (st.2.2.poll st.2.1).2)) ({ self := self }, {}, {})
  (r.2.1, r.2.2, r.1.lastSnap)

/-- (Before the fix.) A subscriber that does not read between two publications loses the first
delta: after `{0,1}` and `{0,1,2}` it only ever learns of node 2 — although it read twice at the end. -/
theorem legacy_slow_subscriber_counterexample :
    (runLegacy 0 [some [(0, 100), (1, 101)], some [(0, 100), (1, 101), (2, 102)], none, none]).2.1.live
      = [(2, 102)] := by decide

/-- (Before the fix.) A subscriber created after node 1 joined never hears of it (the stream
starts with the latest delta only).  The eventual-consistency extension always subscribes late. -/
theorem legacy_late_subscriber_counterexample :
    let w0 : Watcher := { self := 0 }
    let (d1, w1) := watchStep w0 [(0, 100), (1, 101)]
    let (d2, _) := watchStep w1 [(0, 100), (1, 101), (2, 102)]
    let c := (({} : ChanLegacy).send d1).send d2
    let late : SubLegacy := {}
    (late.poll c).2.live = [(2, 102)] := by decide

/-- Defect D8 of the pinned tree: a real departure produced an empty `left`. -/
theorem legacy_departure_lost :
    let w0 : Watcher := { self := 0 }
    let (_, w1) := watchStepLegacy w0 [(0, 100), (1, 101)]
    (watchStepLegacy w1 [(0, 100)]).1.left = [] ∧ (watchStep ((watchStep w0 [(0, 100), (1, 101)]).2) [(0, 100)]).1.left = [(1, 101)] := by
  decide

/-- Non-vacuity of the hypotheses. -/
example : WatcherOk { self := 0 } ∧ DistinctIds [(0, 100), (1, 101)] := by
  refine ⟨⟨rfl, fun a ha => by cases ha⟩, ?_⟩
  intro a ha b hb e
  simp only [List.mem_cons, List.mem_nil_iff, or_false] at ha hb
  rcases ha with rfl | rfl <;> rcases hb with rfl | rfl <;> simp_all

end Datacake.C16
