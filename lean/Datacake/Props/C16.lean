/-
C16 — Membership change events add up to the live membership.

Model: `Model/Membership.lean` (`watchStep` = one iteration of `watch_membership_changes`, the
latest-value channel, a subscriber applying `left` then `joined`).  Lists are read as sets /
maps: all statements are about membership.
-/
import Datacake.Lemmas.Membership

namespace Datacake.C16
open Datacake.Membership

/-- Two lists hold the same members. -/
def SameSet (a b : List Member) : Prop := ∀ m, m ∈ a ↔ m ∈ b

/-- The watcher remembers the snapshot it processed last. -/
def WatcherOk (w : Watcher) : Prop := w.lastSet = networkSet w.self w.lastSnap ∧ DistinctIds w.lastSnap

/-- **delta_exact**: `left` is exactly the members of the previous snapshot (other than the local
node) that are absent or re-addressed in the new one — *with the address they had* —, `joined` is
exactly the new or re-addressed members; the watcher then remembers the new snapshot. -/
theorem delta_exact (w : Watcher) (snap : Snapshot) (hw : WatcherOk w) (hs : DistinctIds snap) :
    (∀ m, m ∈ (watchStep w snap).1.left ↔
        (m ∈ w.lastSnap ∧ m.1 ≠ w.self) ∧ ¬ (m ∈ snap ∧ m.1 ≠ w.self)) ∧
    (∀ m, m ∈ (watchStep w snap).1.joined ↔
        (m ∈ snap ∧ m.1 ≠ w.self) ∧ ¬ (m ∈ w.lastSnap ∧ m.1 ≠ w.self)) ∧
    WatcherOk (watchStep w snap).2 ∧ (watchStep w snap).2.self = w.self ∧
    (watchStep w snap).2.lastSnap = snap := by
  obtain ⟨hset, hdist⟩ := hw
  unfold watchStep
  simp only
  refine ⟨?_, ?_, ⟨rfl, hs⟩, by first | rfl | trivial, by first | rfl | trivial⟩
  · intro m
    rw [mem_filterMap_lookup w.lastSnap hdist _ (fun x hx => by
      have := ((diffSet_mem x _ _).1 hx).1
      rw [hset] at this
      exact ((networkSet_mem _ _ _).1 this).1)]
    rw [diffSet_mem, hset, networkSet_mem, networkSet_mem]
  · intro m
    rw [mem_filterMap_lookup snap hs _ (fun x hx => by
      have := ((diffSet_mem x _ _).1 hx).1
      exact ((networkSet_mem _ _ _).1 this).1)]
    rw [diffSet_mem, hset, networkSet_mem, networkSet_mem]

/-- **delta_applies**: applying the published delta to a live map that holds the previous
membership yields exactly the new membership (joins, leaves, address changes, rejoin alike). -/
theorem delta_applies (w : Watcher) (snap : Snapshot) (hw : WatcherOk w) (hs : DistinctIds snap)
    (live : List Member) (hlive : SameSet live (networkSet w.self w.lastSnap)) :
    SameSet (applyDelta live (watchStep w snap).1) (networkSet w.self snap) := by
  obtain ⟨hL, hJ, _, _, _⟩ := delta_exact w snap hw hs
  have hdprev := hw.2
  intro m
  unfold applyDelta
  simp only
  have hjd : DistinctIds (watchStep w snap).1.joined := by
    intro a ha b hb e
    exact hs a ((hJ a).1 ha).1.1 b ((hJ b).1 hb).1.1 e
  rw [foldl_insert_mem _ hjd, foldl_remove_mem, networkSet_mem]
  constructor
  · rintro (h | ⟨⟨h1, h2⟩, h3⟩)
    · exact ((hJ m).1 h).1
    · have hm := (hlive m).1 h1
      rw [networkSet_mem] at hm
      -- m was a member before and is not reported as left: it is still there
      by_cases hin : m ∈ snap ∧ m.1 ≠ w.self
      · exact hin
      · exact absurd rfl (h2 m ((hL m).2 ⟨hm, hin⟩))
  · intro hnew
    by_cases hold : m ∈ w.lastSnap ∧ m.1 ≠ w.self
    · right
      refine ⟨⟨(hlive m).2 ((networkSet_mem _ _ _).2 hold), ?_⟩, ?_⟩
      · intro l hl e
        obtain ⟨⟨hl1, _⟩, hl2⟩ := (hL l).1 hl
        have : m = l := hdprev m hold.1 l hl1 e
        exact hl2 (this ▸ hnew)
      · intro j hj e
        obtain ⟨⟨hj1, _⟩, hj2⟩ := (hJ j).1 hj
        have : m = j := hs m hnew.1 j hj1 e
        exact hj2 (this ▸ hold)
    · left; exact (hJ m).2 ⟨hnew, hold⟩

/-! ### A subscriber that misses nothing -/

/-- One publication followed immediately by one read of a subscriber that had seen the previous
publication. -/
def publishAndRead (st : Watcher × Chan × Sub) (snap : Snapshot) : Watcher × Chan × Sub :=
  let (w, c, s) := st
  let (d, w') := watchStep w snap
  let c' := c.send d
  (w', c', (s.poll c').2)

/-- **lossless_subscriber_tracks** (the part of the property that holds): a subscriber that
exists from the first snapshot on and reads after every publication holds, after every snapshot,
exactly the other members of that snapshot. -/
theorem lossless_subscriber_tracks (snaps : List Snapshot) (hs : ∀ s ∈ snaps, DistinctIds s)
    (w : Watcher) (c : Chan) (s : Sub) (hw : WatcherOk w) (hseen : s.seen = some c.version)
    (hlive : SameSet s.live (networkSet w.self w.lastSnap)) :
    let r := snaps.foldl publishAndRead (w, c, s)
    SameSet r.2.2.live (networkSet r.1.self r.1.lastSnap) ∧ r.1.self = w.self ∧
    (∀ last, snaps.getLast? = some last → r.1.lastSnap = last) := by
  induction snaps generalizing w c s with
  | nil => exact ⟨hlive, rfl, fun _ h => by cases h⟩
  | cons x xs ih =>
    simp only [List.foldl_cons]
    have hx := hs x List.mem_cons_self
    obtain ⟨_, _, hw', hself, hsnap⟩ := delta_exact w x hw hx
    have happ := delta_applies w x hw hx s.live hlive
    have hstep : publishAndRead (w, c, s) x =
        ((watchStep w x).2, c.send (watchStep w x).1,
          { seen := some (c.version + 1), live := applyDelta s.live (watchStep w x).1 }) := by
      simp only [publishAndRead, Sub.poll, Chan.send, hseen]
      rw [if_neg (by simp)]
    rw [hstep]
    obtain ⟨r1, r2, r3⟩ := ih (fun s' hs' => hs s' (List.mem_cons_of_mem _ hs')) (watchStep w x).2
      (c.send (watchStep w x).1)
      { seen := some (c.version + 1), live := applyDelta s.live (watchStep w x).1 } hw' rfl
      (by rw [hself, hsnap]; exact happ)
    refine ⟨r1, r2.trans hself, ?_⟩
    intro last hlast
    cases xs with
    | nil => simp at hlast; subst hlast; simpa using hsnap
    | cons y ys => exact r3 last (by simpa using hlast)

/-! ### The full statement is false of the unchanged code (known finding D9) -/

def run (self : Nat) (script : List (Option Snapshot)) : Chan × Sub × Snapshot :=
  -- `some snap` = a publication, `none` = the subscriber reads
  let r := script.foldl (fun (st : Watcher × Chan × Sub) ev =>
    match ev with
    | some snap => let (d, w') := watchStep st.1 snap; (w', st.2.1.send d, st.2.2)
    | none => (st.1, st.2.1, (st.2.2.poll st.2.1).2)) ({ self := self }, {}, {})
  (r.2.1, r.2.2, r.1.lastSnap)

/-- A subscriber that does not read between two publications loses the first delta: after
`{0,1}` and `{0,1,2}` it only ever learns of node 2 — although it read twice at the end. -/
theorem slow_subscriber_counterexample :
    (run 0 [some [(0, 100), (1, 101)], some [(0, 100), (1, 101), (2, 102)], none, none]).2.1.live
      = [(2, 102)] := by decide

/-- A subscriber created after node 1 joined never hears of it (the stream starts with the latest
delta only).  The eventual-consistency extension always subscribes late. -/
theorem late_subscriber_counterexample :
    let w0 : Watcher := { self := 0 }
    let (d1, w1) := watchStep w0 [(0, 100), (1, 101)]
    let (d2, _) := watchStep w1 [(0, 100), (1, 101), (2, 102)]
    let c := (({} : Chan).send d1).send d2
    let late : Sub := {}
    (late.poll c).2.live = [(2, 102)] := by decide

/-- Defect D8 of the pinned tree: a real departure produced an empty `left`. -/
theorem legacy_departure_lost :
    let w0 : Watcher := { self := 0 }
    let (_, w1) := watchStepLegacy w0 [(0, 100), (1, 101)]
    (watchStepLegacy w1 [(0, 100)]).1.left = [] ∧ (watchStep ((watchStep w0 [(0, 100), (1, 101)]).2) [(0, 100)]).1.left = [(1, 101)] := by
  decide

/-- Non-vacuity of the hypotheses. -/
example : WatcherOk { self := 0 } ∧ DistinctIds [(0, 100), (1, 101)] := by
  refine ⟨⟨rfl, fun a ha => by cases ha⟩, ?_⟩
  intro a ha b hb e
  simp only [List.mem_cons, List.mem_nil_iff, or_false] at ha hb
  rcases ha with rfl | rfl <;> rcases hb with rfl | rfl <;> simp_all

end Datacake.C16
