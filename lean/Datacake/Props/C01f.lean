/-
C01, storage failures inside the runs of the executable cluster model.

`xrun_inv` (Props/C01e.lean) follows runs whose steps act with working storage.  Here the acting
node's next storage mutation may FAIL (`failNext`, the fault the harness injects): a request whose
storage call fails, and an exchange whose first storage call fails, change no keyspace of any node —
they are matched by NO event of the abstract cluster (for convergence they are lost messages) — and
the refinement invariants survive.  So the invariants hold along every run, with storage failing
at any of the modelled points.
-/
import Datacake.Props.C01e
import Datacake.Props.C06b

namespace Datacake.C01d
open Datacake.Lww Datacake.OrSwot Datacake.Keyspace Datacake.Storage Datacake.Cluster Datacake.C01 Datacake.C05

theorem pick_nil {α : Type} (l : List α) : pick l [] = [] := by
  unfold pick
  have : l.zipIdx.filter (fun p => ([] : List Nat).contains p.2) = [] := by
    rw [List.filter_eq_nil_iff]; intro p _; simp
  rw [this]; rfl

theorem onMultiSet_fail (F : Nat) (n : Node) (src : Nat) (ds : List Doc) :
    (onMultiSet F n src ds (some [])).1 = n ∧ (onMultiSet F n src ds (some [])).2 ≠ .ok := by
  unfold onMultiSet onMultiSetCore
  simp only [pick_nil, List.map_nil, List.foldl_nil]
  refine ⟨?_, by intro h; cases h⟩
  have : ∀ (l : List (Nat × Nat)), l.filter (fun e => ([] : List Nat).contains e.1) = [] := by
    intro l; rw [List.filter_eq_nil_iff]; intro p _; simp
  rw [this]; rfl

theorem onMultiDel_fail (F : Nat) (n : Node) (src : Nat) (ds : List (Nat × Nat)) :
    (onMultiDel F n src ds (some [])).1 = n ∧ (onMultiDel F n src ds (some [])).2 ≠ .ok := by
  unfold onMultiDel onMultiDelCore
  simp only [pick_nil, List.map_nil, List.foldl_nil]
  refine ⟨?_, by intro h; cases h⟩
  have : ∀ (l : List (Nat × Nat)), l.filter (fun e => ([] : List Nat).contains e.1) = [] := by
    intro l; rw [List.filter_eq_nil_iff]; intro p _; simp
  rw [this]; rfl

/-- **applyAt_fail**: a request at a node whose next storage mutation fails changes no keyspace;
if the handler still returns `Ok` it made no storage call (the request was refused as stale) and the
fault is still pending. -/
theorem applyAt_fail (c : Cluster) (i src : Nat) (iss : Issued) (h : i < c.nodes.length)
    (hf : (getNode c i).failNext = true) :
    (∀ x, (getNode (applyAt c i src iss).1 x).ks = (getNode c x).ks) ∧
    ((applyAt c i src iss).2 = true → (getNode (applyAt c i src iss).1 i).failNext = true) := by
  have hks : (getNode (touch c i) i).ks = (getNode c i).ks := touch_ks c i i
  have hfn : (getNode (touch c i) i).failNext = true := by rw [touch_failNext]; exact hf
  cases iss with
  | put d =>
    unfold applyAt
    simp only []
    rw [hks, hfn]
    by_cases hw : willApply (getNode c i).ks.set d.1 d.2.1 = true
    · simp only [hw, Bool.not_true, Bool.false_eq_true, if_false]
      have h1 : (onSet Cluster.F (getNode c i).ks src d true) = ((getNode c i).ks, .err []) := by simp [onSet, hw]
      rw [h1]
      have hne : ((Out.err [] : Out) == Out.ok) = false := by decide
      simp only [hne, Bool.false_eq_true, if_false]
      refine ⟨fun x => ?_, fun hh => by cases hh⟩
      rw [ks_written c i x _ h]; split
      · rename_i hx; rw [hx]
      · rfl
    · simp only [hw, Bool.not_false, if_true]
      exact ⟨fun x => touch_ks c i x, fun _ => hfn⟩
  | del id ts =>
    unfold applyAt
    simp only []
    rw [hks, hfn]
    by_cases hw : willApply (getNode c i).ks.set id ts = true
    · simp only [hw, Bool.not_true, Bool.false_eq_true, if_false]
      have h1 : (onDel Cluster.F (getNode c i).ks src id ts true) = ((getNode c i).ks, .err []) := by simp [onDel, hw]
      rw [h1]
      have hne : ((Out.err [] : Out) == Out.ok) = false := by decide
      simp only [hne, Bool.false_eq_true, if_false]
      refine ⟨fun x => ?_, fun hh => by cases hh⟩
      rw [ks_written c i x _ h]; split
      · rename_i hx; rw [hx]
      · rfl
    · simp only [hw, Bool.not_false, if_true]
      exact ⟨fun x => touch_ks c i x, fun _ => hfn⟩
  | mput ds =>
    unfold applyAt
    simp only []
    rw [hks, hfn]
    simp only [if_true]
    obtain ⟨e1, e2⟩ := onMultiSet_fail Cluster.F (getNode c i).ks src ds
    refine ⟨fun x => ?_, fun hh => ?_⟩
    · rw [ks_written_bump c i x _ h, e1]; split
      · rename_i hx; rw [hx]
      · rfl
    · exfalso; apply e2; simpa using hh
  | mdel ds =>
    unfold applyAt
    simp only []
    rw [hks, hfn]
    simp only [if_true]
    obtain ⟨e1, e2⟩ := onMultiDel_fail Cluster.F (getNode c i).ks src ds
    refine ⟨fun x => ?_, fun hh => ?_⟩
    · rw [ks_written_bump c i x _ h, e1]; split
      · rename_i hx; rw [hx]
      · rfl
    · exfalso; apply e2; simpa using hh

theorem applyRemovals_fail (c : Cluster) (j : Nat) (removed : List (Nat × Nat)) (h : j < c.nodes.length)
    (hf : (getNode c j).failNext = true) :
    (∀ x, (getNode (applyRemovals c j removed).1 x).ks = (getNode c x).ks) ∧
    ((applyRemovals c j removed).2 = true → (getNode (applyRemovals c j removed).1 j).failNext = true) := by
  unfold applyRemovals
  match removed with
  | [] => exact ⟨fun _ => rfl, fun _ => hf⟩
  | [r] => exact applyAt_fail c j 1 _ h hf
  | r1 :: r2 :: rest => exact applyAt_fail c j 1 _ h hf

theorem applyModified_fail (c : Cluster) (j i : Nat) (modified : List (Nat × Nat)) (h : j < c.nodes.length)
    (hf : (getNode c j).failNext = true) :
    (∀ x, (getNode (applyModified c j i modified).1 x).ks = (getNode c x).ks) ∧
    ((applyModified c j i modified).2 = true → (getNode (applyModified c j i modified).1 j).failNext = true) := by
  unfold applyModified
  match modified with
  | [] => exact ⟨fun _ => rfl, fun _ => hf⟩
  | m :: ms => exact applyAt_fail c j 1 _ h hf

/-- **repair_fail**: an exchange at a node whose next storage mutation fails changes no keyspace of
any node (whichever half meets the fault applies nothing and the exchange stops there). -/
theorem repair_fail (c : Cluster) (j i : Nat) (rf : Bool) (h : j < c.nodes.length)
    (hf : (getNode c j).failNext = true) : ∀ x, (getNode (repair c j i rf).1 x).ks = (getNode c x).ks := by
  intro x
  unfold repair
  by_cases h1 : (getNode c i).exists_ = true
  · simp only [h1, Bool.not_true, Bool.false_eq_true, if_false]
    by_cases h2 : ((getNode c j).tracker.getD i none == some (getNode c i).change) = true
    · simp only [h2, if_true]
    · simp only [h2, Bool.false_eq_true, if_false]
      have hl0 : j < (touch c j).nodes.length := by rw [touch_length]; exact h
      have hf0 : (getNode (touch c j) j).failNext = true := by rw [touch_failNext]; exact hf
      generalize hD : OrSwot.diff (getNode (touch c j) j).ks.set (getNode c i).ks.set = D
      obtain ⟨modified, removed⟩ := D
      simp only
      cases rf with
      | true =>
        simp only [if_true]
        obtain ⟨a1, a2⟩ := applyRemovals_fail (touch c j) j removed hl0 hf0
        cases ho1 : (applyRemovals (touch c j) j removed).2 with
        | false =>
          simp only [Bool.false_eq_true, if_false, Bool.false_and]
          rw [a1 x, touch_ks]
        | true =>
          simp only [if_true]
          have hl1 : j < (applyRemovals (touch c j) j removed).1.nodes.length := by rw [applyRemovals_length]; exact hl0
          obtain ⟨b1, _⟩ := applyModified_fail (applyRemovals (touch c j) j removed).1 j i modified hl1 (a2 ho1)
          cases ho2 : (applyModified (applyRemovals (touch c j) j removed).1 j i modified).2 with
          | false =>
            simp only [Bool.and_false, Bool.false_eq_true, if_false]
            rw [b1 x, a1 x, touch_ks]
          | true =>
            simp only [Bool.and_self, if_true]
            rw [setNode_ks]
            split
            · rename_i hx; rw [hx.1, b1 j, a1 j, touch_ks]
            · rw [b1 x, a1 x, touch_ks]
      | false =>
        simp only [Bool.false_eq_true, if_false]
        obtain ⟨a1, a2⟩ := applyModified_fail (touch c j) j i modified hl0 hf0
        cases ho1 : (applyModified (touch c j) j i modified).2 with
        | false =>
          simp only [Bool.false_eq_true, if_false, Bool.false_and]
          rw [a1 x, touch_ks]
        | true =>
          simp only [if_true]
          have hl1 : j < (applyModified (touch c j) j i modified).1.nodes.length := by rw [applyModified_length]; exact hl0
          obtain ⟨b1, _⟩ := applyRemovals_fail (applyModified (touch c j) j i modified).1 j removed hl1 (a2 ho1)
          cases ho2 : (applyRemovals (applyModified (touch c j) j i modified).1 j removed).2 with
          | false =>
            simp only [Bool.and_false, Bool.false_eq_true, if_false]
            rw [b1 x, a1 x, touch_ks]
          | true =>
            simp only [Bool.and_self, if_true]
            rw [setNode_ks]
            split
            · rename_i hx; rw [hx.1, b1 j, a1 j, touch_ks]
            · rw [b1 x, a1 x, touch_ks]
  · simp only [h1, Bool.not_false, if_true]

/-! ### Runs with storage failing at any of the modelled points -/

/-- The node that acts in a step. -/
def actor : XStep → Nat
  | .request i _ _ => i
  | .exchange j _ _ => j

/-- What a step needs from its environment when storage may fail: it acts at an existing node,
requests carry operations of the history, a node does not repair from itself. -/
def AdmissibleF (H : List Op) (c : Cluster) : XStep → Prop
  | .request i _ iss => i < c.nodes.length ∧ (∀ o ∈ carried iss, o ∈ H)
  | .exchange j i _ => j < c.nodes.length ∧ j ≠ i

def AdmissibleRunF (H : List Op) : Cluster → List XStep → Prop
  | _, [] => True
  | c, s :: rest => AdmissibleF H c s ∧ AdmissibleRunF H (xstep c s) rest

/-- The abstract events of a step: none when the acting node's storage fails. -/
def eventsOfF (c : Cluster) (a : Cl) (s : XStep) : List C01c.Ev :=
  if (getNode c (actor s)).failNext then [] else eventsOf c a s

theorem xstep_invF (H : List Op) (hh : Hist Cluster.F H) (c : Cluster) (a : Cl) (inv : Inv H c a)
    (s : XStep) (hadm : AdmissibleF H c s) :
    C01c.ValidRun Cluster.F H a (eventsOfF c a s) ∧ Inv H (xstep c s) (C01c.run Cluster.F a (eventsOfF c a s)) := by
  unfold eventsOfF
  cases hfl : (getNode c (actor s)).failNext with
  | false =>
    simp only [Bool.false_eq_true, if_false]
    apply xstep_inv H hh c a inv s
    cases s with
    | request i src iss => exact ⟨hadm.1, hfl, hadm.2⟩
    | exchange j i rf => exact ⟨hadm.1, hfl, hadm.2⟩
  | true =>
    simp only [if_true]
    refine ⟨trivial, ?_⟩
    have hks : ∀ x, (getNode (xstep c s) x).ks = (getNode c x).ks := by
      cases s with
      | request i src iss => exact (applyAt_fail c i src iss hadm.1 hfl).1
      | exchange j i rf => exact repair_fail c j i rf hadm.1 hfl
    obtain ⟨hs, hg, hn⟩ := inv
    refine ⟨fun x => ?_, hg, fun x => ?_⟩
    · show (a x).s = absSet (xstep c s) x
      unfold absSet; rw [hks x]; exact hs x
    · rw [hks x]; exact hn x

/-- **xrun_invF**: along EVERY run of the executable cluster model — requests and exchanges at
existing nodes, the acting node's storage working or failing at its next mutation call — the sets
it computes are the sets of an admissible run of the abstract cluster, every node's store agrees
with its set, and the abstract cluster stays good.  A step whose storage call fails is matched by no
abstract event: for convergence it is a lost message. -/
theorem xrun_invF (H : List Op) (hh : Hist Cluster.F H) (steps : List XStep) (c : Cluster) (a : Cl)
    (inv : Inv H c a) (hadm : AdmissibleRunF H c steps) :
    ∃ evs, C01c.ValidRun Cluster.F H a evs ∧ Inv H (xrun c steps) (C01c.run Cluster.F a evs) := by
  induction steps generalizing c a with
  | nil => exact ⟨[], trivial, inv⟩
  | cons s rest ih =>
    obtain ⟨hv1, inv1⟩ := xstep_invF H hh c a inv s hadm.1
    obtain ⟨evs, hv2, inv2⟩ := ih (xstep c s) _ inv1 hadm.2
    refine ⟨eventsOfF c a s ++ evs, validRun_append _ H a _ _ hv1 hv2, ?_⟩
    have : C01c.run Cluster.F a (eventsOfF c a s ++ evs) = C01c.run Cluster.F (C01c.run Cluster.F a (eventsOfF c a s)) evs := by
      simp [C01c.run, List.foldl_append]
    rw [this]
    exact inv2

end Datacake.C01d
