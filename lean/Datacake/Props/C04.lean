/-
C04 — Per key the greatest timestamp wins, whatever order operations arrive in.

Model: `Model/Orswot.lean` (`insertWithSource`, `deleteWithSource`, `willApply`, acceptance rule
of the current tree); spec: `Spec/Lww.lean`.  `F` (forgiveness, ms) and the number of sources are
arbitrary.  `legacy_counterexample` at the end is the negation witness for the pinned acceptance
rule (defect D1).
-/
import Datacake.Lemmas.Apply

namespace Datacake.C04
open Datacake.Lww Datacake.OrSwot Datacake.Ts

/-- The property's parenthesis: no operation is older than the forgiveness window relative to what
the replica has already seen from its origin, at the moment it is applied. -/
def Accepted (F : Nat) : OrSwot → List SrcOp → Prop
  | _, [] => True
  | s, o :: rest => isBefore s.safe o.op.ts = false ∧ Accepted F (applyOp F s o).1 rest

/-- LWW record of `k` starting from record `r`. -/
def lwwFrom (r : Option Nat) (ops : List Op) (k : Nat) : Option Nat :=
  ops.foldl (fun acc o => if o.key = k then join acc (rank o) else acc) r

theorem disj_empty (n : Nat) : Disj (OrSwot.empty n) := fun _ => Or.inl rfl

/-- **apply_ops_lww** (general form): starting from any consistent state, accepted operations
leave, on every key, the LWW join of the old record with the operations on that key. -/
theorem apply_ops_lww_from (F : Nat) (ops : List SrcOp) (s : OrSwot) (hd : Disj s)
    (ha : Accepted F s ops) :
    (∀ k, view (applyAll F s ops) k = lwwFrom (view s k) (ops.map (·.op)) k) ∧
    Disj (applyAll F s ops) := by
  induction ops generalizing s with
  | nil => exact ⟨fun _ => rfl, hd⟩
  | cons o rest ih =>
    obtain ⟨ha1, ha2⟩ := ha
    obtain ⟨h1, h2, _⟩ := applyOp_step F s o hd ha1
    obtain ⟨ih1, ih2⟩ := ih (applyOp F s o).1 h2 ha2
    refine ⟨?_, ih2⟩
    intro k
    simp only [applyAll, List.foldl_cons, List.map_cons, lwwFrom] at ih1 ⊢
    rw [ih1 k, h1 k]
    by_cases hk : k = o.op.key
    · subst hk; simp
    · have : o.op.key ≠ k := fun h => hk h.symm
      simp [hk, this]

/-- **apply_ops_lww**: on a fresh replica (any number of sources), accepted operations in any
arrival order leave exactly the LWW record of every key: live at `t` iff the greatest-stamp
operation on it is an insert at `t`, tombstoned iff it is a delete (an insert wins an exact tie). -/
theorem apply_ops_lww (F n : Nat) (ops : List SrcOp) (ha : Accepted F (OrSwot.empty n) ops) :
    ∀ k, view (applyAll F (OrSwot.empty n) ops) k = lww (ops.map (·.op)) k := by
  intro k
  have := (apply_ops_lww_from F ops (OrSwot.empty n) (disj_empty n) ha).1 k
  simpa [lwwFrom, lww, view, OrSwot.empty] using this

/-! ### The window condition implies acceptance, for every arrival order -/

/-- All stamps are valid, and any two operations of the same origin node are less than one
forgiveness period apart (in time). -/
def Window (F : Nat) (ops : List SrcOp) : Prop :=
  (∀ a ∈ ops, ValidStamp a.op.ts) ∧
  ∀ a ∈ ops, ∀ b ∈ ops, node a.op.ts = node b.op.ts → dts a.op.ts < dts b.op.ts + F

theorem accepted_of_window_aux (F : Nat) (hF : F % 4 = 0) (all : List SrcOp) (hw : Window F all)
    (ops : List SrcOp) (hsub : ∀ o ∈ ops, o ∈ all) (s : OrSwot) (S : Nat → Prop)
    (hinv : VersInv F s S) (hS : ∀ m, S m → ∃ a ∈ all, a.op.ts = m) : Accepted F s ops := by
  induction ops generalizing s S with
  | nil => trivial
  | cons o rest ih =>
    have ho := hsub o List.mem_cons_self
    refine ⟨?_, ?_⟩
    · apply not_before_of_window F s S hinv o.op.ts hF (hw.1 o ho)
      intro m hm
      obtain ⟨a, ha, rfl⟩ := hS m hm
      exact ⟨(hw.1 a ha).1, fun hn => hw.2 a ha o ho hn⟩
    · apply ih (fun x hx => hsub x (List.mem_cons_of_mem _ hx)) _ _ (versInv_applyOp F s o S hinv)
      intro m hm
      rcases hm with hm | hm
      · exact hS m hm
      · exact ⟨o, ho, hm.symm⟩

/-- **accepted_of_origin_window**: under the window condition every arrival order (the list `ops`
itself is arbitrary, so this covers all permutations) is accepted on a fresh replica. -/
theorem accepted_of_origin_window (F n : Nat) (hF : F % 4 = 0) (ops : List SrcOp)
    (hw : Window F ops) : Accepted F (OrSwot.empty n) ops :=
  accepted_of_window_aux F hF ops hw ops (fun _ h => h) _ (fun _ => False)
    (versInv_empty F n _) (fun _ h => h.elim)

/-- LWW does not depend on the order of the operations. -/
theorem lww_perm (ops₁ ops₂ : List Op) (h : ops₁.Perm ops₂) (k : Nat) : lww ops₁ k = lww ops₂ k := by
  have gen : ∀ r, ops₁.foldl (fun acc o => if o.key = k then join acc (rank o) else acc) r =
      ops₂.foldl (fun acc o => if o.key = k then join acc (rank o) else acc) r := by
    induction h with
    | nil => intro r; rfl
    | cons x _ ih => intro r; simp only [List.foldl_cons]; exact ih _
    | swap x y l =>
      intro r
      simp only [List.foldl_cons]
      congr 1
      cases r with
      | none => by_cases h1 : x.key = k <;> by_cases h2 : y.key = k <;> simp [h1, h2, join, Nat.max_comm]
      | some v =>
        by_cases h1 : x.key = k <;> by_cases h2 : y.key = k <;> simp [h1, h2, join]
        omega
    | trans _ _ ih1 ih2 => intro r; rw [ih1, ih2]
  exact gen none

/-- **order_independent**: two arrival orders (through any sources) of the same operations, all
within the window, give the same record on every key. -/
theorem order_independent (F n : Nat) (hF : F % 4 = 0) (ops₁ ops₂ : List SrcOp)
    (hp : (ops₁.map (·.op)).Perm (ops₂.map (·.op))) (hw₁ : Window F ops₁) (hw₂ : Window F ops₂) :
    ∀ k, view (applyAll F (OrSwot.empty n) ops₁) k = view (applyAll F (OrSwot.empty n) ops₂) k := by
  intro k
  rw [apply_ops_lww F n ops₁ (accepted_of_origin_window F n hF ops₁ hw₁),
      apply_ops_lww F n ops₂ (accepted_of_origin_window F n hF ops₂ hw₂)]
  exact lww_perm _ _ hp k

/-! ### Return values and the will-apply prediction -/

/-- **result_iff_changed**: an operation returns `true` exactly when the replica's record of that
key changes (for an accepted operation: iff it is strictly newer than the record; a refused one
returns `false` and changes nothing). -/
theorem result_iff_changed (F : Nat) (s : OrSwot) (o : SrcOp) (hd : Disj s) :
    ((applyOp F s o).2 = true ↔ view (applyOp F s o).1 o.op.key ≠ view s o.op.key) := by
  cases hb : isBefore s.safe o.op.ts with
  | true => rw [applyOp_refused F s o hb]; simp
  | false =>
    obtain ⟨h1, _, h3⟩ := applyOp_step F s o hd hb
    rw [h3, h1]
    simp only [if_true]
    cases hv : view s o.op.key with
    | none => simp [Newer, join]
    | some y =>
      simp only [Newer, join, Option.some.injEq, forall_eq', ne_eq]
      omega

/-- **will_apply_predicts**: `will_apply`, asked just before, equals the operation's return value —
for deletes always, for inserts whenever the key's tombstone (if any) does not carry exactly the
insert's stamp (in particular whenever stamps are distinct). -/
theorem will_apply_predicts (F : Nat) (s : OrSwot) (o : SrcOp) (hd : Disj s)
    (htie : o.op.isDel = false → Map.get s.dead o.op.key ≠ some o.op.ts) :
    willApply s o.op.key o.op.ts = (applyOp F s o).2 := by
  cases hb : isBefore s.safe o.op.ts with
  | true => rw [applyOp_refused F s o hb]; simp [willApply, hb]
  | false =>
    obtain ⟨_, _, h3⟩ := applyOp_step F s o hd hb
    have hdk := hd o.op.key
    rw [Bool.eq_iff_iff, h3]
    unfold willApply view rank liveRec deadRec Newer
    simp only [hb]
    cases he : Map.get s.entries o.op.key with
    | some e =>
      cases hdel : o.op.isDel <;> simp <;> omega
    | none =>
      cases hdd : Map.get s.dead o.op.key with
      | none => simp
      | some d =>
        cases hdel : o.op.isDel
        · have := htie hdel; rw [hdd] at this
          simp at this ⊢; omega
        · simp

/-! ### Witnesses -/

/-- Defect D1 (pinned acceptance rule): `insert k1 @5000 s` then `insert k2 @4000 s`, same origin,
same source, inside the window.  The second insert is refused although `will_apply` said `true`,
so key 2 ends up absent while LWW says it is live. -/
theorem legacy_counterexample :
    let t1 := pack 5000000 0 0
    let t2 := pack 4000000 0 0
    let s1 := (insertWithSourceLegacy 3600000 (OrSwot.empty 1) 0 1 t1).1
    willApply s1 2 t2 = true ∧
    (insertWithSourceLegacy 3600000 s1 0 2 t2).2 = false ∧
    view (insertWithSourceLegacy 3600000 s1 0 2 t2).1 2 = none ∧
    lww [⟨1, t1, false⟩, ⟨2, t2, false⟩] 2 = some (liveRec t2) ∧
    -- the current rule accepts it
    (insertWithSource 3600000 (insertWithSource 3600000 (OrSwot.empty 1) 0 1 t1).1 0 2 t2).2 = true := by
  decide

/-- Defect D17 (pinned cut-off): for a node whose oldest observed stamp is younger than the
forgiveness period the subtraction clamped at the datacake epoch but kept the counter, so a stamp
of the first tick with a lower counter — well inside the window — lay below the cut-off and its
event was refused.  The current `forgive` puts the cut-off at the node's very first stamp. -/
theorem legacy_epoch_cutoff :
    let t := pack 1000 5 0
    let m := pack 0 3 0
    ValidStamp m ∧ ValidStamp t ∧ node m = node t ∧ dts t < dts m + 3600000 ∧
    m < forgiveLegacy 3600000 t ∧ ¬ m < forgive 3600000 t := by
  refine ⟨⟨by decide, by decide⟩, ⟨by decide, by decide⟩, by decide, by decide, by decide, by decide⟩

/-- Non-vacuity: a concrete out-of-order, two-source history of two origins satisfies `Window`. -/
example : Window 3600000
    [⟨0, ⟨1, pack 5000000 0 0, false⟩⟩, ⟨1, ⟨1, pack 4000000 3 0, true⟩⟩,
     ⟨0, ⟨2, pack 4000000 0 1, false⟩⟩, ⟨0, ⟨1, pack 4000000 0 1, true⟩⟩] := by
  refine ⟨?_, ?_⟩
  · intro a ha
    simp only [List.mem_cons, List.mem_nil_iff, or_false] at ha
    rcases ha with rfl | rfl | rfl | rfl <;> (refine ⟨by decide, by decide⟩)
  · intro a ha b hb
    simp only [List.mem_cons, List.mem_nil_iff, or_false] at ha hb
    rcases ha with rfl | rfl | rfl | rfl <;> rcases hb with rfl | rfl | rfl | rfl <;> decide

end Datacake.C04
