/-
C16 (consumer side) — the components of the store that subscribe to membership changes hold the
live membership.

Model: `Model/Replication.lean` (the task distributor and the anti-entropy poller with their FIFO
queues, the store's forwarding task reading the node's `MembershipChanges` stream).  The property
speaks of "a component that subscribes to membership changes at any moment and applies each change
it is handed in order": these two services ARE those components.  `pipeline_tracks` composes the
channel/stream theorem of `Props/C16.lean` with the queues: whatever the interleaving of
publications, forwarder reads, mutations and ticks, once the forwarder has read and the service
has ticked, the service's `live_members` is exactly the current membership — and the batch of that
tick goes to exactly those members, carrying every queued mutation once, in order, per keyspace.
-/
import Datacake.Props.C16
import Datacake.Model.Replication

namespace Datacake.C16b
open Datacake.Membership Datacake.Replication Datacake.C16

/-! ### The drain loop -/

def changesOf {α : Type} (q : List (Op α)) : List Delta :=
  q.filterMap (fun op => match op with | .change d => some d | .mutation _ => none)

def putsFor {α : Type} (ks : String) (q : List (Op α)) : List α :=
  q.flatMap (fun op => match op with
    | .mutation (.put k d) => if k = ks then [d] else []
    | .mutation (.multiPut k ds) => if k = ks then ds else []
    | _ => [])

def delsFor {α : Type} (ks : String) (q : List (Op α)) : List α :=
  q.flatMap (fun op => match op with
    | .mutation (.del k d) => if k = ks then [d] else []
    | .mutation (.multiDel k ds) => if k = ks then ds else []
    | _ => [])

def hasMutation {α : Type} (q : List (Op α)) : Bool :=
  q.any (fun op => match op with | .mutation _ => true | .change _ => false)

theorem lookup_extend {α : Type} (m : List (String × List α)) (ks k : String) (docs : List α) :
    lookup (extend m ks docs) k =
      if k = ks then some ((lookup m ks).getD [] ++ docs) else lookup m k := by
  induction m with
  | nil =>
    simp only [extend, lookup]
    by_cases h : k = ks
    · subst h; simp
    · rw [if_neg (fun e => h e.symm), if_neg h]
  | cons x rest ih =>
    obtain ⟨k0, v⟩ := x
    simp only [extend]
    by_cases h0 : k0 = ks <;> by_cases h1 : k0 = k <;> by_cases h2 : k = ks <;>
      simp_all [lookup]

theorem extend_ne_nil {α : Type} (m : List (String × List α)) (ks : String) (docs : List α) :
    (extend m ks docs).isEmpty = false := by
  cases m with
  | nil => rfl
  | cons x rest => obtain ⟨k, v⟩ := x; simp only [extend]; split <;> rfl

/-- **drain_live**: the live map after a drain is the live map before with the queued membership
changes applied in queue order; mutations do not touch it. -/
theorem drain_live {α : Type} (q : List (Op α)) (a : Acc α) :
    (q.foldl drainStep a).live = (changesOf q).foldl applyDelta a.live := by
  induction q generalizing a with
  | nil => rfl
  | cons op rest ih =>
    simp only [List.foldl_cons]
    rw [ih]
    cases op with
    | change d => simp [changesOf, drainStep]
    | mutation m => cases m <;> simp [changesOf, drainStep, register]

/-- **drain_puts**: per keyspace, the drain collects exactly the documents of the queued
`Put`/`MultiPut` mutations for that keyspace, in queue order, none lost, none duplicated. -/
theorem drain_puts {α : Type} (q : List (Op α)) (a : Acc α) (ks : String) :
    ((lookup (q.foldl drainStep a).puts ks).getD []) = (lookup a.puts ks).getD [] ++ putsFor ks q := by
  induction q generalizing a with
  | nil => simp [putsFor]
  | cons op rest ih =>
    simp only [List.foldl_cons]
    rw [ih]
    have hp : putsFor ks (op :: rest) = putsFor ks [op] ++ putsFor ks rest := by
      simp [putsFor]
    rw [hp, ← List.append_assoc]
    congr 1
    cases op with
    | change d => simp [drainStep, putsFor]
    | mutation m =>
      cases m with
      | put k d =>
        simp only [drainStep, register, putsFor, List.flatMap_cons, List.flatMap_nil, List.append_nil]
        rw [lookup_extend]
        by_cases h : ks = k
        · subst h; simp
        · rw [if_neg h, if_neg (fun e => h e.symm)]; simp
      | multiPut k ds =>
        simp only [drainStep, register, putsFor, List.flatMap_cons, List.flatMap_nil, List.append_nil]
        rw [lookup_extend]
        by_cases h : ks = k
        · subst h; simp
        · rw [if_neg h, if_neg (fun e => h e.symm)]; simp
      | del k d => simp [drainStep, register, putsFor]
      | multiDel k ds => simp [drainStep, register, putsFor]

theorem drain_dels {α : Type} (q : List (Op α)) (a : Acc α) (ks : String) :
    ((lookup (q.foldl drainStep a).dels ks).getD []) = (lookup a.dels ks).getD [] ++ delsFor ks q := by
  induction q generalizing a with
  | nil => simp [delsFor]
  | cons op rest ih =>
    simp only [List.foldl_cons]
    rw [ih]
    have hp : delsFor ks (op :: rest) = delsFor ks [op] ++ delsFor ks rest := by
      simp [delsFor]
    rw [hp, ← List.append_assoc]
    congr 1
    cases op with
    | change d => simp [drainStep, delsFor]
    | mutation m =>
      cases m with
      | del k d =>
        simp only [drainStep, register, delsFor, List.flatMap_cons, List.flatMap_nil, List.append_nil]
        rw [lookup_extend]
        by_cases h : ks = k
        · subst h; simp
        · rw [if_neg h, if_neg (fun e => h e.symm)]; simp
      | multiDel k ds =>
        simp only [drainStep, register, delsFor, List.flatMap_cons, List.flatMap_nil, List.append_nil]
        rw [lookup_extend]
        by_cases h : ks = k
        · subst h; simp
        · rw [if_neg h, if_neg (fun e => h e.symm)]; simp
      | put k d => simp [drainStep, register, delsFor]
      | multiPut k ds => simp [drainStep, register, delsFor]

/-- A drain collects something exactly when a mutation was queued. -/
theorem drain_nonempty {α : Type} (q : List (Op α)) (a : Acc α) :
    ((q.foldl drainStep a).puts.isEmpty && (q.foldl drainStep a).dels.isEmpty) =
      ((a.puts.isEmpty && a.dels.isEmpty) && !hasMutation q) := by
  induction q generalizing a with
  | nil => simp [hasMutation]
  | cons op rest ih =>
    simp only [List.foldl_cons]
    rw [ih]
    cases op with
    | change d => simp [drainStep, hasMutation]
    | mutation m =>
      cases m <;> simp [drainStep, register, hasMutation, extend_ne_nil]

/-- **tick_spec**: one tick of the distributor empties the queue, leaves `live_members` = the old
map with all queued changes applied in order, and sends a batch exactly when a mutation was
queued — to exactly the members live after the drain (also those whose `joined` was queued BEHIND
the mutation, and not those whose `left` was), carrying per keyspace exactly the queued documents
in order. -/
theorem tick_spec {α : Type} (d : Dist α) :
    (d.tick).1.queue = [] ∧
    (d.tick).1.live = (changesOf d.queue).foldl applyDelta d.live ∧
    ((d.tick).2.isSome = hasMutation d.queue) ∧
    ∀ b, (d.tick).2 = some b →
      b.targets = (d.tick).1.live ∧
      (∀ ks, (lookup b.modified ks).getD [] = putsFor ks d.queue) ∧
      (∀ ks, (lookup b.removed ks).getD [] = delsFor ks d.queue) := by
  refine ⟨rfl, drain_live d.queue _, ?_, ?_⟩
  · unfold Dist.tick
    simp only
    have := drain_nonempty d.queue ({ live := d.live } : Acc α)
    rw [this]
    cases hasMutation d.queue <;> simp
  · intro b hb
    unfold Dist.tick at hb ⊢
    simp only at hb ⊢
    split at hb
    · cases hb
    · cases hb
      refine ⟨rfl, fun ks => ?_, fun ks => ?_⟩
      · have := drain_puts d.queue ({ live := d.live } : Acc α) ks
        simpa [lookup] using this
      · have := drain_dels d.queue ({ live := d.live } : Acc α) ks
        simpa [lookup] using this

theorem changesOf_append {α : Type} (a b : List (Op α)) : changesOf (a ++ b) = changesOf a ++ changesOf b := by
  simp [changesOf]

/-- **tick_split**: when the interval fires is irrelevant for the membership a service ends up
with — an extra tick between two parts of the queue gives the same live map as one tick over both
(the harness cannot control the 1 s interval of the real service; the model need not). -/
theorem tick_split {α : Type} (d : Dist α) (q2 : List (Op α)) :
    ({ d.tick.1 with queue := q2 } : Dist α).tick.1.live =
      ({ d with queue := d.queue ++ q2 } : Dist α).tick.1.live := by
  have h1 := (tick_spec ({ d.tick.1 with queue := q2 } : Dist α)).2.1
  have h2 := (tick_spec ({ d with queue := d.queue ++ q2 } : Dist α)).2.1
  have h3 := (tick_spec d).2.1
  rw [h1, h2]
  simp only [h3, changesOf_append, List.foldl_append]

/-! ### The pipeline: channel → forwarder → queues → services -/

inductive Ev (α : Type) where
  | pub (snap : Snapshot)         -- the node publishes a membership snapshot
  | forward                       -- the store's forwarding task polls its stream
  | mutate (m : Mutation α)       -- a `Consistency::None` / left-over write is handed to the distributor
  | tick                          -- the distributor's interval fires
  | cycle (ok : List Nat)         -- the poller's interval fires; `ok` = the members whose poll succeeds

structure World (α : Type) where
  chan : Chan := {}
  p : Pipeline α := {}
  sent : List (Batch α) := []

def step {α : Type} (self : Nat) (w : World α) : Ev α → World α
  | .pub snap => { w with chan := w.chan.send snap }
  | .forward => { w with p := w.p.forward self w.chan }
  | .mutate m => { w with p := { w.p with dist := w.p.dist.enqueue (.mutation m) } }
  | .tick =>
    let (d', b) := w.p.dist.tick
    { w with p := { w.p with dist := d' }, sent := match b with | some b => w.sent ++ [b] | none => w.sent }
  | .cycle ok => { w with p := { w.p with poller := w.p.poller.cycle ok } }

def run {α : Type} (self : Nat) (evs : List (Ev α)) : World α := evs.foldl (step self) {}

def ValidEv {α : Type} : Ev α → Prop
  | .pub snap => DistinctIds snap
  | _ => True

/-- The membership a service WILL hold once it has drained its queue. -/
def virtD {α : Type} (d : Dist α) : List Member := (changesOf d.queue).foldl applyDelta d.live
def virtP (p : Poller) : List Member := p.queue.foldl applyDelta p.live

def idIn (id : Nat) (l : List Member) : Prop := ∃ m ∈ l, m.1 = id

/-- Invariant of the pipeline: the forwarder is a correct subscriber (C16), both services are — up
to their queued changes — at the membership the forwarder read last, and the poller's tracker only
knows members of its live map. -/
def PInv {α : Type} (self : Nat) (w : World α) : Prop :=
  DistinctIds w.chan.value ∧ SubOk self w.chan w.p.fwd ∧
  SameSet (virtD w.p.dist) (networkSet self w.p.fwd.last) ∧
  SameSet (virtP w.p.poller) (networkSet self w.p.fwd.last) ∧
  (∀ id ∈ w.p.poller.tracked, idIn id w.p.poller.live)

theorem idIn_foldl_insert (id : Nat) (joined l : List Member) (h : idIn id l) :
    idIn id (joined.foldl (fun l m => removeId l m.1 ++ [m]) l) := by
  induction joined generalizing l with
  | nil => exact h
  | cons j js ih =>
    simp only [List.foldl_cons]
    apply ih
    obtain ⟨m, hm, e⟩ := h
    by_cases hj : m.1 = j.1
    · exact ⟨j, by simp, by rw [← hj, e]⟩
    · exact ⟨m, by simp [removeId_mem, hm, hj], e⟩

theorem pollerStep_tracked (p : Poller) (d : Delta) (h : ∀ id ∈ p.tracked, idIn id p.live) :
    ∀ id ∈ (pollerStep p d).tracked, idIn id (pollerStep p d).live := by
  intro id hid
  simp only [pollerStep, List.mem_filter, Bool.not_eq_true', List.contains_eq_mem, decide_eq_false_iff_not,
    List.mem_map, not_exists, not_and] at hid
  obtain ⟨hin, hnl⟩ := hid
  obtain ⟨m, hm, e⟩ := h id hin
  simp only [pollerStep, applyDelta]
  apply idIn_foldl_insert
  refine ⟨m, ?_, e⟩
  rw [foldl_remove_mem]
  exact ⟨hm, fun l hl hc => hnl l hl (by rw [← hc, e])⟩

theorem poller_drain (q : List Delta) (p : Poller) (h : ∀ id ∈ p.tracked, idIn id p.live) :
    (q.foldl pollerStep p).live = q.foldl applyDelta p.live ∧
    (∀ id ∈ (q.foldl pollerStep p).tracked, idIn id (q.foldl pollerStep p).live) ∧
    (q.foldl pollerStep p).queue = p.queue := by
  induction q generalizing p with
  | nil => exact ⟨rfl, h, rfl⟩
  | cons d rest ih =>
    simp only [List.foldl_cons]
    obtain ⟨h1, h2, h3⟩ := ih (pollerStep p d) (pollerStep_tracked p d h)
    exact ⟨h1, h2, h3⟩

theorem pinv_step {α : Type} (self : Nat) (w : World α) (e : Ev α) (hv : ValidEv e) (h : PInv self w) :
    PInv self (step self w e) := by
  obtain ⟨hc, hsub, hd, hp, ht⟩ := h
  cases e with
  | pub snap => exact ⟨hv, subOk_send self w.chan snap _ hsub, hd, hp, ht⟩
  | mutate m =>
    refine ⟨hc, hsub, ?_, hp, ht⟩
    simp only [step, virtD, Dist.enqueue, changesOf_append]
    simpa [changesOf, virtD] using hd
  | tick =>
    refine ⟨hc, hsub, ?_, hp, ht⟩
    simp only [step]
    have := (tick_spec w.p.dist).2.1
    simp only [virtD, (tick_spec w.p.dist).1, this]
    simpa [changesOf, virtD] using hd
  | cycle ok =>
    refine ⟨hc, hsub, hd, ?_, ?_⟩
    · simp only [step, Poller.cycle, virtP]
      obtain ⟨h1, _, h3⟩ := poller_drain w.p.poller.queue { w.p.poller with queue := [] } ht
      rw [h3, h1]
      exact hp
    · simp only [step, Poller.cycle]
      obtain ⟨_, h2, _⟩ := poller_drain w.p.poller.queue { w.p.poller with queue := [] } ht
      intro id hid
      rcases List.mem_append.1 hid with hid | hid
      · exact h2 id hid
      · simp only [List.mem_filter, List.mem_map] at hid
        obtain ⟨⟨m, hm, e⟩, _⟩ := hid
        exact ⟨m, hm, e⟩
  | forward =>
    simp only [step, Pipeline.forward]
    obtain ⟨hok, hseen⟩ := subOk_poll self w.chan w.p.fwd hc hsub
    cases hpoll : w.p.fwd.poll self w.chan with
    | mk od fwd' =>
      cases od with
      | none =>
        exact ⟨hc, hsub, hd, hp, ht⟩
      | some d =>
        -- the stream yielded the delta between what it handed out last and the current snapshot
        have hd' : d = delta self w.p.fwd.last w.chan.value ∧ fwd'.last = w.chan.value := by
          unfold Sub.poll at hpoll
          split at hpoll
          · cases hpoll
          · cases hpoll; exact ⟨rfl, rfl⟩
        obtain ⟨rfl, hlast⟩ := hd'
        have hfwd : fwd' = (w.p.fwd.poll self w.chan).2 := by rw [hpoll]
        refine ⟨hc, hfwd ▸ hok, ?_, ?_, ht⟩
        · simp only [virtD, Dist.enqueue, changesOf_append, List.foldl_append]
          simp only [changesOf, List.filterMap_cons, List.filterMap_nil, List.foldl_cons, List.foldl_nil]
          rw [hlast]
          exact delta_between self _ _ hsub.2.1 hc _ hd
        · simp only [virtP, List.foldl_append, List.foldl_cons, List.foldl_nil]
          rw [hlast]
          exact delta_between self _ _ hsub.2.1 hc _ hp

theorem pinv_init {α : Type} (self : Nat) : PInv self ({} : World α) :=
  ⟨fun a ha => (by cases ha), subOk_new self {}, fun m => (by simp [virtD, changesOf, networkSet]),
   fun m => (by simp [virtP, networkSet]), fun id hid => (by cases hid)⟩

theorem pinv_run {α : Type} (self : Nat) (evs : List (Ev α)) (hv : ∀ e ∈ evs, ValidEv e) (w : World α)
    (h : PInv self w) : PInv self (evs.foldl (step self) w) := by
  induction evs generalizing w with
  | nil => exact h
  | cons e es ih =>
    exact ih (fun e' he' => hv e' (List.mem_cons_of_mem _ he')) _ (pinv_step self w e (hv e List.mem_cons_self) h)

theorem forward_last {α : Type} (self : Nat) (p : Pipeline α) (c : Chan) (hs : SubOk self c p.fwd) :
    (p.forward self c).fwd.last = c.value := by
  unfold Pipeline.forward Sub.poll
  by_cases hseen : p.fwd.seen = some c.version
  · rw [if_pos hseen]; exact hs.2.2.1 hseen
  · rw [if_neg hseen]

theorem run_snoc {α : Type} (self : Nat) (evs : List (Ev α)) (e : Ev α) :
    run self (evs ++ [e]) = step self (run self evs) e := by
  simp [run, List.foldl_append]

theorem pinv_of_run {α : Type} (self : Nat) (evs : List (Ev α)) (hv : ∀ e ∈ evs, ValidEv e) :
    PInv self (run self evs) := pinv_run self evs hv {} (pinv_init self)

/-- **pipeline_tracks** (C16 for the store's own subscribers): after ANY history of publications,
forwarder reads, mutations, ticks and poll cycles, once the forwarder polls its stream and then the
distributor ticks (nothing published in between = quiescent membership), the distributor's
`live_members` holds exactly the other members of the current membership; and if that tick sends a
batch, it goes to exactly those members. -/
theorem pipeline_tracks {α : Type} (self : Nat) (evs : List (Ev α)) (hv : ∀ e ∈ evs, ValidEv e) :
    let w1 := run self (evs ++ [.forward])
    SameSet w1.p.dist.tick.1.live (networkSet self (run self evs).chan.value) ∧
    (run self (evs ++ [.forward, .tick])).p.dist = w1.p.dist.tick.1 ∧
    (∀ b, w1.p.dist.tick.2 = some b → SameSet b.targets (networkSet self (run self evs).chan.value)) := by
  have hw := pinv_of_run self evs hv
  have hf := pinv_step self (run self evs) (.forward) trivial hw
  have hseen : (step self (run self evs) .forward).p.fwd.last = (run self evs).chan.value :=
    forward_last self (run self evs).p (run self evs).chan hw.2.1
  obtain ⟨_, _, hd, _, _⟩ := hf
  rw [hseen] at hd
  have happ : evs ++ [Ev.forward, Ev.tick] = (evs ++ [Ev.forward]) ++ [Ev.tick] := by simp
  simp only [run_snoc, happ]
  refine ⟨?_, rfl, ?_⟩
  · rw [(tick_spec _).2.1]
    exact hd
  · intro b hb
    obtain ⟨h1, _, _⟩ := (tick_spec _).2.2.2 b hb
    rw [h1, (tick_spec _).2.1]
    exact hd

/-- The same for the poller: after a forwarder read and a cycle it polls exactly the current members,
and its keyspace tracker holds entries for members of its live map only (a member that left — or
changed address — is polled from scratch when it is back). -/
theorem poller_tracks {α : Type} (self : Nat) (evs : List (Ev α)) (hv : ∀ e ∈ evs, ValidEv e) (ok : List Nat) :
    let w := run self (evs ++ [.forward, .cycle ok])
    SameSet w.p.poller.live (networkSet self (run self evs).chan.value) ∧
    (∀ id ∈ w.p.poller.tracked, idIn id w.p.poller.live) := by
  have hw := pinv_of_run self evs hv
  have hf := pinv_step self (run self evs) (.forward) trivial hw
  have hseen : (step self (run self evs) .forward).p.fwd.last = (run self evs).chan.value :=
    forward_last self (run self evs).p (run self evs).chan hw.2.1
  have hc := pinv_step self _ (.cycle ok) trivial hf
  have happ : evs ++ [Ev.forward, Ev.cycle ok] = (evs ++ [Ev.forward]) ++ [Ev.cycle ok] := by simp
  simp only [run_snoc, happ]
  obtain ⟨_, _, _, hp, ht⟩ := hc
  refine ⟨?_, ht⟩
  have hq : (step self (step self (run self evs) .forward) (.cycle ok)).p.poller.queue = [] := by
    simp only [step, Poller.cycle]
    exact (poller_drain _ { (step self (run self evs) .forward).p.poller with queue := [] } hf.2.2.2.2).2.2
  have hfwd : (step self (step self (run self evs) .forward) (.cycle ok)).p.fwd = (step self (run self evs) .forward).p.fwd := rfl
  rw [hfwd, hseen] at hp
  simpa [virtP, hq] using hp

/-- Non-vacuity / the D9 witness through the whole pipeline: members 1 and 2 joined before the store
subscribed; a write handed to the distributor after one forwarder read goes to both. -/
example :
    ((run 0 ([.pub [(0, 100), (1, 101)], .pub [(0, 100), (1, 101), (2, 102)], .forward,
        .mutate (.put "ks" 7), .tick] : List (Ev Nat))).sent.map (fun b => (b.targets, b.modified)))
      = [([(1, 101), (2, 102)], [("ks", [7])])] := by decide

/-- A departure queued BEHIND a mutation still takes effect before the batch is sent (the whole
queue is drained first): the batch does not go to the member that left. -/
example :
    ((run 0 ([.pub [(0, 100), (1, 101), (2, 102)], .forward, .tick, .mutate (.put "ks" 7),
        .pub [(0, 100), (2, 102)], .forward, .tick] : List (Ev Nat))).sent.map (·.targets))
      = [[(2, 102)]] := by decide

/-! ### a queue that drops what does not fit (seeded change C16-rAm1) -/

/-- `bounded(cap)` + `try_send` with the result ignored: an entry that does not fit is dropped -
mutation or membership change alike. -/
def enqueueBounded {α : Type} (cap : Nat) (d : Dist α) (op : Op α) : Dist α :=
  if d.queue.length < cap then d.enqueue op else d

/-- Witness: behind a burst that fills the queue a join is dropped and the next tick - and every later
one: nobody sends the change again - does not know the member; the unbounded queue of the code
applies it (`tick_spec` / `pipeline_tracks` hold for EVERY queue length because nothing is dropped). -/
theorem bounded_queue_loses_membership_change :
    let burst : List (Op Nat) := [.mutation (.put "ks" 1), .mutation (.put "ks" 2)]
    let join : Op Nat := .change ⟨[(3, 103)], []⟩
    (((burst ++ [join]).foldl (enqueueBounded 2) ({} : Dist Nat)).tick).1.live = [] ∧
    (((burst ++ [join]).foldl Dist.enqueue ({} : Dist Nat)).tick).1.live = [(3, 103)] := by decide

end Datacake.C16b
