/-
C13 (support) — the request path determines the service and the message.

The registry theorems (`Props/C13.lean`, `Props/C13b.lean`) speak of handler KEYS and assume that
a key belongs to one service name (`WellOwned`).  A key is the hash of the request path
`/sanitise(service)/sanitise(message)`; this file proves that the path function of the current tree
is injective and always yields a valid URI path, so that — hash injectivity on the paths in play
being the one trusted assumption — the hypothesis `WellOwned` is satisfiable for ALL names
(`uri_keys_well_owned`).  For the tree before the `fix:` commit for D15 it is not: two names share a
path (`legacy_collision`) and a name with a space gives a path `http::Uri` rejects
(`legacy_invalid`; the client then panicked).

Names are byte strings (`List Nat`, every element below 256).
-/
import Datacake.Model.Rpc

namespace Datacake.C13c
open Datacake.Rpc

def Bytes (l : List Nat) : Prop := ∀ b ∈ l, b < 256

def unhex (c : Nat) : Nat := if c < 58 then c - 48 else c - 55

/-- The inverse of `sanitise`. -/
def decode : List Nat → List Nat
  | [] => []
  | [a] => [a]
  | [a, b] => [a, b]
  | a :: b :: c :: rest => if a = 37 then (16 * unhex b + unhex c) :: decode rest else a :: decode (b :: c :: rest)

theorem unhex_hexDigit (n : Nat) (h : n < 16) : unhex (hexDigit n) = n := by
  unfold unhex hexDigit
  split <;> split <;> omega

theorem unreserved_ne_37 (b : Nat) (h : unreserved b = true) : b ≠ 37 := by
  intro e; subst e; simp [unreserved] at h

theorem decode_cons_ne (a : Nat) (rest : List Nat) (h : a ≠ 37) : decode (a :: rest) = a :: decode rest := by
  match rest with
  | [] => rfl
  | [b] => rfl
  | b :: c :: r => simp [decode, h]

theorem decode_escape (x y : Nat) (rest : List Nat) :
    decode (37 :: x :: y :: rest) = (16 * unhex x + unhex y) :: decode rest := by
  simp [decode]

/-- **decode_sanitise**: the name can be read back from its encoding. -/
theorem decode_sanitise (name : List Nat) (h : Bytes name) : decode (sanitise name) = name := by
  induction name with
  | nil => rfl
  | cons b rest ih =>
    have hb : b < 256 := h b List.mem_cons_self
    have hr : Bytes rest := fun x hx => h x (List.mem_cons_of_mem _ hx)
    simp only [sanitise, List.flatMap_cons] at ih ⊢
    by_cases hu : unreserved b = true
    · have he : encByte b = [b] := by simp [encByte, hu]
      rw [he]
      simp only [List.singleton_append]
      rw [decode_cons_ne b _ (unreserved_ne_37 b hu), ih hr]
    · have he : encByte b = [37, hexDigit (b / 16), hexDigit (b % 16)] := by simp [encByte, hu]
      rw [he]
      simp only [List.cons_append, List.nil_append]
      rw [decode_escape, ih hr, unhex_hexDigit _ (by omega), unhex_hexDigit _ (by omega)]
      congr 1
      omega

/-- **sanitise_injective**: distinct names have distinct encodings. -/
theorem sanitise_injective (a b : List Nat) (ha : Bytes a) (hb : Bytes b) (h : sanitise a = sanitise b) : a = b := by
  rw [← decode_sanitise a ha, ← decode_sanitise b hb, h]

theorem hexDigit_range (n : Nat) (h : n < 16) : (48 ≤ hexDigit n ∧ hexDigit n ≤ 57) ∨ (65 ≤ hexDigit n ∧ hexDigit n ≤ 70) := by
  unfold hexDigit; split <;> omega

theorem hexDigit_unreserved (n : Nat) (h : n < 16) : unreserved (hexDigit n) = true := by
  rcases hexDigit_range n h with ⟨h1, h2⟩ | ⟨h1, h2⟩ <;> simp [unreserved] <;> omega

/-- Every byte of an encoded name is unreserved or belongs to a `%XX` escape. -/
theorem sanitise_bytes (name : List Nat) (h : Bytes name) : ∀ c ∈ sanitise name, unreserved c = true ∨ c = 37 := by
  intro c hc
  simp only [sanitise, List.mem_flatMap] at hc
  obtain ⟨b, hb, hcb⟩ := hc
  have hlt := h b hb
  unfold encByte at hcb
  by_cases hu : unreserved b = true
  · rw [if_pos hu] at hcb; simp at hcb; subst hcb; exact Or.inl hu
  · rw [if_neg hu] at hcb
    simp only [List.mem_cons, List.mem_nil_iff, or_false] at hcb
    rcases hcb with rfl | rfl | rfl
    · exact Or.inr rfl
    · exact Or.inl (hexDigit_unreserved _ (by omega))
    · exact Or.inl (hexDigit_unreserved _ (by omega))

theorem no_slash (name : List Nat) (h : Bytes name) : 47 ∉ sanitise name := by
  intro hc
  rcases sanitise_bytes name h 47 hc with h1 | h1
  · simp [unreserved] at h1
  · cases h1

theorem append_sep_inj (x : Nat) : ∀ (l1 l2 r1 r2 : List Nat), x ∉ l1 → x ∉ l2 →
    l1 ++ x :: r1 = l2 ++ x :: r2 → l1 = l2 ∧ r1 = r2 := by
  intro l1
  induction l1 with
  | nil =>
    intro l2 r1 r2 _ h2 h
    cases l2 with
    | nil => simp at h; exact ⟨rfl, h⟩
    | cons y ys =>
      simp only [List.nil_append, List.cons_append, List.cons.injEq] at h
      exact absurd (h.1 ▸ List.mem_cons_self) h2
  | cons a as ih =>
    intro l2 r1 r2 h1 h2 h
    cases l2 with
    | nil =>
      simp only [List.nil_append, List.cons_append, List.cons.injEq] at h
      exact absurd (h.1 ▸ List.mem_cons_self) h1
    | cons y ys =>
      simp only [List.cons_append, List.cons.injEq] at h
      obtain ⟨e1, e2⟩ := ih ys r1 r2 (fun hm => h1 (List.mem_cons_of_mem _ hm)) (fun hm => h2 (List.mem_cons_of_mem _ hm)) h.2
      exact ⟨by rw [h.1, e1], e2⟩

/-- **toUri_injective**: the request path determines the service name AND the message name. -/
theorem toUri_injective (s p s' p' : List Nat) (hs : Bytes s) (hp : Bytes p) (hs' : Bytes s') (hp' : Bytes p')
    (h : toUri s p = toUri s' p') : s = s' ∧ p = p' := by
  unfold toUri at h
  injection h with _ h
  obtain ⟨e1, e2⟩ := append_sep_inj 47 _ _ _ _ (no_slash s hs) (no_slash s' hs') h
  exact ⟨sanitise_injective s s' hs hs' e1, sanitise_injective p p' hp hp' e2⟩

/-- **toUri_valid**: whatever the names (type names with `<`, `,`, spaces, brackets, …), every byte of the
path is one `http::Uri` accepts in a path: the client never fails to build the request. -/
theorem toUri_valid (s p : List Nat) (hs : Bytes s) (hp : Bytes p) : ∀ c ∈ toUri s p, uriPathByte c = true := by
  intro c hc
  unfold toUri at hc
  simp only [List.mem_cons, List.mem_append] at hc
  have hu : ∀ c, unreserved c = true ∨ c = 37 → uriPathByte c = true := by
    intro c h
    rcases h with h | rfl
    · simp [uriPathByte, h]
    · simp [uriPathByte]
  rcases hc with rfl | hc | rfl | hc
  · simp [uriPathByte]
  · exact hu c (sanitise_bytes s hs c hc)
  · simp [uriPathByte]
  · exact hu c (sanitise_bytes p hp c hc)

/-- **uri_keys_well_owned**: with an injective hash on paths, every handler key has ONE owner: the
hypothesis `WellOwned` of the registry theorems can be met for all service and message names. -/
theorem uri_keys_well_owned (hash : List Nat → Nat) (hinj : ∀ a b, hash a = hash b → a = b) :
    ∃ owner : Nat → List Nat, ∀ s p, Bytes s → Bytes p → owner (hash (toUri s p)) = s := by
  classical
  refine ⟨fun k => if h : ∃ s p, Bytes s ∧ Bytes p ∧ k = hash (toUri s p) then h.choose else [], ?_⟩
  intro s p hs hp
  have hex : ∃ s' p', Bytes s' ∧ Bytes p' ∧ hash (toUri s p) = hash (toUri s' p') := ⟨s, p, hs, hp, rfl⟩
  simp only [dif_pos hex]
  obtain ⟨p', hs', hp', he⟩ := hex.choose_spec
  exact ((toUri_injective _ _ _ _ hs hp hs' hp' (hinj _ _ he)).1).symm

/-! ### Keys are the paths themselves (fix D26) -/

/-- A numbering of byte strings (the registry model numbers its keys): `pathKey [] = 0`,
`pathKey (b :: bs) = b + 1 + 257 * pathKey bs`. -/
def pathKey : List Nat → Nat
  | [] => 0
  | b :: bs => b + 1 + 257 * pathKey bs

theorem pathKey_injective : ∀ a b : List Nat, Bytes a → Bytes b → pathKey a = pathKey b → a = b
  | [], [], _, _, _ => rfl
  | [], y :: ys, _, _, h => by simp only [pathKey] at h; omega
  | x :: xs, [], _, _, h => by simp only [pathKey] at h; omega
  | x :: xs, y :: ys, ha, hb, h => by
    simp only [pathKey] at h
    have hx := ha x List.mem_cons_self
    have hy := hb y List.mem_cons_self
    have h1 : x = y := by omega
    have h2 : pathKey xs = pathKey ys := by omega
    rw [h1, pathKey_injective xs ys (fun b hb' => ha b (List.mem_cons_of_mem _ hb'))
      (fun b hb' => hb b (List.mem_cons_of_mem _ hb')) h2]

theorem toUri_bytes (s p : List Nat) (hs : Bytes s) (hp : Bytes p) : Bytes (toUri s p) := by
  intro c hc
  have := toUri_valid s p hs hp c hc
  unfold uriPathByte unreserved at this
  simp only [Bool.or_eq_true, Bool.and_eq_true, decide_eq_true_eq, beq_iff_eq] at this
  omega

/-- **path_keys_well_owned**: since fix D26 the handler key IS the request path (not a 64-bit hash of
it), so every handler key has ONE owner for ALL service and message names, without any assumption
about a hash function: the hypothesis `WellOwned` of the registry theorems is met unconditionally. -/
theorem path_keys_well_owned :
    ∃ owner : Nat → List Nat, ∀ s p, Bytes s → Bytes p → owner (pathKey (toUri s p)) = s := by
  classical
  refine ⟨fun k => if h : ∃ s p, Bytes s ∧ Bytes p ∧ k = pathKey (toUri s p) then h.choose else [], ?_⟩
  intro s p hs hp
  have hex : ∃ s' p', Bytes s' ∧ Bytes p' ∧ pathKey (toUri s p) = pathKey (toUri s' p') := ⟨s, p, hs, hp, rfl⟩
  simp only [dif_pos hex]
  obtain ⟨p', hs', hp', he⟩ := hex.choose_spec
  have := pathKey_injective _ _ (toUri_bytes s p hs hp) (toUri_bytes _ _ hs' hp') he
  exact ((toUri_injective _ _ _ _ hs hp hs' hp' this).1).symm

/-! ### The tree before the fix (D15) -/

/-- `gen<M1>` and `gen-M1-` got the same path: one handler entry for two services. -/
theorem legacy_collision :
    toUriLegacy [103, 101, 110, 60, 77, 49, 62] [77] = toUriLegacy [103, 101, 110, 45, 77, 49, 45] [77] ∧
    toUri [103, 101, 110, 60, 77, 49, 62] [77] ≠ toUri [103, 101, 110, 45, 77, 49, 45] [77] := by decide

/-- `pair<M1, M2>`: the legacy path contains a space (32) and a comma kept as is; the space is not a
valid URI byte: `Request::builder().uri(..)` failed and the client panicked. -/
theorem legacy_invalid :
    (toUriLegacy [112, 97, 105, 114, 60, 77, 49, 44, 32, 77, 50, 62] [77]).any (fun c => !uriPathByte c) = true ∧
    (toUri [112, 97, 105, 114, 60, 77, 49, 44, 32, 77, 50, 62] [77]).all uriPathByte = true := by decide

/-- Non-vacuity: the names above are byte strings. -/
example : Bytes [112, 97, 105, 114, 60, 77, 49, 44, 32, 77, 50, 62] := by
  intro b hb; simp only [List.mem_cons, List.mem_nil_iff, or_false] at hb; omega

end Datacake.C13c
