/-
C14 — Under network faults an RPC answers correctly or fails; never twice or mixed.

The property is stated on event traces (`Monitor.Spec`).  Two layers decide it:

  1. `protocol_runs_satisfy_spec`: EVERY run (any length, any interleaving, any placement of
     losses, delays, timeouts and connection errors) of the protocol model `RpcNet` — client
     `send_inner` (one stream per request, optional timeout, error mapping), an at-most-once
     stream transport, the server's dispatch and handler — satisfies `Spec`: each completion is the
     reply computed for that very request or a connection/timeout error, never two completions,
     never two handler runs, never a reply without a handler run, and with a timeout configured
     the call returns by the deadline.
  2. The model is tied to the code by trace inclusion: every trace that `harness-sim` observes on
     the real client and server over turmoil must be accepted by `RpcNet.run` (and, independently,
     by the verified monitor: `monitor_sound` / `monitor_complete`).

**Partial**: what the model says about `hyper`/`h2`/`turmoil` (no duplication of a stream's
request, replies matched to streams) is an assumption checked on sampled fault schedules, not a
theorem about those libraries.
-/
import Datacake.Model.Monitor
import Datacake.Lemmas.RpcNet

namespace Datacake.C14
open Datacake.Monitor

theorem getElem?_zipIdx (tr : List Ev) (n : Nat) (e : Ev) (h : tr[n]? = some e) : (e, n) ∈ tr.zipIdx := by
  rw [List.mem_zipIdx_iff_getElem?]
  simpa using h

/-- **monitor_sound**: a trace the monitor accepts satisfies the specification. -/
theorem monitor_sound (tr : List Ev) (tau slack : Nat) (h : monitor tr tau slack = true) : Spec tr tau slack := by
  intro n e he
  unfold monitor at h
  rw [List.all_eq_true] at h
  exact h (e, n) (getElem?_zipIdx tr n e he)

/-- **monitor_complete**: and conversely. -/
theorem monitor_complete (tr : List Ev) (tau slack : Nat) (h : Spec tr tau slack) : monitor tr tau slack = true := by
  unfold monitor
  rw [List.all_eq_true]
  intro p hp
  obtain ⟨e, n⟩ := p
  rw [List.mem_zipIdx_iff_getElem?] at hp
  exact h n e (by simpa using hp)

/-- What the specification gives for a completion with a reply: the value is the one the handler
computes for that very request, a handler run for it had begun, the request had been sent, and it
completed only once. -/
theorem reply_is_own (tr : List Ev) (tau slack n id v t : Nat) (h : Spec tr tau slack)
    (he : tr[n]? = some (.done id (.reply v) t)) :
    v = expected id ∧ (before tr n).any (isBegin id) = true ∧ (before tr n).any (isSend id) = true ∧
    (before tr n).any (isDone id) = false := by
  have := h n _ he
  simp only [evOk, doneOk, Bool.and_eq_true, Bool.not_eq_true', decide_eq_true_eq] at this
  obtain ⟨⟨⟨h1, h2⟩, h3, h4⟩, _⟩ := this
  exact ⟨h3, h4, h1, h2⟩

/-- No request is executed by the handler more than once. -/
theorem handler_at_most_once (tr : List Ev) (tau slack n id t : Nat) (h : Spec tr tau slack)
    (he : tr[n]? = some (.hbegin id t)) : (before tr n).any (isBegin id) = false := by
  have := h n _ he
  simp only [evOk, Bool.and_eq_true, Bool.not_eq_true'] at this
  exact this.1

/-- A client with a timeout gets its answer (or its timeout error) within the bound. -/
theorem within_timeout (tr : List Ev) (tau slack n id t : Nat) (o : Outcome) (h : Spec tr tau slack)
    (htau : tau ≠ 0) (he : tr[n]? = some (.done id o t)) :
    ∃ st, sendTime tr id = some st ∧ t ≤ st + tau + slack := by
  have := h n _ he
  simp only [evOk, doneOk, withinDeadline, Bool.and_eq_true, Bool.or_eq_true, beq_iff_eq] at this
  obtain ⟨_, h2⟩ := this
  rcases h2 with h2 | h2
  · exact absurd h2 htau
  · cases hs : sendTime tr id with
    | none => rw [hs] at h2; cases h2
    | some st => rw [hs] at h2; exact ⟨st, rfl, by simpa using h2⟩

/-- **protocol_runs_satisfy_spec**: every trace the protocol model can produce satisfies the
specification — for every length, interleaving and fault placement. -/
theorem protocol_runs_satisfy_spec (tau slack : Nat) (tr : List Ev) (s : RpcNet.Net)
    (h : RpcNet.run tau slack RpcNet.init tr = some s) : Spec tr tau slack := by
  intro n e he
  have := (RpcNet.run_spec_from tau slack tr RpcNet.init s [] RpcNet.inv_init h).1 n e he
  simpa using this

/-- The same for what the driver evaluates on every observed trace. -/
theorem accepted_trace_satisfies_spec (tau slack : Nat) (tr : List Ev)
    (h : RpcNet.firstRefused tau slack RpcNet.init tr 0 = none) : Spec tr tau slack := by
  have := (RpcNet.firstRefused_none_iff tau slack tr RpcNet.init 0).1 h
  cases hr : RpcNet.run tau slack RpcNet.init tr with
  | none => rw [hr] at this; cases this
  | some s => exact protocol_runs_satisfy_spec tau slack tr s hr

/-- Corollary in the property's own words: in a run of the protocol, a call that returns a reply
returns the value the handler computes for that very request, the handler ran for it, and no call
returns twice. -/
theorem protocol_reply_is_own (tau slack : Nat) (tr : List Ev) (s : RpcNet.Net)
    (h : RpcNet.run tau slack RpcNet.init tr = some s) (n id v t : Nat)
    (he : tr[n]? = some (.done id (.reply v) t)) :
    v = expected id ∧ (before tr n).any (isBegin id) = true ∧ (before tr n).any (isSend id) = true ∧
    (before tr n).any (isDone id) = false :=
  reply_is_own tr tau slack n id v t (protocol_runs_satisfy_spec tau slack tr s h) he

/-- No interleaving of the protocol runs a handler twice for one request. -/
theorem protocol_handler_at_most_once (tau slack : Nat) (tr : List Ev) (s : RpcNet.Net)
    (h : RpcNet.run tau slack RpcNet.init tr = some s) (n id t : Nat)
    (he : tr[n]? = some (.hbegin id t)) : (before tr n).any (isBegin id) = false :=
  handler_at_most_once tr tau slack n id t (protocol_runs_satisfy_spec tau slack tr s h) he

/-- Witnesses: the protocol model accepts a run with a lost reply + timeout followed by a late
handler end, and a run where two requests overlap; it refuses a swapped reply and a second
handler run. -/
example : (RpcNet.run 2000 25 RpcNet.init
    [.send 1 0, .send 2 3, .hbegin 2 5, .hbegin 1 6, .hend 1 7, .done 1 (.reply 10) 9, .done 2 .timeout 2010, .hend 2 2600]).isSome = true := by decide
example : (RpcNet.run 2000 25 RpcNet.init
    [.send 1 0, .send 2 0, .hbegin 1 5, .hbegin 2 5, .hend 1 6, .hend 2 6, .done 1 (.reply 17) 9]).isSome = false := by decide
example : (RpcNet.run 0 25 RpcNet.init [.send 1 0, .hbegin 1 5, .hbegin 1 7]).isSome = false := by decide

/-- Witnesses: the monitor accepts a correct trace and rejects a swapped reply, a double execution
and a late answer. -/
example : monitor [.send 1 0, .hbegin 1 5, .hend 1 6, .done 1 (.reply 10) 9, .send 2 10, .done 2 .timeout 2010] 2000 25 = true := by decide
example : monitor [.send 1 0, .send 2 0, .hbegin 1 5, .hbegin 2 5, .done 1 (.reply 17) 9] 2000 25 = false := by decide
example : monitor [.send 1 0, .hbegin 1 5, .hbegin 1 7] 0 25 = false := by decide
example : monitor [.send 1 0, .hbegin 1 5, .done 1 (.reply 10) 2500] 2000 25 = false := by decide

end Datacake.C14
