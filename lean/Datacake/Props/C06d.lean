/-
C06 with the replicas the selector picked: the write theorem (`Props/C06b: write_spec`, about the
function the driver executes) took the selected replicas as given and demanded of them what C15
provides (`WriteOk`: distinct, not the issuer).  Here the two are composed: the replicas ARE the
result of `select_nodes` (`Props/C15: select_sound`) for the level of the call, mapped from
addresses to nodes by any map that is injective on the layout (an address is one node: D21/D30), and
the sentence of the property comes out whole -

  when the write returns `Ok` for level `L`, the mutation (or a newer one for the same id) is held
  by the issuing node and by every selected node; the selected nodes are pairwise distinct, none of
  them is the issuer, and there are at least as many as `L` requires.
-/
import Datacake.Props.C06b
import Datacake.Props.C15

namespace Datacake.C06
open Datacake.Lww Datacake.OrSwot Datacake.Storage Datacake.Keyspace Datacake.Cluster Datacake.C01d
open Datacake.Selector Datacake.C15

theorem nodup_map_on (f : Nat → Nat) : ∀ (l : List Nat), l.Nodup → (∀ a ∈ l, ∀ b ∈ l, f a = f b → a = b) → (l.map f).Nodup
  | [], _, _ => List.nodup_nil
  | x :: xs, hnd, hinj => by
    simp only [List.nodup_cons] at hnd
    simp only [List.map_cons, List.nodup_cons]
    refine ⟨?_, nodup_map_on f xs hnd.2 (fun a ha b hb => hinj a (List.mem_cons_of_mem _ ha) b (List.mem_cons_of_mem _ hb))⟩
    intro hm
    rcases List.mem_map.1 hm with ⟨y, hy, hxy⟩
    have : y = x := hinj y (List.mem_cons_of_mem _ hy) x (List.mem_cons_self ..) hxy
    exact hnd.1 (this ▸ hy)

/-- **ok_write_reaches_what_the_level_promises** -/
theorem ok_write_reaches_what_the_level_promises
    (c : Cluster) (down hangNext stuck : List Nat) (i : Nat) (iss : Issued)
    (local_ localDc total : Nat) (dcs : Dcs) (lvl : Level) (choice : List Nat) (ns : List Nat)
    (node : Nat → Nat)
    (wf : Selector.WF dcs) (hl : ∃ d, getDc dcs localDc = some d)
    (hchoice : ∀ n, (lvl = .one → n = 1) → (lvl = .two → n = 2) → (lvl = .three → n = 3) →
      (lvl = .one ∨ lvl = .two ∨ lvl = .three) → GoodChoice dcs n choice)
    (hsel : (selectNodes local_ localDc total dcs lvl choice).1 = .ok ns)
    -- the addresses of the layout are nodes of the cluster; the local address is the issuer
    (hinj : ∀ a b, a ∈ local_ :: allNodes dcs → b ∈ local_ :: allNodes dcs → node a = node b → a = b)
    (hlocal : node local_ = i)
    (hrange : ∀ a ∈ allNodes dcs, node a < c.nodes.length) (hi : i < c.nodes.length)
    -- the premises about the data (C02, C09)
    (hagree : ∀ x, Agree (getNode c x).ks) (hfresh : ∀ x, Fresh (getNode c x).ks.set iss)
    (hok : (write c down hangNext stuck i (ns.map node) iss).2.2 = .done (.ok ())) :
    let c' := (write c down hangNext stuck i (ns.map node) iss).1
    HoldsAt c' i iss ∧ (∀ t ∈ ns.map node, HoldsAt c' t iss) ∧
    (ns.map node).Nodup ∧ i ∉ ns.map node ∧
    (ns.map node).length ≥ required lvl local_ localDc total dcs := by
  intro c'
  obtain ⟨_, _, hs⟩ := select_sound local_ localDc total dcs lvl choice wf hl hchoice
  obtain ⟨hnd, hnl, hsub, hlen, _⟩ := hs ns hsel
  have hmem : ∀ x ∈ ns, x ∈ local_ :: allNodes dcs := fun x hx => List.mem_cons_of_mem _ (hsub x hx)
  have hnd' : (ns.map node).Nodup := by
    exact nodup_map_on node ns hnd (fun a ha b hb hab => hinj a b (hmem a ha) (hmem b hb) hab)
  have hns : i ∉ ns.map node := by
    intro hm
    rcases List.mem_map.1 hm with ⟨a, ha, hai⟩
    have : a = local_ := hinj a local_ (hmem a ha) (List.mem_cons_self ..) (by rw [hai, hlocal])
    exact hnl (this ▸ ha)
  have hw : WriteOk c i (ns.map node) iss :=
    ⟨hnd', hns, hi, by
      intro t ht
      rcases List.mem_map.1 ht with ⟨a, ha, rfl⟩
      exact hrange a (hsub a ha), hagree, hfresh⟩
  have hspec := write_spec c down hangNext stuck i (ns.map node) iss hw
  rw [hok] at hspec
  simp only at hspec
  exact ⟨hspec.1, hspec.2, hnd', hns, by rw [List.length_map]; exact hlen⟩

end Datacake.C06
