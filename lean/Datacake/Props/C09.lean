/-
C09 — Hybrid clock stamps are unique, strictly increasing and respect causality.

Property theorems only (model: `Datacake/Model/Timestamp.lean`).  All statements are for every
clock value, every wall reading and every remote stamp, under the decidable guard `WallOk`
that the real code silently relies on (wall clock a multiple of 4 ms — `get_datacake_timestamp`
normalises it — and far enough below 2^32 s that `pack`'s shift does not drop bits).
-/
import Datacake.Lemmas.Timestamp

namespace Datacake.C09
open Datacake.Ts

/-- A `u64`. -/
def IsU64 (t : Nat) : Prop := t < 18446744073709551616

/-- The wall reading is one `get_datacake_timestamp()` returns: a multiple of 4 ms (the resolution of
the packed form).  No bound: since the `fix:` commit for D16 `send`/`recv` refuse a logical time whose
seconds do not fit 32 bits (the year 2159) instead of wrapping, so the theorems need no range
hypothesis (`WallOkLegacy` is what they needed before). -/
def WallOk (wall : Nat) : Prop := wall % 4 = 0

def WallOkLegacy (wall : Nat) : Prop := wall % 4 = 0 ∧ wall / 1000 + 4102 < 4294967296

/-- A clock value whose time part is not more than the drift ahead of the wall clock.  Every clock
value produced by `new(now)`, `send` or `recv` satisfies this w.r.t. the wall reading at that
moment, and keeps satisfying it as long as the wall clock does not run backwards by itself; the
theorems below do NOT need it (they hold for arbitrary `u64` clocks). -/
def Valid (t : Nat) : Prop := IsU64 t ∧ fractional t < 250

/-- **send**: a successful `send` returns a stamp strictly greater than the old clock value, with
the clock's node id, whose time is the larger of the old logical time and the wall clock and at
most `MAX_CLOCK_DRIFT` ahead of the wall clock; the result is again a well-formed `u64`. -/
theorem send_spec (c wall c' : Nat) (hw : WallOk wall)
    (h : send c wall = .ok c') :
    c < c' ∧ node c' = node c ∧ dts c' = max (dts c) wall ∧ wall ≤ dts c' ∧
      dts c' ≤ wall + MAX_CLOCK_DRIFT_MS ∧ IsU64 c' ∧ fractional c' < 250 := by
  have hk := counter_lt c
  have hn := node_lt c
  have h4 := dts_mod4 c
  unfold send at h
  unfold WallOk at hw
  simp only at h
  split at h
  · cases h
  · rename_i hdr
    split at h
    · cases h
    · rename_i hrg
      have hs : (max (dts c) wall) / 1000 < 4294967296 := by unfold durSecs at hrg; omega
      have hm4 : (max (dts c) wall) % 4 = 0 := by omega
      have hle := le_pack_dts c (by omega)
      split at h
      · rename_i heq
        split at h
        · cases h
        · injection h with h; subst h
          obtain ⟨f1, f2, f3, f4⟩ := pack_fields (max (dts c) wall) (counter c + 1) (node c) hs (by omega) hn
          have hd := dts_pack (max (dts c) wall) (counter c + 1) (node c) hs (by omega) hn hm4
          have hlt : pack (dts c) (counter c) (node c) <
              pack (max (dts c) wall) (counter c + 1) (node c) := by
            rw [← heq]
            exact pack_lt_pack_ctr (dts c) (counter c) (counter c + 1) (node c) (node c)
              (by omega) hn (by omega)
          refine ⟨by omega, f4, hd, by omega, by omega, ?_, by rw [f2]; omega⟩
          unfold IsU64; rw [pack_eq _ _ _ hs]; omega
      · rename_i hne
        injection h with h; subst h
        obtain ⟨f1, f2, f3, f4⟩ := pack_fields (max (dts c) wall) 0 (node c) hs (by omega) hn
        have hd := dts_pack (max (dts c) wall) 0 (node c) hs (by omega) hn hm4
        have hlt := pack_lt_of_ms_lt (dts c) (max (dts c) wall) (counter c) (node c) 0 (node c)
          hs hk hn h4 hm4 (by omega)
        refine ⟨by omega, f4, hd, by omega, by omega, ?_, by rw [f2]; omega⟩
        unfold IsU64; rw [pack_eq _ _ _ hs]; omega

/-- `send` fails exactly for the documented reasons — the clock is more than the drift ahead of the
wall clock, the counter is exhausted, or (D16) the logical time no longer fits the 32-bit seconds —
and (being a pure function of the old value) leaves the clock unchanged when it does. -/
theorem send_error_iff (c wall : Nat) :
    (send c wall = .error .clockDrift ↔ dts c > wall + MAX_CLOCK_DRIFT_MS) ∧
    (send c wall = .error .overflow ↔
        dts c ≤ wall + MAX_CLOCK_DRIFT_MS ∧
          (durSecs (max (dts c) wall) > TIMESTAMP_MAX ∨ (wall ≤ dts c ∧ counter c = 65535))) ∧
    (send c wall ≠ .error .duplicatedNode) := by
  have hcl := counter_lt c
  unfold send
  simp only
  refine ⟨?_, ?_, ?_⟩
  · constructor
    · intro h; split at h
      · omega
      · split at h
        · cases h
        · split at h
          · split at h <;> cases h
          · cases h
    · intro h; rw [if_pos (by omega)]
  · constructor
    · intro h; split at h
      · cases h
      · rename_i hdr
        split at h
        · rename_i hrg; exact ⟨by omega, Or.inl hrg⟩
        · split at h
          · split at h
            · exact ⟨by omega, Or.inr ⟨by omega, by omega⟩⟩
            · cases h
          · cases h
    · intro ⟨h1, h2⟩
      rw [if_neg (by omega)]
      by_cases hrg : durSecs (max (dts c) wall) > TIMESTAMP_MAX
      · rw [if_pos hrg]
      · rw [if_neg hrg]
        rcases h2 with h2 | ⟨h2, h3⟩
        · exact absurd h2 hrg
        · rw [if_pos (by omega), if_pos (by omega)]
  · intro h; split at h
    · cases h
    · split at h
      · cases h
      · split at h
        · split at h <;> cases h
        · cases h

/-- The counter chosen by `recv` is strictly above the old counter when the time does not move,
and strictly above the message's counter when the new time is the message's. -/
theorem recvCounter_spec (tsNew tsOld tsMsg cOld cMsg k : Nat)
    (h : recvCounter tsNew tsOld tsMsg cOld cMsg = .ok k) :
    k < 65536 ∧ (tsNew = tsOld → cOld < k) ∧ (tsNew = tsMsg → cMsg < k) := by
  unfold recvCounter at h
  split at h
  · split at h
    · cases h
    · injection h with h; omega
  · split at h
    · split at h
      · cases h
      · injection h with h; omega
    · split at h
      · split at h
        · cases h
        · injection h with h; omega
      · injection h with h; omega

/-- **recv**: a successful `recv` leaves the clock strictly greater than both its old value and
the received stamp, keeps the clock's node id, returns the new time and counter under the
*sender's* node id, and stays within the drift bound. -/
theorem recv_spec (c wall msg c' r : Nat) (hw : WallOk wall)
    (h : recv c wall msg = .ok (c', r)) :
    c < c' ∧ msg < c' ∧ node c' = node c ∧ node c ≠ node msg ∧
    node r = node msg ∧ r / 256 = c' / 256 ∧
    dts c' = max (max (dts c) wall) (dts msg) ∧ dts c' ≤ wall + MAX_CLOCK_DRIFT_MS ∧
    IsU64 c' ∧ fractional c' < 250 := by
  have hn := node_lt c
  have hnm := node_lt msg
  have h4 := dts_mod4 c
  have h4m := dts_mod4 msg
  unfold recv at h
  unfold WallOk at hw
  simp only at h
  split at h
  · cases h
  · rename_i hnode
    split at h
    · cases h
    · split at h
      · cases h
      · rename_i hdr
        split at h
        · cases h
        · rename_i hrg
          split at h
          · cases h
          · rename_i k hk
            obtain ⟨hk1, hk2, hk3⟩ := recvCounter_spec _ _ _ _ _ _ hk
            have hs : (max (max (dts c) wall) (dts msg)) / 1000 < 4294967296 := by unfold durSecs at hrg; omega
            have hm4 : (max (max (dts c) wall) (dts msg)) % 4 = 0 := by omega
            obtain ⟨f1, f2, f3, f4⟩ := pack_fields _ k (node c) hs hk1 hn
            have hd := dts_pack _ k (node c) hs hk1 hn hm4
            rw [f3] at h
            unfold new? durSecs at h
            rw [if_pos (by omega)] at h
            injection h with h; injection h with h1 h2
            subst h1; subst h2
            obtain ⟨g1, g2, g3, g4⟩ := pack_fields _ k (node msg) hs hk1 hnm
            have hc : c < pack (max (max (dts c) wall) (dts msg)) k (node c) :=
              lt_pack c _ k (node c) hs hm4 (by omega)
            have hm : msg < pack (max (max (dts c) wall) (dts msg)) k (node c) :=
              lt_pack msg _ k (node c) hs hm4 (by omega)
            refine ⟨hc, hm, f4, hnode, g4, ?_, hd, by omega, ?_, by rw [f2]; omega⟩
            · rw [pack_eq _ _ _ hs, pack_eq _ _ _ hs]; omega
            · unfold IsU64; rw [pack_eq _ _ _ hs]; omega

/-- Since the `fix:` commit for D16 the `assert!` inside `recv`'s final `Self::new` is unreachable for
EVERY wall reading, clock value and message: the range check comes first. -/
theorem recv_no_panic (c wall msg : Nat) : recv c wall msg ≠ .panic := by
  intro h
  unfold recv at h
  simp only at h
  split at h
  · cases h
  · split at h
    · cases h
    · split at h
      · cases h
      · split at h
        · cases h
        · rename_i hrg
          split at h
          · cases h
          · unfold new? at h
            rw [if_pos (by omega)] at h
            cases h

/-- `recv` refuses exactly: the sender's own node id; a message, or a resulting clock, more than
`MAX_CLOCK_DRIFT` ahead of the wall clock; a logical time that no longer fits the 32-bit seconds
(D16); a counter that would pass 65535.  Being a pure function of the old value, a refusal leaves
the clock unchanged. -/
theorem recv_error_iff (c wall msg : Nat) :
    (recv c wall msg = .err .duplicatedNode ↔ node c = node msg) ∧
    (recv c wall msg = .err .clockDrift ↔ node c ≠ node msg ∧
        (dts msg > wall + MAX_CLOCK_DRIFT_MS ∨ dts c > wall + MAX_CLOCK_DRIFT_MS)) ∧
    (recv c wall msg = .err .overflow ↔ node c ≠ node msg ∧
        dts msg ≤ wall + MAX_CLOCK_DRIFT_MS ∧ dts c ≤ wall + MAX_CLOCK_DRIFT_MS ∧
        (durSecs (max (max (dts c) wall) (dts msg)) > TIMESTAMP_MAX ∨
         recvCounter (max (max (dts c) wall) (dts msg)) (dts c) (dts msg) (counter c) (counter msg)
          = .error .overflow)) := by
  have key : ∀ e, recv c wall msg = .err e ↔
      (e = .duplicatedNode ∧ node c = node msg) ∨
      (e = .clockDrift ∧ node c ≠ node msg ∧
        (dts msg > wall + 4100000 ∨ dts c > wall + 4100000)) ∨
      (node c ≠ node msg ∧ dts msg ≤ wall + 4100000 ∧ dts c ≤ wall + 4100000 ∧
        ((e = .overflow ∧ durSecs (max (max (dts c) wall) (dts msg)) > TIMESTAMP_MAX) ∨
         (¬ durSecs (max (max (dts c) wall) (dts msg)) > TIMESTAMP_MAX ∧
          recvCounter (max (max (dts c) wall) (dts msg)) (dts c) (dts msg) (counter c) (counter msg)
            = .error e))) := by
    intro e
    unfold recv
    simp only
    by_cases hnode : node c = node msg
    · rw [if_pos hnode]
      constructor
      · intro h; injection h with h; exact Or.inl ⟨h.symm, hnode⟩
      · rintro (⟨h, _⟩ | ⟨_, h, _⟩ | ⟨h, _⟩)
        · rw [h]
        · exact absurd hnode h
        · exact absurd hnode h
    · rw [if_neg hnode]
      by_cases h1 : dts msg - wall > 4100000
      · rw [if_pos h1]
        constructor
        · intro h; injection h with h; exact Or.inr (Or.inl ⟨h.symm, hnode, Or.inl (by omega)⟩)
        · rintro (⟨_, h⟩ | ⟨h, _⟩ | ⟨_, h, _⟩)
          · exact absurd h hnode
          · rw [h]
          · omega
      · rw [if_neg h1]
        by_cases h2 : max (max (dts c) wall) (dts msg) - wall > 4100000
        · rw [if_pos h2]
          constructor
          · intro h; injection h with h
            exact Or.inr (Or.inl ⟨h.symm, hnode, Or.inr (by omega)⟩)
          · rintro (⟨_, h⟩ | ⟨h, _⟩ | ⟨_, _, h, _⟩)
            · exact absurd h hnode
            · rw [h]
            · omega
        · rw [if_neg h2]
          by_cases hrg : durSecs (max (max (dts c) wall) (dts msg)) > TIMESTAMP_MAX
          · rw [if_pos hrg]
            constructor
            · intro h; injection h with h
              exact Or.inr (Or.inr ⟨hnode, by omega, by omega, Or.inl ⟨h.symm, hrg⟩⟩)
            · rintro (⟨_, h⟩ | ⟨_, _, h⟩ | ⟨_, _, _, (⟨h, _⟩ | ⟨h, _⟩)⟩)
              · exact absurd h hnode
              · omega
              · rw [h]
              · exact absurd hrg h
          · rw [if_neg hrg]
            split
            · rename_i e' he'
              constructor
              · intro h; injection h with h; subst h
                exact Or.inr (Or.inr ⟨hnode, by omega, by omega, Or.inr ⟨hrg, he'⟩⟩)
              · rintro (⟨_, h⟩ | ⟨_, _, h⟩ | ⟨_, _, _, (⟨_, h⟩ | ⟨_, h⟩)⟩)
                · exact absurd h hnode
                · omega
                · exact absurd h hrg
                · rw [he'] at h; injection h with h; rw [h]
            · rename_i k hk
              unfold new?
              rw [if_pos (by omega)]
              constructor
              · intro h; cases h
              · rintro (⟨_, h⟩ | ⟨_, _, h⟩ | ⟨_, _, _, (⟨_, h⟩ | ⟨_, h⟩)⟩)
                · exact absurd h hnode
                · omega
                · exact absurd h hrg
                · rw [hk] at h; cases h
  have hrc : ∀ a b d e f, recvCounter a b d e f ≠ .error .duplicatedNode ∧
      recvCounter a b d e f ≠ .error .clockDrift := by
    intro a b d e f
    unfold recvCounter
    constructor <;> (intro h; repeat' split at h) <;> cases h
  refine ⟨?_, ?_, ?_⟩
  · rw [key]; constructor
    · rintro (⟨_, h⟩ | ⟨h, _⟩ | ⟨_, _, _, (⟨h, _⟩ | ⟨_, h⟩)⟩)
      · exact h
      · cases h
      · cases h
      · exact absurd h (hrc _ _ _ _ _).1
    · intro h; exact Or.inl ⟨rfl, h⟩
  · rw [key]; constructor
    · rintro (⟨h, _⟩ | ⟨_, h⟩ | ⟨_, _, _, (⟨h, _⟩ | ⟨_, h⟩)⟩)
      · cases h
      · exact h
      · cases h
      · exact absurd h (hrc _ _ _ _ _).2
    · intro h; exact Or.inr (Or.inl ⟨rfl, h⟩)
  · rw [key]; constructor
    · rintro (⟨h, _⟩ | ⟨h, _⟩ | ⟨h1, h2, h3, h4⟩)
      · cases h
      · cases h
      · refine ⟨h1, h2, h3, ?_⟩
        rcases h4 with ⟨_, h⟩ | ⟨_, h⟩
        · exact Or.inl h
        · exact Or.inr h
    · rintro ⟨h1, h2, h3, h4⟩
      refine Or.inr (Or.inr ⟨h1, h2, h3, ?_⟩)
      by_cases hrg : durSecs (max (max (dts c) wall) (dts msg)) > TIMESTAMP_MAX
      · exact Or.inl ⟨rfl, hrg⟩
      · rcases h4 with h | h
        · exact absurd h hrg
        · exact Or.inr ⟨hrg, h⟩

/-! ### Histories: any interleaving of `send` / `recv` with arbitrary wall readings -/

/-- One call on the clock, with the wall-clock reading it observes. -/
inductive Call where
  | send (wall : Nat)
  | recv (wall msg : Nat)

/-- What a successful call contributes to the history. -/
inductive Ev where
  | issued (t : Nat)      -- `send` returned `t`
  | accepted (m : Nat)    -- `recv` accepted the remote stamp `m`

def Ev.stamp : Ev → Nat
  | .issued t => t
  | .accepted m => m

/-- One call: new clock value and the event, if the call succeeded.  A failed call leaves the
clock as it was (`send`/`recv` assign `self.0` only on their success path). -/
def stepClock (c : Nat) : Call → Nat × Option Ev
  | .send w => match send c w with
    | .ok c' => (c', some (.issued c'))
    | .error _ => (c, none)
  | .recv w m => match recv c w m with
    | .ok (c', _) => (c', some (.accepted m))
    | _ => (c, none)

/-- The events of a whole history, oldest first. -/
def run (c : Nat) : List Call → List Ev
  | [] => []
  | call :: rest =>
    match stepClock c call with
    | (c', some e) => e :: run c' rest
    | (c', none) => run c' rest

/-- The final clock value of a history. -/
def finalClock (c : Nat) : List Call → Nat
  | [] => c
  | call :: rest => finalClock (stepClock c call).1 rest

def Call.WallOk : Call → Prop
  | .send w => C09.WallOk w
  | .recv w _ => C09.WallOk w

theorem step_mono (c : Nat) (call : Call) (hw : call.WallOk) :
    c ≤ (stepClock c call).1 ∧
    (∀ e, (stepClock c call).2 = some e → c < (stepClock c call).1 ∧ e.stamp ≤ (stepClock c call).1 ∧
      (∀ t, e = .issued t → t = (stepClock c call).1 ∧ node t = node c)) ∧
    node (stepClock c call).1 = node c := by
  cases call with
  | send w =>
    simp only [stepClock]
    cases h : send c w with
    | ok c' =>
      obtain ⟨h1, h2, _⟩ := send_spec c w c' hw h
      refine ⟨by simp only; omega, ?_, h2⟩
      intro e he; injection he with he; subst he
      exact ⟨h1, Nat.le_refl _, fun t ht => by injection ht with ht; exact ⟨ht.symm, ht ▸ h2⟩⟩
    | error _ => exact ⟨Nat.le_refl _, fun e he => (by cases he), rfl⟩
  | recv w m =>
    simp only [stepClock]
    cases h : recv c w m with
    | ok p =>
      obtain ⟨c', r⟩ := p
      obtain ⟨h1, h2, h3, _⟩ := recv_spec c w m c' r hw h
      refine ⟨by simp only; omega, ?_, h3⟩
      intro e he; injection he with he; subst he
      exact ⟨h1, by simp only [Ev.stamp]; omega, fun t ht => by cases ht⟩
    | err _ => exact ⟨Nat.le_refl _, fun e he => (by cases he), rfl⟩
    | panic => exact ⟨Nat.le_refl _, fun e he => (by cases he), rfl⟩

theorem run_issued_gt (c : Nat) (calls : List Call) (hw : ∀ call ∈ calls, call.WallOk) :
    ∀ e ∈ run c calls, ∀ t, e = .issued t → c < t ∧ node t = node c := by
  induction calls generalizing c with
  | nil => intro e he; cases he
  | cons call rest ih =>
    have hwc := hw call (List.mem_cons_self)
    have hwr : ∀ x ∈ rest, x.WallOk := fun x hx => hw x (List.mem_cons_of_mem _ hx)
    obtain ⟨h1, h2, h3⟩ := step_mono c call hwc
    intro e he t ht
    unfold run at he
    split at he
    · rename_i c' e' hst
      have hc' : (stepClock c call).1 = c' := by rw [hst]
      have he' : (stepClock c call).2 = some e' := by rw [hst]
      rw [hc'] at h1 h2 h3
      rcases List.mem_cons.1 he with rfl | hmem
      · obtain ⟨g1, _, g3⟩ := h2 _ he'
        obtain ⟨g4, g5⟩ := g3 t ht
        exact ⟨by omega, g5⟩
      · obtain ⟨g1, g2⟩ := ih c' hwr e hmem t ht
        exact ⟨by omega, by rw [g2, h3]⟩
    · rename_i c' hst
      have hc' : (stepClock c call).1 = c' := by rw [hst]
      rw [hc'] at h1 h3
      obtain ⟨g1, g2⟩ := ih c' hwr e he t ht
      exact ⟨by omega, by rw [g2, h3]⟩

/-- **history_monotone**: in every history of calls — any interleaving of `send` and `recv`,
wall readings stalled, jumping or running backwards, any remote stamps — every stamp the clock
issues is strictly greater than every stamp it issued or accepted earlier.  Hence all issued
stamps are pairwise distinct and strictly increasing, and everything issued after an accepted
remote stamp exceeds it. -/
theorem history_monotone (c : Nat) (calls : List Call) (hw : ∀ call ∈ calls, call.WallOk) :
    (run c calls).Pairwise (fun a b => ∀ t, b = .issued t → a.stamp < t) := by
  induction calls generalizing c with
  | nil => exact List.Pairwise.nil
  | cons call rest ih =>
    have hwc := hw call (List.mem_cons_self)
    have hwr : ∀ x ∈ rest, x.WallOk := fun x hx => hw x (List.mem_cons_of_mem _ hx)
    obtain ⟨h1, h2, h3⟩ := step_mono c call hwc
    unfold run
    split
    · rename_i c' e' hst
      have hc' : (stepClock c call).1 = c' := by rw [hst]
      have he' : (stepClock c call).2 = some e' := by rw [hst]
      rw [hc'] at h2
      refine List.Pairwise.cons ?_ (ih c' hwr)
      intro b hb t ht
      obtain ⟨g1, _⟩ := run_issued_gt c' rest hwr b hb t ht
      obtain ⟨_, g2, _⟩ := h2 _ he'
      omega
    · exact ih _ hwr

/-- Every issued stamp carries the clock's own node id. -/
theorem issued_node (c : Nat) (calls : List Call) (hw : ∀ call ∈ calls, call.WallOk)
    (t : Nat) (h : Ev.issued t ∈ run c calls) : node t = node c :=
  (run_issued_gt c calls hw _ h t rfl).2

/-- Non-vacuity: a concrete history (stalled wall clock, a jump backwards, a remote stamp ahead of
the wall clock, a refused own-node stamp) satisfies the hypotheses and produces events. -/
example :
    let calls := [Call.send 1000000, .send 1000000, .recv 999000 (pack 1003000 7 2),
                  .recv 999000 (pack 1003000 7 1), .send 4000]
    (∀ call ∈ calls, call.WallOk) ∧ (run (pack 0 0 1) calls).length = 4 := by
  refine ⟨?_, by decide⟩
  intro call h
  simp only [List.mem_cons, List.mem_nil_iff, or_false] at h
  rcases h with rfl | rfl | rfl | rfl | rfl <;> (unfold Call.WallOk WallOk; omega)


/-! ### The reading of the system clock (D28) -/

/-- Every reading of the system clock - before the datacake epoch included - is turned by
`get_datacake_timestamp` into a wall reading the theorems above accept: `WallOk` is not an
assumption about the environment, it holds for the conversion whatever the clock says. -/
theorem wallOfUnix_wallOk (unixMs : Nat) : WallOk (wallOfUnix unixMs) := by
  show (partsAsDuration (durSecs (unixMs - DATACAKE_EPOCH_MS)) (durFrac (unixMs - DATACAKE_EPOCH_MS))) % 4 = 0
  unfold partsAsDuration durSecs durFrac
  omega

/-- From the epoch on the conversion is the pinned one, rounded down to 4 ms. -/
theorem wallOfUnix_of_le (unixMs : Nat) (h : DATACAKE_EPOCH_MS ≤ unixMs) :
    wallOfUnixLegacy unixMs = some (wallOfUnix unixMs) ∧
    wallOfUnix unixMs ≤ unixMs - DATACAKE_EPOCH_MS ∧ unixMs - DATACAKE_EPOCH_MS < wallOfUnix unixMs + 4 := by
  have e : wallOfUnix unixMs =
      partsAsDuration (durSecs (unixMs - DATACAKE_EPOCH_MS)) (durFrac (unixMs - DATACAKE_EPOCH_MS)) := rfl
  refine ⟨?_, ?_, ?_⟩
  · unfold wallOfUnixLegacy
    rw [if_neg (by omega), e]
  · rw [e]; unfold partsAsDuration durSecs durFrac; generalize unixMs - DATACAKE_EPOCH_MS = d; omega
  · rw [e]; unfold partsAsDuration durSecs durFrac; generalize unixMs - DATACAKE_EPOCH_MS = d; omega

/-- Before the epoch the reading counts as the epoch: `send` still succeeds and the clock still
strictly increases (through the counter), where the pinned conversion panicked. -/
theorem wallOfUnix_before_epoch (unixMs : Nat) (h : unixMs < DATACAKE_EPOCH_MS) :
    wallOfUnix unixMs = 0 ∧ wallOfUnixLegacy unixMs = none := by
  refine ⟨?_, by unfold wallOfUnixLegacy; rw [if_pos h]⟩
  show partsAsDuration (durSecs (unixMs - DATACAKE_EPOCH_MS)) (durFrac (unixMs - DATACAKE_EPOCH_MS)) = 0
  have : unixMs - DATACAKE_EPOCH_MS = 0 := by omega
  rw [this]; rfl

/-- The witness of D28 (22 June 2022 on the system clock): the pinned code panics, the repaired one
issues the next stamp. -/
theorem legacy_wall_before_epoch_panics :
    wallOfUnixLegacy 1656000000000 = none ∧
    (send (pack 10000 0 1) (wallOfUnix 1656000000000)).toOption = some (pack 10000 1 1) := by decide


/-! ### The tree before the fix for D16 -/

/-- Before the fix, a wall reading past the 32-bit seconds made `send` succeed with a stamp far
BELOW the clock (the packed seconds wrapped): the clock went backwards. -/
theorem legacy_send_wraps :
    (sendLegacy 18446729547526177281 4294968015232).toOption = some 3089054564353 ∧
    (send 18446729547526177281 4294968015232).toOption = none := by decide

end Datacake.C09
