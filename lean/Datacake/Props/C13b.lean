/-
C13, general form — several service *types* may be registered under one service name (each with
its own message types); `remove_service(name)` must then remove the handlers of every one of them,
and still nothing else.

`add n keys inst`: `Server::add_service` of an instance `inst` of a service type named `n` whose
handler keys are `keys`.  `owner k` is the service name a key belongs to (a key is the hash of
`/name/path`; hash injectivity on the URIs in play is the trusted assumption, here the hypothesis
that every registered key is owned by the name it is registered under).
-/
import Datacake.Props.C13

namespace Datacake.C13b
open Datacake.Rpc Datacake.C13

inductive Ev where
  | add (n : Nat) (keys : List Nat) (inst : Nat)
  | remove (n : Nat)

def step (st : Registry) : Ev → Registry
  | .add n keys inst => addHandlers st n keys inst
  | .remove n => removeHandlers st n

def run (evs : List Ev) : Registry := evs.foldl step Registry.empty

/-- The specification, per handler key: the instance of the last registration that contained the
key, unless its service name has been removed since. -/
def specStep (owner : Nat → Nat) (f : Nat → Option Nat) : Ev → (Nat → Option Nat)
  | .add _ keys inst => fun k => if k ∈ keys then some inst else f k
  | .remove n => fun k => if owner k = n then none else f k

def served (owner : Nat → Nat) (evs : List Ev) : Nat → Option Nat :=
  evs.foldl (specStep owner) (fun _ => none)

/-- Every registration registers keys of its own name. -/
def WellOwned (owner : Nat → Nat) : Ev → Prop
  | .add n keys _ => ∀ k ∈ keys, owner k = n
  | .remove _ => True

structure Inv (owner : Nat → Nat) (st : Registry) (f : Nat → Option Nat) : Prop where
  handlers : ∀ k, lookup st.handlers k = f k
  listed : ∀ k i, f k = some i → ∃ ks, lookup st.services (owner k) = some ks ∧ k ∈ ks
  owned : ∀ n ks, lookup st.services n = some ks → ∀ k ∈ ks, owner k = n

theorem inv_step (owner : Nat → Nat) (st : Registry) (f : Nat → Option Nat) (h : Inv owner st f)
    (e : Ev) (hw : WellOwned owner e) : Inv owner (step st e) (specStep owner f e) := by
  cases e with
  | add n keys inst =>
    simp only [step, specStep, addHandlers]
    have hf : ∀ k, lookup (st.handlers.filter (fun p => !keys.contains p.1)) k =
        if k ∈ keys then none else lookup st.handlers k := by
      intro k
      have := lookup_filter st.handlers (fun x => !keys.contains x) k
      rw [this]
      by_cases hk : k ∈ keys <;> simp [hk]
    have hsvc : ∀ m, lookup ((n, keys ++ (lookup st.services n).getD []) :: remove st.services n) m =
        if m = n then some (keys ++ (lookup st.services n).getD []) else lookup st.services m := by
      intro m
      by_cases hmn : m = n
      · subst hmn; simp [lookup]
      · have : ¬ n = m := fun e => hmn e.symm
        simp only [lookup, if_neg this, lookup_remove, if_neg hmn]
    constructor
    · intro k
      rw [lookup_map_append, hf]
      by_cases hk : k ∈ keys
      · simp [hk]
      · simp only [if_neg hk]; exact h.handlers k
    · intro k i hk
      rw [hsvc]
      by_cases hkk : k ∈ keys
      · have := hw k hkk
        rw [if_pos this]
        exact ⟨_, rfl, List.mem_append_left _ hkk⟩
      · simp only [if_neg hkk] at hk
        obtain ⟨ks, e1, e2⟩ := h.listed k i hk
        by_cases hon : owner k = n
        · rw [if_pos hon]
          refine ⟨_, rfl, List.mem_append_right _ ?_⟩
          rw [hon] at e1; rw [e1]; exact e2
        · rw [if_neg hon]; exact ⟨ks, e1, e2⟩
    · intro m ks hm k hk
      rw [hsvc] at hm
      by_cases hmn : m = n
      · rw [if_pos hmn] at hm
        injection hm with hm
        subst hm
        rcases List.mem_append.1 hk with hk | hk
        · rw [hmn]; exact hw k hk
        · cases ho : lookup st.services n with
          | none => rw [ho] at hk; simp at hk
          | some old => rw [ho] at hk; rw [hmn]; exact h.owned n old ho k hk
      · rw [if_neg hmn] at hm; exact h.owned m ks hm k hk
  | remove n =>
    simp only [step, specStep, removeHandlers]
    cases hl : lookup st.services n with
    | none =>
      have hnone : ∀ k, owner k = n → f k = none := by
        intro k hk
        cases hfk : f k with
        | none => rfl
        | some i =>
          obtain ⟨ks, e1, _⟩ := h.listed k i hfk
          rw [hk, hl] at e1; cases e1
      have hsame : ∀ k, (if owner k = n then none else f k) = f k := by
        intro k; by_cases hk : owner k = n
        · rw [if_pos hk, hnone k hk]
        · rw [if_neg hk]
      simp only
      exact ⟨fun k => by rw [hsame k]; exact h.handlers k,
             fun k i hk => h.listed k i (by rw [← hsame k]; exact hk), h.owned⟩
    | some uris =>
      have hf : ∀ k, lookup (st.handlers.filter (fun p => !uris.contains p.1)) k =
          if k ∈ uris then none else lookup st.handlers k := by
        intro k
        have := lookup_filter st.handlers (fun x => !uris.contains x) k
        rw [this]
        by_cases hk : k ∈ uris <;> simp [hk]
      simp only
      constructor
      · intro k
        rw [hf]
        by_cases hk : k ∈ uris
        · rw [if_pos hk, if_pos (h.owned n uris hl k hk)]
        · rw [if_neg hk, h.handlers k]
          by_cases hon : owner k = n
          · rw [if_pos hon]
            cases hfk : f k with
            | none => rfl
            | some i =>
              obtain ⟨ks, e1, e2⟩ := h.listed k i hfk
              rw [hon, hl] at e1; injection e1 with e1; subst e1; exact absurd e2 hk
          · rw [if_neg hon]
      · intro k i hk
        by_cases hon : owner k = n
        · rw [if_pos hon] at hk; cases hk
        · rw [if_neg hon] at hk
          obtain ⟨ks, e1, e2⟩ := h.listed k i hk
          exact ⟨ks, by rw [lookup_remove, if_neg hon]; exact e1, e2⟩
      · intro m ks hm k hk
        rw [lookup_remove] at hm
        by_cases hmn : m = n
        · rw [if_pos hmn] at hm; cases hm
        · rw [if_neg hmn] at hm; exact h.owned m ks hm k hk

theorem inv_run (owner : Nat → Nat) (evs : List Ev) (hw : ∀ e ∈ evs, WellOwned owner e) :
    Inv owner (run evs) (served owner evs) := by
  unfold run served
  have h0 : Inv owner Registry.empty (fun _ => none) :=
    ⟨fun _ => rfl, fun _ _ h => (by cases h), fun _ _ h => (by cases h)⟩
  generalize Registry.empty = st at h0
  generalize (fun _ => none : Nat → Option Nat) = f at h0
  induction evs generalizing st f with
  | nil => exact h0
  | cons e es ih =>
    exact ih (fun e' he' => hw e' (List.mem_cons_of_mem _ he')) _ _
      (inv_step owner st f h0 e (hw e List.mem_cons_self))

/-- **served_iff_registered_general**: after any sequence of registrations and removals — several
service types under one name included — a request with handler key `k` is dispatched iff some
registration containing `k` happened after the last removal of `k`'s service name, and then to the
most recent such instance. -/
theorem served_iff_registered_general (owner : Nat → Nat) (evs : List Ev)
    (hw : ∀ e ∈ evs, WellOwned owner e) (k : Nat) :
    getHandler (run evs) k = served owner evs k :=
  (inv_run owner evs hw).handlers k

/-- Removing a name removes the handlers of EVERY registration under it … -/
theorem remove_leaves_nothing_behind_general (owner : Nat → Nat) (evs : List Ev)
    (hw : ∀ e ∈ evs, WellOwned owner e) (n k : Nat) (hk : owner k = n) :
    getHandler (run (evs ++ [Ev.remove n])) k = none := by
  rw [served_iff_registered_general owner _ (by
    intro e he
    rcases List.mem_append.1 he with h | h
    · exact hw e h
    · simp only [List.mem_singleton] at h; subst h; trivial)]
  simp [served, List.foldl_append, specStep, hk]

/-- … and nothing of any other name. -/
theorem remove_does_not_disable_others_general (owner : Nat → Nat) (evs : List Ev)
    (hw : ∀ e ∈ evs, WellOwned owner e) (n k : Nat) (hk : owner k ≠ n) :
    getHandler (run (evs ++ [Ev.remove n])) k = getHandler (run evs) k := by
  rw [served_iff_registered_general owner _ (by
    intro e he
    rcases List.mem_append.1 he with h | h
    · exact hw e h
    · simp only [List.mem_singleton] at h; subst h; trivial),
    served_iff_registered_general owner evs hw]
  simp [served, List.foldl_append, specStep, hk]

/-- Witness: two service types (keys 5 and 6) registered under one name (3), a bystander (key 9,
name 4); removing name 3 removes both and keeps the bystander. -/
example :
    let evs := [Ev.add 3 [5] 100, Ev.add 4 [9] 200, Ev.add 3 [6] 101]
    getHandler (run evs) 5 = some 100 ∧ getHandler (run evs) 6 = some 101 ∧
    getHandler (run (evs ++ [Ev.remove 3])) 5 = none ∧ getHandler (run (evs ++ [Ev.remove 3])) 6 = none ∧
    getHandler (run (evs ++ [Ev.remove 3])) 9 = some 200 := by decide

end Datacake.C13b
