/-
C08, cluster part — a cluster that purges at arbitrary moments shows exactly the live documents of
one that never purges, whenever every operation reaches every replica in time.

Timed model.  Events carry a global time `τ` (ms, the same unit as `dts`), non-decreasing along a
run.  `D` bounds the delivery delay, `σ` the clock skew, and `D + σ ≤ F` (the property's "delay +
skew < forgiveness period").  An event is

  * `apply j src o`      — node `j` receives operation `o` on source `src`: a client write, a direct
                           replication message, a duplicate, an item of a batch.  Admissible at time
                           `τ` when `o` is an operation of the history, not from the future beyond
                           the skew (`dts o.ts ≤ τ + σ`) and not later than the delay bound
                           (`τ < dts o.ts + D`);
  * `exchange j i order` — node `j` applies items of the difference it computed against the
                           *current, possibly purged* state of node `i`, in any order;
  * `purge j`            — node `j` purges (`purge_old_deletes`).

Timeliness (`T2`): at every event, every operation whose stamp is at least `D` old has been applied
at every node of the cluster ("every operation reaches every replica within the delay bound").

Theorems: `live_is_lww_of_applied` (at EVERY moment of EVERY such run the live documents of every
node are exactly the last-writer-wins live documents of what it has applied — no deleted document
reappears, no live document is lost, whatever was purged), `timely_purge_invisible` (at the end all
nodes show the live documents of the whole history) and `purging_equals_never_purging`.
-/
import Datacake.Lemmas.PurgeSim
import Datacake.Lemmas.Exchange

namespace Datacake.C08b
open Datacake.Lww Datacake.OrSwot Datacake.Ts Datacake.Map Datacake.Purge

/-! ### helper lemmas -/

/-- The live part of a record. -/
def liveOf : Option Nat → Option Nat
  | some r => if r % 2 = 1 then some (r / 2) else none
  | none => none

theorem get_eq_liveOf_view (g : OrSwot) (k : Nat) : OrSwot.get g k = liveOf (view g k) := by
  unfold OrSwot.get view
  cases he : Map.get g.entries k with
  | some e =>
    have h1 : liveRec e % 2 = 1 := by unfold liveRec; omega
    have h2 : liveRec e / 2 = e := by unfold liveRec; omega
    simp only [liveOf, h1, h2, if_true]
  | none =>
    cases hd : Map.get g.dead k with
    | some d =>
      have h1 : ¬ deadRec d % 2 = 1 := by unfold deadRec; omega
      simp only [liveOf, h1, if_false]
    | none => rfl

theorem lww_congr_set (A B : List Op) (k : Nat) (h1 : ∀ o ∈ A, o ∈ B) (h2 : ∀ o ∈ B, o ∈ A) :
    lww A k = lww B k := by
  cases ha : lww A k with
  | none =>
    cases hb : lww B k with
    | none => rfl
    | some r =>
      obtain ⟨o, ho, hk, _⟩ := lww_mem B k r hb
      obtain ⟨y, hy, _⟩ := lww_ge A k o (h2 o ho) hk
      rw [ha] at hy; cases hy
  | some r =>
    obtain ⟨o, ho, hk, hr⟩ := lww_mem A k r ha
    obtain ⟨y, hy, hle⟩ := lww_ge B k o (h1 o ho) hk
    obtain ⟨o2, ho2, hk2, hr2⟩ := lww_mem B k y hy
    obtain ⟨z, hz, hle2⟩ := lww_ge A k o2 (h2 o2 ho2) hk2
    rw [ha] at hz; cases hz
    rw [hy]; congr 1; omega

theorem lt_of_dts_lt (a b : Nat) (ha : ValidStamp a) (hb : ValidStamp b) (h : dts a < dts b) : a < b := by
  rw [lt_iff_lex]
  obtain ⟨_, ha2⟩ := ha
  obtain ⟨_, hb2⟩ := hb
  unfold dts partsAsDuration at h
  omega

/-! ### the timed cluster -/

structure Replica where
  s : OrSwot
  A : List Op

abbrev Cl := Nat → Replica

inductive Ev where
  | apply (j src : Nat) (o : Op)
  | exchange (j i : Nat) (order : List SrcOp)
  | purge (j : Nat)

def upd (c : Cl) (j : Nat) (r : Replica) : Cl := fun x => if x = j then r else c x

def step (F : Nat) (c : Cl) : Ev → Cl
  | .apply j src o => upd c j ⟨(applyOp F (c j).s ⟨src, o⟩).1, o :: (c j).A⟩
  | .exchange j _ order => upd c j ⟨applyAll F (c j).s order, (order.map (·.op)).reverse ++ (c j).A⟩
  | .purge j => upd c j ⟨(purgeOldDeletes (c j).s).1, (c j).A⟩

def run (F : Nat) (c : Cl) (evs : List (Nat × Ev)) : Cl := evs.foldl (fun c e => step F c e.2) c

/-- The parameters of a timely cluster. -/
structure Params where
  F : Nat
  D : Nat
  σ : Nat
  n : Nat
  hF : F % 4 = 0
  hDS : D + σ ≤ F

/-- Every operation at least `D` old has been applied at every node. -/
def AllDelivered (P : Params) (H : List Op) (c : Cl) (τ : Nat) : Prop :=
  ∀ x < P.n, ∀ o ∈ H, dts o.ts + P.D ≤ τ → o ∈ (c x).A

def ValidEv (P : Params) (H : List Op) (c : Cl) (τ : Nat) : Ev → Prop
  | .apply j _ o => j < P.n ∧ o ∈ H ∧ dts o.ts ≤ τ + P.σ ∧ τ < dts o.ts + P.D
  | .exchange j i order => j < P.n ∧ i < P.n ∧ ∀ so ∈ order, so.op ∈ diffOps (c j).s (c i).s
  | .purge j => j < P.n

def ValidRun (P : Params) (H : List Op) : Cl → Nat → List (Nat × Ev) → Prop
  | _, _, [] => True
  | c, t0, (τ, e) :: rest =>
    t0 ≤ τ ∧ AllDelivered P H c τ ∧ ValidEv P H c τ e ∧ ValidRun P H (step P.F c e) τ rest

/-- The cluster invariant at time `τ`. -/
def CInv (P : Params) (H : List Op) (c : Cl) (τ : Nat) : Prop :=
  ∀ x < P.n, NInv P.F (τ + P.σ) H (c x).s (c x).A

theorem timely_of_delivered (P : Params) (H : List Op) (c : Cl) (τ : Nat) (h : AllDelivered P H c τ)
    (x : Nat) (hx : x < P.n) : Timely P.F (τ + P.σ) H (c x).A := by
  intro o ho hle
  have := P.hDS
  exact h x hx o ho (by omega)

/-- A list of deliveries, each fresh, keeps the node invariant. -/
theorem ninv_applyAll (F B : Nat) (hF : F % 4 = 0) (H : List Op) (hg : GoodHist H) :
    ∀ (order : List SrcOp) (s : OrSwot) (A : List Op), NInv F B H s A → Timely F B H A →
    (∀ so ∈ order, so.op ∈ H ∧ dts so.op.ts ≤ B ∧ Fresh F B H so.op) →
    NInv F B H (applyAll F s order) ((order.map (·.op)).reverse ++ A) := by
  intro order
  induction order with
  | nil => intro s A h _ _; simpa [applyAll] using h
  | cons so rest ih =>
    intro s A h ht hall
    obtain ⟨h1, h2, h3⟩ := hall so List.mem_cons_self
    have hstep := ninv_apply F B hF H hg s A h ht so.src so.op h1 h2 h3
    have ht' : Timely F B H (so.op :: A) := fun o ho hle => List.mem_cons_of_mem _ (ht o ho hle)
    have := ih (applyOp F s so).1 (so.op :: A) hstep ht' (fun x hx => hall x (List.mem_cons_of_mem _ hx))
    simpa [applyAll, List.reverse_cons, List.append_assoc] using this

/-- An item of the difference against a (possibly purged) peer is an operation the peer has
applied, and it is the peer's newest record of its key. -/
theorem item_of_peer (F B : Nat) (H : List Op) (a : OrSwot) (ri : Replica)
    (hi : NInv F B H ri.s ri.A) (o : Op) (ho : o ∈ diffOps a ri.s) :
    o ∈ ri.A ∧ lww ri.A o.key = some (rank o) := by
  obtain ⟨⟨g, hr, hs⟩, _⟩ := hi
  have hrec := ((mem_diffOps a ri.s o).1 ho).1
  unfold HasRec at hrec
  have hview : view g o.key = some (rank o) := by
    unfold view rank
    cases hdel : o.isDel with
    | true =>
      rw [hdel] at hrec
      simp only [if_true] at hrec
      have hgd : Map.get g.dead o.key = some o.ts := by
        rcases hs.dead o.key with h1 | ⟨h1, _⟩
        · rw [h1, hrec]
        · rw [hrec] at h1; cases h1
      have hge : Map.get g.entries o.key = none := by
        rcases hr.disj o.key with h | h
        · exact h
        · rw [hgd] at h; cases h
      rw [hge, hgd]; rfl
    | false =>
      rw [hdel] at hrec
      simp only [Bool.false_eq_true, if_false] at hrec
      rw [hs.entries o.key, hrec]; rfl
  rw [hr.view] at hview
  refine ⟨?_, hview⟩
  obtain ⟨o', ho', hk, hrk⟩ := lww_mem ri.A o.key _ hview
  obtain ⟨h1, h2⟩ := rank_inj o' o hrk
  have : o' = o := by
    cases o'; cases o; simp only at hk h1 h2; subst hk; subst h1; subst h2; rfl
  rw [← this]; exact ho'

/-- One event keeps the cluster invariant. -/
theorem cinv_step (P : Params) (H : List Op) (hg : GoodHist H) (c : Cl) (t0 τ : Nat) (e : Ev)
    (hI : CInv P H c t0) (ht : t0 ≤ τ) (hdel : AllDelivered P H c τ) (hv : ValidEv P H c τ e) :
    CInv P H (step P.F c e) τ := by
  have hmono : ∀ x < P.n, NInv P.F (τ + P.σ) H (c x).s (c x).A :=
    fun x hx => ninv_mono P.F (t0 + P.σ) (τ + P.σ) H _ _ (hI x hx) (by omega)
  have hDS := P.hDS
  cases e with
  | apply j src o =>
    obtain ⟨hj, hoH, hfut, hlate⟩ := hv
    intro x hx
    unfold step upd
    by_cases hxj : x = j
    · simp only [hxj, if_true]
      apply ninv_apply P.F (τ + P.σ) P.hF H hg _ _ (hmono j hj) (timely_of_delivered P H c τ hdel j hj) src o hoH hfut
      intro od hod _ _ hold
      have hlt : dts od.ts < dts o.ts := by omega
      exact Nat.le_of_lt (lt_of_dts_lt _ _ (hg.valid od hod) (hg.valid o hoH) hlt)
    · simp only [hxj, if_false]; exact hmono x hx
  | exchange j i order =>
    obtain ⟨hj, hi, hitems⟩ := hv
    intro x hx
    unfold step upd
    by_cases hxj : x = j
    · simp only [hxj, if_true]
      apply ninv_applyAll P.F (τ + P.σ) P.hF H hg order _ _ (hmono j hj) (timely_of_delivered P H c τ hdel j hj)
      intro so hso
      obtain ⟨hmemA, hmax⟩ := item_of_peer P.F (τ + P.σ) H (c j).s (c i) (hmono i hi) so.op (hitems so hso)
      obtain ⟨_, hsubi⟩ := hmono i hi
      refine ⟨(hsubi _ hmemA).1, (hsubi _ hmemA).2, ?_⟩
      intro od hod hk hdl hold
      have hodA : od ∈ (c i).A := hdel i hi od hod (by omega)
      obtain ⟨y, hy, hle⟩ := lww_ge (c i).A so.op.key od hodA hk
      rw [hmax] at hy; cases hy
      unfold rank deadRec liveRec at hle
      rw [hdl] at hle
      simp only [if_true] at hle
      split at hle <;> omega
    · simp only [hxj, if_false]; exact hmono x hx
  | purge j =>
    intro x hx
    unfold step upd
    by_cases hxj : x = j
    · simp only [hxj, if_true]
      exact ninv_purge P.F (τ + P.σ) P.hF H hg _ _ (hmono j hv)
    · simp only [hxj, if_false]; exact hmono x hx

/-- Every valid run keeps the cluster invariant; the final time is returned. -/
theorem cinv_run (P : Params) (H : List Op) (hg : GoodHist H) :
    ∀ (evs : List (Nat × Ev)) (c : Cl) (t0 : Nat), CInv P H c t0 → ValidRun P H c t0 evs →
    ∃ τ, t0 ≤ τ ∧ CInv P H (run P.F c evs) τ := by
  intro evs
  induction evs with
  | nil => intro c t0 hI _; exact ⟨t0, Nat.le_refl _, hI⟩
  | cons e rest ih =>
    intro c t0 hI hv
    obtain ⟨τ, ev⟩ := e
    obtain ⟨ht, hdel, hev, hrest⟩ := hv
    have hI' := cinv_step P H hg c t0 τ ev hI ht hdel hev
    obtain ⟨τ', hle, hfin⟩ := ih (step P.F c ev) τ hI' hrest
    exact ⟨τ', by omega, hfin⟩

/-! ### the property -/

/-- **live_is_lww_of_applied**: at every moment of every timely run, whatever has been purged
where and when, the live documents of every node are exactly the last-writer-wins live documents of
the operations it has applied: no deleted document reappears, no live document is lost. -/
theorem live_is_lww_of_applied (P : Params) (H : List Op) (hg : GoodHist H) (c0 : Cl) (t0 : Nat)
    (h0 : CInv P H c0 t0) (evs : List (Nat × Ev)) (hv : ValidRun P H c0 t0 evs)
    (x : Nat) (hx : x < P.n) (k : Nat) :
    OrSwot.get (run P.F c0 evs x).s k = liveOf (lww (run P.F c0 evs x).A k) := by
  obtain ⟨τ, _, hI⟩ := cinv_run P H hg evs c0 t0 h0 hv
  obtain ⟨g, hr, hget⟩ := ninv_get P.F (τ + P.σ) H _ _ (hI x hx) k
  rw [hget, get_eq_liveOf_view, hr.view]

/-- **timely_purge_invisible**: once every operation has reached every node, every node shows
exactly the live documents of the whole history — the greatest-stamp operation per id, present if
it is a put and absent if it is a delete — however the run was interleaved with purges. -/
theorem timely_purge_invisible (P : Params) (H : List Op) (hg : GoodHist H) (c0 : Cl) (t0 : Nat)
    (h0 : CInv P H c0 t0) (evs : List (Nat × Ev)) (hv : ValidRun P H c0 t0 evs)
    (hall : ∀ x < P.n, ∀ o ∈ H, o ∈ (run P.F c0 evs x).A)
    (x : Nat) (hx : x < P.n) (k : Nat) :
    OrSwot.get (run P.F c0 evs x).s k = liveOf (lww H k) := by
  obtain ⟨τ, _, hI⟩ := cinv_run P H hg evs c0 t0 h0 hv
  rw [live_is_lww_of_applied P H hg c0 t0 h0 evs hv x hx k]
  congr 1
  exact lww_congr_set _ _ k (fun o ho => ((hI x hx).sub o ho).1) (hall x hx)

/-- **purging_equals_never_purging**: two timely runs over the same history — one purging at
arbitrary moments on arbitrary nodes, the other never — end with the same live documents on every
node. -/
theorem purging_equals_never_purging (P : Params) (H : List Op) (hg : GoodHist H) (c0 : Cl) (t0 : Nat)
    (h0 : CInv P H c0 t0) (evs evs' : List (Nat × Ev))
    (hv : ValidRun P H c0 t0 evs) (hv' : ValidRun P H c0 t0 evs')
    (hall : ∀ x < P.n, ∀ o ∈ H, o ∈ (run P.F c0 evs x).A)
    (hall' : ∀ x < P.n, ∀ o ∈ H, o ∈ (run P.F c0 evs' x).A)
    (x y : Nat) (hx : x < P.n) (hy : y < P.n) (k : Nat) :
    OrSwot.get (run P.F c0 evs x).s k = OrSwot.get (run P.F c0 evs' y).s k := by
  rw [timely_purge_invisible P H hg c0 t0 h0 evs hv hall x hx k,
      timely_purge_invisible P H hg c0 t0 h0 evs' hv' hall' y hy k]

/-- The empty cluster satisfies the invariant at any time. -/
theorem cinv_empty (P : Params) (H : List Op) (nsrc t0 : Nat) :
    CInv P H (fun _ => ⟨OrSwot.empty nsrc, []⟩) t0 :=
  fun _ _ => ninv_empty P.F (t0 + P.σ) nsrc H


/-! ### Witness: the hypotheses are satisfiable by a run in which a purge really removes a tombstone

Two nodes, two sources, forgiveness one hour, delay and skew bounds 1000 s each.  Node-1 origin
issues put k1, delete k1 (4 ms later) and, 3700 s later, put k2; every operation is delivered to
both nodes in time, the last one on both sources.  Node 0 then purges — the tombstone of k1 is
really removed — and afterwards exchanges with node 1, which still holds that tombstone. -/
namespace Witness

def P : Params := ⟨3600000, 1000000, 1000000, 2, by decide, by decide⟩
def o1 : Op := ⟨1, pack 10000000 0 1, false⟩
def o2 : Op := ⟨1, pack 10000004 0 1, true⟩
def o3 : Op := ⟨2, pack 13700000 0 1, false⟩
def H : List Op := [o1, o2, o3]
def c0 : Cl := fun _ => ⟨OrSwot.empty 2, []⟩
def evs : List (Nat × Ev) :=
  [(10000000, .apply 0 0 o1), (10000000, .apply 1 0 o1), (10000004, .apply 0 0 o2), (10000004, .apply 1 0 o2),
   (13700000, .apply 0 0 o3), (13700000, .apply 0 1 o3), (13700000, .apply 1 0 o3), (13700000, .apply 1 1 o3),
   (13700010, .purge 0), (13700020, .exchange 0 1 []), (13700030, .exchange 1 0 [])]

instance (P : Params) (H : List Op) (c : Cl) (τ : Nat) : Decidable (AllDelivered P H c τ) := by
  unfold AllDelivered; infer_instance

instance (P : Params) (H : List Op) (c : Cl) (τ : Nat) (e : Ev) : Decidable (ValidEv P H c τ e) := by
  cases e <;> unfold ValidEv <;> infer_instance

/-- The tombstone of k1 is there before the purge and gone after it, on node 0 only. -/
example : Map.get (run P.F c0 (evs.take 8) 0).s.dead 1 = some (pack 10000004 0 1) ∧
    Map.get (run P.F c0 evs 0).s.dead 1 = none ∧
    Map.get (run P.F c0 evs 1).s.dead 1 = some (pack 10000004 0 1) := by decide

/-- The run is a valid timely run, and at its end everything has been delivered everywhere. -/
example : ValidRun P H c0 0 evs ∧ (∀ x < P.n, ∀ o ∈ H, o ∈ (run P.F c0 evs x).A) := by
  refine ⟨?_, by decide⟩
  repeat (first | exact trivial | refine ⟨by decide, by decide, by decide, ?_⟩)

example : GoodHist H := ⟨by
  intro o ho
  simp only [H, List.mem_cons, List.not_mem_nil, or_false] at ho
  rcases ho with rfl | rfl | rfl <;> (unfold ValidStamp; decide)⟩

/-- Why timeliness is a hypothesis: the same shape with the put issued by ANOTHER origin (2) and
re-delivered to node 0 after the purge, 3700 s late (`τ < dts o.ts + D` violated): the put is
accepted again — origin 2 has been silent, so its cut-off is still low — and the deleted document
is live again on node 0, while the last-writer-wins record of the history is the tombstone. -/
def p1 : Op := ⟨1, pack 10000000 0 2, false⟩
def lateRun : List (Nat × Ev) :=
  [(10000000, .apply 0 0 p1), (10000004, .apply 0 0 o2), (13700000, .apply 0 0 o3), (13700000, .apply 0 1 o3),
   (13700010, .purge 0), (13700020, .apply 0 0 p1)]

example : OrSwot.get (run P.F c0 (lateRun.take 5) 0).s 1 = none ∧
    OrSwot.get (run P.F c0 lateRun 0).s 1 = some (pack 10000000 0 2) ∧
    liveOf (lww [p1, o2, o3] 1) = none ∧
    ¬ ValidRun P [p1, o2, o3] c0 0 lateRun := by
  refine ⟨by decide, by decide, by decide, ?_⟩
  intro h
  obtain ⟨_, _, _, h⟩ := h
  obtain ⟨_, _, _, h⟩ := h
  obtain ⟨_, _, _, h⟩ := h
  obtain ⟨_, _, _, h⟩ := h
  obtain ⟨_, _, _, h⟩ := h
  obtain ⟨_, _, hv, _⟩ := h
  revert hv
  decide

end Witness

end Datacake.C08b
