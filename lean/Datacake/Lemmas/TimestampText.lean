/- Printer / parser lemmas for the text form of timestamps (C10). -/
import Datacake.Lemmas.Timestamp

namespace Datacake.Ts

theorem charDigit_digitChar (b d : Nat) (hd : d < b) (hb : b ≤ 16) :
    charDigit b (digitChar d) = some d := by
  have h16 : d < 16 := by omega
  have hcases : d = 0 ∨ d = 1 ∨ d = 2 ∨ d = 3 ∨ d = 4 ∨ d = 5 ∨ d = 6 ∨ d = 7 ∨ d = 8 ∨ d = 9 ∨
      d = 10 ∨ d = 11 ∨ d = 12 ∨ d = 13 ∨ d = 14 ∨ d = 15 := by omega
  rcases hcases with h | h | h | h | h | h | h | h | h | h | h | h | h | h | h | h <;>
    (subst h; simp [charDigit, digitChar]; omega)

theorem digitChar_ne (d : Nat) : digitChar d ≠ '-' ∧ digitChar d ≠ '+' := by
  have hcases : d = 0 ∨ d = 1 ∨ d = 2 ∨ d = 3 ∨ d = 4 ∨ d = 5 ∨ d = 6 ∨ d = 7 ∨ d = 8 ∨ d = 9 ∨
      d = 10 ∨ d = 11 ∨ d = 12 ∨ d = 13 ∨ d = 14 ∨ 15 ≤ d := by omega
  rcases hcases with h | h | h | h | h | h | h | h | h | h | h | h | h | h | h | h
  all_goals first
    | (subst h; decide)
    | (have : digitChar d = 'F' := by
        unfold digitChar
        iterate 15 rw [if_neg (by omega)]
       rw [this]; decide)

/-- Structure of the digit printer: enough fuel gives a non-empty list of digit characters in
front of the accumulator. -/
theorem digitsAux_shape (b : Nat) (hb : 2 ≤ b) :
    ∀ fuel n tl, n < fuel → ∃ d rest, digitsAux b fuel n tl = digitChar d :: rest ∧
      (∀ c ∈ digitsAux b fuel n tl, c ∈ tl ∨ ∃ e, c = digitChar e) := by
  intro fuel
  induction fuel with
  | zero => intro n tl h; omega
  | succ fuel ih =>
    intro n tl h
    unfold digitsAux
    split
    · refine ⟨n, tl, rfl, ?_⟩
      intro c hc
      rcases List.mem_cons.1 hc with rfl | hc
      · exact Or.inr ⟨n, rfl⟩
      · exact Or.inl hc
    · rename_i hnb
      have hlt : n / b < fuel := by
        have : n / b < n := Nat.div_lt_self (by omega) (by omega)
        omega
      obtain ⟨d, rest, h1, h2⟩ := ih (n / b) (digitChar (n % b) :: tl) hlt
      refine ⟨d, rest, h1, ?_⟩
      intro c hc
      rcases h2 c hc with h | h
      · rcases List.mem_cons.1 h with rfl | h
        · exact Or.inr ⟨_, rfl⟩
        · exact Or.inl h
      · exact Or.inr h

/-- Parsing what the printer produced: the accumulator ends at `a * b^k + n`. -/
theorem parse_digitsAux (b M : Nat) (hb : 2 ≤ b) (hb16 : b ≤ 16) :
    ∀ fuel n tl, n < fuel → ∃ p, 0 < p ∧ ∀ a, a * p + n ≤ M →
      parseDigits b M (digitsAux b fuel n tl) a = parseDigits b M tl (a * p + n) := by
  intro fuel
  induction fuel with
  | zero => intro n tl h; omega
  | succ fuel ih =>
    intro n tl h
    unfold digitsAux
    split
    · rename_i hnb
      refine ⟨b, by omega, ?_⟩
      intro a ha
      simp only [parseDigits, charDigit_digitChar b n hnb hb16]
      rw [if_neg (by omega)]
    · rename_i hnb
      have hlt : n / b < fuel := by
        have : n / b < n := Nat.div_lt_self (by omega) (by omega)
        omega
      obtain ⟨p, hp, hpar⟩ := ih (n / b) (digitChar (n % b) :: tl) hlt
      refine ⟨p * b, Nat.mul_pos hp (by omega), ?_⟩
      intro a ha
      have hmod : n % b < b := Nat.mod_lt _ (by omega)
      have hdm : b * (n / b) + n % b = n := Nat.div_add_mod n b
      have e1 : a * (p * b) = (a * p) * b := by rw [Nat.mul_assoc]
      have e2 : (a * p + n / b) * b = (a * p) * b + b * (n / b) := by
        rw [Nat.add_mul, Nat.mul_comm (n / b) b]
      have hle : a * p ≤ (a * p) * b := Nat.le_mul_of_pos_right _ (by omega)
      have hdiv : n / b ≤ b * (n / b) := Nat.le_mul_of_pos_left _ (by omega)
      rw [hpar a (by omega)]
      simp only [parseDigits, charDigit_digitChar b (n % b) hmod hb16]
      rw [if_neg (by omega)]
      congr 1
      omega

theorem parseDigits_zeros (b M : Nat) (j : Nat) (s : List Char) (hb : 0 < b) :
    parseDigits b M (List.replicate j '0' ++ s) 0 = parseDigits b M s 0 := by
  induction j with
  | zero => rfl
  | succ j ih =>
    have h0 : charDigit b '0' = some 0 := by
      have := charDigit_digitChar b 0 hb
      simp [charDigit]; omega
    simp only [List.replicate_succ, List.cons_append, parseDigits, h0]
    rw [if_neg (by omega)]
    simpa using ih

/-- Rust's integer parser reads back what `{}` / `{:X}` printed, also behind `{:0>4}` padding. -/
theorem parse_show (b M n : Nat) (hb : 2 ≤ b) (hb16 : b ≤ 16) (hn : n ≤ M) :
    parseUnsigned b M (showNat b n) = some n ∧ parseUnsigned b M (pad4 (showNat b n)) = some n := by
  unfold showNat
  obtain ⟨d, rest, hshape, _⟩ := digitsAux_shape b hb (n + 1) n [] (by omega)
  obtain ⟨p, hp, hpar⟩ := parse_digitsAux b M hb hb16 (n + 1) n [] (by omega)
  have hval : parseDigits b M (digitsAux b (n + 1) n []) 0 = some n := by
    rw [hpar 0 (by omega)]; simp [parseDigits]
  have hd := digitChar_ne d
  constructor
  · rw [hshape] at hval ⊢
    unfold parseUnsigned
    split
    · rename_i heq; cases heq
    · rename_i heq; injection heq with h1 _; exact absurd h1 hd.2
    · exact hval
  · unfold pad4
    generalize hj : 4 - (digitsAux b (n + 1) n []).length = j
    have hz := parseDigits_zeros b M j (digitsAux b (n + 1) n []) (by omega)
    rw [hval] at hz
    cases j with
    | zero => simp only [List.replicate_zero, List.nil_append]
              rw [hshape] at hval ⊢
              unfold parseUnsigned
              split
              · rename_i heq; cases heq
              · rename_i heq; injection heq with h1 _; exact absurd h1 hd.2
              · exact hval
    | succ j =>
      simp only [List.replicate_succ, List.cons_append] at hz ⊢
      unfold parseUnsigned
      split
      · rename_i heq; cases heq
      · rename_i heq; injection heq with h1 _; exact absurd h1 (by decide)
      · exact hz

theorem parseDigits_le (b M : Nat) : ∀ s acc v, acc ≤ M → parseDigits b M s acc = some v → v ≤ M := by
  intro s
  induction s with
  | nil => intro acc v h hv; simp [parseDigits] at hv; omega
  | cons c cs ih =>
    intro acc v h hv
    unfold parseDigits at hv
    split at hv
    · cases hv
    · simp only at hv
      split at hv
      · cases hv
      · exact ih _ _ (by omega) hv

theorem parseUnsigned_le (b M : Nat) (s : List Char) (v : Nat)
    (h : parseUnsigned b M s = some v) : v ≤ M := by
  unfold parseUnsigned at h
  split at h
  · cases h
  · split at h
    · cases h
    · exact parseDigits_le b M _ 0 v (by omega) h
  · exact parseDigits_le b M _ 0 v (by omega) h

theorem no_dash_show (b n : Nat) (hb : 2 ≤ b) :
    (∀ c ∈ showNat b n, c ≠ '-') ∧ (∀ c ∈ pad4 (showNat b n), c ≠ '-') := by
  have h1 : ∀ c ∈ showNat b n, c ≠ '-' := by
    intro c hc
    obtain ⟨_, _, _, h2⟩ := digitsAux_shape b hb (n + 1) n [] (by omega)
    rcases h2 c hc with h | ⟨e, rfl⟩
    · cases h
    · exact (digitChar_ne e).1
  refine ⟨h1, ?_⟩
  intro c hc
  unfold pad4 at hc
  rcases List.mem_append.1 hc with h | h
  · have := (List.mem_replicate.1 h).2; subst this; decide
  · exact h1 c h

theorem breakDash_dash (a rest : List Char) (ha : ∀ c ∈ a, c ≠ '-') :
    breakDash (a ++ '-' :: rest) = (a, some rest) := by
  induction a with
  | nil => simp [breakDash]
  | cons x xs ih =>
    have hx : x ≠ '-' := ha x (List.mem_cons_self)
    have := ih (fun c hc => ha c (List.mem_cons_of_mem _ hc))
    simp only [List.cons_append, breakDash, if_neg hx, this]

theorem splitn_four (a b c d : List Char) (ha : ∀ x ∈ a, x ≠ '-') (hb : ∀ x ∈ b, x ≠ '-')
    (hc : ∀ x ∈ c, x ≠ '-') :
    splitn 3 (a ++ '-' :: b ++ '-' :: c ++ '-' :: d) = [a, b, c, d] := by
  have e1 : a ++ '-' :: b ++ '-' :: c ++ '-' :: d = a ++ '-' :: (b ++ '-' :: (c ++ '-' :: d)) := by
    simp
  rw [e1]
  simp only [splitn, breakDash_dash a _ ha, breakDash_dash b _ hb, breakDash_dash c _ hc]

end Datacake.Ts
