/- The applied-set representation of replica states (DESIGN §7): a state *represents* a list of
operations `A` when its per-key records are the LWW records of `A` and its version vectors only
remember stamps of `A`.  Every operation of the code maps `Rep s A` to `Rep s' (A ++ …)`. -/
import Datacake.Lemmas.MergeView
set_option linter.unusedSimpArgs false

namespace Datacake.OrSwot
open Datacake.Lww Datacake.Map Datacake.Ts

/-! ### LWW facts -/

theorem lwwFold_some (k : Nat) (L : List Op) (r : Option Nat) :
    L.foldl (fun acc o => if o.key = k then join acc (rank o) else acc) r =
      omax r (L.foldl (fun acc o => if o.key = k then join acc (rank o) else acc) none) := by
  induction L generalizing r with
  | nil => cases r <;> rfl
  | cons x xs ih =>
    simp only [List.foldl_cons]
    rw [ih, ih (if x.key = k then join none (rank x) else none)]
    by_cases hx : x.key = k
    · simp only [if_pos hx]
      cases r with
      | none => simp [join, omax]
      | some v =>
        generalize xs.foldl (fun acc o => if o.key = k then join acc (rank o) else acc) none = tl
        cases tl with
        | none => simp [join, omax]
        | some w => simp [join, omax] <;> omega
    · simp only [if_neg hx]
      generalize xs.foldl (fun acc o => if o.key = k then join acc (rank o) else acc) none = tl
      cases r <;> cases tl <;> simp [omax]

theorem lww_append (A B : List Op) (k : Nat) : lww (A ++ B) k = omax (lww A k) (lww B k) := by
  unfold lww
  rw [List.foldl_append, lwwFold_some]

theorem lww_cons (o : Op) (A : List Op) (k : Nat) :
    lww (o :: A) k = omax (if o.key = k then some (rank o) else none) (lww A k) := by
  unfold lww
  simp only [List.foldl_cons]
  rw [lwwFold_some]
  by_cases h : o.key = k <;> simp [h, join]

/-- Every operation on `k` is covered by the LWW record of `k`. -/
theorem lww_ge (A : List Op) (k : Nat) (o : Op) (ho : o ∈ A) (hk : o.key = k) :
    AtLeast (lww A k) (rank o) := by
  induction A with
  | nil => cases ho
  | cons x xs ih =>
    rw [lww_cons]
    rcases List.mem_cons.1 ho with rfl | hmem
    · simp only [if_pos hk]
      cases hl : lww xs k with
      | none => exact ⟨_, rfl, Nat.le_refl _⟩
      | some w => exact ⟨max (rank o) w, rfl, by omega⟩
    · obtain ⟨y, hy, hle⟩ := ih hmem
      rw [hy]
      by_cases hx : x.key = k
      · simp only [if_pos hx]; exact ⟨max (rank x) y, rfl, by omega⟩
      · simp only [if_neg hx]; exact ⟨y, rfl, hle⟩

/-- The LWW record of `k` is the rank of one of the operations on `k`. -/
theorem lww_mem (A : List Op) (k r : Nat) (h : lww A k = some r) :
    ∃ o ∈ A, o.key = k ∧ rank o = r := by
  induction A generalizing r with
  | nil => simp [lww] at h
  | cons x xs ih =>
    rw [lww_cons] at h
    by_cases hx : x.key = k
    · simp only [if_pos hx] at h
      cases hl : lww xs k with
      | none => rw [hl] at h; simp [omax] at h; exact ⟨x, List.mem_cons_self, hx, h⟩
      | some w =>
        rw [hl] at h; simp [omax] at h
        by_cases hle : w ≤ rank x
        · exact ⟨x, List.mem_cons_self, hx, by omega⟩
        · obtain ⟨o, ho, hk, hr⟩ := ih w hl
          exact ⟨o, List.mem_cons_of_mem _ ho, hk, by omega⟩
    · simp only [if_neg hx] at h
      have : lww xs k = some r := by
        cases hl : lww xs k with
        | none => rw [hl] at h; simp [omax] at h
        | some w => rw [hl] at h; simp [omax] at h; rw [h]
      obtain ⟨o, ho, hk, hr⟩ := ih r this
      exact ⟨o, List.mem_cons_of_mem _ ho, hk, hr⟩

/-- Rank determines stamp and kind. -/
theorem rank_inj (o o' : Op) (h : rank o = rank o') : o.ts = o'.ts ∧ o.isDel = o'.isDel := by
  unfold rank liveRec deadRec at h
  cases h1 : o.isDel <;> cases h2 : o'.isDel <;> simp [h1, h2] at h
  · exact ⟨by omega, rfl⟩
  · exfalso; omega
  · exfalso; omega
  · exact ⟨by omega, rfl⟩

/-! ### Rep -/

/-- The stamps of a list of operations. -/
def Stamps (A : List Op) : Nat → Prop := fun x => ∃ o ∈ A, o.ts = x

/-- State `s` represents the applied operations `A`. -/
structure Rep (F : Nat) (s : OrSwot) (A : List Op) : Prop where
  view : ∀ k, view s k = lww A k
  disj : Disj s
  vers : VersInv F s (Stamps A)

theorem rep_empty (F n : Nat) : Rep F (OrSwot.empty n) [] :=
  ⟨fun _ => rfl, fun _ => Or.inl rfl, versInv_empty F n _⟩

/-- `H`-soundness of a state: whatever it would refuse as too old has in fact been applied. -/
def Sound (s : OrSwot) (A H : List Op) : Prop :=
  ∀ o ∈ H, isBefore s.safe o.ts = true → o ∈ A

/-- The history: valid stamps.  (Distinctness of stamps is *not* needed by any theorem: several
keys may share a stamp, as the bulk operations of the store do; two different operations on the
same key with the same stamp are resolved by "insert wins the tie".) -/
structure GoodHist (H : List Op) : Prop where
  valid : ∀ o ∈ H, ValidStamp o.ts

/-- First alternative of the precondition: all stamps of one origin lie within one forgiveness
period. -/
def WindowH (F : Nat) (H : List Op) : Prop :=
  ∀ a ∈ H, ∀ b ∈ H, node a.ts = node b.ts → dts a.ts < dts b.ts + F

/-- Second alternative: the replica has applied a gap-free prefix of every origin's operations. -/
def DownClosed (A H : List Op) : Prop :=
  ∀ o ∈ A, ∀ o' ∈ H, node o'.ts = node o.ts → o'.ts ≤ o.ts → o' ∈ A

theorem forgive_le (F t : Nat) (h1 : t < 18446744073709551616) (h2 : fractional t < 250) :
    forgive F t ≤ t := by
  have hrep := repack t h1 h2
  have hs := seconds_lt t h1
  have hdt : dts t / 1000 < 4294967296 := by unfold dts partsAsDuration; omega
  unfold forgive
  split
  · have hp : pack 0 0 (node t) = node t := by unfold pack durSecs durFrac; omega
    rw [hp]; unfold node; omega
  · rename_i hF
    rw [pack_eq _ _ _ (by omega)]
    rw [pack_eq _ _ _ hdt] at hrep
    have h4 := dts_mod4 t
    have : (dts t - F) / 1000 < dts t / 1000 ∨
        ((dts t - F) / 1000 = dts t / 1000 ∧ (dts t - F) % 1000 / 4 ≤ dts t % 1000 / 4) := by omega
    have hc := counter_lt t; have hn := node_lt t
    omega

/-- Soundness from the window alternative. -/
theorem sound_of_window (F : Nat) (hF : F % 4 = 0) (s : OrSwot) (A H : List Op) (hg : GoodHist H)
    (hsub : ∀ o ∈ A, o ∈ H) (hw : WindowH F H) (hv : VersInv F s (Stamps A)) : Sound s A H := by
  intro o ho hb
  have := not_before_of_window F s (Stamps A) hv o.ts hF (hg.valid o ho) (by
    intro m ⟨o', ho', hm⟩
    subst hm
    exact ⟨(hg.valid o' (hsub o' ho')).1, fun hn => hw o' (hsub o' ho') o ho hn⟩)
  rw [this] at hb; cases hb

/-- Soundness from the gap-free alternative. -/
theorem sound_of_downClosed (F : Nat) (s : OrSwot) (A H : List Op) (hg : GoodHist H)
    (hsub : ∀ o ∈ A, o ∈ H) (hdc : DownClosed A H) (hv : VersInv F s (Stamps A)) : Sound s A H := by
  intro o ho hb
  unfold isBefore at hb
  cases hgv : Map.get s.safe (node o.ts) with
  | none => rw [hgv] at hb; cases hb
  | some v =>
    rw [hgv] at hb
    simp only [decide_eq_true_eq] at hb
    obtain ⟨m, hm1, hm2, hm3⟩ := hv.safe _ _ hgv
    rcases hm1 with ⟨o', ho', hts⟩ | hdef
    · subst hts
      have hval := hg.valid o' (hsub o' ho')
      have hle := forgive_le F o'.ts hval.1 hval.2
      exact hdc o' ho' o ho hm2.symm (by omega)
    · subst hdef
      have hp : pack 0 0 (node o.ts) = node o.ts := by unfold pack durSecs durFrac; omega
      have hn := node_lt o.ts
      have hf : forgive F (node o.ts) = node o.ts := by
        unfold forgive
        have h1 : dts (node o.ts) = 0 := by unfold dts partsAsDuration seconds fractional; omega
        have h2 : counter (node o.ts) = 0 := by unfold counter; omega
        have h3 : node (node o.ts) = node o.ts := by unfold node; omega
        rw [h1, h2, h3]; split <;> simpa using hp
      rw [hm3, hp, hf] at hb
      unfold node at hb; omega

end Datacake.OrSwot
