/- Step lemmas: one ORSWOT operation refines the LWW join. -/
import Datacake.Spec.Lww
import Datacake.Lemmas.Timestamp
set_option linter.unusedSimpArgs false

namespace Datacake.OrSwot
open Datacake.Lww Datacake.Map

/-- Closes arithmetic side goals left by `simp` (possibly still wrapped in `decide … = false`). -/
macro "fin_omega" : tactic => `(tactic| first | omega | (simp; omega) | (simp at *; omega))

theorem view_insertCore (s : OrSwot) (k t : Nat) (hd : Disj s) :
    (∀ k', view (insertCore s k t).1 k' =
      if k' = k then join (view s k) (liveRec t) else view s k') ∧
    Disj (insertCore s k t).1 ∧
    ((insertCore s k t).2 = true ↔ Newer (view s k) (liveRec t)) := by
  have hdk := hd k
  cases he : Map.get s.entries k with
  | none =>
    cases hdd : Map.get s.dead k with
    | none =>
      simp only [insertCore, he, hdd]
      refine ⟨?_, ?_, ?_⟩
      · intro k'
        by_cases h : k' = k
        · subst h; simp [view, get_set, he, hdd, join]
        · simp [view, get_set, h]
      · intro k'
        by_cases h : k' = k
        · subst h; right; exact hdd
        · rcases hd k' with h1 | h1
          · left; simp [get_set, h, h1]
          · right; exact h1
      · simp [view, he, hdd, Newer]
    | some d =>
      by_cases hlt : t < d
      · simp only [insertCore, he, hdd, if_pos hlt]
        refine ⟨?_, hd, ?_⟩
        · intro k'
          by_cases h : k' = k
          · subst h; simp [view, he, hdd, join, liveRec, deadRec]; fin_omega
          · simp [h]
        · simp [view, he, hdd, Newer, liveRec, deadRec]; fin_omega
      · simp only [insertCore, he, hdd, if_neg hlt]
        refine ⟨?_, ?_, ?_⟩
        · intro k'
          by_cases h : k' = k
          · subst h; simp [view, get_set, he, hdd, join, liveRec, deadRec]; fin_omega
          · simp [view, get_set, get_erase, h]
        · intro k'
          by_cases h : k' = k
          · subst h; right; simp [get_erase]
          · rcases hd k' with h1 | h1
            · left; simp [get_set, h, h1]
            · right; simp [get_erase, h, h1]
        · simp [view, he, hdd, Newer, liveRec, deadRec]; fin_omega
  | some e =>
    have hdn : Map.get s.dead k = none := by
      rcases hdk with h | h
      · rw [he] at h; cases h
      · exact h
    by_cases hlt : e < t
    · simp only [insertCore, hdn, he, if_pos hlt]
      refine ⟨?_, ?_, ?_⟩
      · intro k'
        by_cases h : k' = k
        · subst h; simp [view, get_set, he, join, liveRec]; fin_omega
        · simp [view, get_set, h]
      · intro k'
        by_cases h : k' = k
        · subst h; right; exact hdn
        · rcases hd k' with h1 | h1
          · left; simp [get_set, h, h1]
          · right; exact h1
      · simp [view, he, Newer, liveRec]; fin_omega
    · simp only [insertCore, hdn, he, if_neg hlt]
      refine ⟨?_, hd, ?_⟩
      · intro k'
        by_cases h : k' = k
        · subst h; simp [view, he, join, liveRec]; fin_omega
        · simp [h]
      · simp [view, he, Newer, liveRec]; fin_omega

theorem view_deleteCore (s : OrSwot) (k t : Nat) (hd : Disj s) :
    (∀ k', view (deleteCore s k t).1 k' =
      if k' = k then join (view s k) (deadRec t) else view s k') ∧
    Disj (deleteCore s k t).1 ∧
    ((deleteCore s k t).2 = true ↔ Newer (view s k) (deadRec t)) := by
  have hdk := hd k
  cases he : Map.get s.entries k with
  | none =>
    cases hdd : Map.get s.dead k with
    | none =>
      simp only [deleteCore, he, hdd]
      refine ⟨?_, ?_, ?_⟩
      · intro k'
        by_cases h : k' = k
        · subst h; simp [view, get_set, he, hdd, join]
        · simp [view, get_set, h]
      · intro k'
        by_cases h : k' = k
        · subst h; left; exact he
        · rcases hd k' with h1 | h1
          · left; exact h1
          · right; simp [get_set, h, h1]
      · simp [view, he, hdd, Newer]
    | some d =>
      by_cases hlt : d < t
      · simp only [deleteCore, he, hdd, if_pos hlt]
        refine ⟨?_, ?_, ?_⟩
        · intro k'
          by_cases h : k' = k
          · subst h; simp [view, get_set, he, hdd, join, deadRec]; fin_omega
          · simp [view, get_set, h]
        · intro k'
          by_cases h : k' = k
          · subst h; left; exact he
          · rcases hd k' with h1 | h1
            · left; exact h1
            · right; simp [get_set, h, h1]
        · simp [view, he, hdd, Newer, deadRec]; fin_omega
      · simp only [deleteCore, he, hdd, if_neg hlt]
        refine ⟨?_, hd, ?_⟩
        · intro k'
          by_cases h : k' = k
          · subst h; simp [view, he, hdd, join, deadRec]; fin_omega
          · simp [h]
        · simp [view, he, hdd, Newer, deadRec]; fin_omega
  | some e =>
    have hdn : Map.get s.dead k = none := by
      rcases hdk with h | h
      · rw [he] at h; cases h
      · exact h
    by_cases hle : t ≤ e
    · simp only [deleteCore, he, if_pos hle]
      refine ⟨?_, hd, ?_⟩
      · intro k'
        by_cases h : k' = k
        · subst h; simp [view, he, join, liveRec, deadRec]; fin_omega
        · simp [h]
      · simp [view, he, Newer, liveRec, deadRec]; fin_omega
    · simp only [deleteCore, he, get_erase, if_neg hle, hdn]
      refine ⟨?_, ?_, ?_⟩
      · intro k'
        by_cases h : k' = k
        · subst h; simp [view, get_set, get_erase, he, join, liveRec, deadRec]; fin_omega
        · simp [view, get_set, get_erase, h]
      · intro k'
        by_cases h : k' = k
        · subst h; left; simp [get_erase]
        · rcases hd k' with h1 | h1
          · left; simp [get_erase, h, h1]
          · right; simp [get_set, h, h1]
      · simp [view, he, Newer, liveRec, deadRec]; fin_omega

theorem insertCore_versions (s : OrSwot) (k t : Nat) :
    (insertCore s k t).1.maxs = s.maxs ∧ (insertCore s k t).1.safe = s.safe := by
  unfold insertCore
  dsimp only
  repeat' split
  all_goals exact ⟨rfl, rfl⟩

theorem deleteCore_versions (s : OrSwot) (k t : Nat) :
    (deleteCore s k t).1.maxs = s.maxs ∧ (deleteCore s k t).1.safe = s.safe := by
  unfold deleteCore
  dsimp only
  repeat' split
  all_goals exact ⟨rfl, rfl⟩

end Datacake.OrSwot
