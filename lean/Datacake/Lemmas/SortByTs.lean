/- `sortByTs` (the model of `valid_entries.sort_by_key(|entry| entry.1)`) produces a list sorted by stamp. -/
import Datacake.Model.Keyspace

namespace Datacake.Keyspace

theorem insertByTs_mem (x : Nat × Nat) (l : List (Nat × Nat)) (y : Nat × Nat) :
    y ∈ insertByTs x l ↔ y = x ∨ y ∈ l := by
  induction l with
  | nil => simp [insertByTs]
  | cons z zs ih =>
    unfold insertByTs
    split
    · simp
    · simp only [List.mem_cons, ih]
      constructor
      · rintro (h | h | h)
        · exact Or.inr (Or.inl h)
        · exact Or.inl h
        · exact Or.inr (Or.inr h)
      · rintro (h | h | h)
        · exact Or.inr (Or.inl h)
        · exact Or.inl h
        · exact Or.inr (Or.inr h)

theorem insertByTs_sorted (x : Nat × Nat) (l : List (Nat × Nat))
    (h : l.Pairwise (fun a b => a.2 ≤ b.2)) : (insertByTs x l).Pairwise (fun a b => a.2 ≤ b.2) := by
  induction l with
  | nil => simp [insertByTs]
  | cons z zs ih =>
    rw [List.pairwise_cons] at h
    unfold insertByTs
    split
    · rename_i hlt
      rw [List.pairwise_cons]
      refine ⟨?_, List.pairwise_cons.2 h⟩
      intro y hy
      rcases List.mem_cons.1 hy with hy | hy
      · subst hy; omega
      · have := h.1 y hy; omega
    · rename_i hge
      rw [List.pairwise_cons]
      refine ⟨?_, ih h.2⟩
      intro y hy
      rcases (insertByTs_mem x zs y).1 hy with hy | hy
      · subst hy; omega
      · exact h.1 y hy

theorem sortByTs_sorted (l : List (Nat × Nat)) : (sortByTs l).Pairwise (fun a b => a.2 ≤ b.2) := by
  unfold sortByTs
  induction l with
  | nil => simp
  | cons x xs ih => simp only [List.foldr_cons]; exact insertByTs_sorted x _ ih

end Datacake.Keyspace
