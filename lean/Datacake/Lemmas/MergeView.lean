/- `merge` is the per-key maximum of the two records, under the soundness side conditions. -/
import Datacake.Lemmas.Merge
set_option linter.unusedSimpArgs false

namespace Datacake.OrSwot
open Datacake.Lww Datacake.Map Datacake.Ts

/-- Maximum of two records (`none` is the bottom). -/
def omax (a b : Option Nat) : Option Nat :=
  match a, b with
  | none, b => b
  | a, none => a
  | some x, some y => some (max x y)

/-- "record `r` is at least `x`". -/
def AtLeast (r : Option Nat) (x : Nat) : Prop := ∃ y, r = some y ∧ x ≤ y

theorem view_of_gets (s : OrSwot) (k : Nat) :
    view s k = match Map.get s.entries k with
      | some e => some (liveRec e)
      | none => match Map.get s.dead k with
        | some d => some (deadRec d)
        | none => none := rfl

/-- **merge_view**: for a key on which the two side conditions hold — a tombstone of `b` that `a`
skips as too old is already covered by `a`'s record, and a live entry of `a` that `b` considers too
old is covered by `b`'s record — the merged record is the greater of the two records. -/
theorem merge_view (F : Nat) (a b : OrSwot) (ha : Disj a) (hb : Disj b) (k : Nat)
    (hskip : ∀ d, Map.get b.dead k = some d → isBefore a.safe d = true → AtLeast (view a k) (deadRec d))
    (hdrop : ∀ e, Map.get a.entries k = some e → isBefore b.safe e = true → AtLeast (view b k) (liveRec e)) :
    view (merge F a b) k = omax (view a k) (view b k) ∧
    (Map.get (merge F a b).entries k = none ∨ Map.get (merge F a b).dead k = none) := by
  have hg := merge_get F a b hb k
  have hgE : Map.get (merge F a b).entries k = (mergeKey a.safe b.safe (Map.get a.entries k)
      (Map.get a.dead k) (Map.get b.entries k) (Map.get b.dead k)).1 := by rw [← hg]
  have hgD : Map.get (merge F a b).dead k = (mergeKey a.safe b.safe (Map.get a.entries k)
      (Map.get a.dead k) (Map.get b.entries k) (Map.get b.dead k)).2 := by rw [← hg]
  rw [view_of_gets (merge F a b), view_of_gets a, view_of_gets b, hgE, hgD]
  have hak := ha k
  have hbk := hb k
  unfold AtLeast at hskip hdrop
  rw [view_of_gets a] at hskip
  rw [view_of_gets b] at hdrop
  clear hg hgE hgD
  revert hskip hdrop hak hbk
  generalize Map.get a.entries k = ae
  generalize Map.get a.dead k = ad
  generalize Map.get b.entries k = be
  generalize Map.get b.dead k = bd
  intro hskip hdrop hak hbk
  clear ha hb
  rcases ae with _ | ae <;> rcases ad with _ | ad <;> rcases be with _ | be <;> rcases bd with _ | bd <;>
    simp at hak hbk
  -- 1. a none, b none
  · simp [mergeKey, omax]
  -- 2. a none, b dead d
  · have hs := hskip bd rfl
    cases hfa : isBefore a.safe bd with
    | true => obtain ⟨y, hy, _⟩ := hs hfa; cases hy
    | false => simp [mergeKey, mstepKey, omax, hfa]
  -- 3. a none, b live t
  · simp [mergeKey, mstepKey, omax]
  -- 4. a dead x, b none
  · simp [mergeKey, omax]
  -- 5. a dead x, b dead d
  · have hs := hskip bd rfl
    cases hfa : isBefore a.safe bd with
    | true =>
      obtain ⟨y, hy, hle⟩ := hs hfa
      simp at hy; subst hy
      simp [mergeKey, mstepKey, omax, hfa, deadRec] at hle ⊢; omega
    | false => simp [mergeKey, mstepKey, omax, hfa, deadRec] <;> omega
  -- 6. a dead x, b live t
  · by_cases h : be < ad <;> simp [mergeKey, mstepKey, omax, liveRec, deadRec, h] <;> omega
  -- 7. a live e, b none
  · have hd := hdrop ae rfl
    cases hfb : isBefore b.safe ae with
    | true => obtain ⟨y, hy, _⟩ := hd hfb; cases hy
    | false => simp [mergeKey, lstepKey, omax, hfb]
  -- 8. a live e, b dead d
  · have hs := hskip bd rfl
    have hd := hdrop ae rfl
    cases hfa : isBefore a.safe bd <;> cases hfb : isBefore b.safe ae
    · by_cases h : ae < bd <;>
        simp [mergeKey, mstepKey, lstepKey, omax, hfa, hfb, liveRec, deadRec, h] <;> omega
    · obtain ⟨y, hy, hle⟩ := hd hfb
      simp at hy; subst hy
      simp [mergeKey, mstepKey, lstepKey, omax, hfa, hfb, liveRec, deadRec] at hle ⊢; omega
    · obtain ⟨y, hy, hle⟩ := hs hfa
      simp at hy; subst hy
      simp [mergeKey, mstepKey, lstepKey, omax, hfa, hfb, liveRec, deadRec] at hle ⊢; omega
    · obtain ⟨y, hy, hle⟩ := hs hfa
      obtain ⟨y', hy', hle'⟩ := hd hfb
      simp at hy hy'; subst hy; subst hy'
      simp [liveRec, deadRec] at hle hle'; omega
  -- 9. a live e, b live t
  · simp [mergeKey, mstepKey, omax, liveRec]
    omega

end Datacake.OrSwot
