/- Applying a computed difference: the replica learns every record of the peer (C05, C01). -/
import Datacake.Lemmas.ApplyRep
import Datacake.Props.C05
set_option linter.unusedSimpArgs false

namespace Datacake.OrSwot
open Datacake.Lww Datacake.Map Datacake.Ts

/-- The difference as operations: modifications are inserts, removals are deletes. -/
def diffOps (a b : OrSwot) : List Op :=
  (diff a b).1.map (fun p => ⟨p.1, p.2, false⟩) ++ (diff a b).2.map (fun p => ⟨p.1, p.2, true⟩)

/-- Applying a list of operations of the history, each on some source, to a sound replica. -/
theorem applyAll_rep (F : Nat) (hF : F % 4 = 0) (H : List Op) (hg : GoodHist H) (hw : WindowH F H)
    (ops : List SrcOp) (hops : ∀ o ∈ ops, o.op ∈ H) (s : OrSwot) (A : List Op) (r : Rep F s A)
    (hA : ∀ o ∈ A, o ∈ H) :
    Rep F (applyAll F s ops) ((ops.map (·.op)).reverse ++ A) := by
  induction ops generalizing s A with
  | nil => simpa [applyAll] using r
  | cons o os ih =>
    have snd := sound_of_window F hF s A H hg hA hw r.vers
    have r1 := applyOp_rep F s A H o r snd (hops o List.mem_cons_self)
    have hA1 : ∀ x ∈ o.op :: A, x ∈ H := by
      intro x hx
      rcases List.mem_cons.1 hx with rfl | hx
      · exact hops _ List.mem_cons_self
      · exact hA x hx
    have := ih (fun x hx => hops x (List.mem_cons_of_mem _ hx)) _ _ r1 hA1
    simp only [applyAll, List.foldl_cons, List.map_cons, List.reverse_cons, List.append_assoc,
      List.singleton_append] at this ⊢
    exact this

/-- The stamp of a record. -/
def recTs (r : Nat) : Nat := r / 2

/-- `Lacks` in terms of the record: the replica lacks `(k, t)` iff its record of `k` has an older
stamp, or it has no record and does not consider `t` purged. -/
theorem lacks_iff_view (a : OrSwot) (hd : Disj a) (k t : Nat) :
    C05.Lacks a k t ↔ (∀ r, view a k = some r → recTs r < t) ∧ (view a k = none → isBefore a.safe t = false) := by
  unfold C05.Lacks recTs
  rw [view_of_gets]
  rcases hd k with h | h
  · rw [h]
    cases hdd : Map.get a.dead k with
    | none => simp
    | some d => simp [deadRec] <;> omega
  · cases he : Map.get a.entries k with
    | none => simp [h]
    | some e => simp [liveRec] <;> omega

/-- A record of the peer: a live entry or a tombstone at `(k, t)`. -/
def HasRec (b : OrSwot) (k t : Nat) (isDel : Bool) : Prop :=
  if isDel then Map.get b.dead k = some t else Map.get b.entries k = some t

theorem mem_diffOps (a b : OrSwot) (o : Op) :
    o ∈ diffOps a b ↔ HasRec b o.key o.ts o.isDel ∧ C05.Lacks a o.key o.ts := by
  unfold diffOps HasRec
  rw [List.mem_append, List.mem_map, List.mem_map]
  constructor
  · rintro (⟨p, hp, rfl⟩ | ⟨p, hp, rfl⟩)
    · have := (C05.diff_exact a b p.1 p.2).1.1 hp; simpa using this
    · have := (C05.diff_exact a b p.1 p.2).2.1 hp; simpa using this
  · intro ⟨h1, h2⟩
    cases hdel : o.isDel with
    | false =>
      rw [hdel] at h1; simp at h1
      exact Or.inl ⟨(o.key, o.ts), (C05.diff_exact a b o.key o.ts).1.2 ⟨h1, h2⟩, by cases o; simp_all⟩
    | true =>
      rw [hdel] at h1; simp at h1
      exact Or.inr ⟨(o.key, o.ts), (C05.diff_exact a b o.key o.ts).2.2 ⟨h1, h2⟩, by cases o; simp_all⟩

/-- A record of a represented state is one of the represented operations. -/
theorem op_of_rec (F : Nat) (b : OrSwot) (B : List Op) (rb : Rep F b B) (k t : Nat) (isDel : Bool)
    (h : HasRec b k t isDel) : (⟨k, t, isDel⟩ : Op) ∈ B := by
  unfold HasRec at h
  cases isDel with
  | true =>
    simp only [if_true] at h
    obtain ⟨o', ho', hk, hts, hrk⟩ := rep_dead_op F b B rb k t h
    have hd : o'.isDel = true := by
      cases hh : o'.isDel with
      | true => rfl
      | false =>
        unfold rank liveRec deadRec at hrk
        rw [hh, hts] at hrk; simp at hrk <;> omega
    have : o' = ⟨k, t, true⟩ := by cases o'; simp_all
    exact this ▸ ho'
  | false =>
    simp only [Bool.false_eq_true, if_false] at h
    obtain ⟨o', ho', hk, hts, hrk⟩ := rep_live_op F b B rb k t h
    have hd : o'.isDel = false := by
      cases hh : o'.isDel with
      | false => rfl
      | true =>
        unfold rank liveRec deadRec at hrk
        rw [hh, hts] at hrk; simp at hrk <;> omega
    have : o' = ⟨k, t, false⟩ := by cases o'; simp_all
    exact this ▸ ho'

/-- **exchange_learns**: after applying the whole difference against a peer (its items in any
order, on any sources), the replica's record of every key is at least as new — by stamp — as the
peer's record of that key. -/
theorem exchange_learns (F : Nat) (hF : F % 4 = 0) (H : List Op) (hg : GoodHist H) (hw : WindowH F H)
    (a b : OrSwot) (A B : List Op) (ra : Rep F a A) (rb : Rep F b B)
    (hA : ∀ o ∈ A, o ∈ H) (hB : ∀ o ∈ B, o ∈ H)
    (order : List SrcOp) (hsub : ∀ o ∈ order, o.op ∈ diffOps a b)
    (hall : ∀ o ∈ diffOps a b, ∃ so ∈ order, so.op = o)
    (k t : Nat) (isDel : Bool) (hrec : HasRec b k t isDel) :
    ∃ r, view (applyAll F a order) k = some r ∧ t ≤ recTs r := by
  -- the items are operations of the peer's applied list
  have hitems : ∀ o ∈ diffOps a b, o ∈ B := by
    intro o ho
    obtain ⟨hr, _⟩ := (mem_diffOps a b o).1 ho
    exact op_of_rec F b B rb o.key o.ts o.isDel hr
  have hopsH : ∀ o ∈ order, o.op ∈ H := fun o ho => hB _ (hitems _ (hsub o ho))
  have rep' := applyAll_rep F hF H hg hw order hopsH a A ra hA
  have snd := sound_of_window F hF a A H hg hA hw ra.vers
  by_cases hl : C05.Lacks a k t
  · -- listed, hence applied
    have hin : (⟨k, t, isDel⟩ : Op) ∈ diffOps a b := (mem_diffOps a b _).2 ⟨hrec, hl⟩
    obtain ⟨so, hso, hop⟩ := hall _ hin
    have hmem : (⟨k, t, isDel⟩ : Op) ∈ (order.map (·.op)).reverse ++ A := by
      rw [List.mem_append, List.mem_reverse, List.mem_map]
      exact Or.inl ⟨so, hso, hop⟩
    obtain ⟨y, hy, hle⟩ := lww_ge _ k _ hmem rfl
    refine ⟨y, by rw [rep'.view]; exact hy, ?_⟩
    unfold recTs rank liveRec deadRec at *
    cases isDel <;> simp at hle <;> omega
  · -- not lacking: the old record already has a stamp at least `t`, and records only grow
    rw [lacks_iff_view a ra.disj] at hl
    have hold : ∃ r0, view a k = some r0 ∧ t ≤ recTs r0 := by
      cases hv : view a k with
      | none =>
        exfalso
        apply hl
        refine ⟨fun r hr => (by rw [hv] at hr; cases hr), fun _ => ?_⟩
        -- `isBefore` would mean the operation had been applied (soundness), so there would be a record
        cases hb : isBefore a.safe t with
        | false => rfl
        | true =>
          exfalso
          have hoB : (⟨k, t, isDel⟩ : Op) ∈ B := op_of_rec F b B rb k t isDel hrec
          have hinA := snd _ (hB _ hoB) hb
          obtain ⟨y, hy, _⟩ := lww_ge A k _ hinA rfl
          rw [← ra.view, hv] at hy; cases hy
      | some r0 =>
        refine ⟨r0, rfl, ?_⟩
        by_cases hlt : recTs r0 < t
        · exfalso; apply hl
          exact ⟨fun r hr => (by rw [hv] at hr; injection hr with hr; rw [← hr]; exact hlt),
                 fun h => (by rw [hv] at h; cases h)⟩
        · omega
    obtain ⟨r0, hr0, hle0⟩ := hold
    -- growth
    rw [ra.view] at hr0
    obtain ⟨o0, ho0, hk0, hrk0⟩ := lww_mem A k r0 hr0
    have hmem : o0 ∈ (order.map (·.op)).reverse ++ A := List.mem_append_right _ ho0
    obtain ⟨y, hy, hle⟩ := lww_ge _ k o0 hmem hk0
    refine ⟨y, by rw [rep'.view]; exact hy, ?_⟩
    unfold recTs at *
    omega

end Datacake.OrSwot
