/- One operation maps `Rep s A` to `Rep s' (o :: A)` (when the state is sound for the history). -/
import Datacake.Lemmas.MergeRep
import Datacake.Lemmas.Apply
set_option linter.unusedSimpArgs false

namespace Datacake.OrSwot
open Datacake.Lww Datacake.Map Datacake.Ts

theorem omax_join (r : Option Nat) (x : Nat) : join r x = omax (some x) r := by
  cases r with
  | none => rfl
  | some y => simp [join, omax]; omega

theorem omax_absorb (r : Option Nat) (x : Nat) (h : AtLeast r x) : omax (some x) r = r := by
  obtain ⟨y, rfl, hle⟩ := h
  simp [omax]; omega

/-- **applyOp_rep**: applying an operation of the history to a sound state yields the LWW state of
the extended list — whether the operation is accepted (one LWW join) or refused as too old (then it
had been applied before and the join changes nothing). -/
theorem applyOp_rep (F : Nat) (s : OrSwot) (A H : List Op) (so : SrcOp)
    (r : Rep F s A) (snd : Sound s A H) (hH : so.op ∈ H) :
    Rep F (applyOp F s so).1 (so.op :: A) := by
  have hvers : VersInv F (applyOp F s so).1 (Stamps (so.op :: A)) := by
    apply versInv_mono F _ _ _ (versInv_applyOp F s so (Stamps A) r.vers)
    intro x hx
    rcases hx with ⟨o, ho, h⟩ | h
    · exact ⟨o, List.mem_cons_of_mem _ ho, h⟩
    · exact ⟨so.op, List.mem_cons_self, h.symm⟩
  cases hb : isBefore s.safe so.op.ts with
  | true =>
    have hin : so.op ∈ A := snd so.op hH hb
    rw [applyOp_refused F s so hb] at hvers ⊢
    refine ⟨?_, r.disj, hvers⟩
    intro k
    rw [lww_cons, r.view]
    by_cases hk : so.op.key = k
    · simp only [if_pos hk]
      rw [omax_absorb _ _ (lww_ge A k so.op hin hk)]
    · simp only [if_neg hk]; cases lww A k <;> rfl
  | false =>
    obtain ⟨h1, h2, _⟩ := applyOp_step F s so r.disj hb
    refine ⟨?_, h2, hvers⟩
    intro k
    rw [h1 k, lww_cons, r.view]
    by_cases hk : k = so.op.key
    · subst hk; simp only [if_true]; exact omax_join _ _
    · have : ¬ so.op.key = k := fun h => hk h.symm
      simp only [if_neg hk, if_neg this]; cases lww A k <;> rfl

end Datacake.OrSwot
