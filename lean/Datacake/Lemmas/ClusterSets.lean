import Datacake.Props.C01c
import Datacake.Props.C02
import Datacake.Model.Cluster

namespace Datacake.C01d
open Datacake.Lww Datacake.OrSwot Datacake.Keyspace Datacake.Storage Datacake.Cluster

def putOp (src : Nat) (e : Nat × Nat) : SrcOp := ⟨src, ⟨e.1, e.2, false⟩⟩
def delOp (src : Nat) (e : Nat × Nat) : SrcOp := ⟨src, ⟨e.1, e.2, true⟩⟩

theorem applyOp_put (F : Nat) (s : OrSwot) (src : Nat) (e : Nat × Nat) :
    (applyOp F s (putOp src e)).1 = (insertWithSource F s src e.1 e.2).1 := by
  simp [applyOp, putOp]

theorem applyOp_del (F : Nat) (s : OrSwot) (src : Nat) (e : Nat × Nat) :
    (applyOp F s (delOp src e)).1 = (deleteWithSource F s src e.1 e.2).1 := by
  simp [applyOp, delOp]

theorem foldl_insert_eq (F : Nat) (src : Nat) (es : List (Nat × Nat)) (s : OrSwot) :
    es.foldl (fun s e => (insertWithSource F s src e.1 e.2).1) s = applyAll F s (es.map (putOp src)) := by
  induction es generalizing s with
  | nil => rfl
  | cons e rest ih =>
    simp only [List.foldl_cons, List.map_cons, applyAll]
    rw [applyOp_put]
    exact ih _

theorem foldl_delete_eq (F : Nat) (src : Nat) (es : List (Nat × Nat)) (s : OrSwot) :
    es.foldl (fun s e => (deleteWithSource F s src e.1 e.2).1) s = applyAll F s (es.map (delOp src)) := by
  induction es generalizing s with
  | nil => rfl
  | cons e rest ih =>
    simp only [List.foldl_cons, List.map_cons, applyAll]
    rw [applyOp_del]
    exact ih _

/-- The entries `on_multi_set` applies: the applicable documents, by stamp. -/
def validPuts (s : OrSwot) (docs : List Doc) : List (Nat × Nat) :=
  sortByTs (((newest (fun (v : Nat × List Nat) => v.1) docs).filter (fun d => willApply s d.1 d.2.1)).map (fun d => (d.1, d.2.1)))

def validDels (s : OrSwot) (docs : List (Nat × Nat)) : List (Nat × Nat) :=
  sortByTs ((newest (fun (t : Nat) => t) docs).filter (fun d => willApply s d.1 d.2))

theorem onSet_set (F : Nat) (n : Node) (src : Nat) (d : Doc) :
    (onSet F n src d false).1.set =
      if willApply n.set d.1 d.2.1 then (applyOp F n.set (putOp src (d.1, d.2.1))).1 else n.set := by
  unfold onSet
  by_cases h : willApply n.set d.1 d.2.1 = true
  · simp [h, applyOp_put]
  · simp [h]

theorem onDel_set (F : Nat) (n : Node) (src id ts : Nat) :
    (onDel F n src id ts false).1.set =
      if willApply n.set id ts then (applyOp F n.set (delOp src (id, ts))).1 else n.set := by
  unfold onDel
  by_cases h : willApply n.set id ts = true
  · simp [h, applyOp_del]
  · simp [h]

theorem onMultiSet_set (F : Nat) (n : Node) (src : Nat) (docs : List Doc) :
    (onMultiSet F n src docs none).1.set = applyAll F n.set ((validPuts n.set docs).map (putOp src)) := by
  simp only [onMultiSet, onMultiSetCore, validPuts]
  exact foldl_insert_eq F src _ _

theorem onMultiDel_set (F : Nat) (n : Node) (src : Nat) (docs : List (Nat × Nat)) :
    (onMultiDel F n src docs none).1.set = applyAll F n.set ((validDels n.set docs).map (delOp src)) := by
  simp only [onMultiDel, onMultiDelCore, validDels]
  exact foldl_delete_eq F src _ _

/-- Reading node `x` of a node list after writing node `i`. -/
theorem getD_set (N : List CNode) (i x : Nat) (n : CNode) :
    (N.set i n).getD x default = if x = i ∧ i < N.length then n else N.getD x default := by
  by_cases hx : x = i
  · subst hx
    by_cases hl : x < N.length
    · simp [List.getD, hl]
    · simp only [hl, and_false, if_false]
      rw [List.set_eq_of_length_le (by omega)]
  · simp only [hx, false_and, if_false, List.getD]
    rw [List.getElem?_set_ne (fun e => hx e.symm)]

theorem touch_nodes (c : Cluster) (i : Nat) :
    (touch c i).nodes = if (getNode c i).exists_ then c.nodes
      else c.nodes.set i { getNode c i with exists_ := true, change := c.clockTick } := by
  unfold touch
  simp only []
  by_cases h : (getNode c i).exists_ = true
  · simp [h]
  · simp [h, setNode]

theorem bump_nodes (c : Cluster) (i : Nat) :
    (bump c i).nodes = c.nodes.set i { getNode c i with change := c.clockTick } := by
  simp [bump, setNode]

theorem getNode_def (c : Cluster) (x : Nat) : getNode c x = c.nodes.getD x default := rfl

theorem touch_ks (c : Cluster) (i x : Nat) : (getNode (touch c i) x).ks = (getNode c x).ks := by
  rw [getNode_def, touch_nodes]
  by_cases h : (getNode c i).exists_ = true
  · rw [if_pos h]; rfl
  · rw [if_neg h, getD_set]
    split
    · rename_i hx; rw [hx.1]
    · rfl

theorem touch_failNext (c : Cluster) (i x : Nat) : (getNode (touch c i) x).failNext = (getNode c x).failNext := by
  rw [getNode_def, touch_nodes]
  by_cases h : (getNode c i).exists_ = true
  · rw [if_pos h]; rfl
  · rw [if_neg h, getD_set]
    split
    · rename_i hx; rw [hx.1]
    · rfl

theorem touch_length (c : Cluster) (i : Nat) : (touch c i).nodes.length = c.nodes.length := by
  rw [touch_nodes]; split <;> simp

theorem bump_ks (c : Cluster) (i x : Nat) : (getNode (bump c i) x).ks = (getNode c x).ks := by
  rw [getNode_def, bump_nodes, getD_set]
  split
  · rename_i hx; rw [hx.1]
  · rfl

theorem bump_length (c : Cluster) (i : Nat) : (bump c i).nodes.length = c.nodes.length := by
  rw [bump_nodes]; simp

theorem setNode_ks (c : Cluster) (i x : Nat) (n : CNode) :
    (getNode (setNode c i n) x).ks = if x = i ∧ i < c.nodes.length then n.ks else (getNode c x).ks := by
  simp only [getNode_def, setNode, getD_set]
  split <;> rfl


/-- The replicated set of node `x`. -/
def absSet (c : Cluster) (x : Nat) : OrSwot := (getNode c x).ks.set

theorem ks_written (c : Cluster) (i x : Nat) (n' : CNode) (h : i < c.nodes.length) :
    (getNode (setNode (touch c i) i n') x).ks = if x = i then n'.ks else (getNode c x).ks := by
  rw [setNode_ks, touch_length]
  by_cases hx : x = i
  · simp [hx, h]
  · simp [hx, touch_ks]

theorem ks_written_bump (c : Cluster) (i x : Nat) (n' : CNode) (h : i < c.nodes.length) :
    (getNode (bump (setNode (touch c i) i n') i) x).ks = if x = i then n'.ks else (getNode c x).ks := by
  rw [bump_ks]; exact ks_written c i x n' h

/-- **applyAt_put_sets**: a put handled at node `i` (storage working) changes node `i`'s set by at most
one `insert_with_source`, and no other node's. -/
theorem applyAt_put_sets (c : Cluster) (i src : Nat) (d : Doc) (h : i < c.nodes.length)
    (hf : (getNode c i).failNext = false) (x : Nat) :
    absSet (applyAt c i src (.put d)).1 x =
      if x = i then
        (if willApply (absSet c i) d.1 d.2.1 then (applyOp Cluster.F (absSet c i) (putOp src (d.1, d.2.1))).1 else absSet c i)
      else absSet c x := by
  unfold applyAt absSet
  simp only []
  have hks : (getNode (touch c i) i).ks = (getNode c i).ks := touch_ks c i i
  have hfn : (getNode (touch c i) i).failNext = false := by rw [touch_failNext]; exact hf
  rw [hks]
  by_cases hw : willApply (getNode c i).ks.set d.1 d.2.1 = true
  · simp only [hw, Bool.not_true, Bool.false_eq_true, if_false, if_true]
    have hset := onSet_set Cluster.F (getNode c i).ks src d
    have hout : (onSet Cluster.F (getNode c i).ks src d false).2 = .ok := by simp [onSet, hw]
    rw [hfn]
    simp only [hout, beq_self_eq_true, if_true]
    rw [ks_written_bump c i x _ h]
    by_cases hx : x = i
    · simp only [hx, if_true]; rw [hset, if_pos hw]
    · simp [hx]
  · simp only [hw, Bool.not_false, if_true]
    rw [touch_ks]
    by_cases hx : x = i
    · simp [hx]
    · simp [hx]

theorem applyAt_del_sets (c : Cluster) (i src id ts : Nat) (h : i < c.nodes.length)
    (hf : (getNode c i).failNext = false) (x : Nat) :
    absSet (applyAt c i src (.del id ts)).1 x =
      if x = i then
        (if willApply (absSet c i) id ts then (applyOp Cluster.F (absSet c i) (delOp src (id, ts))).1 else absSet c i)
      else absSet c x := by
  unfold applyAt absSet
  simp only []
  have hks : (getNode (touch c i) i).ks = (getNode c i).ks := touch_ks c i i
  have hfn : (getNode (touch c i) i).failNext = false := by rw [touch_failNext]; exact hf
  rw [hks]
  by_cases hw : willApply (getNode c i).ks.set id ts = true
  · simp only [hw, Bool.not_true, Bool.false_eq_true, if_false, if_true]
    have hset := onDel_set Cluster.F (getNode c i).ks src id ts
    have hout : (onDel Cluster.F (getNode c i).ks src id ts false).2 = .ok := by simp [onDel, hw]
    rw [hfn]
    simp only [hout, beq_self_eq_true, if_true]
    rw [ks_written_bump c i x _ h]
    by_cases hx : x = i
    · simp only [hx, if_true]; rw [hset, if_pos hw]
    · simp [hx]
  · simp only [hw, Bool.not_false, if_true]
    rw [touch_ks]
    by_cases hx : x = i
    · simp [hx]
    · simp [hx]

theorem applyAt_mput_sets (c : Cluster) (i src : Nat) (ds : List Doc) (h : i < c.nodes.length)
    (hf : (getNode c i).failNext = false) (x : Nat) :
    absSet (applyAt c i src (.mput ds)).1 x =
      if x = i then applyAll Cluster.F (absSet c i) ((validPuts (absSet c i) ds).map (putOp src)) else absSet c x := by
  unfold applyAt absSet
  simp only []
  have hks : (getNode (touch c i) i).ks = (getNode c i).ks := touch_ks c i i
  have hfn : (getNode (touch c i) i).failNext = false := by rw [touch_failNext]; exact hf
  rw [hks, hfn]
  simp only [Bool.false_eq_true, if_false]
  rw [ks_written_bump c i x _ h]
  by_cases hx : x = i
  · simp only [hx, if_true]; exact onMultiSet_set Cluster.F (getNode c i).ks src ds
  · simp [hx]

theorem applyAt_mdel_sets (c : Cluster) (i src : Nat) (ds : List (Nat × Nat)) (h : i < c.nodes.length)
    (hf : (getNode c i).failNext = false) (x : Nat) :
    absSet (applyAt c i src (.mdel ds)).1 x =
      if x = i then applyAll Cluster.F (absSet c i) ((validDels (absSet c i) ds).map (delOp src)) else absSet c x := by
  unfold applyAt absSet
  simp only []
  have hks : (getNode (touch c i) i).ks = (getNode c i).ks := touch_ks c i i
  have hfn : (getNode (touch c i) i).failNext = false := by rw [touch_failNext]; exact hf
  rw [hks, hfn]
  simp only [Bool.false_eq_true, if_false]
  rw [ks_written_bump c i x _ h]
  by_cases hx : x = i
  · simp only [hx, if_true]; exact onMultiDel_set Cluster.F (getNode c i).ks src ds
  · simp [hx]

theorem length_setNode' (c : Cluster) (i : Nat) (n : CNode) : (setNode c i n).nodes.length = c.nodes.length := by
  simp [setNode]

theorem applyAt_length (c : Cluster) (i src : Nat) (iss : Issued) : (applyAt c i src iss).1.nodes.length = c.nodes.length := by
  unfold applyAt
  simp only []
  cases iss with
  | put d =>
    simp only
    split
    · exact touch_length c i
    · split <;> simp [bump_length, length_setNode', touch_length]
  | del id ts =>
    simp only
    split
    · exact touch_length c i
    · split <;> simp [bump_length, length_setNode', touch_length]
  | mput ds => simp [bump_length, length_setNode', touch_length]
  | mdel ds => simp [bump_length, length_setNode', touch_length]

/-! ### Frame: handling something at node `i` leaves every other node alone -/

theorem getNode_setNode_other (c : Cluster) (i x : Nat) (n : CNode) (hx : x ≠ i) : getNode (setNode c i n) x = getNode c x := by
  simp only [getNode_def, setNode, getD_set, hx, false_and, if_false]

theorem getNode_touch_other (c : Cluster) (i x : Nat) (hx : x ≠ i) : getNode (touch c i) x = getNode c x := by
  rw [getNode_def, touch_nodes]
  by_cases h : (getNode c i).exists_ = true
  · rw [if_pos h]; rfl
  · rw [if_neg h, getD_set]; simp [hx]; rfl

theorem getNode_bump_other (c : Cluster) (i x : Nat) (hx : x ≠ i) : getNode (bump c i) x = getNode c x := by
  rw [getNode_def, bump_nodes, getD_set]; simp [hx]; rfl

theorem getNode_applyAt_other (c : Cluster) (i src : Nat) (iss : Issued) (x : Nat) (hx : x ≠ i) :
    getNode (applyAt c i src iss).1 x = getNode c x := by
  unfold applyAt
  simp only []
  cases iss with
  | put d =>
    simp only
    split
    · exact getNode_touch_other c i x hx
    · split
      · rw [getNode_bump_other _ _ _ hx, getNode_setNode_other _ _ _ _ hx, getNode_touch_other _ _ _ hx]
      · rw [getNode_setNode_other _ _ _ _ hx, getNode_touch_other _ _ _ hx]
  | del id ts =>
    simp only
    split
    · exact getNode_touch_other c i x hx
    · split
      · rw [getNode_bump_other _ _ _ hx, getNode_setNode_other _ _ _ _ hx, getNode_touch_other _ _ _ hx]
      · rw [getNode_setNode_other _ _ _ _ hx, getNode_touch_other _ _ _ hx]
  | mput ds => simp only; rw [getNode_bump_other _ _ _ hx, getNode_setNode_other _ _ _ _ hx, getNode_touch_other _ _ _ hx]
  | mdel ds => simp only; rw [getNode_bump_other _ _ _ hx, getNode_setNode_other _ _ _ _ hx, getNode_touch_other _ _ _ hx]

/-- After a request has been handled at node `i`, its pending storage fault is gone. -/
theorem applyAt_failNext (c : Cluster) (i src : Nat) (iss : Issued) (h : i < c.nodes.length)
    (hf : (getNode c i).failNext = false) : (getNode (applyAt c i src iss).1 i).failNext = false := by
  unfold applyAt
  simp only []
  have hfn : (getNode (touch c i) i).failNext = false := by rw [touch_failNext]; exact hf
  have hl : i < (touch c i).nodes.length := by rw [touch_length]; exact h
  cases iss with
  | put d =>
    simp only
    split
    · exact hfn
    · split
      · simp [getNode_def, bump_nodes, setNode, hl]
      · simp [getNode_def, setNode, hl]
  | del id ts =>
    simp only
    split
    · exact hfn
    · split
      · simp [getNode_def, bump_nodes, setNode, hl]
      · simp [getNode_def, setNode, hl]
  | mput ds => simp [getNode_def, bump_nodes, setNode, hl]
  | mdel ds => simp [getNode_def, bump_nodes, setNode, hl]


/-! ### The two halves of an exchange and the exchange itself, at the level of the sets -/

theorem sortByTs_single (x : Nat × Nat) : sortByTs [x] = [x] := rfl

theorem applyAll_nil (F : Nat) (s : OrSwot) : applyAll F s [] = s := rfl

theorem applyAll_append (F : Nat) (s : OrSwot) (a b : List SrcOp) : applyAll F s (a ++ b) = applyAll F (applyAll F s a) b := by
  simp [applyAll, List.foldl_append]

/-- What the removal half applies. -/
def removalOps (s : OrSwot) (removed : List (Nat × Nat)) : List SrcOp := (validDels s removed).map (delOp 1)

/-- What the modification half applies, given the documents fetched from the peer. -/
def modificationOps (s : OrSwot) (docs : List Doc) : List SrcOp := (validPuts s docs).map (putOp 1)

theorem applyRemovals_sets (c : Cluster) (j : Nat) (removed : List (Nat × Nat)) (h : j < c.nodes.length)
    (hf : (getNode c j).failNext = false) (x : Nat) :
    absSet (applyRemovals c j removed).1 x =
      if x = j then applyAll Cluster.F (absSet c j) (removalOps (absSet c j) removed) else absSet c x := by
  unfold applyRemovals
  match removed with
  | [] => simp only [removalOps, validDels, newest_nil, sortByTs, applyAll, List.filter_nil, List.foldr_nil, List.map_nil, List.foldl_nil]; split <;> simp_all
  | [r] =>
    simp only
    rw [applyAt_del_sets c j 1 r.1 r.2 h hf x]
    by_cases hx : x = j
    · simp only [hx, if_true, removalOps, validDels, newest_singleton, List.filter_cons, List.filter_nil]
      by_cases hw : willApply (absSet c j) r.1 r.2 = true
      · simp [hw, sortByTs_single, applyAll, delOp]
      · simp [hw, sortByTs, applyAll]
    · simp [hx]
  | r1 :: r2 :: rest =>
    simp only
    rw [applyAt_mdel_sets c j 1 _ h hf x]
    rfl

theorem applyRemovals_other (c : Cluster) (j : Nat) (removed : List (Nat × Nat)) (x : Nat) (hx : x ≠ j) :
    getNode (applyRemovals c j removed).1 x = getNode c x := by
  unfold applyRemovals
  match removed with
  | [] => rfl
  | [r] => exact getNode_applyAt_other c j 1 _ x hx
  | r1 :: r2 :: rest => exact getNode_applyAt_other c j 1 _ x hx

theorem applyRemovals_length (c : Cluster) (j : Nat) (removed : List (Nat × Nat)) :
    (applyRemovals c j removed).1.nodes.length = c.nodes.length := by
  unfold applyRemovals
  match removed with
  | [] => rfl
  | [r] => exact applyAt_length c j 1 _
  | r1 :: r2 :: rest => exact applyAt_length c j 1 _

theorem applyRemovals_failNext (c : Cluster) (j : Nat) (removed : List (Nat × Nat)) (h : j < c.nodes.length)
    (hf : (getNode c j).failNext = false) : (getNode (applyRemovals c j removed).1 j).failNext = false := by
  unfold applyRemovals
  match removed with
  | [] => exact hf
  | [r] => exact applyAt_failNext c j 1 _ h hf
  | r1 :: r2 :: rest => exact applyAt_failNext c j 1 _ h hf

/-- The documents `FetchDocs` returns for the listed ids: what the peer's store holds for them NOW. -/
def fetched (peer : Storage.Keyspace) (modified : List (Nat × Nat)) : List Doc :=
  modified.filterMap (fun m =>
    match aget peer.data m.1, aget peer.rows m.1 with
    | some bytes, some (ts, _) => some (m.1, ts, bytes)
    | _, _ => none)

def fetchOne (store : Storage.Keyspace) (m : Nat × Nat) : Option Doc :=
  match aget store.data m.1, aget store.rows m.1 with
  | some bytes, some (ts, _) => some (m.1, ts, bytes)
  | _, _ => none

theorem fetched_eq (store : Storage.Keyspace) (modified : List (Nat × Nat)) :
    fetched store modified = modified.filterMap (fetchOne store) := rfl

theorem fetchOne_id (store : Storage.Keyspace) (m : Nat × Nat) (d : Doc) (h : fetchOne store m = some d) : d.1 = m.1 := by
  unfold fetchOne at h
  cases hdat : aget store.data m.1 with
  | none => rw [hdat] at h; simp at h
  | some bytes =>
    cases hrow : aget store.rows m.1 with
    | none => rw [hdat, hrow] at h; simp at h
    | some row =>
      obtain ⟨ts, tomb⟩ := row
      rw [hdat, hrow] at h
      simp only [Option.some.injEq] at h
      subst h; rfl

theorem fetched_nodup (store : Storage.Keyspace) (modified : List (Nat × Nat)) (h : (modified.map (·.1)).Nodup) :
    C02.NoDupIds (fetched store modified) := by
  unfold C02.NoDupIds
  rw [fetched_eq]
  induction modified with
  | nil => simp
  | cons m ms ih =>
    simp only [List.map_cons, List.nodup_cons] at h
    have ih' := ih h.2
    rw [List.filterMap_cons]
    cases hfm : fetchOne store m with
    | none => exact ih'
    | some d =>
      simp only [List.map_cons, List.nodup_cons]
      refine ⟨?_, ih'⟩
      intro hmem
      obtain ⟨d', hd', e⟩ := List.mem_map.1 hmem
      obtain ⟨m', hm', hfm'⟩ := List.mem_filterMap.1 hd'
      apply h.1
      rw [← fetchOne_id store m d hfm, ← e, fetchOne_id store m' d' hfm']
      exact List.mem_map.2 ⟨m', hm', rfl⟩

theorem applyModified_sets (c : Cluster) (j i : Nat) (modified : List (Nat × Nat)) (h : j < c.nodes.length)
    (hf : (getNode c j).failNext = false) (x : Nat) :
    absSet (applyModified c j i modified).1 x =
      if x = j then applyAll Cluster.F (absSet c j) (modificationOps (absSet c j) (fetched (getNode c i).ks.store modified))
      else absSet c x := by
  unfold applyModified
  match modified with
  | [] => simp only [modificationOps, validPuts, fetched, newest_nil, sortByTs, applyAll, List.filterMap_nil, List.filter_nil, List.foldr_nil, List.map_nil, List.foldl_nil]; split <;> simp_all
  | m :: ms =>
    simp only
    rw [applyAt_mput_sets c j 1 _ h hf x]
    rfl

theorem applyModified_other (c : Cluster) (j i : Nat) (modified : List (Nat × Nat)) (x : Nat) (hx : x ≠ j) :
    getNode (applyModified c j i modified).1 x = getNode c x := by
  unfold applyModified
  match modified with
  | [] => rfl
  | m :: ms => exact getNode_applyAt_other c j 1 _ x hx

theorem applyModified_length (c : Cluster) (j i : Nat) (modified : List (Nat × Nat)) :
    (applyModified c j i modified).1.nodes.length = c.nodes.length := by
  unfold applyModified
  match modified with
  | [] => rfl
  | m :: ms => exact applyAt_length c j 1 _

theorem applyModified_failNext (c : Cluster) (j i : Nat) (modified : List (Nat × Nat)) (h : j < c.nodes.length)
    (hf : (getNode c j).failNext = false) : (getNode (applyModified c j i modified).1 j).failNext = false := by
  unfold applyModified
  match modified with
  | [] => exact hf
  | m :: ms => exact applyAt_failNext c j 1 _ h hf

theorem applyAt_ok (c : Cluster) (i src : Nat) (iss : Issued) (hf : (getNode c i).failNext = false) :
    (applyAt c i src iss).2 = true := by
  unfold applyAt
  simp only []
  have hfn : (getNode (touch c i) i).failNext = false := by rw [touch_failNext]; exact hf
  cases iss with
  | put d =>
    simp only
    split
    · rfl
    · rename_i hw
      have : (onSet Cluster.F (getNode (touch c i) i).ks src d (getNode (touch c i) i).failNext).2 = .ok := by
        rw [hfn]; simp only [onSet]; simp_all
      simp [this]
  | del id ts =>
    simp only
    split
    · rfl
    · rename_i hw
      have : (onDel Cluster.F (getNode (touch c i) i).ks src id ts (getNode (touch c i) i).failNext).2 = .ok := by
        rw [hfn]; simp only [onDel]; simp_all
      simp [this]
  | mput ds => simp [hfn, onMultiSet, onMultiSetCore]
  | mdel ds => simp [hfn, onMultiDel, onMultiDelCore]

theorem applyRemovals_ok (c : Cluster) (j : Nat) (removed : List (Nat × Nat)) (hf : (getNode c j).failNext = false) :
    (applyRemovals c j removed).2 = true := by
  unfold applyRemovals
  match removed with
  | [] => rfl
  | [r] => exact applyAt_ok c j 1 _ hf
  | r1 :: r2 :: rest => exact applyAt_ok c j 1 _ hf

theorem applyModified_ok (c : Cluster) (j i : Nat) (modified : List (Nat × Nat)) (hf : (getNode c j).failNext = false) :
    (applyModified c j i modified).2 = true := by
  unfold applyModified
  match modified with
  | [] => rfl
  | m :: ms => exact applyAt_ok c j 1 _ hf

/-- What an exchange `j ← i` applies at `j`, in order (nothing when the poll is skipped). -/
def repairOps (c : Cluster) (j i : Nat) (removalsFirst : Bool) : List SrcOp :=
  if !(getNode c i).exists_ then []
  else if (getNode c j).tracker.getD i none == some (getNode c i).change then []
  else
    let s0 := absSet c j
    let d := diff s0 (absSet c i)
    let peer := (getNode c i).ks.store
    if removalsFirst then
      let r := removalOps s0 d.2
      r ++ modificationOps (applyAll Cluster.F s0 r) (fetched peer d.1)
    else
      let m := modificationOps s0 (fetched peer d.1)
      m ++ removalOps (applyAll Cluster.F s0 m) d.2

/-- **repair_sets**: one exchange of the executable cluster model (storage working at `j`) changes node
`j`'s set by applying `repairOps` in order — removal items as deletes, fetched documents as inserts,
each filtered by `will_apply` and sorted by stamp, all on the repair source — and no other node's. -/
theorem repair_sets (c : Cluster) (j i : Nat) (rf : Bool) (h : j < c.nodes.length)
    (hf : (getNode c j).failNext = false) (hji : j ≠ i) (x : Nat) :
    absSet (repair c j i rf).1 x =
      if x = j then applyAll Cluster.F (absSet c j) (repairOps c j i rf) else absSet c x := by
  unfold repair repairOps
  by_cases h1 : (getNode c i).exists_ = true
  · simp only [h1, Bool.not_true, Bool.false_eq_true, if_false]
    by_cases h2 : ((getNode c j).tracker.getD i none == some (getNode c i).change) = true
    · simp only [h2, if_true, applyAll_nil]; split <;> simp_all
    · simp only [h2, Bool.false_eq_true, if_false]
      have hl0 : j < (touch c j).nodes.length := by rw [touch_length]; exact h
      have hf0 : (getNode (touch c j) j).failNext = false := by rw [touch_failNext]; exact hf
      have hs0 : (getNode (touch c j) j).ks.set = absSet c j := by unfold absSet; rw [touch_ks]
      have hpeer0 : getNode (touch c j) i = getNode c i := getNode_touch_other c j i (fun e => hji e.symm)
      rw [hs0]
      have hpi : (getNode c i).ks.set = absSet c i := rfl
      rw [hpi]
      generalize hD : OrSwot.diff (absSet c j) (absSet c i) = D
      obtain ⟨modified, removed⟩ := D
      simp only
      cases rf with
      | true =>
        simp only [if_true]
        have hok1 := applyRemovals_ok (touch c j) j removed hf0
        have hl1 : j < (applyRemovals (touch c j) j removed).1.nodes.length := by rw [applyRemovals_length]; exact hl0
        have hf1 := applyRemovals_failNext (touch c j) j removed hl0 hf0
        have hok2 := applyModified_ok (applyRemovals (touch c j) j removed).1 j i modified hf1
        simp only [hok1, hok2, if_true, Bool.and_self]
        unfold absSet
        rw [setNode_ks]
        have hfinal : ∀ y, (getNode (applyModified (applyRemovals (touch c j) j removed).1 j i modified).1 y).ks.set =
            absSet (applyModified (applyRemovals (touch c j) j removed).1 j i modified).1 y := fun _ => rfl
        have hstep2 := applyModified_sets (applyRemovals (touch c j) j removed).1 j i modified hl1 hf1
        have hstep1 := applyRemovals_sets (touch c j) j removed hl0 hf0
        have hpeer1 : getNode (applyRemovals (touch c j) j removed).1 i = getNode c i := by
          rw [applyRemovals_other _ _ _ _ (fun e => hji e.symm), hpeer0]
        by_cases hx : x = j
        · subst hx
          simp only [true_and, if_true]
          split
          · rw [hfinal, hstep2 x, if_pos rfl, hstep1 x, if_pos rfl, hpeer1, applyAll_append]
            have : absSet (touch c x) x = absSet c x := by unfold absSet; rw [touch_ks]
            rw [this]
            rfl
          · rw [hfinal, hstep2 x, if_pos rfl, hstep1 x, if_pos rfl, hpeer1, applyAll_append]
            have : absSet (touch c x) x = absSet c x := by unfold absSet; rw [touch_ks]
            rw [this]
            rfl
        · simp only [hx, false_and, if_false]
          rw [hfinal, hstep2 x, if_neg hx, hstep1 x, if_neg hx]
          unfold absSet; rw [touch_ks]
      | false =>
        simp only [Bool.false_eq_true, if_false]
        have hok1 := applyModified_ok (touch c j) j i modified hf0
        have hl1 : j < (applyModified (touch c j) j i modified).1.nodes.length := by rw [applyModified_length]; exact hl0
        have hf1 := applyModified_failNext (touch c j) j i modified hl0 hf0
        have hok2 := applyRemovals_ok (applyModified (touch c j) j i modified).1 j removed hf1
        simp only [hok1, hok2, if_true, Bool.and_self]
        unfold absSet
        rw [setNode_ks]
        have hfinal : ∀ y, (getNode (applyRemovals (applyModified (touch c j) j i modified).1 j removed).1 y).ks.set =
            absSet (applyRemovals (applyModified (touch c j) j i modified).1 j removed).1 y := fun _ => rfl
        have hstep2 := applyRemovals_sets (applyModified (touch c j) j i modified).1 j removed hl1 hf1
        have hstep1 := applyModified_sets (touch c j) j i modified hl0 hf0
        by_cases hx : x = j
        · subst hx
          simp only [true_and, if_true]
          split
          · rw [hfinal, hstep2 x, if_pos rfl, hstep1 x, if_pos rfl, hpeer0, applyAll_append]
            have : absSet (touch c x) x = absSet c x := by unfold absSet; rw [touch_ks]
            rw [this]
            rfl
          · rw [hfinal, hstep2 x, if_pos rfl, hstep1 x, if_pos rfl, hpeer0, applyAll_append]
            have : absSet (touch c x) x = absSet c x := by unfold absSet; rw [touch_ks]
            rw [this]
            rfl
        · simp only [hx, false_and, if_false]
          rw [hfinal, hstep2 x, if_neg hx, hstep1 x, if_neg hx]
          unfold absSet; rw [touch_ks]
  · simp only [h1, Bool.not_false, if_true, applyAll_nil]; split <;> simp_all
end Datacake.C01d
