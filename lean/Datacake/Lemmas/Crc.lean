/- CRC-32: every single-bit change of the input changes the register, for every length.
The register update is affine over GF(2); a one-bit difference injects `POLY ≠ 0`; the zero-input
update maps only `0` to `0` (bit 31 of `POLY` is set), so the difference never dies. -/
import Datacake.Model.Rpc

namespace Datacake.Rpc

def step0 (d : BitVec 32) : BitVec 32 := crcBit d false

def iter0 : Nat → BitVec 32 → BitVec 32
  | 0, d => d
  | n + 1, d => iter0 n (step0 d)

theorem step0_eq (d : BitVec 32) :
    step0 d = if d.getLsbD 0 then (d >>> 1) ^^^ POLY else d >>> 1 := by
  unfold step0 crcBit; simp

theorem crcBit_xor (r d : BitVec 32) (b : Bool) : crcBit (r ^^^ d) b = crcBit r b ^^^ step0 d := by
  rw [step0_eq]
  unfold crcBit
  simp only
  generalize (if b then 1#32 else 0#32) = c
  have hx : (r ^^^ d ^^^ c) = (r ^^^ c) ^^^ d := by ac_rfl
  rw [hx]
  generalize r ^^^ c = x
  have hl : (x ^^^ d).getLsbD 0 = (x.getLsbD 0 ^^ d.getLsbD 0) := by simp
  have hs : (x ^^^ d) >>> 1 = (x >>> 1) ^^^ (d >>> 1) := by
    apply BitVec.eq_of_getLsbD_eq; intro i hi; simp
  rw [hl, hs]
  cases x.getLsbD 0 <;> cases d.getLsbD 0 <;> simp
  · ac_rfl
  · ac_rfl
  · have : ∀ (a b p : BitVec 32), a ^^^ b = a ^^^ p ^^^ (b ^^^ p) := by
      intro a b p
      have : a ^^^ p ^^^ (b ^^^ p) = a ^^^ b ^^^ (p ^^^ p) := by ac_rfl
      rw [this, BitVec.xor_self, BitVec.xor_zero]
    exact this _ _ _

theorem step0_eq_zero (d : BitVec 32) (h : step0 d = 0#32) : d = 0#32 := by
  rw [step0_eq] at h
  apply BitVec.eq_of_getLsbD_eq
  intro i hi
  simp only [BitVec.getLsbD_zero]
  cases hl : d.getLsbD 0 with
  | true =>
    rw [hl] at h; simp only [if_true] at h
    -- bit 31 of the result is bit 31 of POLY = true
    have := congrArg (fun v => v.getLsbD 31) h
    simp [POLY] at this
  | false =>
    rw [hl] at h; simp only [Bool.false_eq_true, if_false] at h
    cases i with
    | zero => exact hl
    | succ j =>
      have := congrArg (fun v => v.getLsbD j) h
      simp at this
      have hj : j < 32 := by omega
      simpa [Nat.add_comm] using this

theorem iter0_ne_zero (n : Nat) (d : BitVec 32) (h : d ≠ 0#32) : iter0 n d ≠ 0#32 := by
  induction n generalizing d with
  | zero => exact h
  | succ n ih => exact ih _ (fun h0 => h (step0_eq_zero d h0))

theorem crcRaw_xor (r d : BitVec 32) (bits : List Bool) :
    crcRaw (r ^^^ d) bits = crcRaw r bits ^^^ iter0 bits.length d := by
  unfold crcRaw
  induction bits generalizing r d with
  | nil => rfl
  | cons b bs ih =>
    simp only [List.foldl_cons, List.length_cons, iter0]
    rw [crcBit_xor, ih]

theorem crcBit_flip (r : BitVec 32) (b : Bool) : crcBit r (!b) = crcBit r b ^^^ POLY := by
  unfold crcBit
  simp only
  have h1 : (r ^^^ (if (!b) = true then 1#32 else 0#32)) = (r ^^^ (if b then 1#32 else 0#32)) ^^^ 1#32 := by
    cases b <;> simp
    · have : r ^^^ 1#32 ^^^ 1#32 = r ^^^ (1#32 ^^^ 1#32) := by ac_rfl
      rw [this, BitVec.xor_self, BitVec.xor_zero]
  rw [h1]
  generalize r ^^^ (if b then 1#32 else 0#32) = x
  have hl : (x ^^^ 1#32).getLsbD 0 = !x.getLsbD 0 := by simp
  have hs : (x ^^^ 1#32) >>> 1 = x >>> 1 := by
    apply BitVec.eq_of_getLsbD_eq; intro i hi; simp
  rw [hl, hs]
  cases x.getLsbD 0 <;> simp
  have : x >>> 1 ^^^ POLY ^^^ POLY = x >>> 1 ^^^ (POLY ^^^ POLY) := by ac_rfl
  rw [this, BitVec.xor_self, BitVec.xor_zero]

theorem POLY_ne_zero : POLY ≠ 0#32 := by decide

/-- **raw_flip_ne**: flipping any one input bit changes the CRC register, for any prefix and
suffix of any length. -/
theorem crcRaw_flip_ne (r : BitVec 32) (pre post : List Bool) (b : Bool) :
    crcRaw r (pre ++ (!b) :: post) ≠ crcRaw r (pre ++ b :: post) := by
  unfold crcRaw
  simp only [List.foldl_append, List.foldl_cons]
  generalize pre.foldl crcBit r = r'
  rw [crcBit_flip]
  have := crcRaw_xor (crcBit r' b) POLY post
  unfold crcRaw at this
  rw [this]
  intro h
  have hz : iter0 post.length POLY = 0#32 := by
    have h2 := congrArg (fun v => post.foldl crcBit (crcBit r' b) ^^^ v) h
    rw [← BitVec.xor_assoc, BitVec.xor_self, BitVec.zero_xor] at h2
    simpa using h2
  exact iter0_ne_zero _ _ POLY_ne_zero hz

end Datacake.Rpc
