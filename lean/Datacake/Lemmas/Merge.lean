/- Per-key characterisation of `OrSwot.merge`. -/
import Datacake.Basic.ListLemmas
import Datacake.Lemmas.OrswotVersions
set_option linter.unusedSimpArgs false

namespace Datacake.OrSwot
open Datacake.Lww Datacake.Map Datacake.Ts

theorem insertSorted_perm (x : LogItem) (l : List LogItem) : (insertSorted x l).Perm (x :: l) := by
  induction l with
  | nil => exact List.Perm.refl _
  | cons y ys ih =>
    unfold insertSorted
    split
    · exact List.Perm.refl _
    · exact (List.Perm.cons y ih).trans (List.Perm.swap x y ys)

theorem sortLog_perm (l : List LogItem) : (sortLog l).Perm l := by
  induction l with
  | nil => exact List.Perm.refl _
  | cons x xs ih =>
    simp only [sortLog, List.foldr_cons] at ih ⊢
    exact (insertSorted_perm x _).trans (List.Perm.cons x ih)

/-- Projection of the merge loop state at a key: `(entries k, dead k, old k)`. -/
def mproj (st : MergeSt) (k : Nat) : Option Nat × Option Nat × Option Nat :=
  (Map.get st.s.entries k, Map.get st.s.dead k, Map.get st.old k)

/-- What one log item does to its own key. -/
def mstepKey (safe : Map) (it : LogItem) (r : Option Nat × Option Nat × Option Nat) :
    Option Nat × Option Nat × Option Nat :=
  let (e, d, o) := r
  if it.isDelete && isBefore safe it.ts then r
  else if it.isDelete then
    match e with
    | some ev =>
      if it.ts < ev then r
      else (none, some (match d with | some v => max v it.ts | none => it.ts), o)
    | none => (none, some (match d with | some v => max v it.ts | none => it.ts), o)
  else
    let timestamp := match o with | some ov => max it.ts ov | none => it.ts
    match d with
    | some dv => if timestamp < dv then (e, d, none) else (some timestamp, none, none)
    | none => (some timestamp, none, none)

theorem mergeStep_local (safe : Map) (st : MergeSt) (it : LogItem) (k : Nat)
    (hs : st.s.safe = safe) :
    (mergeStep st it).s.safe = safe ∧ (mergeStep st it).s.maxs = st.s.maxs ∧
    mproj (mergeStep st it) k = if k = it.key then mstepKey safe it (mproj st k) else mproj st k := by
  subst hs
  unfold mergeStep mstepKey mproj
  by_cases hk : k = it.key
  · subst hk
    simp only [if_true]
    cases hdel : it.isDelete <;> cases hb : isBefore st.s.safe it.ts <;>
      cases he : Map.get st.s.entries it.key <;> cases hd : Map.get st.s.dead it.key <;>
      cases ho : Map.get st.old it.key <;>
      simp [hdel, hb, he, hd, ho, get_set, get_erase] <;>
      (try split) <;> simp_all [get_set, get_erase]
  · simp only [if_neg hk]
    have hk' : ¬ it.key = k := fun h => hk h.symm
    cases hdel : it.isDelete <;> cases hb : isBefore st.s.safe it.ts <;>
      cases he : Map.get st.s.entries it.key <;> cases hd : Map.get st.s.dead it.key <;>
      cases ho : Map.get st.old it.key <;>
      simp [hdel, hb, he, hd, ho, get_set, get_erase, hk, hk'] <;>
      (try split) <;> simp_all [get_set, get_erase]

/-- Projection of the left-over loop state at a key: `(entries k, dead k)`. -/
def lproj (s : OrSwot) (k : Nat) : Option Nat × Option Nat :=
  (Map.get s.entries k, Map.get s.dead k)

/-- What the left-over loop does to the key of a remaining old entry `(k, e)`. -/
def lstepKey (remoteSafe : Map) (e : Nat) (r : Option Nat × Option Nat) : Option Nat × Option Nat :=
  if isBefore remoteSafe e then r
  else match r.2 with
    | some dv => if e < dv then r else (some e, none)
    | none => (some e, none)

theorem leftoverStep_local (remoteSafe : Map) (s : OrSwot) (p : Nat × Nat) (k : Nat) :
    (leftoverStep remoteSafe s p).safe = s.safe ∧ (leftoverStep remoteSafe s p).maxs = s.maxs ∧
    lproj (leftoverStep remoteSafe s p) k =
      if k = p.1 then lstepKey remoteSafe p.2 (lproj s k) else lproj s k := by
  unfold leftoverStep lstepKey lproj
  by_cases hk : k = p.1
  · subst hk
    cases hb : isBefore remoteSafe p.2 <;> cases hd : Map.get s.dead p.1 <;>
      simp [hb, hd, get_set, get_erase] <;> (try split) <;> simp_all [get_set, get_erase]
  · have hk' : ¬ p.1 = k := fun h => hk h.symm
    cases hb : isBefore remoteSafe p.2 <;> cases hd : Map.get s.dead p.1 <;>
      simp [hb, hd, get_set, get_erase, hk, hk'] <;> (try split) <;> simp_all [get_set, get_erase]

/-- The pure per-key function computed by `merge`: from what the two sets hold for a key (and the
two cut-off maps) to what the merged set holds for it. -/
def mergeKey (aSafe bSafe : Map) (ae ad be bd : Option Nat) : Option Nat × Option Nat :=
  let r0 : Option Nat × Option Nat × Option Nat := (none, ad, ae)
  let r1 := match be, bd with
    | some t, _ => mstepKey aSafe ⟨0, t, false⟩ r0
    | none, some d => mstepKey aSafe ⟨0, d, true⟩ r0
    | none, none => r0
  match r1.2.2 with
  | some e => lstepKey bSafe e (r1.1, r1.2.1)
  | none => (r1.1, r1.2.1)

theorem mstepKey_key (safe : Map) (it : LogItem) (r) :
    mstepKey safe it r = mstepKey safe ⟨0, it.ts, it.isDelete⟩ r := rfl

theorem mergeVersions_fields (F : Nat) (s : OrSwot) (other : List Map) :
    ({ s with maxs := (mergeVersions F s.maxs s.safe other).1,
              safe := (mergeVersions F s.maxs s.safe other).2 } : OrSwot).entries = s.entries := rfl

/-- **merge_get**: per key, `merge` computes `mergeKey` (the other set being consistent, so that a
key occurs at most once in the time-sorted log). -/
theorem merge_get (F : Nat) (a b : OrSwot) (hb : Disj b) (k : Nat) :
    (Map.get (merge F a b).entries k, Map.get (merge F a b).dead k) =
      mergeKey a.safe b.safe (Map.get a.entries k) (Map.get a.dead k)
        (Map.get b.entries k) (Map.get b.dead k) := by
  -- the log and its key uniqueness
  let L : List LogItem := b.entries.bindings.map (fun p => ⟨p.1, p.2, false⟩) ++
                          b.dead.bindings.map (fun p => ⟨p.1, p.2, true⟩)
  have hmemL : ∀ it, it ∈ L ↔
      (it.isDelete = false ∧ Map.get b.entries it.key = some it.ts) ∨
      (it.isDelete = true ∧ Map.get b.dead it.key = some it.ts) := by
    intro it
    simp only [L, List.mem_append, List.mem_map]
    constructor
    · rintro (⟨p, hp, rfl⟩ | ⟨p, hp, rfl⟩)
      · exact Or.inl ⟨rfl, (mem_bindings _ _ _).1 hp⟩
      · exact Or.inr ⟨rfl, (mem_bindings _ _ _).1 hp⟩
    · rintro (⟨h1, h2⟩ | ⟨h1, h2⟩)
      · exact Or.inl ⟨(it.key, it.ts), (mem_bindings _ _ _).2 h2, by cases it; simp_all⟩
      · exact Or.inr ⟨(it.key, it.ts), (mem_bindings _ _ _).2 h2, by cases it; simp_all⟩
  have hndL : (L.map LogItem.key).Nodup := by
    simp only [L, List.map_append, List.map_map]
    have e1 : (LogItem.key ∘ fun p : Nat × Nat => (⟨p.1, p.2, false⟩ : LogItem)) = Prod.fst := rfl
    have e2 : (LogItem.key ∘ fun p : Nat × Nat => (⟨p.1, p.2, true⟩ : LogItem)) = Prod.fst := rfl
    rw [e1, e2, List.nodup_append]
    refine ⟨bindings_nodup _, bindings_nodup _, ?_⟩
    intro x hx y hy hxy
    subst hxy
    obtain ⟨⟨k1, v1⟩, h1, rfl⟩ := List.mem_map.1 hx
    obtain ⟨⟨k2, v2⟩, h2, hk⟩ := List.mem_map.1 hy
    simp only at hk
    subst hk
    have g1 := (mem_bindings _ _ _).1 h1
    have g2 := (mem_bindings _ _ _).1 h2
    rcases hb k2 with h | h
    · rw [h] at g1; cases g1
    · rw [h] at g2; cases g2
  have hperm := sortLog_perm L
  have hndS : ((sortLog L).map LogItem.key).Nodup := (hperm.map _).nodup_iff.2 hndL
  -- first loop
  let st0 : MergeSt := { s := { a with entries := [] }, old := a.entries }
  obtain ⟨hinv1, hno1, hyes1⟩ := foldl_keylocal mproj LogItem.key mergeStep (mstepKey a.safe)
    (fun st => st.s.safe = a.safe)
    (fun st it h => (mergeStep_local a.safe st it 0 h).1)
    (fun st it k h => (mergeStep_local a.safe st it k h).2.2)
    (sortLog L) hndS st0 rfl k
  -- second loop
  let st1 := (sortLog L).foldl mergeStep st0
  obtain ⟨_, hno2, hyes2⟩ := foldl_keylocal lproj Prod.fst (leftoverStep b.safe)
    (fun p => lstepKey b.safe p.2) (fun _ => True)
    (fun _ _ _ => trivial)
    (fun s p k _ => (leftoverStep_local b.safe s p k).2.2)
    st1.old.bindings (bindings_nodup _) st1.s trivial k
  have hfinal : (Map.get (merge F a b).entries k, Map.get (merge F a b).dead k) =
      lproj (st1.old.bindings.foldl (leftoverStep b.safe) st1.s) k := rfl
  rw [hfinal]
  -- value of the first loop at k
  have hr0 : mproj st0 k = (none, Map.get a.dead k, Map.get a.entries k) := rfl
  have hst1 : mproj st1 k =
      (match Map.get b.entries k, Map.get b.dead k with
        | some t, _ => mstepKey a.safe ⟨0, t, false⟩ (none, Map.get a.dead k, Map.get a.entries k)
        | none, some d => mstepKey a.safe ⟨0, d, true⟩ (none, Map.get a.dead k, Map.get a.entries k)
        | none, none => (none, Map.get a.dead k, Map.get a.entries k)) := by
    cases hbe : Map.get b.entries k with
    | some t =>
      have hin : (⟨k, t, false⟩ : LogItem) ∈ sortLog L :=
        hperm.mem_iff.2 ((hmemL _).2 (Or.inl ⟨rfl, hbe⟩))
      have := hyes1 _ hin rfl
      rw [this, hr0]; rfl
    | none =>
      cases hbd : Map.get b.dead k with
      | some d =>
        have hin : (⟨k, d, true⟩ : LogItem) ∈ sortLog L :=
          hperm.mem_iff.2 ((hmemL _).2 (Or.inr ⟨rfl, hbd⟩))
        have := hyes1 _ hin rfl
        rw [this, hr0]; rfl
      | none =>
        have hno : ∀ i ∈ sortLog L, i.key ≠ k := by
          intro i hi hik
          rcases (hmemL i).1 (hperm.mem_iff.1 hi) with ⟨_, h⟩ | ⟨_, h⟩
          · rw [hik, hbe] at h; cases h
          · rw [hik, hbd] at h; cases h
        rw [hno1 hno, hr0]
  -- second loop at k
  unfold mergeKey
  simp only
  rw [← hst1]
  cases hold : Map.get st1.old k with
  | some e =>
    have hin : (k, e) ∈ st1.old.bindings := (mem_bindings _ _ _).2 hold
    rw [hyes2 _ hin rfl]
    have : (mproj st1 k).2.2 = some e := hold
    rw [this]
    rfl
  | none =>
    have hno : ∀ p ∈ st1.old.bindings, p.1 ≠ k := by
      intro p hp hpk
      have := (mem_bindings _ p.1 p.2).1 hp
      rw [hpk, hold] at this; cases this
    rw [hno2 hno]
    have : (mproj st1 k).2.2 = none := hold
    rw [this]
    rfl

end Datacake.OrSwot
