/-
Every run of the protocol model `RpcNet` satisfies the trace specification `Monitor.Spec`.
The invariant relates the protocol state to the prefix of events seen so far.
-/
import Datacake.Model.RpcNet

namespace Datacake.RpcNet
open Datacake Datacake.Monitor

theorem any_isSend (l : List Ev) (id : Nat) : l.any (isSend id) = true ↔ ∃ t, Ev.send id t ∈ l := by
  rw [List.any_eq_true]
  constructor
  · rintro ⟨e, he, h⟩
    cases e <;> simp [isSend] at h
    subst h; exact ⟨_, he⟩
  · rintro ⟨t, h⟩
    exact ⟨_, h, by simp [isSend]⟩

theorem any_isBegin (l : List Ev) (id : Nat) : l.any (isBegin id) = true ↔ ∃ t, Ev.hbegin id t ∈ l := by
  rw [List.any_eq_true]
  constructor
  · rintro ⟨e, he, h⟩
    cases e <;> simp [isBegin] at h
    subst h; exact ⟨_, he⟩
  · rintro ⟨t, h⟩
    exact ⟨_, h, by simp [isBegin]⟩

theorem any_isDone (l : List Ev) (id : Nat) : l.any (isDone id) = true ↔ ∃ o t, Ev.done id o t ∈ l := by
  rw [List.any_eq_true]
  constructor
  · rintro ⟨e, he, h⟩
    cases e <;> simp [isDone] at h
    subst h; exact ⟨_, _, he⟩
  · rintro ⟨o, t, h⟩
    exact ⟨_, h, by simp [isDone]⟩

theorem get_some_mem (m : Map) (k v : Nat) (h : Map.get m k = some v) : (k, v) ∈ m := by
  induction m with
  | nil => simp at h
  | cons x xs ih =>
    obtain ⟨a, b⟩ := x
    rw [Map.get_cons] at h
    by_cases hk : a = k
    · rw [if_pos hk] at h
      cases h; subst hk; exact List.mem_cons_self
    · rw [if_neg hk] at h
      exact List.mem_cons_of_mem _ (ih h)

theorem get_none_not_mem (m : Map) (k v : Nat) (h : Map.get m k = none) : (k, v) ∉ m := by
  induction m with
  | nil => simp
  | cons x xs ih =>
    obtain ⟨a, b⟩ := x
    rw [Map.get_cons] at h
    by_cases hk : a = k
    · rw [if_pos hk] at h; cases h
    · rw [if_neg hk] at h
      intro hm
      rcases List.mem_cons.1 hm with h1 | h1
      · cases h1; exact hk rfl
      · exact ih h h1

/-- The first send of `id` in a trace whose prefix `pre` contains `send id t` and no other send
time for `id`. -/
theorem sendTime_of_mem (pre rest : List Ev) (id t : Nat) (hm : Ev.send id t ∈ pre)
    (hu : ∀ t', Ev.send id t' ∈ pre → t' = t) : sendTime (pre ++ rest) id = some t := by
  induction pre with
  | nil => cases hm
  | cons e es ih =>
    unfold sendTime
    rw [List.cons_append, List.findSome?_cons]
    cases e with
    | send i t0 =>
      by_cases hi : i = id
      · subst hi
        have := hu t0 List.mem_cons_self
        subst this
        simp
      · simp only [if_neg hi]
        have hm' : Ev.send id t ∈ es := by
          rcases List.mem_cons.1 hm with h | h
          · cases h; exact absurd rfl hi
          · exact h
        exact ih hm' (fun t' h => hu t' (List.mem_cons_of_mem _ h))
    | hbegin i t0 =>
      have hm' : Ev.send id t ∈ es := by
        rcases List.mem_cons.1 hm with h | h
        · cases h
        · exact h
      exact ih hm' (fun t' h => hu t' (List.mem_cons_of_mem _ h))
    | hend i t0 =>
      have hm' : Ev.send id t ∈ es := by
        rcases List.mem_cons.1 hm with h | h
        · cases h
        · exact h
      exact ih hm' (fun t' h => hu t' (List.mem_cons_of_mem _ h))
    | done i o t0 =>
      have hm' : Ev.send id t ∈ es := by
        rcases List.mem_cons.1 hm with h | h
        · cases h
        · exact h
      exact ih hm' (fun t' h => hu t' (List.mem_cons_of_mem _ h))

/-- The protocol state agrees with the events seen so far. -/
structure Inv (s : Net) (pre : List Ev) : Prop where
  sent_iff : ∀ id t, (id, t) ∈ s.sent ↔ Ev.send id t ∈ pre
  sent_uniq : ∀ id t t', (id, t) ∈ s.sent → (id, t') ∈ s.sent → t' = t
  begun_iff : ∀ id, id ∈ s.begun ↔ ∃ t, Ev.hbegin id t ∈ pre
  done_iff : ∀ id, id ∈ s.done ↔ ∃ o t, Ev.done id o t ∈ pre
  begun_sent : ∀ id, id ∈ s.begun → ∃ t, (id, t) ∈ s.sent
  inReq_ok : ∀ id, id ∈ s.inReq → (∃ t, (id, t) ∈ s.sent) ∧ id ∉ s.begun
  running_ok : ∀ id, id ∈ s.running → id ∈ s.begun
  inRep_ok : ∀ id v, (id, v) ∈ s.inRep → v = expected id ∧ id ∈ s.begun

theorem inv_init : Inv init [] := by
  constructor <;> simp [init]

theorem before_append_length (pre rest : List Ev) : before (pre ++ rest) pre.length = pre := by
  simp [before]

/-- One accepted step: the event satisfies its clause of the specification (in any trace that
extends the prefix), and the invariant is re-established. -/
theorem step_ok (tau slack : Nat) (s s' : Net) (pre rest : List Ev) (e : Ev) (hI : Inv s pre)
    (hx : exec tau slack s e = some s') :
    evOk (pre ++ e :: rest) tau slack pre.length e = true ∧ Inv s' (pre ++ [e]) := by
  obtain ⟨h1, h2, h3, h4, h5, h6, h7, h8⟩ := hI
  cases e with
  | send id t =>
    simp only [exec] at hx
    split at hx
    · rename_i hn
      cases hx
      have hfresh : ∀ v, (id, v) ∉ s.sent := fun v => get_none_not_mem _ _ v hn
      refine ⟨rfl, ?_⟩
      constructor <;> grind
    · cases hx
  | hbegin id t =>
    simp only [exec] at hx
    split at hx
    · rename_i hm
      cases hx
      obtain ⟨⟨ts, hts⟩, hnb⟩ := h6 id hm
      refine ⟨?_, ?_⟩
      · simp only [evOk, before_append_length, Bool.and_eq_true, Bool.not_eq_true']
        refine ⟨?_, ?_⟩
        · rw [Bool.eq_false_iff]
          intro h
          rw [any_isBegin] at h
          exact hnb ((h3 id).2 h)
        · rw [any_isSend]
          exact ⟨ts, (h1 id ts).1 hts⟩
      · constructor <;> grind
    · cases hx
  | hend id t =>
    simp only [exec] at hx
    split at hx
    · rename_i hm
      cases hx
      refine ⟨rfl, ?_⟩
      constructor <;> grind
    · cases hx
  | done id o t =>
    simp only [exec] at hx
    split at hx
    · cases hx
    · rename_i st hst
      have hmem := get_some_mem _ _ _ hst
      split at hx
      · cases hx
      · rename_i hnd
        split at hx
        · cases hx
        · rename_i hdl
          have hdl' : deadlineOk tau slack st t = true := by
            cases h : deadlineOk tau slack st t
            · exact absurd h hdl
            · rfl
          have hsend : Ev.send id st ∈ pre := (h1 id st).1 hmem
          have hst' : sendTime (pre ++ Ev.done id o t :: rest) id = some st :=
            sendTime_of_mem pre _ id st hsend (fun t' ht' => h2 id st t' hmem ((h1 id t').2 ht'))
          have hA : (before (pre ++ Ev.done id o t :: rest) pre.length).any (isSend id) = true := by
            rw [before_append_length, any_isSend]; exact ⟨st, hsend⟩
          have hB : (before (pre ++ Ev.done id o t :: rest) pre.length).any (isDone id) = false := by
            rw [before_append_length, Bool.eq_false_iff]
            intro h
            rw [any_isDone] at h
            exact hnd ((h4 id).2 h)
          have hC : withinDeadline (pre ++ Ev.done id o t :: rest) tau slack id t = true := by
            unfold withinDeadline
            rw [hst']; exact hdl'
          cases o with
          | reply v =>
            simp only at hx
            split at hx
            · rename_i hr
              cases hx
              obtain ⟨hv, hb⟩ := h8 id v hr
              refine ⟨?_, ?_⟩
              · have hD : (before (pre ++ Ev.done id (Outcome.reply v) t :: rest) pre.length).any (isBegin id) = true := by
                  rw [before_append_length, any_isBegin]
                  exact (h3 id).1 hb
                simp only [evOk, doneOk]
                rw [hA, hB, hC, hD]
                simp [hv]
              · constructor <;> grind
            · cases hx
          | conn =>
            cases hx
            refine ⟨?_, ?_⟩
            · simp only [evOk, doneOk]
              rw [hA, hB, hC]
              rfl
            · constructor <;> grind
          | timeout =>
            simp only at hx
            split at hx
            · rename_i htau
              cases hx
              refine ⟨?_, ?_⟩
              · simp only [evOk, doneOk]
                rw [hA, hB, hC]
                simp [htau]
              · constructor <;> grind
            · cases hx
          | invalid => cases hx
          | other => cases hx

/-- Runs from a state that agrees with the prefix `pre`. -/
theorem run_spec_from (tau slack : Nat) : ∀ (rest : List Ev) (s s' : Net) (pre : List Ev), Inv s pre →
    run tau slack s rest = some s' →
    (∀ n e, rest[n]? = some e → evOk (pre ++ rest) tau slack (pre.length + n) e = true) ∧ Inv s' (pre ++ rest) := by
  intro rest
  induction rest with
  | nil =>
    intro s s' pre hI hr
    simp only [run] at hr
    cases hr
    refine ⟨fun n e h => by simp at h, by simpa using hI⟩
  | cons e es ih =>
    intro s s' pre hI hr
    simp only [run] at hr
    cases hx : exec tau slack s e with
    | none => rw [hx] at hr; cases hr
    | some s1 =>
      rw [hx] at hr
      obtain ⟨hok, hI1⟩ := step_ok tau slack s s1 pre es e hI hx
      obtain ⟨hrest, hI'⟩ := ih s1 s' (pre ++ [e]) hI1 hr
      have happ : pre ++ [e] ++ es = pre ++ e :: es := by simp
      refine ⟨?_, by rw [← happ]; exact hI'⟩
      intro n e' hn
      cases n with
      | zero =>
        simp only [List.getElem?_cons_zero, Option.some.injEq] at hn
        subst hn
        exact hok
      | succ n =>
        simp only [List.getElem?_cons_succ] at hn
        have := hrest n e' hn
        rw [happ] at this
        have hl : (pre ++ [e]).length + n = pre.length + (n + 1) := by simp; omega
        rw [hl] at this
        exact this

/-- The driver's acceptor (`firstRefused … = none`) is exactly "the trace is a run". -/
theorem firstRefused_none_iff (tau slack : Nat) : ∀ (tr : List Ev) (s : Net) (n : Nat),
    firstRefused tau slack s tr n = none ↔ (run tau slack s tr).isSome = true := by
  intro tr
  induction tr with
  | nil => intro s n; simp [firstRefused, run]
  | cons e es ih =>
    intro s n
    simp only [firstRefused, run]
    cases exec tau slack s e with
    | none => simp
    | some s1 => exact ih s1 (n + 1)

end Datacake.RpcNet
