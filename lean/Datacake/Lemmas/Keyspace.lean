/- Agreement between a node's set and its store, preserved by the single-document handlers. -/
import Datacake.Model.Keyspace
import Datacake.Lemmas.ApplyRep
set_option linter.unusedSimpArgs false

namespace Datacake.Keyspace
open Datacake.Lww Datacake.OrSwot Datacake.Storage Datacake.Map

theorem aget_aset {α : Type} (m : List (Nat × α)) (k k' : Nat) (v : α) :
    aget (aset m k v) k' = if k' = k then some v else aget m k' := by
  unfold aset aerase
  simp only [aget]
  by_cases h : k = k'
  · simp [h]
  · have h' : ¬ k' = k := fun e => h e.symm
    simp only [if_neg h, if_neg h']
    induction m with
    | nil => rfl
    | cons p ps ih =>
      obtain ⟨a, b⟩ := p
      by_cases e : a = k
      · subst e
        have hd : decide (a ≠ a) = false := by simp
        simp only [List.filter_cons, hd, Bool.false_eq_true, if_false, aget, if_neg h, ih]
      · have hd : decide (a ≠ k) = true := by simp [e]
        simp only [List.filter_cons, hd, if_true, aget, ih]

theorem aget_aerase {α : Type} (m : List (Nat × α)) (k k' : Nat) :
    aget (aerase m k) k' = if k' = k then none else aget m k' := by
  unfold aerase
  induction m with
  | nil => simp [aget]
  | cons p ps ih =>
    obtain ⟨a, b⟩ := p
    by_cases e : a = k
    · subst e
      have hd : decide (a ≠ a) = false := by simp
      simp only [List.filter_cons, hd, Bool.false_eq_true, if_false, ih, aget]
      by_cases h : k' = a
      · simp [h]
      · have : ¬ a = k' := fun e => h e.symm
        simp [h, this]
    · have hd : decide (a ≠ k) = true := by simp [e]
      simp only [List.filter_cons, hd, if_true, aget, ih]
      by_cases h : a = k'
      · have : ¬ k' = k := fun e2 => e (h.trans e2)
        simp [h, this]
      · simp [h]

/-- What the store says about a document id: "document at `t`" / "tombstone at `t`" / nothing,
in the record encoding of `Spec/Lww.lean`. -/
def storeView (ks : Storage.Keyspace) (k : Nat) : Option Nat :=
  match aget ks.rows k with
  | some (ts, false) => some (liveRec ts)
  | some (ts, true) => some (deadRec ts)
  | none => none

/-- The bytes are there exactly for the live rows. -/
def DataOk (ks : Storage.Keyspace) : Prop :=
  ∀ k, (aget ks.data k).isSome ↔ ∃ ts, aget ks.rows k = some (ts, false)

/-- **Agree**: a document id is live in the set with stamp `t` exactly when storage holds that
document with stamp `t`, and is a tombstone at `t` exactly when storage records a tombstone at `t`. -/
structure Agree (n : Node) : Prop where
  same : ∀ k, view n.set k = storeView n.store k
  disj : Disj n.set
  data : DataOk n.store

theorem storeView_put (ks : Storage.Keyspace) (d : Doc) (k : Nat) :
    storeView (storePut ks d) k = if k = d.1 then some (liveRec d.2.1) else storeView ks k := by
  unfold storeView storePut
  simp only [aget_aset]
  by_cases h : k = d.1 <;> simp [h]

theorem storeView_tomb (ks : Storage.Keyspace) (id ts k : Nat) :
    storeView (storeTomb ks id ts) k = if k = id then some (deadRec ts) else storeView ks k := by
  unfold storeView storeTomb
  simp only [aget_aset]
  by_cases h : k = id <;> simp [h]

theorem dataOk_put (ks : Storage.Keyspace) (d : Doc) (h : DataOk ks) : DataOk (storePut ks d) := by
  intro k
  unfold storePut
  simp only [aget_aset]
  by_cases e : k = d.1
  · simp [e]
  · simp only [if_neg e]; exact h k

theorem dataOk_tomb (ks : Storage.Keyspace) (id ts : Nat) (h : DataOk ks) : DataOk (storeTomb ks id ts) := by
  intro k
  unfold storeTomb
  simp only [aget_aset, aget_aerase]
  by_cases e : k = id
  · simp [e]
  · simp only [if_neg e]; exact h k

/-- `will_apply = true` means: not refused as too old, and strictly newer than what is held. -/
theorem willApply_spec (s : OrSwot) (k ts : Nat) (h : willApply s k ts = true) :
    isBefore s.safe ts = false ∧
    (∀ r, view s k = some r → r < deadRec ts) := by
  unfold willApply at h
  cases hb : isBefore s.safe ts with
  | true => simp [hb] at h
  | false =>
    refine ⟨rfl, ?_⟩
    simp only [hb, Bool.false_eq_true, if_false] at h
    intro r hr
    rw [view_of_gets] at hr
    cases he : Map.get s.entries k with
    | some e =>
      rw [he] at hr h; simp at hr h; unfold liveRec deadRec at *; omega
    | none =>
      rw [he] at hr h
      cases hd : Map.get s.dead k with
      | some d => rw [hd] at hr h; simp at hr h; unfold deadRec at *; omega
      | none => rw [hd] at hr; cases hr

theorem join_of_lt (r : Option Nat) (x : Nat) (h : ∀ y, r = some y → y < x) : join r x = some x := by
  cases r with
  | none => rfl
  | some y => have := h y rfl; simp [join]; omega

end Datacake.Keyspace
