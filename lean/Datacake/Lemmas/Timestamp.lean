/- Helper lemmas about the packed timestamp representation. -/
import Datacake.Model.Timestamp

namespace Datacake.Ts

theorem node_lt (t : Nat) : node t < 256 := by unfold node; omega
theorem counter_lt (t : Nat) : counter t < 65536 := by unfold counter; omega
theorem fractional_lt (t : Nat) : fractional t < 256 := by unfold fractional; omega
theorem seconds_lt (t : Nat) (h : t < 18446744073709551616) : seconds t < 4294967296 := by
  unfold seconds; omega

/-- A packed value is the sum of its four fields. -/
theorem decomp (t : Nat) :
    t = seconds t * 4294967296 + fractional t * 16777216 + counter t * 256 + node t := by
  unfold seconds fractional counter node; omega

/-- Composition of fields within their ranges gives back the fields. -/
theorem fields_of_sum (s f k n : Nat) (hf : f < 256) (hk : k < 65536) (hn : n < 256) :
    seconds (s * 4294967296 + f * 16777216 + k * 256 + n) = s ∧
    fractional (s * 4294967296 + f * 16777216 + k * 256 + n) = f ∧
    counter (s * 4294967296 + f * 16777216 + k * 256 + n) = k ∧
    node (s * 4294967296 + f * 16777216 + k * 256 + n) = n := by
  unfold seconds fractional counter node; omega

theorem durFrac_lt (ms : Nat) : durFrac ms < 250 := by unfold durFrac; omega

/-- `pack` without wrap-around. -/
theorem pack_eq (ms k n : Nat) (hs : ms / 1000 < 4294967296) :
    pack ms k n = (ms / 1000) * 4294967296 + ((ms % 1000) / 4) * 16777216 + k * 256 + n := by
  unfold pack durSecs durFrac; omega

theorem pack_fields (ms k n : Nat) (hs : ms / 1000 < 4294967296) (hk : k < 65536) (hn : n < 256) :
    seconds (pack ms k n) = ms / 1000 ∧ fractional (pack ms k n) = (ms % 1000) / 4 ∧
    counter (pack ms k n) = k ∧ node (pack ms k n) = n := by
  rw [pack_eq ms k n hs]
  exact fields_of_sum _ _ _ _ (by omega) hk hn

/-- Lexicographic order on the four fields is `<` on the packed number. -/
theorem lt_iff_lex (a b : Nat) :
    a < b ↔ seconds a < seconds b ∨ (seconds a = seconds b ∧ (fractional a < fractional b ∨
      (fractional a = fractional b ∧ (counter a < counter b ∨
        (counter a = counter b ∧ node a < node b))))) := by
  unfold seconds fractional counter node; omega

/-- `dts` of a packed value built from a duration that is a multiple of 4 ms. -/
theorem dts_pack (ms k n : Nat) (hs : ms / 1000 < 4294967296) (hk : k < 65536) (hn : n < 256)
    (h4 : ms % 4 = 0) : dts (pack ms k n) = ms := by
  obtain ⟨h1, h2, _, _⟩ := pack_fields ms k n hs hk hn
  unfold dts partsAsDuration; rw [h1, h2]; omega

theorem dts_mod4 (t : Nat) : dts t % 4 = 0 := by
  unfold dts partsAsDuration; omega

/-- Packed comparison from comparison of times: a strictly later time (both multiples of 4 ms,
no wrap) gives a strictly greater packed value whatever the counters and nodes are. -/
theorem pack_lt_of_ms_lt (ms ms' k n k' n' : Nat) (hs' : ms' / 1000 < 4294967296)
    (hk : k < 65536) (hn : n < 256) (h4 : ms % 4 = 0) (h4' : ms' % 4 = 0)
    (hlt : ms < ms') : pack ms k n < pack ms' k' n' := by
  have hs : ms / 1000 < 4294967296 := by omega
  rw [pack_eq ms k n hs, pack_eq ms' k' n' hs']
  have : ms / 1000 < ms' / 1000 ∨ (ms / 1000 = ms' / 1000 ∧ (ms % 1000) / 4 < (ms' % 1000) / 4) := by
    omega
  omega

/-- Any `u64` is at most the re-packing of its own time with a larger-or-equal counter/node
position: `t ≤ pack (dts t) (counter t) (node t)` with equality when `fractional t < 250`. -/
theorem le_pack_dts (t : Nat) (hs : dts t / 1000 < 4294967296) :
    t ≤ pack (dts t) (counter t) (node t) := by
  rw [pack_eq _ _ _ hs]
  have hd := decomp t
  have hf := fractional_lt t
  unfold dts partsAsDuration at *
  generalize seconds t = s at *
  generalize fractional t = f at *
  generalize counter t = k at *
  generalize node t = n at *
  omega

theorem pack_lt_pack_ctr (ms k k' n n' : Nat) (hs : ms / 1000 < 4294967296) (hn : n < 256)
    (h : k < k') : pack ms k n < pack ms k' n' := by
  rw [pack_eq _ _ _ hs, pack_eq _ _ _ hs]; omega

end Datacake.Ts

namespace Datacake.Ts

/-- The work-horse for clock monotonicity: a `u64` is below any packing of a strictly later time,
or of the same time with a strictly larger counter. -/
theorem lt_pack (t ms k n : Nat) (hs : ms / 1000 < 4294967296) (h4 : ms % 4 = 0)
    (h : dts t < ms ∨ (dts t = ms ∧ counter t < k)) : t < pack ms k n := by
  have hk := counter_lt t
  have hn := node_lt t
  have h4t := dts_mod4 t
  have hle := le_pack_dts t (by omega)
  rcases h with h | ⟨h1, h2⟩
  · have := pack_lt_of_ms_lt (dts t) ms (counter t) (node t) k n hs hk hn h4t h4 h
    omega
  · have := pack_lt_pack_ctr (dts t) (counter t) k (node t) n (by omega) hn h2
    rw [h1] at this hle
    omega

end Datacake.Ts
