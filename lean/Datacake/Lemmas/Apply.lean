/- Single operations on a replica: `applyOp` / `applyAll`, the LWW step refinement and the
version invariant (shared by C03, C04, C05, C08, C02). -/
import Datacake.Lemmas.OrswotVersions
set_option linter.unusedSimpArgs false

namespace Datacake.OrSwot
open Datacake.Lww Datacake.Ts

/-- An operation together with the source it arrives through. -/
structure SrcOp where
  src : Nat
  op : Op

/-- One `insert_with_source` / `delete_with_source` call. -/
def applyOp (F : Nat) (s : OrSwot) (o : SrcOp) : OrSwot × Bool :=
  if o.op.isDel then deleteWithSource F s o.src o.op.key o.op.ts
  else insertWithSource F s o.src o.op.key o.op.ts

/-- Applying a list of operations in arrival order. -/
def applyAll (F : Nat) (s : OrSwot) (ops : List SrcOp) : OrSwot :=
  ops.foldl (fun s o => (applyOp F s o).1) s

/-- One accepted operation is exactly one LWW join on its key; the Boolean result says whether the
record changed; `Disj` is kept. -/
theorem applyOp_step (F : Nat) (s : OrSwot) (o : SrcOp) (hd : Disj s)
    (ha : isBefore s.safe o.op.ts = false) :
    (∀ k, view (applyOp F s o).1 k = if k = o.op.key then join (view s k) (rank o.op) else view s k) ∧
    Disj (applyOp F s o).1 ∧
    ((applyOp F s o).2 = true ↔ Newer (view s o.op.key) (rank o.op)) := by
  unfold applyOp rank
  have htu : tryUpdateMax F s o.src o.op.ts ≠ none := by
    unfold tryUpdateMax; rw [ha]; simp
  cases htv : tryUpdateMax F s o.src o.op.ts with
  | none => exact absurd htv htu
  | some p =>
    obtain ⟨maxs', safe'⟩ := p
    have hd' : Disj { s with maxs := maxs', safe := safe' } := hd
    have hv : ∀ k, view { s with maxs := maxs', safe := safe' } k = view s k := fun _ => rfl
    by_cases hdel : o.op.isDel = true
    · simp only [hdel, if_true, deleteWithSource, htv]
      obtain ⟨h1, h2, h3⟩ := view_deleteCore { s with maxs := maxs', safe := safe' } o.op.key o.op.ts hd'
      refine ⟨?_, h2, ?_⟩
      · intro k; rw [h1 k]
        by_cases hk : k = o.op.key
        · subst hk; simp [hv]
        · simp [hk, hv]
      · rw [h3, hv]
    · have hdel' : o.op.isDel = false := by simpa using hdel
      simp only [hdel', insertWithSource, htv, Bool.false_eq_true, if_false]
      obtain ⟨h1, h2, h3⟩ := view_insertCore { s with maxs := maxs', safe := safe' } o.op.key o.op.ts hd'
      refine ⟨?_, h2, ?_⟩
      · intro k; rw [h1 k]
        by_cases hk : k = o.op.key
        · subst hk; simp [hv]
        · simp [hk, hv]
      · simpa [hv] using h3

/-- A refused operation (older than the cut-off) changes nothing and returns `false`. -/
theorem applyOp_refused (F : Nat) (s : OrSwot) (o : SrcOp)
    (ha : isBefore s.safe o.op.ts = true) : applyOp F s o = (s, false) := by
  unfold applyOp insertWithSource deleteWithSource tryUpdateMax
  simp [ha]

theorem versInv_applyOp (F : Nat) (s : OrSwot) (o : SrcOp) (S : Nat → Prop) (h : VersInv F s S) :
    VersInv F (applyOp F s o).1 (fun x => S x ∨ x = o.op.ts) := by
  cases htv : tryUpdateMax F s o.src o.op.ts with
  | none =>
    have : (applyOp F s o).1 = s := by
      unfold applyOp insertWithSource deleteWithSource; simp [htv]
    rw [this]; exact versInv_mono F s S _ h (fun x hx => Or.inl hx)
  | some p =>
    obtain ⟨maxs', safe'⟩ := p
    obtain ⟨hinv, _⟩ := tryUpdateMax_inv F s o.src o.op.ts S h maxs' safe' htv
    unfold applyOp insertWithSource deleteWithSource
    simp only [htv]
    split
    · obtain ⟨e1, e2⟩ := deleteCore_versions { s with maxs := maxs', safe := safe' } o.op.key o.op.ts
      exact ⟨by rw [e1]; exact hinv.maxs, by rw [e2]; exact hinv.safe⟩
    · obtain ⟨e1, e2⟩ := insertCore_versions { s with maxs := maxs', safe := safe' } o.op.key o.op.ts
      exact ⟨by rw [e1]; exact hinv.maxs, by rw [e2]; exact hinv.safe⟩

end Datacake.OrSwot
