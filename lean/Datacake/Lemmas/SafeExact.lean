/-
`SafeExact`: the safe cut-off of every origin is EXACTLY the forgiveness of the minimum over the
sources of the newest stamp seen from it (`compute_safe_last_stamp` is re-run whenever a per-source
maximum changes).  An invariant of every state built from `insert/delete_with_source` and
`purge_old_deletes` — which is every state of a keyspace actor.

Consequence (`accepted_sorted`): a batch applied in ascending stamp order (what
`on_multi_set` / `on_multi_del` do after `sort_by_key`) never has an element refused as too old
when its turn comes, provided it was not too old when the request started (`will_apply`).  This
discharges the hypothesis `Accepted` of the C02 theorems for the batches the actor applies.
-/
import Datacake.Lemmas.Rep
import Datacake.Props.C04

namespace Datacake.OrSwot
open Datacake.Lww Datacake.Map Datacake.Ts

/-- What each source remembers of origin `X` (the default when nothing). -/
def srcVals (maxs : List Map) (X : Nat) : List Nat :=
  maxs.map (fun m => (Map.get m X).getD (pack 0 0 X))

structure SafeExact (F : Nat) (s : OrSwot) : Prop where
  some_ : ∀ X v, Map.get s.safe X = some v →
    ∃ x xs, srcVals s.maxs X = x :: xs ∧ v = forgive F (minList x xs)
  none_ : ∀ X, Map.get s.safe X = none → ∀ m ∈ s.maxs, Map.get m X = none

theorem safeExact_empty (F n : Nat) : SafeExact F (OrSwot.empty n) := by
  constructor
  · intro X v h; simp [OrSwot.empty] at h
  · intro X _ m hm
    simp only [OrSwot.empty] at hm
    rw [(List.mem_replicate.1 hm).2]; rfl

theorem minList_le (x : Nat) (xs : List Nat) : ∀ y ∈ x :: xs, minList x xs ≤ y := by
  unfold minList
  induction xs generalizing x with
  | nil => intro y hy; simp at hy; subst hy; simp
  | cons z zs ih =>
    intro y hy
    simp only [List.foldl_cons]
    have hle : zs.foldl min (min x z) ≤ min x z := ih (min x z) (min x z) List.mem_cons_self
    rcases List.mem_cons.1 hy with h | h
    · subst h; exact Nat.le_trans hle (Nat.min_le_left _ _)
    · rcases List.mem_cons.1 h with h | h
      · subst h; exact Nat.le_trans hle (Nat.min_le_right _ _)
      · exact ih (min x z) y (List.mem_cons_of_mem _ h)

/-- The update of one per-source map in `try_update_max_stamp`. -/
def bump (ts : Nat) (m : Map) : Map :=
  match Map.get m (node ts) with
  | some old => if old < ts then Map.set m (node ts) ts else m
  | none => Map.set m (node ts) ts

theorem tryUpdateMax_eq (F : Nat) (s : OrSwot) (src ts : Nat) (maxs' : List Map) (safe' : Map)
    (hu : tryUpdateMax F s src ts = some (maxs', safe')) :
    maxs' = modifyNth s.maxs src (bump ts) ∧ safe' = computeSafe F maxs' s.safe (node ts) ∧
    isBefore s.safe ts = false := by
  unfold tryUpdateMax at hu
  split at hu
  · cases hu
  · rename_i hb
    injection hu with hu
    injection hu with h1 h2
    refine ⟨h1.symm, ?_, by simpa using hb⟩
    rw [← h2, ← h1]

theorem bump_get_other (ts : Nat) (m : Map) (Y : Nat) (hY : Y ≠ node ts) :
    Map.get (bump ts m) Y = Map.get m Y := by
  unfold bump
  split
  · split
    · rw [get_set, if_neg hY]
    · rfl
  · rw [get_set, if_neg hY]

theorem bump_changed (ts : Nat) (m : Map) (h : bump ts m ≠ m) :
    Map.get (bump ts m) (node ts) = some ts := by
  unfold bump at h ⊢
  split
  · split
    · rw [get_set, if_pos rfl]
    · rename_i hold hlt
      rw [hold] at h; simp only [hlt, if_false] at h; exact absurd rfl h
  · rw [get_set, if_pos rfl]

theorem modifyNth_length (l : List Map) (i : Nat) (f : Map → Map) : (modifyNth l i f).length = l.length := by
  induction l generalizing i with
  | nil => rfl
  | cons x xs ih => cases i <;> simp [modifyNth, ih]

theorem modifyNth_eq_or (l : List Map) (i : Nat) (f : Map → Map) :
    modifyNth l i f = l ∨ ∃ m ∈ l, f m ≠ m ∧ f m ∈ modifyNth l i f := by
  induction l generalizing i with
  | nil => left; rfl
  | cons x xs ih =>
    cases i with
    | zero =>
      by_cases h : f x = x
      · left; simp [modifyNth, h]
      · right; exact ⟨x, List.mem_cons_self, h, by simp [modifyNth]⟩
    | succ i =>
      rcases ih i with h | ⟨m, hm, h1, h2⟩
      · left; simp [modifyNth, h]
      · right; exact ⟨m, List.mem_cons_of_mem _ hm, h1, by simp [modifyNth, h2]⟩

theorem srcVals_modifyNth_other (maxs : List Map) (src ts Y : Nat) (hY : Y ≠ node ts) :
    srcVals (modifyNth maxs src (bump ts)) Y = srcVals maxs Y := by
  unfold srcVals
  induction maxs generalizing src with
  | nil => rfl
  | cons x xs ih =>
    cases src with
    | zero => simp [modifyNth, bump_get_other ts x Y hY]
    | succ i => simp only [modifyNth, List.map_cons]; rw [ih i]

theorem computeSafe_get (F : Nat) (maxs : List Map) (safe : Map) (X Y : Nat) :
    Map.get (computeSafe F maxs safe X) Y =
      match srcVals maxs X with
      | [] => Map.get safe Y
      | x :: xs => if Y = X then some (forgive F (minList x xs)) else Map.get safe Y := by
  unfold computeSafe srcVals
  split
  · rename_i h; rw [h]
  · rename_i x xs h; rw [h]; simp only; rw [get_set]

theorem mem_modifyNth_get_none (maxs : List Map) (src ts X : Nat) (hX : X ≠ node ts)
    (h : ∀ m ∈ maxs, Map.get m X = none) : ∀ m ∈ modifyNth maxs src (bump ts), Map.get m X = none := by
  intro m hm
  rcases mem_modifyNth _ _ _ _ hm with hmem | ⟨m0, hm0, e⟩
  · exact h m hmem
  · subst e; rw [bump_get_other ts m0 X hX]; exact h m0 hm0

/-- `try_update_max_stamp` keeps the cut-offs exact. -/
theorem safeExact_tryUpdateMax (F : Nat) (s : OrSwot) (src ts : Nat) (maxs' : List Map) (safe' : Map)
    (h : SafeExact F s) (hu : tryUpdateMax F s src ts = some (maxs', safe')) :
    SafeExact F { s with maxs := maxs', safe := safe' } := by
  obtain ⟨hm, hs, _⟩ := tryUpdateMax_eq F s src ts maxs' safe' hu
  constructor
  · intro X v hv
    simp only at hv ⊢
    rw [hs, computeSafe_get] at hv
    by_cases hX : X = node ts
    · subst hX
      cases hsv : srcVals maxs' (node ts) with
      | nil =>
        rw [hsv] at hv
        simp only at hv
        -- no sources at all: nothing changed
        have hlen : maxs'.length = 0 := by
          have : (srcVals maxs' (node ts)).length = 0 := by rw [hsv]; rfl
          simpa [srcVals] using this
        obtain ⟨x, xs, e1, _⟩ := h.some_ _ v hv
        have : s.maxs.length = 0 := by rw [hm, modifyNth_length] at hlen; exact hlen
        have : (srcVals s.maxs (node ts)).length = 0 := by simp [srcVals, this]
        rw [e1] at this; simp at this
      | cons x xs =>
        rw [hsv] at hv
        simp only [if_true] at hv
        injection hv with hv
        exact ⟨x, xs, rfl, hv.symm⟩
    · have hsame : srcVals maxs' X = srcVals s.maxs X := by rw [hm]; exact srcVals_modifyNth_other _ _ _ _ hX
      have hv' : Map.get s.safe X = some v := by
        cases hsv : srcVals maxs' (node ts) with
        | nil => rw [hsv] at hv; exact hv
        | cons x xs => rw [hsv] at hv; simp only [if_neg hX] at hv; exact hv
      rw [hsame]
      exact h.some_ X v hv'
  · intro X hv
    simp only at hv ⊢
    rw [hs, computeSafe_get] at hv
    by_cases hX : X = node ts
    · subst hX
      cases hsv : srcVals maxs' (node ts) with
      | nil =>
        intro m hm'
        have : (srcVals maxs' (node ts)).length = 0 := by rw [hsv]; rfl
        have hlen : maxs'.length = 0 := by simpa [srcVals] using this
        have : maxs' = [] := List.eq_nil_of_length_eq_zero hlen
        rw [this] at hm'; cases hm'
      | cons x xs => rw [hsv] at hv; simp at hv
    · have hv' : Map.get s.safe X = none := by
        cases hsv : srcVals maxs' (node ts) with
        | nil => rw [hsv] at hv; exact hv
        | cons x xs => rw [hsv] at hv; simp only [if_neg hX] at hv; exact hv
      rw [hm]
      exact mem_modifyNth_get_none s.maxs src ts X hX (h.none_ X hv')

/-- Stored per-source maxima are well-formed stamps of their origin. -/
def GoodMaxs (s : OrSwot) : Prop :=
  ∀ m ∈ s.maxs, ∀ X v, Map.get m X = some v → node v = X ∧ v < 18446744073709551616 ∧ fractional v < 250

theorem goodMaxs_tryUpdateMax (F : Nat) (s : OrSwot) (src ts : Nat) (maxs' : List Map) (safe' : Map)
    (h : GoodMaxs s) (hts : ValidStamp ts) (hu : tryUpdateMax F s src ts = some (maxs', safe')) :
    GoodMaxs { s with maxs := maxs', safe := safe' } := by
  obtain ⟨hm, _, _⟩ := tryUpdateMax_eq F s src ts maxs' safe' hu
  intro m hmem X v hv
  simp only at hmem
  rw [hm] at hmem
  rcases mem_modifyNth _ _ _ _ hmem with hmem | ⟨m0, hm0, e⟩
  · exact h m hmem X v hv
  · subst e
    by_cases hX : X = node ts
    · subst hX
      by_cases hch : bump ts m0 = m0
      · rw [hch] at hv; exact h m0 hm0 _ v hv
      · rw [bump_changed ts m0 hch] at hv
        injection hv with hv; subst hv
        exact ⟨rfl, hts.1, hts.2⟩
    · rw [bump_get_other ts m0 X hX] at hv; exact h m0 hm0 X v hv

theorem srcVals_good (s : OrSwot) (hg : GoodMaxs s) (X : Nat) (hX : X < 256) :
    ∀ y ∈ srcVals s.maxs X, y < 18446744073709551616 ∧ fractional y < 250 ∧ (y = X ∨ ∃ m ∈ s.maxs, Map.get m X = some y) := by
  intro y hy
  unfold srcVals at hy
  obtain ⟨m, hm, e⟩ := List.mem_map.1 hy
  cases hgm : Map.get m X with
  | none =>
    rw [hgm] at e; simp only [Option.getD_none] at e
    have hp : pack 0 0 X = X := by unfold pack durSecs durFrac; omega
    rw [hp] at e; subst e
    exact ⟨by omega, by unfold fractional; omega, Or.inl rfl⟩
  | some v =>
    rw [hgm] at e; simp only [Option.getD_some] at e; subst e
    obtain ⟨_, h2, h3⟩ := hg m hm X v hgm
    exact ⟨h2, h3, Or.inr ⟨m, hm, hgm⟩⟩

/-- **The key step.**  After an accepted operation stamped `t'`, a stamp `t ≥ t'` of the same
origin that was not before the cut-off still is not. -/
theorem notBefore_after (F : Nat) (s : OrSwot) (src t' t : Nat) (maxs' : List Map) (safe' : Map)
    (he : SafeExact F s) (hg : GoodMaxs s) (hu : tryUpdateMax F s src t' = some (maxs', safe'))
    (ht' : ValidStamp t') (hle : t' ≤ t)
    (hnb : isBefore s.safe t = false) : isBefore safe' t = false := by
  obtain ⟨hm, hs, _⟩ := tryUpdateMax_eq F s src t' maxs' safe' hu
  by_cases hnode : node t = node t'
  · -- same origin
    unfold isBefore
    rw [hs, computeSafe_get, hnode]
    cases hsv : srcVals maxs' (node t') with
    | nil =>
      simp only
      unfold isBefore at hnb; rw [hnode] at hnb; exact hnb
    | cons x xs =>
      simp only [if_true, decide_eq_false_iff_not]
      intro hlt
      have hg' := goodMaxs_tryUpdateMax F s src t' maxs' safe' hg ht' hu
      have hmn := minList_mem x xs
      rw [← hsv] at hmn
      obtain ⟨h1, h2, _⟩ := srcVals_good { s with maxs := maxs', safe := safe' } hg' (node t') (node_lt t') _ hmn
      have hfl := forgive_le F (minList x xs) h1 h2
      have hbig : t < minList x xs := by omega
      -- either nothing changed, or the new stamp is one of the values: both impossible
      rcases modifyNth_eq_or s.maxs src (bump t') with hsame | ⟨m, hmem, hne, hin⟩
      · rw [hm, hsame] at hsv
        unfold isBefore at hnb
        rw [hnode] at hnb
        cases hsafe : Map.get s.safe (node t') with
        | some v =>
          obtain ⟨x', xs', e1, e2⟩ := he.some_ _ v hsafe
          rw [hsv] at e1; injection e1 with e1 e1'; subst e1; subst e1'
          rw [hsafe] at hnb
          simp only [decide_eq_false_iff_not] at hnb
          rw [e2] at hnb; exact hnb hlt
        | none =>
          have hall := he.none_ _ hsafe
          have : minList x xs = pack 0 0 (node t') := by
            have hmn2 := minList_mem x xs
            rw [← hsv] at hmn2
            obtain ⟨m, hm1, e⟩ := List.mem_map.1 hmn2
            rw [hall m hm1] at e; exact e.symm
          have hp : pack 0 0 (node t') = node t' := by
            have := node_lt t'; unfold pack durSecs durFrac; omega
          rw [this, hp] at hbig
          have : node t ≤ t := by unfold node; omega
          omega
      · have hval : t' ∈ srcVals maxs' (node t') := by
          rw [hm]; unfold srcVals
          exact List.mem_map.2 ⟨bump t' m, hin, by rw [bump_changed t' m hne]; rfl⟩
        rw [hsv] at hval
        have := minList_le x xs t' hval
        omega
  · -- another origin: its cut-off is untouched
    unfold isBefore at hnb ⊢
    rw [hs, computeSafe_get]
    cases hsv : srcVals maxs' (node t') with
    | nil => exact hnb
    | cons x xs => simp only [if_neg hnode]; exact hnb

end Datacake.OrSwot

namespace Datacake.OrSwot
open Datacake.Lww Datacake.Map Datacake.Ts

/-- An accepted operation runs `try_update_max_stamp`; the rest of the call does not touch the
version bookkeeping. -/
theorem applyOp_versions (F : Nat) (s : OrSwot) (o : SrcOp) (hb : isBefore s.safe o.op.ts = false) :
    ∃ maxs' safe', tryUpdateMax F s o.src o.op.ts = some (maxs', safe') ∧
      (applyOp F s o).1.maxs = maxs' ∧ (applyOp F s o).1.safe = safe' := by
  have hne : tryUpdateMax F s o.src o.op.ts ≠ none := by
    unfold tryUpdateMax; rw [hb]; simp
  cases htv : tryUpdateMax F s o.src o.op.ts with
  | none => exact absurd htv hne
  | some p =>
    obtain ⟨maxs', safe'⟩ := p
    refine ⟨maxs', safe', rfl, ?_⟩
    unfold applyOp insertWithSource deleteWithSource
    rw [htv]
    split
    · exact deleteCore_versions _ _ _
    · exact insertCore_versions _ _ _

theorem safeExact_congr (F : Nat) (s s' : OrSwot) (hm : s'.maxs = s.maxs) (hs : s'.safe = s.safe)
    (h : SafeExact F s) : SafeExact F s' :=
  ⟨fun X v hv => by rw [hm]; exact h.some_ X v (by rw [← hs]; exact hv),
   fun X hv => by rw [hm]; exact h.none_ X (by rw [← hs]; exact hv)⟩

theorem goodMaxs_congr (s s' : OrSwot) (hm : s'.maxs = s.maxs) (h : GoodMaxs s) : GoodMaxs s' := by
  intro m hmem; rw [hm] at hmem; exact h m hmem

/-- `SafeExact` and `GoodMaxs` are invariants of applying operations with valid stamps. -/
theorem safeExact_applyOp (F : Nat) (s : OrSwot) (o : SrcOp) (he : SafeExact F s) (hg : GoodMaxs s)
    (hv : ValidStamp o.op.ts) : SafeExact F (applyOp F s o).1 ∧ GoodMaxs (applyOp F s o).1 := by
  cases hb : isBefore s.safe o.op.ts with
  | true => rw [applyOp_refused F s o hb]; exact ⟨he, hg⟩
  | false =>
    obtain ⟨maxs', safe', hu, h1, h2⟩ := applyOp_versions F s o hb
    exact ⟨safeExact_congr F { s with maxs := maxs', safe := safe' } _ h1 h2 (safeExact_tryUpdateMax F s _ _ _ _ he hu),
           goodMaxs_congr { s with maxs := maxs', safe := safe' } _ h1 (goodMaxs_tryUpdateMax F s _ _ _ _ hg hv hu)⟩

theorem safeExact_purge (F : Nat) (s : OrSwot) (he : SafeExact F s) : SafeExact F (purgeOldDeletes s).1 :=
  safeExact_congr F s _ rfl rfl he

/-- **accepted_sorted**: operations applied in ascending stamp order, none of which was too old
when the batch started, are all accepted when their turn comes. -/
theorem accepted_sorted (F : Nat) : ∀ (ops : List SrcOp) (s : OrSwot), SafeExact F s → GoodMaxs s →
    ops.Pairwise (fun a b => a.op.ts ≤ b.op.ts) →
    (∀ o ∈ ops, ValidStamp o.op.ts ∧ isBefore s.safe o.op.ts = false) → C04.Accepted F s ops := by
  intro ops
  induction ops with
  | nil => intro _ _ _ _ _; trivial
  | cons o rest ih =>
    intro s he hg hsorted hall
    obtain ⟨hvo, hbo⟩ := hall o List.mem_cons_self
    refine ⟨hbo, ?_⟩
    obtain ⟨maxs', safe', hu, h1, h2⟩ := applyOp_versions F s o hbo
    obtain ⟨he', hg'⟩ := safeExact_applyOp F s o he hg hvo
    rw [List.pairwise_cons] at hsorted
    apply ih _ he' hg' hsorted.2
    intro o' ho'
    obtain ⟨hvo', hbo'⟩ := hall o' (List.mem_cons_of_mem _ ho')
    refine ⟨hvo', ?_⟩
    rw [h2]
    exact notBefore_after F s o.src o.op.ts o'.op.ts maxs' safe' he hg hu hvo (hsorted.1 o' ho') hbo'

end Datacake.OrSwot
