/- Set-level facts about the membership watcher and the delta application. -/
import Datacake.Model.Membership
set_option linter.unusedSimpArgs false

namespace Datacake.Membership

/-- Ids are distinct (a map). -/
def DistinctIds (l : List Member) : Prop := ∀ a ∈ l, ∀ b ∈ l, a.1 = b.1 → a = b

theorem insertSorted_mem (m x : Member) (l : List Member) : x ∈ insertSorted m l ↔ x = m ∨ x ∈ l := by
  induction l with
  | nil => simp [insertSorted]
  | cons y ys ih =>
    unfold insertSorted
    split
    · simp
    · simp only [List.mem_cons, ih]
      constructor
      · rintro (h | h | h)
        · exact Or.inr (Or.inl h)
        · exact Or.inl h
        · exact Or.inr (Or.inr h)
      · rintro (h | h | h)
        · exact Or.inr (Or.inl h)
        · exact Or.inl h
        · exact Or.inr (Or.inr h)

theorem sortMembers_mem (x : Member) (l : List Member) : x ∈ sortMembers l ↔ x ∈ l := by
  induction l with
  | nil => simp [sortMembers]
  | cons y ys ih =>
    simp only [sortMembers, List.foldr_cons] at ih ⊢
    rw [insertSorted_mem, ih]; simp

theorem diffSet_mem (x : Member) (a b : List Member) : x ∈ diffSet a b ↔ x ∈ a ∧ x ∉ b := by
  unfold diffSet
  rw [sortMembers_mem, List.mem_filter]
  simp

theorem lookupId_of_mem (s : Snapshot) (hd : DistinctIds s) (m : Member) (hm : m ∈ s) :
    lookupId s m.1 = some m := by
  induction s with
  | nil => cases hm
  | cons x xs ih =>
    unfold lookupId
    by_cases e : x.1 = m.1
    · rw [if_pos e]
      have := hd x List.mem_cons_self m hm e
      rw [this]
    · rw [if_neg e]
      rcases List.mem_cons.1 hm with h | h
      · exact absurd (h ▸ rfl) e
      · exact ih (fun a ha b hb => hd a (List.mem_cons_of_mem _ ha) b (List.mem_cons_of_mem _ hb)) h

theorem networkSet_mem (self : Nat) (s : Snapshot) (m : Member) :
    m ∈ networkSet self s ↔ m ∈ s ∧ m.1 ≠ self := by
  unfold networkSet; rw [List.mem_filter]; simp

theorem distinct_networkSet (self : Nat) (s : Snapshot) (hd : DistinctIds s) :
    DistinctIds (networkSet self s) :=
  fun a ha b hb e => hd a ((networkSet_mem self s a).1 ha).1 b ((networkSet_mem self s b).1 hb).1 e

/-- Membership in a `filterMap` of id look-ups over a list of members of the snapshot itself. -/
theorem mem_filterMap_lookup (s : Snapshot) (hd : DistinctIds s) (l : List Member)
    (hl : ∀ m ∈ l, m ∈ s) (x : Member) :
    x ∈ l.filterMap (fun m => lookupId s m.1) ↔ x ∈ l := by
  rw [List.mem_filterMap]
  constructor
  · rintro ⟨m, hm, hx⟩
    rw [lookupId_of_mem s hd m (hl m hm)] at hx
    injection hx with hx; rw [← hx]; exact hm
  · intro hx
    exact ⟨x, hx, lookupId_of_mem s hd x (hl x hx)⟩

theorem removeId_mem (l : List Member) (id : Nat) (x : Member) : x ∈ removeId l id ↔ x ∈ l ∧ x.1 ≠ id := by
  unfold removeId; rw [List.mem_filter]; simp

theorem foldl_remove_mem (left : List Member) (live : List Member) (x : Member) :
    x ∈ left.foldl (fun l m => removeId l m.1) live ↔ x ∈ live ∧ ∀ m ∈ left, x.1 ≠ m.1 := by
  induction left generalizing live with
  | nil => simp
  | cons y ys ih =>
    simp only [List.foldl_cons]
    rw [ih, removeId_mem]
    constructor
    · rintro ⟨⟨h1, h2⟩, h3⟩
      exact ⟨h1, fun m hm => by
        rcases List.mem_cons.1 hm with rfl | hm
        · exact h2
        · exact h3 m hm⟩
    · rintro ⟨h1, h2⟩
      exact ⟨⟨h1, h2 y List.mem_cons_self⟩, fun m hm => h2 m (List.mem_cons_of_mem _ hm)⟩

theorem foldl_insert_mem (joined : List Member) (hd : DistinctIds joined) (l1 : List Member) (x : Member) :
    x ∈ joined.foldl (fun l m => removeId l m.1 ++ [m]) l1 ↔
      x ∈ joined ∨ (x ∈ l1 ∧ ∀ m ∈ joined, x.1 ≠ m.1) := by
  induction joined generalizing l1 with
  | nil => simp
  | cons y ys ih =>
    have hd' : DistinctIds ys := fun a ha b hb => hd a (List.mem_cons_of_mem _ ha) b (List.mem_cons_of_mem _ hb)
    simp only [List.foldl_cons]
    rw [ih hd', List.mem_append, removeId_mem, List.mem_singleton]
    simp only [List.mem_cons]
    constructor
    · rintro (h | ⟨(⟨h1, h2⟩ | h1), h3⟩)
      · exact Or.inl (Or.inr h)
      · exact Or.inr ⟨h1, fun m hm => by
          rcases hm with rfl | hm
          · exact h2
          · exact h3 m hm⟩
      · exact Or.inl (Or.inl h1)
    · rintro ((h | h) | ⟨h1, h2⟩)
      · subst h
        by_cases hy : ∃ m ∈ ys, x.1 = m.1
        · obtain ⟨m, hm, e⟩ := hy
          have := hd x List.mem_cons_self m (List.mem_cons_of_mem _ hm) e
          exact Or.inl (this ▸ hm)
        · exact Or.inr ⟨Or.inr rfl, fun m hm e => hy ⟨m, hm, e⟩⟩
      · exact Or.inl h
      · exact Or.inr ⟨Or.inl ⟨h1, h2 y (Or.inl rfl)⟩, fun m hm => h2 m (Or.inr hm)⟩

end Datacake.Membership
