/- `merge` maps `Rep a A`, `Rep b B` to `Rep (merge a b) (A ++ B)`. -/
import Datacake.Lemmas.Rep
set_option linter.unusedSimpArgs false

namespace Datacake.OrSwot
open Datacake.Lww Datacake.Map Datacake.Ts

theorem foldl_inv {σ ι : Type} (P : σ → Prop) (f : σ → ι → σ) (h : ∀ s i, P s → P (f s i))
    (L : List ι) (s : σ) (hs : P s) : P (L.foldl f s) := by
  induction L generalizing s with
  | nil => exact hs
  | cons x xs ih => exact ih _ (h s x hs)

/-- The two loops of `merge` do not touch the version vectors. -/
theorem merge_versions_eq (F : Nat) (a b : OrSwot) :
    (merge F a b).maxs = (mergeVersions F a.maxs a.safe b.maxs).1 ∧
    (merge F a b).safe = (mergeVersions F a.maxs a.safe b.maxs).2 := by
  unfold merge
  simp only
  generalize hlog : sortLog _ = log
  have h1 : (log.foldl mergeStep { s := { a with entries := [] }, old := a.entries }).s.safe = a.safe ∧
      (log.foldl mergeStep { s := { a with entries := [] }, old := a.entries }).s.maxs = a.maxs :=
    foldl_inv (fun st => st.s.safe = a.safe ∧ st.s.maxs = a.maxs) mergeStep
      (fun st it h => ⟨(mergeStep_local a.safe st it 0 h.1).1,
        (mergeStep_local a.safe st it 0 h.1).2.1.trans h.2⟩) log _ ⟨rfl, rfl⟩
  generalize log.foldl mergeStep { s := { a with entries := [] }, old := a.entries } = st1 at h1
  have h2 : (st1.old.bindings.foldl (leftoverStep b.safe) st1.s).safe = a.safe ∧
      (st1.old.bindings.foldl (leftoverStep b.safe) st1.s).maxs = a.maxs :=
    foldl_inv (fun s => s.safe = a.safe ∧ s.maxs = a.maxs) (leftoverStep b.safe)
      (fun s p h => ⟨(leftoverStep_local b.safe s p 0).1.trans h.1,
        (leftoverStep_local b.safe s p 0).2.1.trans h.2⟩) _ _ h1
  rw [h2.1, h2.2]
  exact ⟨rfl, rfl⟩

theorem foldl_condset_get (L : List (Nat × Nat)) (m : Map) (n v : Nat)
    (h : Map.get (L.foldl (fun acc p =>
        match Map.get acc p.1 with
        | some old => if p.2 < old then acc else acc.set p.1 p.2
        | none => acc.set p.1 p.2) m) n = some v) :
    Map.get m n = some v ∨ (n, v) ∈ L := by
  induction L generalizing m with
  | nil => exact Or.inl h
  | cons x xs ih =>
    simp only [List.foldl_cons] at h
    rcases ih _ h with h' | h'
    · split at h'
      · split at h'
        · exact Or.inl h'
        · rw [get_set] at h'
          split at h'
          · rename_i hn; injection h' with h'; subst hn; subst h'; exact Or.inr List.mem_cons_self
          · exact Or.inl h'
      · rw [get_set] at h'
        split at h'
        · rename_i hn; injection h' with h'; subst hn; subst h'; exact Or.inr List.mem_cons_self
        · exact Or.inl h'
    · exact Or.inr (List.mem_cons_of_mem _ h')

theorem mergeVersions_go_mem (mine theirs : List Map) (mp : Map) (n v : Nat)
    (hmp : mp ∈ mergeVersions.go mine theirs) (hv : Map.get mp n = some v) :
    (∃ m ∈ mine, Map.get m n = some v) ∨ (∃ t ∈ theirs, Map.get t n = some v) := by
  induction mine generalizing theirs with
  | nil =>
    cases theirs <;> simp [mergeVersions.go] at hmp
  | cons m ms ih =>
    cases theirs with
    | nil =>
      simp only [mergeVersions.go] at hmp
      exact Or.inl ⟨mp, hmp, hv⟩
    | cons t ts =>
      simp only [mergeVersions.go, List.mem_cons] at hmp
      rcases hmp with rfl | hmp
      · rcases foldl_condset_get _ _ _ _ hv with h | h
        · exact Or.inl ⟨m, List.mem_cons_self, h⟩
        · exact Or.inr ⟨t, List.mem_cons_self, (mem_bindings _ _ _).1 h⟩
      · rcases ih ts hmp with ⟨m', hm', h⟩ | ⟨t', ht', h⟩
        · exact Or.inl ⟨m', List.mem_cons_of_mem _ hm', h⟩
        · exact Or.inr ⟨t', List.mem_cons_of_mem _ ht', h⟩

/-- Version invariant of the merged state. -/
theorem mergeVersions_inv (F : Nat) (a b : OrSwot) (S S' : Nat → Prop)
    (ha : VersInv F a S) (hb : VersInv F b S') :
    VersInv F (merge F a b) (fun x => S x ∨ S' x) := by
  obtain ⟨e1, e2⟩ := merge_versions_eq F a b
  have hmaxs : ∀ mp ∈ (merge F a b).maxs, ∀ n v, Map.get mp n = some v → (S v ∨ S' v) ∧ node v = n := by
    intro mp hmp n v hv
    rw [e1] at hmp
    simp only [mergeVersions] at hmp
    rcases mergeVersions_go_mem _ _ mp n v hmp hv with ⟨m, hm, h⟩ | ⟨t, ht, h⟩
    · exact ⟨Or.inl (ha.maxs m hm n v h).1, (ha.maxs m hm n v h).2⟩
    · exact ⟨Or.inr (hb.maxs t ht n v h).1, (hb.maxs t ht n v h).2⟩
  refine ⟨hmaxs, ?_⟩
  rw [e2]
  have hmaxs' : ∀ mp ∈ mergeVersions.go a.maxs b.maxs, ∀ n v, Map.get mp n = some v →
      (S v ∨ S' v) ∧ node v = n := by
    intro mp hmp; apply hmaxs mp; rw [e1]; exact hmp
  simp only [mergeVersions]
  -- fold of computeSafe over the nodes of `b`
  have hnodes : ∀ nd ∈ (b.maxs.map (fun t => t.bindings.map Prod.fst)).flatten, nd < 256 := by
    intro nd hnd
    simp only [List.mem_flatten, List.mem_map] at hnd
    obtain ⟨l, ⟨t, ht, rfl⟩, hl⟩ := hnd
    obtain ⟨⟨k, v⟩, hkv, rfl⟩ := List.mem_map.1 hl
    have := (hb.maxs t ht k v ((mem_bindings _ _ _).1 hkv)).2
    simp only
    rw [← this]; exact node_lt v
  generalize (b.maxs.map (fun t => t.bindings.map Prod.fst)).flatten = nodes at hnodes
  have hstart : ∀ n v, Map.get a.safe n = some v →
      ∃ m, ((S m ∨ S' m) ∨ m = pack 0 0 n) ∧ node m = n ∧ v = forgive F m := by
    intro n v hv
    obtain ⟨m, h1, h2, h3⟩ := ha.safe n v hv
    exact ⟨m, h1.elim (fun x => Or.inl (Or.inl x)) Or.inr, h2, h3⟩
  generalize a.safe = sf at hstart
  induction nodes generalizing sf with
  | nil => exact hstart
  | cons nd rest ih =>
    simp only [List.foldl_cons]
    apply ih (fun x hx => hnodes x (List.mem_cons_of_mem _ hx))
    exact computeSafe_inv F _ sf nd (fun x => S x ∨ S' x) hmaxs' (hnodes nd List.mem_cons_self) hstart

/-- A tombstone / live entry of a represented state is an operation of the represented list. -/
theorem rep_dead_op (F : Nat) (s : OrSwot) (A : List Op) (r : Rep F s A) (k d : Nat)
    (h : Map.get s.dead k = some d) : ∃ o ∈ A, o.key = k ∧ o.ts = d ∧ rank o = deadRec d := by
  have he : Map.get s.entries k = none := by
    rcases r.disj k with h' | h'
    · exact h'
    · rw [h'] at h; cases h
  have hv : Lww.view s k = some (deadRec d) := by simp [view_of_gets, he, h]
  rw [r.view] at hv
  obtain ⟨o, ho, hk, hr⟩ := lww_mem A k _ hv
  refine ⟨o, ho, hk, ?_, hr⟩
  unfold rank liveRec deadRec at hr
  split at hr <;> omega

theorem rep_live_op (F : Nat) (s : OrSwot) (A : List Op) (r : Rep F s A) (k e : Nat)
    (h : Map.get s.entries k = some e) : ∃ o ∈ A, o.key = k ∧ o.ts = e ∧ rank o = liveRec e := by
  have hv : Lww.view s k = some (liveRec e) := by simp [view_of_gets, h]
  rw [r.view] at hv
  obtain ⟨o, ho, hk, hr⟩ := lww_mem A k _ hv
  refine ⟨o, ho, hk, ?_, hr⟩
  unfold rank liveRec deadRec at hr
  split at hr <;> omega

/-- **merge_rep**: the merged state is the LWW state of the union of what the two replicas had
applied. -/
theorem merge_rep (F : Nat) (a b : OrSwot) (A B H : List Op)
    (hB : ∀ o ∈ B, o ∈ H) (hA : ∀ o ∈ A, o ∈ H)
    (ra : Rep F a A) (rb : Rep F b B) (sa : Sound a A H) (sb : Sound b B H) :
    Rep F (merge F a b) (A ++ B) := by
  have hkey : ∀ k, Lww.view (merge F a b) k = omax (Lww.view a k) (Lww.view b k) ∧
      (Map.get (merge F a b).entries k = none ∨ Map.get (merge F a b).dead k = none) := by
    intro k
    apply merge_view F a b ra.disj rb.disj k
    · intro d hd hbef
      obtain ⟨o, ho, hk, hts, hr⟩ := rep_dead_op F b B rb k d hd
      have hoA : o ∈ A := sa o (hB o ho) (by rw [hts]; exact hbef)
      have := lww_ge A k o hoA hk
      rw [ra.view, ← hr]; exact this
    · intro e he hbef
      obtain ⟨o, ho, hk, hts, hr⟩ := rep_live_op F a A ra k e he
      have hoB : o ∈ B := sb o (hA o ho) (by rw [hts]; exact hbef)
      have := lww_ge B k o hoB hk
      rw [rb.view, ← hr]; exact this
  refine ⟨?_, fun k => (hkey k).2, ?_⟩
  · intro k
    rw [(hkey k).1, ra.view, rb.view, lww_append]
  · apply versInv_mono F _ _ _ (mergeVersions_inv F a b _ _ ra.vers rb.vers)
    intro x hx
    rcases hx with ⟨o, ho, h⟩ | ⟨o, ho, h⟩
    · exact ⟨o, List.mem_append_left _ ho, h⟩
    · exact ⟨o, List.mem_append_right _ ho, h⟩

end Datacake.OrSwot
