/- Loop invariants of `select_n_nodes` and friends. -/
import Datacake.Model.Selector
set_option linter.unusedSimpArgs false

namespace Datacake.Selector

/-- `(data centre, its node list)`: the layout without the cursors. -/
def layoutOf (dcs : Dcs) : List (Nat × List Nat) := dcs.map (fun p => (p.1, p.2.nodes))

def allNodes (dcs : Dcs) : List Nat := (dcs.map (fun p => p.2.nodes)).flatten

/-- Well-formed layout: data-centre names are distinct and every address occurs once. -/
structure WF (dcs : Dcs) : Prop where
  ids : (dcs.map (·.1)).Nodup
  addrs : (allNodes dcs).Nodup

theorem next_nodes (c : Cycler) : c.next.2.nodes = c.nodes := rfl

theorem next_mem (c : Cycler) (x : Nat) (h : c.next.1 = some x) : x ∈ c.nodes := by
  unfold Cycler.next at h
  simp only at h
  exact List.mem_of_getElem? h

theorem getDc_mem (dcs : Dcs) (d : Nat) (c : Cycler) (h : getDc dcs d = some c) : (d, c) ∈ dcs := by
  induction dcs with
  | nil => simp [getDc] at h
  | cons p ps ih =>
    obtain ⟨d', c'⟩ := p
    unfold getDc at h
    split at h
    · rename_i hd; injection h with h; subst hd; subst h; exact List.mem_cons_self
    · exact List.mem_cons_of_mem _ (ih h)

theorem mem_allNodes (dcs : Dcs) (x : Nat) : x ∈ allNodes dcs ↔ ∃ p ∈ dcs, x ∈ p.2.nodes := by
  unfold allNodes
  simp only [List.mem_flatten, List.mem_map]
  constructor
  · rintro ⟨l, ⟨p, hp, rfl⟩, hx⟩; exact ⟨p, hp, hx⟩
  · rintro ⟨p, hp, hx⟩; exact ⟨_, ⟨p, hp, rfl⟩, hx⟩

/-- Replacing a cycler by one with the same node list does not change the layout. -/
theorem layoutOf_setDc (dcs : Dcs) (d : Nat) (c c' : Cycler) (hget : getDc dcs d = some c)
    (hids : (dcs.map (·.1)).Nodup) (hn : c'.nodes = c.nodes) :
    layoutOf (setDc dcs d c') = layoutOf dcs := by
  induction dcs with
  | nil => rfl
  | cons p ps ih =>
    obtain ⟨d0, c0⟩ := p
    simp only [List.map_cons, List.nodup_cons] at hids
    unfold getDc at hget
    by_cases hd : d0 = d
    · subst hd
      rw [if_pos rfl] at hget; injection hget with hget; subst hget
      have hrest : setDc ps d0 c' = ps := by
        unfold setDc
        have : ps.map (fun p => if p.1 = d0 then (d0, c') else p) = ps.map id := by
          apply List.map_congr_left
          intro p hp
          have : p.1 ≠ d0 := fun e => hids.1 (List.mem_map.2 ⟨p, hp, e⟩)
          simp [this]
        rw [this, List.map_id]
      simp only [setDc, layoutOf, List.map_cons, if_pos, hn] at hrest ⊢
      rw [hrest]
    · rw [if_neg hd] at hget
      have := ih hget hids.2
      simp only [setDc, layoutOf, List.map_cons, if_neg hd] at this ⊢
      rw [this]

theorem allNodes_of_layout (a b : Dcs) (h : layoutOf a = layoutOf b) : allNodes a = allNodes b := by
  unfold allNodes
  have : a.map (fun p => p.2.nodes) = (layoutOf a).map (·.2) := by simp [layoutOf]
  rw [this, h]; simp [layoutOf]; rfl

theorem ids_of_layout (a b : Dcs) (h : layoutOf a = layoutOf b) : a.map (·.1) = b.map (·.1) := by
  have : a.map (·.1) = (layoutOf a).map (·.1) := by simp [layoutOf]
  rw [this, h]; simp [layoutOf]

theorem getDc_of_layout (a b : Dcs) (h : layoutOf a = layoutOf b) (d : Nat) (c : Cycler)
    (hg : getDc a d = some c) : ∃ c', getDc b d = some c' ∧ c'.nodes = c.nodes := by
  induction a generalizing b with
  | nil => simp [getDc] at hg
  | cons p ps ih =>
    cases b with
    | nil => simp [layoutOf] at h
    | cons q qs =>
      obtain ⟨d1, c1⟩ := p
      obtain ⟨d2, c2⟩ := q
      simp only [layoutOf, List.map_cons, List.cons.injEq, Prod.mk.injEq] at h
      obtain ⟨⟨hd, hn⟩, hrest⟩ := h
      subst hd
      unfold getDc at hg ⊢
      by_cases hdd : d1 = d
      · rw [if_pos hdd] at hg ⊢; injection hg with hg; subst hg; exact ⟨c2, rfl, hn.symm⟩
      · rw [if_neg hdd] at hg ⊢; exact ih qs hrest hg

end Datacake.Selector

namespace Datacake.Selector

/-- The extra-node loop only appends nodes of the cycler that are neither local nor already
selected, keeps the node list, and (given `k ≤ extra`) keeps `selected.length + extra`. -/
theorem extraLoop_spec (local_ : Nat) : ∀ (k : Nat) (c : Cycler) (sel : List Nat) (extra : Nat),
    k ≤ extra → sel.Nodup → local_ ∉ sel →
    let r := extraLoop local_ k c sel extra
    r.1.nodes = c.nodes ∧ r.2.1.Nodup ∧ local_ ∉ r.2.1 ∧
    (∀ x ∈ r.2.1, x ∈ sel ∨ x ∈ c.nodes) ∧ (∀ x ∈ sel, x ∈ r.2.1) ∧
    r.2.1.length + r.2.2 = sel.length + extra := by
  intro k
  induction k with
  | zero => intro c sel extra _ hnd hl; exact ⟨rfl, hnd, hl, fun x hx => Or.inl hx, fun x hx => hx, rfl⟩
  | succ k ih =>
    intro c sel extra hk hnd hl
    simp only [extraLoop]
    cases hn : c.next with
    | mk o c' =>
      have hc' : c'.nodes = c.nodes := by have := next_nodes c; rw [hn] at this; exact this
      cases o with
      | none =>
        simp only
        obtain ⟨h1, h2, h3, h4, h5, h6⟩ := ih c' sel extra (by omega) hnd hl
        exact ⟨h1.trans hc', h2, h3, fun x hx => (h4 x hx).elim Or.inl (fun h => Or.inr (hc' ▸ h)), h5, h6⟩
      | some node =>
        simp only
        have hmem : node ∈ c.nodes := next_mem c node (by rw [hn])
        by_cases hskip : node = local_ ∨ sel.contains node = true
        · rw [if_pos hskip]
          obtain ⟨h1, h2, h3, h4, h5, h6⟩ := ih c' sel extra (by omega) hnd hl
          exact ⟨h1.trans hc', h2, h3, fun x hx => (h4 x hx).elim Or.inl (fun h => Or.inr (hc' ▸ h)), h5, h6⟩
        · rw [if_neg hskip]
          have hne : node ≠ local_ := fun e => hskip (Or.inl e)
          have hnc : node ∉ sel := fun e => hskip (Or.inr (by simpa using e))
          have hnd' : (sel ++ [node]).Nodup := by
            rw [List.nodup_append]
            exact ⟨hnd, by simp, fun a ha b hb => by
              simp only [List.mem_singleton] at hb; subst hb; exact fun e => hnc (e ▸ ha)⟩
          have hl' : local_ ∉ sel ++ [node] := by
            simp only [List.mem_append, List.mem_singleton, not_or]
            exact ⟨hl, fun e => hne e.symm⟩
          obtain ⟨h1, h2, h3, h4, h5, h6⟩ := ih c' (sel ++ [node]) (extra - 1) (by omega) hnd' hl'
          refine ⟨h1.trans hc', h2, h3, ?_, ?_, ?_⟩
          · intro x hx
            rcases h4 x hx with h | h
            · rcases List.mem_append.1 h with h | h
              · exact Or.inl h
              · simp only [List.mem_singleton] at h; subst h; exact Or.inr hmem
            · exact Or.inr (hc' ▸ h)
          · intro x hx; exact h5 x (List.mem_append_left _ hx)
          · rw [h6]; simp only [List.length_append, List.length_singleton]; omega

/-- Invariant of the loop over the selected data centres. `P` = data centres already processed. -/
structure LoopInv (local_ n : Nat) (dcs0 : Dcs) (st : LoopSt) (P ds : List Nat) : Prop where
  alive : st.panicked = false
  layout : layoutOf st.dcs = layoutOf dcs0
  noLocal : local_ ∉ st.selected
  nodup : st.selected.Nodup
  fromP : ∀ x ∈ st.selected, ∃ d ∈ P, ∃ c, getDc dcs0 d = some c ∧ x ∈ c.nodes
  dsNodup : ds.Nodup
  dsFresh : ∀ d ∈ ds, d ∉ P ∧ ∃ c, getDc dcs0 d = some c
  count : st.dcCount ≥ ds.length
  sum : st.selected.length + st.extra + ds.length = n

/-- Nodes of different data centres are different. -/
theorem disjoint_dcs (dcs : Dcs) (wf : WF dcs) (d d' : Nat) (c c' : Cycler) (x : Nat)
    (h : getDc dcs d = some c) (h' : getDc dcs d' = some c') (hx : x ∈ c.nodes) (hx' : x ∈ c'.nodes) :
    d = d' := by
  obtain ⟨hids, haddr⟩ := wf
  induction dcs with
  | nil => simp [getDc] at h
  | cons p ps ih =>
    obtain ⟨d0, c0⟩ := p
    simp only [List.map_cons, List.nodup_cons] at hids
    simp only [allNodes, List.map_cons, List.flatten_cons, List.nodup_append] at haddr
    obtain ⟨_, hrest, hdisj⟩ := haddr
    unfold getDc at h h'
    by_cases e1 : d0 = d <;> by_cases e2 : d0 = d'
    · rw [← e1, ← e2]
    · rw [if_pos e1] at h; rw [if_neg e2] at h'
      injection h with h; subst h
      have hm := getDc_mem ps d' c' h'
      have : x ∈ (ps.map (fun p => p.2.nodes)).flatten :=
        List.mem_flatten.2 ⟨c'.nodes, List.mem_map.2 ⟨(d', c'), hm, rfl⟩, hx'⟩
      exact absurd rfl (hdisj x hx x this)
    · rw [if_neg e1] at h; rw [if_pos e2] at h'
      injection h' with h'; subst h'
      have hm := getDc_mem ps d c h
      have : x ∈ (ps.map (fun p => p.2.nodes)).flatten :=
        List.mem_flatten.2 ⟨c.nodes, List.mem_map.2 ⟨(d, c), hm, rfl⟩, hx⟩
      exact absurd rfl (hdisj x hx' x this)
    · rw [if_neg e1] at h; rw [if_neg e2] at h'
      exact ih h h' hids.2 hrest

theorem nodup_of_dc (dcs : Dcs) (wf : WF dcs) (d : Nat) (c : Cycler) (h : getDc dcs d = some c) :
    c.nodes.Nodup := by
  have hm := getDc_mem dcs d c h
  have := wf.addrs
  unfold allNodes List.Nodup at this
  rw [List.pairwise_flatten] at this
  exact this.1 c.nodes (List.mem_map.2 ⟨(d, c), hm, rfl⟩)

end Datacake.Selector

namespace Datacake.Selector

theorem ids_nodup_of_layout (a b : Dcs) (h : layoutOf a = layoutOf b) (hb : (b.map (·.1)).Nodup) :
    (a.map (·.1)).Nodup := by rw [ids_of_layout a b h]; exact hb

/-- One iteration of the loop keeps the invariant and moves the data centre to the processed set. -/
theorem loopStep_inv (local_ n : Nat) (dcs0 : Dcs) (wf : WF dcs0) (st : LoopSt) (P : List Nat)
    (d : Nat) (ds : List Nat) (inv : LoopInv local_ n dcs0 st P (d :: ds)) :
    LoopInv local_ n dcs0 (loopStep local_ st d) (d :: P) ds := by
  obtain ⟨halive, hlay, hnl, hnd, hfrom, hdsnd, hfresh, hcount, hsum⟩ := inv
  obtain ⟨hdP, c0, hc0⟩ := hfresh d List.mem_cons_self
  obtain ⟨c, hc, hcn⟩ := getDc_of_layout dcs0 st.dcs hlay.symm d c0 hc0
  have hidsSt := ids_nodup_of_layout st.dcs dcs0 hlay wf.ids
  have hdsnd' : ds.Nodup := (List.nodup_cons.1 hdsnd).2
  have hdnotin : d ∉ ds := (List.nodup_cons.1 hdsnd).1
  have hfresh' : ∀ d' ∈ ds, d' ∉ d :: P ∧ ∃ c, getDc dcs0 d' = some c := by
    intro d' hd'
    obtain ⟨h1, h2⟩ := hfresh d' (List.mem_cons_of_mem _ hd')
    refine ⟨?_, h2⟩
    simp only [List.mem_cons, not_or]
    exact ⟨fun e => hdnotin (e ▸ hd'), h1⟩
  have hfromMono : ∀ x ∈ st.selected, ∃ d' ∈ d :: P, ∃ c, getDc dcs0 d' = some c ∧ x ∈ c.nodes := by
    intro x hx
    obtain ⟨d', hd', c', h1, h2⟩ := hfrom x hx
    exact ⟨d', List.mem_cons_of_mem _ hd', c', h1, h2⟩
  have hlen : (d :: ds).length = ds.length + 1 := rfl
  -- a node of data centre `d` is not yet selected
  have hnew : ∀ x, x ∈ c.nodes → x ∉ st.selected := by
    intro x hx hsel
    obtain ⟨d', hd', c', h1, h2⟩ := hfrom x hsel
    have := disjoint_dcs dcs0 wf d d' c0 c' x hc0 h1 (hcn ▸ hx) h2
    exact hdP (this ▸ hd')
  have hlayset : ∀ c', c'.nodes = c.nodes → layoutOf (setDc st.dcs d c') = layoutOf dcs0 :=
    fun c' h => (layoutOf_setDc st.dcs d c c' hc hidsSt h).trans hlay
  unfold loopStep
  rw [if_neg (by simp [halive]), hc]
  simp only
  cases hn1 : c.next with
  | mk o c1 =>
    have hc1 : c1.nodes = c.nodes := by have := next_nodes c; rw [hn1] at this; exact this
    cases o with
    | none =>
      simp only
      exact ⟨halive, hlayset c1 hc1, hnl, hnd, hfromMono, hdsnd', hfresh', by simp only; omega,
        by simp only; rw [hlen] at hsum; omega⟩
    | some node =>
      simp only
      have hnode : node ∈ c.nodes := next_mem c node (by rw [hn1])
      -- the common tail: a first pick `(nd, c2)` has been made
      have tail : ∀ (nd : Nat) (c2 : Cycler), c2.nodes = c.nodes → nd ∈ c.nodes → nd ≠ local_ →
          LoopInv local_ n dcs0
            (let sel := st.selected ++ [nd]
             if st.extra = 0 then { st with dcs := setDc st.dcs d c2, selected := sel }
             else if st.dcCount = 0 then { st with panicked := true }
             else
               let perDc := st.extra / max (st.dcCount - 1) 1
               let (c3, sel', extra') := extraLoop local_ perDc c2 sel st.extra
               { st with dcs := setDc st.dcs d c3, selected := sel', extra := extra',
                         dcCount := st.dcCount - 1 }) (d :: P) ds := by
        intro nd c2 hc2 hndmem hndl
        have hsel_nd : (st.selected ++ [nd]).Nodup := by
          rw [List.nodup_append]
          exact ⟨hnd, by simp, fun a ha b hb => by
            simp only [List.mem_singleton] at hb; subst hb
            exact fun e => hnew b hndmem (e ▸ ha)⟩
        have hsel_nl : local_ ∉ st.selected ++ [nd] := by
          simp only [List.mem_append, List.mem_singleton, not_or]
          exact ⟨hnl, fun e => hndl e.symm⟩
        have hsel_from : ∀ x ∈ st.selected ++ [nd], ∃ d' ∈ d :: P, ∃ c, getDc dcs0 d' = some c ∧ x ∈ c.nodes := by
          intro x hx
          rcases List.mem_append.1 hx with h | h
          · exact hfromMono x h
          · simp only [List.mem_singleton] at h; subst h
            exact ⟨d, List.mem_cons_self, c0, hc0, hcn ▸ hndmem⟩
        simp only
        by_cases he : st.extra = 0
        · rw [if_pos he]
          exact ⟨halive, hlayset c2 hc2, hsel_nl, hsel_nd, hsel_from, hdsnd', hfresh',
            by simp only; rw [hlen] at hcount; omega,
            by simp only [List.length_append, List.length_singleton]; rw [hlen] at hsum; omega⟩
        · rw [if_neg he]
          have hdc : st.dcCount ≠ 0 := by rw [hlen] at hcount; omega
          rw [if_neg hdc]
          have hper : st.extra / max (st.dcCount - 1) 1 ≤ st.extra := Nat.div_le_self _ _
          obtain ⟨e1, e2, e3, e4, e5, e6⟩ :=
            extraLoop_spec local_ (st.extra / max (st.dcCount - 1) 1) c2 (st.selected ++ [nd]) st.extra
              hper hsel_nd hsel_nl
          generalize extraLoop local_ (st.extra / max (st.dcCount - 1) 1) c2 (st.selected ++ [nd]) st.extra = r at *
          obtain ⟨c3, sel', extra'⟩ := r
          simp only at e1 e2 e3 e4 e5 e6 ⊢
          refine ⟨halive, hlayset c3 (e1.trans hc2), e3, e2, ?_, hdsnd', hfresh',
            by simp only; rw [hlen] at hcount; omega, ?_⟩
          · intro x hx
            rcases e4 x hx with h | h
            · exact hsel_from x h
            · exact ⟨d, List.mem_cons_self, c0, hc0, hcn ▸ (hc2 ▸ h)⟩
          · show sel'.length + extra' + ds.length = n
            simp only [List.length_append, List.length_singleton] at e6
            rw [hlen] at hsum; omega
      by_cases hloc : node = local_
      · rw [if_pos hloc]
        by_cases hone : c1.nodes.length ≤ 1
        · rw [if_pos hone]
          simp only
          exact ⟨halive, hlayset c1 hc1, hnl, hnd, hfromMono, hdsnd', hfresh', by simp only; omega,
            by simp only; rw [hlen] at hsum; omega⟩
        · rw [if_neg hone]
          cases hn2 : c1.next with
          | mk o2 c2 =>
            have hc2 : c2.nodes = c.nodes := by
              have := next_nodes c1; rw [hn2] at this; exact this.trans hc1
            cases o2 with
            | none =>
              -- unreachable: a non-empty cycler always yields a node
              exfalso
              have : c1.next.1 = none := by rw [hn2]
              unfold Cycler.next at this
              simp only at this
              have hl : (if c1.cursor ≥ c1.nodes.length then 0 else c1.cursor) < c1.nodes.length := by
                split <;> omega
              rw [List.getElem?_eq_none_iff] at this
              omega
            | some n2 =>
              simp only
              have hn2mem : n2 ∈ c.nodes := hc1 ▸ next_mem c1 n2 (by rw [hn2])
              -- the node after the local one is a different node (addresses are unique)
              have hne : n2 ≠ local_ := by
                have hcnd : c.nodes.Nodup := hcn ▸ nodup_of_dc dcs0 wf d c0 hc0
                have h1 : c.next.1 = some node := by rw [hn1]
                have h2 : c1.next.1 = some n2 := by rw [hn2]
                have hcur1 : c1.cursor = (if c.cursor ≥ c.nodes.length then 0 else c.cursor) + 1 := by
                  have : c.next.2 = c1 := by rw [hn1]
                  rw [← this]; rfl
                unfold Cycler.next at h1 h2
                simp only at h1 h2
                rw [hc1, hcur1] at h2
                generalize (if c.cursor ≥ c.nodes.length then 0 else c.cursor) = i at h1 h2
                generalize hj : (if i + 1 ≥ c.nodes.length then 0 else i + 1) = j at h2
                have hi : i < c.nodes.length := (List.getElem?_eq_some_iff.1 h1).1
                have hjl : j < c.nodes.length := (List.getElem?_eq_some_iff.1 h2).1
                have hij : i ≠ j := by
                  rw [← hj]; rw [hc1] at hone; split <;> omega
                intro e
                rw [e, ← hloc] at h2
                have e1 := (List.getElem?_eq_some_iff.1 h1).2
                have e2 := (List.getElem?_eq_some_iff.1 h2).2
                exact hij ((List.getElem_inj hcnd).1 (e1.trans e2.symm))
              exact tail n2 c2 hc2 hn2mem hne
      · rw [if_neg hloc]
        simp only
        exact tail node c1 hc1 hnode hloc

end Datacake.Selector
