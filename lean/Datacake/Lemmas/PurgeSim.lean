/-
Purging as a simulation (C08, cluster part).

A replica that purges tombstones is related to a *ghost* replica that applied exactly the same
operations and never purged: same live entries, same version bookkeeping, and the ghost's
tombstone map is the real one plus the purged tombstones.  As long as no operation at or below a
purged tombstone is accepted afterwards on its key (`hl` below — what timeliness provides), the
two stay related for ever, so the live documents are the same.

`B` is a bound (`now + skew`) such that a tombstone `d` is only ever purged when
`dts d + F ≤ B`; it only grows.
-/
import Datacake.Lemmas.ApplyRep
import Datacake.Props.C08

namespace Datacake.Purge
open Datacake.Lww Datacake.OrSwot Datacake.Ts Datacake.Map

/-- The ghost's tombstones are the real ones plus purged ones (on keys the real replica holds
nothing for). -/
def DeadRel (F B : Nat) (s g : OrSwot) : Prop :=
  ∀ k, Map.get g.dead k = Map.get s.dead k ∨
    (Map.get s.dead k = none ∧ Map.get s.entries k = none ∧ ∃ d, Map.get g.dead k = some d ∧ dts d + F ≤ B)

structure Sim (F B : Nat) (s g : OrSwot) : Prop where
  entries : ∀ k, Map.get g.entries k = Map.get s.entries k
  maxs : g.maxs = s.maxs
  safe : g.safe = s.safe
  dead : DeadRel F B s g

theorem sim_refl (F B : Nat) (s : OrSwot) : Sim F B s s := ⟨fun _ => rfl, rfl, rfl, fun _ => Or.inl rfl⟩

theorem sim_mono (F B B' : Nat) (s g : OrSwot) (h : Sim F B s g) (hb : B ≤ B') : Sim F B' s g := by
  refine ⟨h.entries, h.maxs, h.safe, ?_⟩
  intro k
  rcases h.dead k with h1 | ⟨h1, h2, d, h3, h4⟩
  · exact Or.inl h1
  · exact Or.inr ⟨h1, h2, d, h3, by omega⟩

/-- `insertCore` through `get`: the tombstone is dropped when it is not newer than the insert, and
the entry is written when moreover no entry at least as new exists. -/
theorem insertCore_get (s : OrSwot) (k ts : Nat) :
    (∀ k', Map.get (insertCore s k ts).1.entries k' =
      if k' = k ∧ (∀ d, Map.get s.dead k = some d → d ≤ ts) ∧ (∀ v, Map.get s.entries k = some v → v < ts)
      then some ts else Map.get s.entries k') ∧
    (∀ k', Map.get (insertCore s k ts).1.dead k' =
      if k' = k ∧ (∀ d, Map.get s.dead k = some d → d ≤ ts) then none else Map.get s.dead k') ∧
    (insertCore s k ts).1.maxs = s.maxs ∧ (insertCore s k ts).1.safe = s.safe := by
  unfold insertCore
  cases hd : Map.get s.dead k with
  | some d =>
    simp only
    by_cases hlt : ts < d
    · simp only [if_pos hlt]
      refine ⟨fun k' => ?_, fun k' => ?_, by first | rfl | trivial, by first | rfl | trivial⟩
      · rw [if_neg]; rintro ⟨_, h, _⟩; have := h d rfl; omega
      · rw [if_neg]; rintro ⟨_, h⟩; have := h d rfl; omega
    · simp only [if_neg hlt]
      have hdok : ∀ d', some d = some d' → d' ≤ ts := fun d' h => by cases h; omega
      cases he : Map.get s.entries k with
      | some v =>
        simp only
        by_cases hv : v < ts
        · simp only [if_pos hv]
          refine ⟨fun k' => ?_, fun k' => ?_, by first | rfl | trivial, by first | rfl | trivial⟩
          · rw [get_set]
            by_cases hk : k' = k
            · rw [if_pos hk, if_pos ⟨hk, hdok, fun v' h => by cases h; exact hv⟩]
            · rw [if_neg hk, if_neg (fun h => hk h.1)]
          · rw [get_erase]
            by_cases hk : k' = k
            · rw [if_pos hk, if_pos ⟨hk, hdok⟩]
            · rw [if_neg hk, if_neg (fun h => hk h.1)]
        · simp only [if_neg hv]
          refine ⟨fun k' => ?_, fun k' => ?_, by first | rfl | trivial, by first | rfl | trivial⟩
          · rw [if_neg]; rintro ⟨_, _, h⟩; exact hv (h v rfl)
          · rw [get_erase]
            by_cases hk : k' = k
            · rw [if_pos hk, if_pos ⟨hk, hdok⟩]
            · rw [if_neg hk, if_neg (fun h => hk h.1)]
      | none =>
        simp only
        refine ⟨fun k' => ?_, fun k' => ?_, by first | rfl | trivial, by first | rfl | trivial⟩
        · rw [get_set]
          by_cases hk : k' = k
          · rw [if_pos hk, if_pos ⟨hk, hdok, fun v' h => by cases h⟩]
          · rw [if_neg hk, if_neg (fun h => hk h.1)]
        · rw [get_erase]
          by_cases hk : k' = k
          · rw [if_pos hk, if_pos ⟨hk, hdok⟩]
          · rw [if_neg hk, if_neg (fun h => hk h.1)]
  | none =>
    simp only
    have hdok : ∀ d', (none : Option Nat) = some d' → d' ≤ ts := fun d' h => by cases h
    cases he : Map.get s.entries k with
    | some v =>
      simp only
      by_cases hv : v < ts
      · simp only [if_pos hv]
        refine ⟨fun k' => ?_, fun k' => ?_, by first | rfl | trivial, by first | rfl | trivial⟩
        · rw [get_set]
          by_cases hk : k' = k
          · rw [if_pos hk, if_pos ⟨hk, hdok, fun v' h => by cases h; exact hv⟩]
          · rw [if_neg hk, if_neg (fun h => hk h.1)]
        · by_cases hk : k' = k
          · rw [if_pos ⟨hk, hdok⟩, hk, hd]
          · rw [if_neg (fun h => hk h.1)]
      · simp only [if_neg hv]
        refine ⟨fun k' => ?_, fun k' => ?_, by first | rfl | trivial, by first | rfl | trivial⟩
        · rw [if_neg]; rintro ⟨_, _, h⟩; exact hv (h v rfl)
        · by_cases hk : k' = k
          · rw [if_pos ⟨hk, hdok⟩, hk, hd]
          · rw [if_neg (fun h => hk h.1)]
    | none =>
      simp only
      refine ⟨fun k' => ?_, fun k' => ?_, by first | rfl | trivial, by first | rfl | trivial⟩
      · rw [get_set]
        by_cases hk : k' = k
        · rw [if_pos hk, if_pos ⟨hk, hdok, fun v' h => by cases h⟩]
        · rw [if_neg hk, if_neg (fun h => hk h.1)]
      · by_cases hk : k' = k
        · rw [if_pos ⟨hk, hdok⟩, hk, hd]
        · rw [if_neg (fun h => hk h.1)]

/-- `deleteCore` through `get`. -/
theorem deleteCore_get (s : OrSwot) (k ts : Nat) :
    (∀ k', Map.get (deleteCore s k ts).1.entries k' =
      if k' = k ∧ (∀ e, Map.get s.entries k = some e → e < ts) then none else Map.get s.entries k') ∧
    (∀ k', Map.get (deleteCore s k ts).1.dead k' =
      if k' = k ∧ (∀ e, Map.get s.entries k = some e → e < ts) ∧ (∀ v, Map.get s.dead k = some v → v < ts)
      then some ts else Map.get s.dead k') ∧
    (deleteCore s k ts).1.maxs = s.maxs ∧ (deleteCore s k ts).1.safe = s.safe := by
  unfold deleteCore
  cases he : Map.get s.entries k with
  | some e =>
    simp only
    by_cases hle : ts ≤ e
    · simp only [if_pos hle]
      refine ⟨fun k' => ?_, fun k' => ?_, by first | rfl | trivial, by first | rfl | trivial⟩
      · rw [if_neg]; rintro ⟨_, h⟩; have := h e rfl; omega
      · rw [if_neg]; rintro ⟨_, h, _⟩; have := h e rfl; omega
    · simp only [if_neg hle]
      have heok : ∀ e', some e = some e' → e' < ts := fun e' h => by cases h; omega
      cases hd : Map.get s.dead k with
      | some v =>
        simp only
        by_cases hv : v < ts
        · simp only [if_pos hv]
          refine ⟨fun k' => ?_, fun k' => ?_, by first | rfl | trivial, by first | rfl | trivial⟩
          · rw [get_erase]
            by_cases hk : k' = k
            · rw [if_pos hk, if_pos ⟨hk, heok⟩]
            · rw [if_neg hk, if_neg (fun h => hk h.1)]
          · rw [get_set]
            by_cases hk : k' = k
            · rw [if_pos hk, if_pos ⟨hk, heok, fun v' h => by cases h; exact hv⟩]
            · rw [if_neg hk, if_neg (fun h => hk h.1)]
        · simp only [if_neg hv]
          refine ⟨fun k' => ?_, fun k' => ?_, by first | rfl | trivial, by first | rfl | trivial⟩
          · rw [get_erase]
            by_cases hk : k' = k
            · rw [if_pos hk, if_pos ⟨hk, heok⟩]
            · rw [if_neg hk, if_neg (fun h => hk h.1)]
          · rw [if_neg]; rintro ⟨_, _, h⟩; exact hv (h v rfl)
      | none =>
        simp only
        refine ⟨fun k' => ?_, fun k' => ?_, by first | rfl | trivial, by first | rfl | trivial⟩
        · rw [get_erase]
          by_cases hk : k' = k
          · rw [if_pos hk, if_pos ⟨hk, heok⟩]
          · rw [if_neg hk, if_neg (fun h => hk h.1)]
        · rw [get_set]
          by_cases hk : k' = k
          · rw [if_pos hk, if_pos ⟨hk, heok, fun v' h => by cases h⟩]
          · rw [if_neg hk, if_neg (fun h => hk h.1)]
  | none =>
    simp only
    have heok : ∀ e', (none : Option Nat) = some e' → e' < ts := fun e' h => by cases h
    cases hd : Map.get s.dead k with
    | some v =>
      simp only
      by_cases hv : v < ts
      · simp only [if_pos hv]
        refine ⟨fun k' => ?_, fun k' => ?_, by first | rfl | trivial, by first | rfl | trivial⟩
        · by_cases hk : k' = k
          · rw [if_pos ⟨hk, heok⟩, hk, he]
          · rw [if_neg (fun h => hk h.1)]
        · rw [get_set]
          by_cases hk : k' = k
          · rw [if_pos hk, if_pos ⟨hk, heok, fun v' h => by cases h; exact hv⟩]
          · rw [if_neg hk, if_neg (fun h => hk h.1)]
      · simp only [if_neg hv]
        refine ⟨fun k' => ?_, fun k' => ?_, by first | rfl | trivial, by first | rfl | trivial⟩
        · by_cases hk : k' = k
          · rw [if_pos ⟨hk, heok⟩, hk, he]
          · rw [if_neg (fun h => hk h.1)]
        · rw [if_neg]; rintro ⟨_, _, h⟩; exact hv (h v rfl)
    | none =>
      simp only
      refine ⟨fun k' => ?_, fun k' => ?_, by first | rfl | trivial, by first | rfl | trivial⟩
      · by_cases hk : k' = k
        · rw [if_pos ⟨hk, heok⟩, hk, he]
        · rw [if_neg (fun h => hk h.1)]
      · rw [get_set]
        by_cases hk : k' = k
        · rw [if_pos hk, if_pos ⟨hk, heok, fun v' h => by cases h⟩]
        · rw [if_neg hk, if_neg (fun h => hk h.1)]

/-- The core of an insert keeps the simulation, provided the insert is not below a purged
tombstone of its key. -/
theorem sim_insertCore (F B : Nat) (s g : OrSwot) (k ts : Nat) (h : Sim F B s g)
    (hl : ∀ d, Map.get g.dead k = some d → Map.get s.dead k = none → d ≤ ts) :
    Sim F B (insertCore s k ts).1 (insertCore g k ts).1 := by
  obtain ⟨he, hm, hs, hd⟩ := h
  obtain ⟨se, sd, sm, ss⟩ := insertCore_get s k ts
  obtain ⟨ge, gd, gm, gs⟩ := insertCore_get g k ts
  have hek := he k
  have hdk := hd k
  refine ⟨?_, by rw [gm, sm, hm], by rw [gs, ss, hs], ?_⟩
  · intro k'
    rw [se, ge, he k', hek]
    rcases hdk with h1 | ⟨h1, h2, d, h3, h4⟩
    · rw [h1]
    · have := hl d h3 h1
      by_cases hk : k' = k
      · simp [hk, h1, h2, h3, this]
      · simp [hk]
  · intro k'
    rw [sd, gd, se]
    rcases hdk with h1 | ⟨h1, h2, d, h3, h4⟩
    · rw [h1]
      by_cases hk : k' = k
      · subst hk
        by_cases hc : ∀ d, Map.get s.dead k' = some d → d ≤ ts
        · left; simp only [true_and]; rw [if_pos hc, if_pos hc]
        · left; simp only [true_and]; rw [if_neg hc, if_neg hc, h1]
      · simp only [hk, false_and, if_false]
        exact hd k'
    · have hle := hl d h3 h1
      by_cases hk : k' = k
      · subst hk
        left
        simp [h1, h3, hle]
      · simp only [hk, false_and, if_false]
        exact hd k'

/-- The core of a delete keeps the simulation, under the same proviso. -/
theorem sim_deleteCore (F B : Nat) (s g : OrSwot) (k ts : Nat) (h : Sim F B s g)
    (hl : ∀ d, Map.get g.dead k = some d → Map.get s.dead k = none → d ≤ ts) :
    Sim F B (deleteCore s k ts).1 (deleteCore g k ts).1 := by
  obtain ⟨he, hm, hs, hd⟩ := h
  obtain ⟨se, sd, sm, ss⟩ := deleteCore_get s k ts
  obtain ⟨ge, gd, gm, gs⟩ := deleteCore_get g k ts
  have hek := he k
  have hdk := hd k
  refine ⟨?_, by rw [gm, sm, hm], by rw [gs, ss, hs], ?_⟩
  · intro k'
    rw [se, ge, he k', hek]
  · intro k'
    rw [sd, gd, se, hek]
    by_cases hk : k' = k
    · subst hk
      by_cases hE : ∀ e, Map.get s.entries k' = some e → e < ts
      · rcases hdk with h1 | ⟨h1, h2, d, h3, h4⟩
        · left; rw [h1]
        · have hle := hl d h3 h1
          have hs1 : ∀ v, Map.get s.dead k' = some v → v < ts := fun v h => by rw [h1] at h; cases h
          left
          simp only [true_and]
          by_cases hlt : d < ts
          · rw [if_pos ⟨hE, fun v h => by rw [h3] at h; cases h; exact hlt⟩, if_pos ⟨hE, hs1⟩]
          · have hdts : d = ts := by omega
            rw [if_neg (fun h => hlt (h.2 d h3)), h3, hdts, if_pos ⟨hE, hs1⟩]
      · simp only [hE, and_false, false_and, if_false]
        exact hd k'
    · simp only [hk, false_and, if_false]
      exact hd k'

end Datacake.Purge
