/-
Purging as a simulation (C08, cluster part).

A replica that purges tombstones is related to a *ghost* replica that applied exactly the same
operations and never purged: same live entries, same version bookkeeping, and the ghost's
tombstone map is the real one plus the purged tombstones.  As long as no operation at or below a
purged tombstone is accepted afterwards on its key (`hl` below — what timeliness provides), the
two stay related for ever, so the live documents are the same.

`B` is a bound (`now + skew`) such that a tombstone `d` is only ever purged when
`dts d + F ≤ B`; it only grows.
-/
import Datacake.Lemmas.ApplyRep
import Datacake.Props.C08

namespace Datacake.Purge
open Datacake.Lww Datacake.OrSwot Datacake.Ts Datacake.Map

/-- The ghost's tombstones are the real ones plus purged ones (on keys the real replica holds
nothing for). -/
def DeadRel (F B : Nat) (s g : OrSwot) : Prop :=
  ∀ k, Map.get g.dead k = Map.get s.dead k ∨
    (Map.get s.dead k = none ∧ Map.get s.entries k = none ∧ ∃ d, Map.get g.dead k = some d ∧ dts d + F ≤ B)

structure Sim (F B : Nat) (s g : OrSwot) : Prop where
  entries : ∀ k, Map.get g.entries k = Map.get s.entries k
  maxs : g.maxs = s.maxs
  safe : g.safe = s.safe
  dead : DeadRel F B s g

theorem sim_refl (F B : Nat) (s : OrSwot) : Sim F B s s := ⟨fun _ => rfl, rfl, rfl, fun _ => Or.inl rfl⟩

theorem sim_mono (F B B' : Nat) (s g : OrSwot) (h : Sim F B s g) (hb : B ≤ B') : Sim F B' s g := by
  refine ⟨h.entries, h.maxs, h.safe, ?_⟩
  intro k
  rcases h.dead k with h1 | ⟨h1, h2, d, h3, h4⟩
  · exact Or.inl h1
  · exact Or.inr ⟨h1, h2, d, h3, by omega⟩

/-- `insertCore` through `get`: the tombstone is dropped when it is not newer than the insert, and
the entry is written when moreover no entry at least as new exists. -/
theorem insertCore_get (s : OrSwot) (k ts : Nat) :
    (∀ k', Map.get (insertCore s k ts).1.entries k' =
      if k' = k ∧ (∀ d, Map.get s.dead k = some d → d ≤ ts) ∧ (∀ v, Map.get s.entries k = some v → v < ts)
      then some ts else Map.get s.entries k') ∧
    (∀ k', Map.get (insertCore s k ts).1.dead k' =
      if k' = k ∧ (∀ d, Map.get s.dead k = some d → d ≤ ts) then none else Map.get s.dead k') ∧
    (insertCore s k ts).1.maxs = s.maxs ∧ (insertCore s k ts).1.safe = s.safe := by
  unfold insertCore
  cases hd : Map.get s.dead k with
  | some d =>
    simp only
    by_cases hlt : ts < d
    · simp only [if_pos hlt]
      refine ⟨fun k' => ?_, fun k' => ?_, by first | rfl | trivial, by first | rfl | trivial⟩
      · rw [if_neg]; rintro ⟨_, h, _⟩; have := h d rfl; omega
      · rw [if_neg]; rintro ⟨_, h⟩; have := h d rfl; omega
    · simp only [if_neg hlt]
      have hdok : ∀ d', some d = some d' → d' ≤ ts := fun d' h => by cases h; omega
      cases he : Map.get s.entries k with
      | some v =>
        simp only
        by_cases hv : v < ts
        · simp only [if_pos hv]
          refine ⟨fun k' => ?_, fun k' => ?_, by first | rfl | trivial, by first | rfl | trivial⟩
          · rw [get_set]
            by_cases hk : k' = k
            · rw [if_pos hk, if_pos ⟨hk, hdok, fun v' h => by cases h; exact hv⟩]
            · rw [if_neg hk, if_neg (fun h => hk h.1)]
          · rw [get_erase]
            by_cases hk : k' = k
            · rw [if_pos hk, if_pos ⟨hk, hdok⟩]
            · rw [if_neg hk, if_neg (fun h => hk h.1)]
        · simp only [if_neg hv]
          refine ⟨fun k' => ?_, fun k' => ?_, by first | rfl | trivial, by first | rfl | trivial⟩
          · rw [if_neg]; rintro ⟨_, _, h⟩; exact hv (h v rfl)
          · rw [get_erase]
            by_cases hk : k' = k
            · rw [if_pos hk, if_pos ⟨hk, hdok⟩]
            · rw [if_neg hk, if_neg (fun h => hk h.1)]
      | none =>
        simp only
        refine ⟨fun k' => ?_, fun k' => ?_, by first | rfl | trivial, by first | rfl | trivial⟩
        · rw [get_set]
          by_cases hk : k' = k
          · rw [if_pos hk, if_pos ⟨hk, hdok, fun v' h => by cases h⟩]
          · rw [if_neg hk, if_neg (fun h => hk h.1)]
        · rw [get_erase]
          by_cases hk : k' = k
          · rw [if_pos hk, if_pos ⟨hk, hdok⟩]
          · rw [if_neg hk, if_neg (fun h => hk h.1)]
  | none =>
    simp only
    have hdok : ∀ d', (none : Option Nat) = some d' → d' ≤ ts := fun d' h => by cases h
    cases he : Map.get s.entries k with
    | some v =>
      simp only
      by_cases hv : v < ts
      · simp only [if_pos hv]
        refine ⟨fun k' => ?_, fun k' => ?_, by first | rfl | trivial, by first | rfl | trivial⟩
        · rw [get_set]
          by_cases hk : k' = k
          · rw [if_pos hk, if_pos ⟨hk, hdok, fun v' h => by cases h; exact hv⟩]
          · rw [if_neg hk, if_neg (fun h => hk h.1)]
        · by_cases hk : k' = k
          · rw [if_pos ⟨hk, hdok⟩, hk, hd]
          · rw [if_neg (fun h => hk h.1)]
      · simp only [if_neg hv]
        refine ⟨fun k' => ?_, fun k' => ?_, by first | rfl | trivial, by first | rfl | trivial⟩
        · rw [if_neg]; rintro ⟨_, _, h⟩; exact hv (h v rfl)
        · by_cases hk : k' = k
          · rw [if_pos ⟨hk, hdok⟩, hk, hd]
          · rw [if_neg (fun h => hk h.1)]
    | none =>
      simp only
      refine ⟨fun k' => ?_, fun k' => ?_, by first | rfl | trivial, by first | rfl | trivial⟩
      · rw [get_set]
        by_cases hk : k' = k
        · rw [if_pos hk, if_pos ⟨hk, hdok, fun v' h => by cases h⟩]
        · rw [if_neg hk, if_neg (fun h => hk h.1)]
      · by_cases hk : k' = k
        · rw [if_pos ⟨hk, hdok⟩, hk, hd]
        · rw [if_neg (fun h => hk h.1)]

/-- `deleteCore` through `get`. -/
theorem deleteCore_get (s : OrSwot) (k ts : Nat) :
    (∀ k', Map.get (deleteCore s k ts).1.entries k' =
      if k' = k ∧ (∀ e, Map.get s.entries k = some e → e < ts) then none else Map.get s.entries k') ∧
    (∀ k', Map.get (deleteCore s k ts).1.dead k' =
      if k' = k ∧ (∀ e, Map.get s.entries k = some e → e < ts) ∧ (∀ v, Map.get s.dead k = some v → v < ts)
      then some ts else Map.get s.dead k') ∧
    (deleteCore s k ts).1.maxs = s.maxs ∧ (deleteCore s k ts).1.safe = s.safe := by
  unfold deleteCore
  cases he : Map.get s.entries k with
  | some e =>
    simp only
    by_cases hle : ts ≤ e
    · simp only [if_pos hle]
      refine ⟨fun k' => ?_, fun k' => ?_, by first | rfl | trivial, by first | rfl | trivial⟩
      · rw [if_neg]; rintro ⟨_, h⟩; have := h e rfl; omega
      · rw [if_neg]; rintro ⟨_, h, _⟩; have := h e rfl; omega
    · simp only [if_neg hle]
      have heok : ∀ e', some e = some e' → e' < ts := fun e' h => by cases h; omega
      cases hd : Map.get s.dead k with
      | some v =>
        simp only
        by_cases hv : v < ts
        · simp only [if_pos hv]
          refine ⟨fun k' => ?_, fun k' => ?_, by first | rfl | trivial, by first | rfl | trivial⟩
          · rw [get_erase]
            by_cases hk : k' = k
            · rw [if_pos hk, if_pos ⟨hk, heok⟩]
            · rw [if_neg hk, if_neg (fun h => hk h.1)]
          · rw [get_set]
            by_cases hk : k' = k
            · rw [if_pos hk, if_pos ⟨hk, heok, fun v' h => by cases h; exact hv⟩]
            · rw [if_neg hk, if_neg (fun h => hk h.1)]
        · simp only [if_neg hv]
          refine ⟨fun k' => ?_, fun k' => ?_, by first | rfl | trivial, by first | rfl | trivial⟩
          · rw [get_erase]
            by_cases hk : k' = k
            · rw [if_pos hk, if_pos ⟨hk, heok⟩]
            · rw [if_neg hk, if_neg (fun h => hk h.1)]
          · rw [if_neg]; rintro ⟨_, _, h⟩; exact hv (h v rfl)
      | none =>
        simp only
        refine ⟨fun k' => ?_, fun k' => ?_, by first | rfl | trivial, by first | rfl | trivial⟩
        · rw [get_erase]
          by_cases hk : k' = k
          · rw [if_pos hk, if_pos ⟨hk, heok⟩]
          · rw [if_neg hk, if_neg (fun h => hk h.1)]
        · rw [get_set]
          by_cases hk : k' = k
          · rw [if_pos hk, if_pos ⟨hk, heok, fun v' h => by cases h⟩]
          · rw [if_neg hk, if_neg (fun h => hk h.1)]
  | none =>
    simp only
    have heok : ∀ e', (none : Option Nat) = some e' → e' < ts := fun e' h => by cases h
    cases hd : Map.get s.dead k with
    | some v =>
      simp only
      by_cases hv : v < ts
      · simp only [if_pos hv]
        refine ⟨fun k' => ?_, fun k' => ?_, by first | rfl | trivial, by first | rfl | trivial⟩
        · by_cases hk : k' = k
          · rw [if_pos ⟨hk, heok⟩, hk, he]
          · rw [if_neg (fun h => hk h.1)]
        · rw [get_set]
          by_cases hk : k' = k
          · rw [if_pos hk, if_pos ⟨hk, heok, fun v' h => by cases h; exact hv⟩]
          · rw [if_neg hk, if_neg (fun h => hk h.1)]
      · simp only [if_neg hv]
        refine ⟨fun k' => ?_, fun k' => ?_, by first | rfl | trivial, by first | rfl | trivial⟩
        · by_cases hk : k' = k
          · rw [if_pos ⟨hk, heok⟩, hk, he]
          · rw [if_neg (fun h => hk h.1)]
        · rw [if_neg]; rintro ⟨_, _, h⟩; exact hv (h v rfl)
    | none =>
      simp only
      refine ⟨fun k' => ?_, fun k' => ?_, by first | rfl | trivial, by first | rfl | trivial⟩
      · by_cases hk : k' = k
        · rw [if_pos ⟨hk, heok⟩, hk, he]
        · rw [if_neg (fun h => hk h.1)]
      · rw [get_set]
        by_cases hk : k' = k
        · rw [if_pos hk, if_pos ⟨hk, heok, fun v' h => by cases h⟩]
        · rw [if_neg hk, if_neg (fun h => hk h.1)]

/-- The core of an insert keeps the simulation, provided the insert is not below a purged
tombstone of its key. -/
theorem sim_insertCore (F B : Nat) (s g : OrSwot) (k ts : Nat) (h : Sim F B s g)
    (hl : ∀ d, Map.get g.dead k = some d → Map.get s.dead k = none → d ≤ ts) :
    Sim F B (insertCore s k ts).1 (insertCore g k ts).1 := by
  obtain ⟨he, hm, hs, hd⟩ := h
  obtain ⟨se, sd, sm, ss⟩ := insertCore_get s k ts
  obtain ⟨ge, gd, gm, gs⟩ := insertCore_get g k ts
  have hek := he k
  have hdk := hd k
  refine ⟨?_, by rw [gm, sm, hm], by rw [gs, ss, hs], ?_⟩
  · intro k'
    rw [se, ge, he k', hek]
    rcases hdk with h1 | ⟨h1, h2, d, h3, h4⟩
    · rw [h1]
    · have := hl d h3 h1
      by_cases hk : k' = k
      · simp [hk, h1, h2, h3, this]
      · simp [hk]
  · intro k'
    rw [sd, gd, se]
    rcases hdk with h1 | ⟨h1, h2, d, h3, h4⟩
    · rw [h1]
      by_cases hk : k' = k
      · subst hk
        by_cases hc : ∀ d, Map.get s.dead k' = some d → d ≤ ts
        · left; simp only [true_and]; rw [if_pos hc, if_pos hc]
        · left; simp only [true_and]; rw [if_neg hc, if_neg hc, h1]
      · simp only [hk, false_and, if_false]
        exact hd k'
    · have hle := hl d h3 h1
      by_cases hk : k' = k
      · subst hk
        left
        simp [h1, h3, hle]
      · simp only [hk, false_and, if_false]
        exact hd k'

/-- The core of a delete keeps the simulation, under the same proviso. -/
theorem sim_deleteCore (F B : Nat) (s g : OrSwot) (k ts : Nat) (h : Sim F B s g)
    (hl : ∀ d, Map.get g.dead k = some d → Map.get s.dead k = none → d ≤ ts) :
    Sim F B (deleteCore s k ts).1 (deleteCore g k ts).1 := by
  obtain ⟨he, hm, hs, hd⟩ := h
  obtain ⟨se, sd, sm, ss⟩ := deleteCore_get s k ts
  obtain ⟨ge, gd, gm, gs⟩ := deleteCore_get g k ts
  have hek := he k
  have hdk := hd k
  refine ⟨?_, by rw [gm, sm, hm], by rw [gs, ss, hs], ?_⟩
  · intro k'
    rw [se, ge, he k', hek]
  · intro k'
    rw [sd, gd, se, hek]
    by_cases hk : k' = k
    · subst hk
      by_cases hE : ∀ e, Map.get s.entries k' = some e → e < ts
      · rcases hdk with h1 | ⟨h1, h2, d, h3, h4⟩
        · left; rw [h1]
        · have hle := hl d h3 h1
          have hs1 : ∀ v, Map.get s.dead k' = some v → v < ts := fun v h => by rw [h1] at h; cases h
          left
          simp only [true_and]
          by_cases hlt : d < ts
          · rw [if_pos ⟨hE, fun v h => by rw [h3] at h; cases h; exact hlt⟩, if_pos ⟨hE, hs1⟩]
          · have hdts : d = ts := by omega
            rw [if_neg (fun h => hlt (h.2 d h3)), h3, hdts, if_pos ⟨hE, hs1⟩]
      · simp only [hE, and_false, false_and, if_false]
        exact hd k'
    · simp only [hk, false_and, if_false]
      exact hd k'

theorem sim_tryUpdateMax (F B : Nat) (s g : OrSwot) (src ts : Nat) (h : Sim F B s g) :
    tryUpdateMax F g src ts = tryUpdateMax F s src ts := by
  unfold tryUpdateMax
  rw [h.safe, h.maxs]

/-- Applying one operation to the purging replica and to its ghost keeps them related, provided
the operation is not below a purged tombstone of its key. -/
theorem sim_applyOp (F B : Nat) (s g : OrSwot) (so : SrcOp) (h : Sim F B s g)
    (hl : ∀ d, Map.get g.dead so.op.key = some d → Map.get s.dead so.op.key = none → d ≤ so.op.ts) :
    Sim F B (applyOp F s so).1 (applyOp F g so).1 := by
  unfold applyOp insertWithSource deleteWithSource
  rw [sim_tryUpdateMax F B s g so.src so.op.ts h]
  cases htv : tryUpdateMax F s so.src so.op.ts with
  | none => split <;> exact h
  | some p =>
    obtain ⟨maxs', safe'⟩ := p
    have h' : Sim F B { s with maxs := maxs', safe := safe' } { g with maxs := maxs', safe := safe' } :=
      ⟨h.entries, rfl, rfl, h.dead⟩
    split
    · exact sim_deleteCore F B _ _ so.op.key so.op.ts h' hl
    · exact sim_insertCore F B _ _ so.op.key so.op.ts h' hl

/-- Purging keeps the simulation with the *same* ghost, provided every purged tombstone is old
enough for the bound. -/
theorem sim_purge (F B : Nat) (s g : OrSwot) (h : Sim F B s g) (hdisj : Disj g)
    (hold : ∀ k d, Map.get s.dead k = some d → isBefore s.safe d = true → dts d + F ≤ B) :
    Sim F B (purgeOldDeletes s).1 g := by
  obtain ⟨p1, p2, p3, _, p5⟩ := C08.purge_local s
  refine ⟨by rw [p1]; exact h.entries, by rw [p3]; exact h.maxs, by rw [p2]; exact h.safe, ?_⟩
  intro k
  rw [p1]
  rcases h.dead k with h1 | ⟨h1, h2, d, h3, h4⟩
  · cases hs : Map.get s.dead k with
    | none =>
      left
      rw [h1, hs]
      cases hp : Map.get (purgeOldDeletes s).1.dead k with
      | none => rfl
      | some d' => have := (p5 k d').1 hp; rw [hs] at this; cases this.1
    | some d =>
      cases hb : isBefore s.safe d with
      | false =>
        left
        rw [h1, hs]
        exact ((p5 k d).2 ⟨hs, hb⟩).symm
      | true =>
        right
        have hpn : Map.get (purgeOldDeletes s).1.dead k = none := by
          cases hp : Map.get (purgeOldDeletes s).1.dead k with
          | none => rfl
          | some d' =>
            have := (p5 k d').1 hp
            rw [hs] at this
            obtain ⟨e1, e2⟩ := this
            cases e1; rw [hb] at e2; cases e2
        have hgd : Map.get g.dead k = some d := by rw [h1, hs]
        have hse : Map.get s.entries k = none := by
          rw [← h.entries k]
          rcases hdisj k with hh | hh
          · exact hh
          · rw [hgd] at hh; cases hh
        exact ⟨hpn, hse, d, hgd, hold k d hs hb⟩
  · right
    have hpn : Map.get (purgeOldDeletes s).1.dead k = none := by
      cases hp : Map.get (purgeOldDeletes s).1.dead k with
      | none => rfl
      | some d' => have := (p5 k d').1 hp; rw [h1] at this; cases this.1
    exact ⟨hpn, h2, d, h3, h4⟩

end Datacake.Purge

namespace Datacake.Purge
open Datacake.Lww Datacake.OrSwot Datacake.Ts Datacake.Map

/-! ### From the cut-off to time

`isBefore safe t` means that the replica has seen, from `t`'s origin on every source, a stamp at
least one forgiveness period after `t`. -/

theorem dts_small (n : Nat) (hn : n < 256) : dts n = 0 := by
  unfold dts partsAsDuration seconds fractional; omega

theorem before_dts (F : Nat) (hF : F % 4 = 0) (g : OrSwot) (S : Nat → Prop) (hv : VersInv F g S)
    (hS : ∀ m, S m → m < 18446744073709551616) (t : Nat) (ht : ValidStamp t)
    (hb : isBefore g.safe t = true) : (∃ m, S m ∧ dts t + F ≤ dts m) ∨ dts t + F ≤ 0 := by
  unfold isBefore at hb
  cases hg : Map.get g.safe (node t) with
  | none => rw [hg] at hb; cases hb
  | some v =>
    rw [hg] at hb
    simp only [decide_eq_true_eq] at hb
    obtain ⟨m, hm1, hm2, hm3⟩ := hv.safe _ _ hg
    rw [hm3] at hb
    rcases hm1 with hm1 | hm1
    · left
      refine ⟨m, hm1, ?_⟩
      have := not_lt_forgive F t m hF ht (hS m hm1) hm2
      by_cases hc : dts m < dts t + F
      · exact absurd hb (this hc)
      · omega
    · right
      have hn := node_lt t
      have hp : pack 0 0 (node t) = node t := by unfold pack durSecs durFrac; omega
      rw [hp] at hm1
      have hmlt : m < 18446744073709551616 := by omega
      have := not_lt_forgive F t m hF ht hmlt hm2
      have hd0 : dts m = 0 := by rw [hm1]; exact dts_small _ hn
      by_cases hc : dts m < dts t + F
      · exact absurd hb (this hc)
      · omega

theorem rank_dead (o : Op) (d : Nat) (h : rank o = deadRec d) : o.isDel = true ∧ o.ts = d := by
  unfold rank deadRec liveRec at h
  cases hd : o.isDel with
  | true => rw [hd] at h; simp at h; exact ⟨rfl, by omega⟩
  | false => rw [hd] at h; simp at h; omega

/-! ### The invariant of one purging replica -/

/-- The purging replica `s`, having applied `A`, is simulated by a never-purging ghost that
represents `A`; everything applied belongs to the history and is not from the future (`B`). -/
structure NInv (F B : Nat) (H : List Op) (s : OrSwot) (A : List Op) : Prop where
  ex : ∃ g, Rep F g A ∧ Sim F B s g
  sub : ∀ o ∈ A, o ∈ H ∧ dts o.ts ≤ B

/-- Timeliness, seen from one replica at one moment: every operation of the history that is at
least one forgiveness period older than the bound has been applied here. -/
def Timely (F B : Nat) (H A : List Op) : Prop := ∀ o ∈ H, dts o.ts + F ≤ B → o ∈ A

/-- No delete of the history on `o`'s key that is old enough to have been purged is newer than
`o`. -/
def Fresh (F B : Nat) (H : List Op) (o : Op) : Prop :=
  ∀ od ∈ H, od.key = o.key → od.isDel = true → dts od.ts + F ≤ B → od.ts ≤ o.ts

theorem ninv_mono (F B B' : Nat) (H : List Op) (s : OrSwot) (A : List Op) (h : NInv F B H s A)
    (hb : B ≤ B') : NInv F B' H s A := by
  obtain ⟨⟨g, hr, hs⟩, hsub⟩ := h
  exact ⟨⟨g, hr, sim_mono F B B' s g hs hb⟩, fun o ho => ⟨(hsub o ho).1, by have := (hsub o ho).2; omega⟩⟩

theorem ninv_empty (F B n : Nat) (H : List Op) : NInv F B H (OrSwot.empty n) [] :=
  ⟨⟨OrSwot.empty n, rep_empty F n, sim_refl F B _⟩, fun _ h => by cases h⟩

theorem stamps_lt (H A : List Op) (hg : GoodHist H) (hsub : ∀ o ∈ A, o ∈ H) :
    ∀ m, Stamps A m → m < 18446744073709551616 := by
  rintro m ⟨o, ho, rfl⟩
  exact (hg.valid o (hsub o ho)).1

/-- A timely replica is sound: what its ghost refuses as too old has been applied. -/
theorem sound_of_timely (F B : Nat) (hF : F % 4 = 0) (H : List Op) (hg : GoodHist H) (g : OrSwot)
    (A : List Op) (hr : Rep F g A) (hsub : ∀ o ∈ A, o ∈ H ∧ dts o.ts ≤ B) (ht : Timely F B H A) :
    Sound g A H := by
  intro o ho hb
  rcases before_dts F hF g (Stamps A) hr.vers (stamps_lt H A hg (fun o h => (hsub o h).1)) o.ts
    (hg.valid o ho) hb with ⟨m, ⟨o', ho', hm⟩, hle⟩ | hle
  · apply ht o ho
    have := (hsub o' ho').2
    rw [hm] at this; omega
  · apply ht o ho; omega

/-- The ghost's tombstone of a key the replica holds nothing for is a delete of the history. -/
theorem ghost_tombstone_is_op (F : Nat) (g : OrSwot) (A : List Op) (hr : Rep F g A) (k d : Nat)
    (hd : Map.get g.dead k = some d) : ∃ od ∈ A, od.key = k ∧ od.isDel = true ∧ od.ts = d := by
  have he : Map.get g.entries k = none := by
    rcases hr.disj k with h | h
    · exact h
    · rw [hd] at h; cases h
  have hv : view g k = some (deadRec d) := by unfold view; rw [he, hd]
  rw [hr.view] at hv
  obtain ⟨od, hod, hk, hrk⟩ := lww_mem A k _ hv
  obtain ⟨h1, h2⟩ := rank_dead od d hrk
  exact ⟨od, hod, hk, h1, h2⟩

/-- **One delivered operation** keeps the invariant. -/
theorem ninv_apply (F B : Nat) (hF : F % 4 = 0) (H : List Op) (hg : GoodHist H) (s : OrSwot)
    (A : List Op) (h : NInv F B H s A) (ht : Timely F B H A) (src : Nat) (o : Op) (hoH : o ∈ H)
    (hoB : dts o.ts ≤ B) (hfresh : Fresh F B H o) :
    NInv F B H (applyOp F s ⟨src, o⟩).1 (o :: A) := by
  obtain ⟨⟨g, hr, hs⟩, hsub⟩ := h
  have hsound := sound_of_timely F B hF H hg g A hr hsub ht
  refine ⟨⟨(applyOp F g ⟨src, o⟩).1, applyOp_rep F g A H ⟨src, o⟩ hr hsound hoH, ?_⟩, ?_⟩
  · apply sim_applyOp F B s g ⟨src, o⟩ hs
    intro d hd hsn
    rcases hs.dead o.key with h1 | ⟨_, _, d', h3, h4⟩
    · rw [hd, hsn] at h1; cases h1
    · rw [hd] at h3; cases h3
      obtain ⟨od, hod, hk, hdel, hts⟩ := ghost_tombstone_is_op F g A hr o.key d hd
      have := hfresh od (hsub od hod).1 hk hdel (by rw [hts]; exact h4)
      rw [hts] at this
      exact this
  · intro o' ho'
    rcases List.mem_cons.1 ho' with h | h
    · subst h; exact ⟨hoH, hoB⟩
    · exact hsub o' h

/-- **A purge** keeps the invariant, with the same ghost and the same applied operations. -/
theorem ninv_purge (F B : Nat) (hF : F % 4 = 0) (H : List Op) (hg : GoodHist H) (s : OrSwot)
    (A : List Op) (h : NInv F B H s A) : NInv F B H (purgeOldDeletes s).1 A := by
  obtain ⟨⟨g, hr, hs⟩, hsub⟩ := h
  refine ⟨⟨g, hr, sim_purge F B s g hs hr.disj ?_⟩, hsub⟩
  intro k d hd hb
  have hgd : Map.get g.dead k = some d := by
    rcases hs.dead k with h1 | ⟨h1, _⟩
    · rw [h1, hd]
    · rw [hd] at h1; cases h1
  obtain ⟨od, hod, _, _, hts⟩ := ghost_tombstone_is_op F g A hr k d hgd
  have hval := hg.valid od (hsub od hod).1
  rw [hts] at hval
  rw [← hs.safe] at hb
  rcases before_dts F hF g (Stamps A) hr.vers (stamps_lt H A hg (fun o h => (hsub o h).1)) d hval hb
    with ⟨m, ⟨o', ho', hm⟩, hle⟩ | hle
  · have := (hsub o' ho').2
    rw [hm] at this; omega
  · omega

/-- What a purging replica shows as live is what its ghost shows. -/
theorem ninv_get (F B : Nat) (H : List Op) (s : OrSwot) (A : List Op) (h : NInv F B H s A) (k : Nat) :
    ∃ g, Rep F g A ∧ OrSwot.get s k = OrSwot.get g k := by
  obtain ⟨⟨g, hr, hs⟩, _⟩ := h
  exact ⟨g, hr, (hs.entries k).symm⟩

end Datacake.Purge
