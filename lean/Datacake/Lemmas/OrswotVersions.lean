/- Invariants of `NodeVersions`: every per-source maximum is an applied stamp, every safe cut-off is
the forgiveness of such a maximum (or of the default), and the consequence used everywhere: a stamp
close enough to everything applied from its origin is never "before the last observed event". -/
import Datacake.Lemmas.Orswot

namespace Datacake.OrSwot
open Datacake.Lww Datacake.Map Datacake.Ts

/-- A valid timestamp (what clocks issue and `HLCTimestamp::new` builds): a `u64` with
`fractional < 250`.  (Before the `fix:` commit for D17 the theorems also had to exclude the very
first 4 ms of the datacake epoch, where the saturating subtraction in the cut-off kept the counter
of the newest stamp and refused older events of the same tick.) -/
def ValidStamp (t : Nat) : Prop := t < 18446744073709551616 ∧ fractional t < 250

theorem repack (t : Nat) (h1 : t < 18446744073709551616) (h2 : fractional t < 250) :
    pack (dts t) (counter t) (node t) = t := by
  have hs := seconds_lt t h1
  have hd := decomp t
  have hdts : dts t / 1000 = seconds t ∧ dts t % 1000 / 4 = fractional t := by
    unfold dts partsAsDuration; omega
  rw [pack_eq _ _ _ (by omega), hdts.1, hdts.2]
  omega

theorem minList_mem (x : Nat) (xs : List Nat) : minList x xs ∈ x :: xs := by
  unfold minList
  induction xs generalizing x with
  | nil => simp
  | cons y ys ih =>
    simp only [List.foldl_cons]
    have := ih (min x y)
    rcases List.mem_cons.1 this with h | h
    · rw [h]
      by_cases hxy : x ≤ y
      · rw [Nat.min_eq_left hxy]; simp
      · rw [Nat.min_eq_right (by omega)]; simp
    · exact List.mem_cons_of_mem _ (List.mem_cons_of_mem _ h)

/-- `S` over-approximates what the version vectors remember: per-source maxima are stamps in `S`
with the right node id; safe cut-offs are forgiveness of such a stamp or of the default. -/
structure VersInv (F : Nat) (s : OrSwot) (S : Nat → Prop) : Prop where
  maxs : ∀ mp ∈ s.maxs, ∀ n v, Map.get mp n = some v → S v ∧ node v = n
  safe : ∀ n v, Map.get s.safe n = some v →
    ∃ m, (S m ∨ m = pack 0 0 n) ∧ node m = n ∧ v = forgive F m

theorem versInv_empty (F n : Nat) (S : Nat → Prop) : VersInv F (OrSwot.empty n) S := by
  constructor
  · intro mp hmp nn v h
    simp only [OrSwot.empty] at hmp
    have := (List.mem_replicate.1 hmp).2
    subst this; simp at h
  · intro nn v h; simp [OrSwot.empty] at h

theorem versInv_mono (F : Nat) (s : OrSwot) (S S' : Nat → Prop) (h : VersInv F s S)
    (hs : ∀ x, S x → S' x) : VersInv F s S' := by
  constructor
  · intro mp hmp n v hv; exact ⟨hs _ (h.maxs mp hmp n v hv).1, (h.maxs mp hmp n v hv).2⟩
  · intro n v hv
    obtain ⟨m, h1, h2, h3⟩ := h.safe n v hv
    exact ⟨m, h1.elim (fun x => Or.inl (hs _ x)) Or.inr, h2, h3⟩

theorem mem_modifyNth (l : List Map) (i : Nat) (f : Map → Map) (mp : Map)
    (h : mp ∈ modifyNth l i f) : mp ∈ l ∨ ∃ m0 ∈ l, mp = f m0 := by
  induction l generalizing i with
  | nil => simp [modifyNth] at h
  | cons x xs ih =>
    cases i with
    | zero =>
      simp only [modifyNth, List.mem_cons] at h
      rcases h with h | h
      · exact Or.inr ⟨x, List.mem_cons_self, h⟩
      · exact Or.inl (List.mem_cons_of_mem _ h)
    | succ i =>
      simp only [modifyNth, List.mem_cons] at h
      rcases h with h | h
      · exact Or.inl (h ▸ List.mem_cons_self)
      · rcases ih i h with h | ⟨m0, hm0, e⟩
        · exact Or.inl (List.mem_cons_of_mem _ h)
        · exact Or.inr ⟨m0, List.mem_cons_of_mem _ hm0, e⟩

theorem computeSafe_inv (F : Nat) (maxs : List Map) (safe : Map) (nd : Nat) (S : Nat → Prop)
    (hm : ∀ mp ∈ maxs, ∀ n v, Map.get mp n = some v → S v ∧ node v = n)
    (hnd : nd < 256)
    (hs : ∀ n v, Map.get safe n = some v → ∃ m, (S m ∨ m = pack 0 0 n) ∧ node m = n ∧ v = forgive F m) :
    ∀ n v, Map.get (computeSafe F maxs safe nd) n = some v →
      ∃ m, (S m ∨ m = pack 0 0 n) ∧ node m = n ∧ v = forgive F m := by
  intro n v hv
  unfold computeSafe at hv
  split at hv
  · exact hs n v hv
  · rename_i x xs hmap
    rw [get_set] at hv
    split at hv
    · rename_i hn
      subst hn
      injection hv with hv
      have hmem := minList_mem x xs
      rw [← hmap, List.mem_map] at hmem
      obtain ⟨mp, hmp, hval⟩ := hmem
      refine ⟨minList x xs, ?_, ?_, hv.symm⟩
      · cases hg : Map.get mp n with
        | none => rw [hg] at hval; simp at hval; exact Or.inr hval.symm
        | some w => rw [hg] at hval; simp at hval; rw [← hval]; exact Or.inl (hm mp hmp n w hg).1
      · cases hg : Map.get mp n with
        | none =>
          rw [hg] at hval; simp at hval; rw [← hval]
          have : pack 0 0 n = n := by unfold pack durSecs durFrac; omega
          rw [this]; unfold node; omega
        | some w => rw [hg] at hval; simp at hval; rw [← hval]; exact (hm mp hmp n w hg).2
    · exact hs n v hv

/-- The acceptance step keeps the invariant, with the new stamp added to `S`. -/
theorem tryUpdateMax_inv (F : Nat) (s : OrSwot) (src ts : Nat) (S : Nat → Prop)
    (h : VersInv F s S) (maxs' : List Map) (safe' : Map)
    (hu : tryUpdateMax F s src ts = some (maxs', safe')) :
    VersInv F { s with maxs := maxs', safe := safe' } (fun x => S x ∨ x = ts) ∧
    isBefore s.safe ts = false := by
  unfold tryUpdateMax at hu
  split at hu
  · cases hu
  · rename_i hb
    injection hu with hu; injection hu with h1 h2
    have hmaxs : ∀ mp ∈ maxs', ∀ n v, Map.get mp n = some v → (S v ∨ v = ts) ∧ node v = n := by
      intro mp hmp n v hv
      rw [← h1] at hmp
      rcases mem_modifyNth _ _ _ _ hmp with hmem | ⟨m0, hm0, e⟩
      · exact ⟨Or.inl (h.maxs mp hmem n v hv).1, (h.maxs mp hmem n v hv).2⟩
      · subst e
        have hold := h.maxs m0 hm0
        split at hv
        · split at hv
          · rw [get_set] at hv
            split at hv
            · rename_i hn; injection hv with hv; exact ⟨Or.inr hv.symm, by rw [← hv, hn]⟩
            · exact ⟨Or.inl (hold n v hv).1, (hold n v hv).2⟩
          · exact ⟨Or.inl (hold n v hv).1, (hold n v hv).2⟩
        · rw [get_set] at hv
          split at hv
          · rename_i hn; injection hv with hv; exact ⟨Or.inr hv.symm, by rw [← hv, hn]⟩
          · exact ⟨Or.inl (hold n v hv).1, (hold n v hv).2⟩
    refine ⟨⟨hmaxs, ?_⟩, by simpa using hb⟩
    intro n v hv
    simp only at hv
    rw [← h2] at hv
    rw [h1] at hv
    exact computeSafe_inv F maxs' s.safe (node ts) (fun x => S x ∨ x = ts) hmaxs (node_lt ts)
      (fun n v hv => by
        obtain ⟨m, a, b, c⟩ := h.safe n v hv
        exact ⟨m, a.elim (fun x => Or.inl (Or.inl x)) Or.inr, b, c⟩) n v hv

/-- A stamp whose time is less than `F` behind `m`'s (same node) is not below `forgive F m`. -/
theorem not_lt_forgive (F t m : Nat) (hF : F % 4 = 0) (ht : ValidStamp t)
    (hm : m < 18446744073709551616) (hnode : node m = node t) (hclose : dts m < dts t + F) : ¬ t < forgive F m := by
  obtain ⟨h1, h2⟩ := ht
  have hrep := repack t h1 h2
  have hs := seconds_lt t h1
  have hms : dts m / 1000 < 4294967296 + 2 := by
    have := seconds_lt m hm; have := fractional_lt m
    unfold dts partsAsDuration; omega
  have hdt : dts t / 1000 < 4294967296 := by
    unfold dts partsAsDuration; omega
  have h4 := dts_mod4 m
  have h4t := dts_mod4 t
  unfold forgive
  split
  · -- the cut-off is the very first stamp of the node: nothing of that node is below it
    have hp : pack 0 0 (node m) = node m := by unfold pack durSecs durFrac; omega
    rw [hp, hnode]
    unfold node; omega
  · have hlt : pack (dts m - F) (counter m) (node m) < pack (dts t) (counter t) (node t) :=
      pack_lt_of_ms_lt (dts m - F) (dts t) (counter m) (node m) (counter t) (node t) hdt
        (counter_lt m) (node_lt m) (by omega) h4t (by omega)
    omega

/-- The consequence used by every LWW theorem: if every stamp in `S` from `t`'s origin is less than
`F` newer than `t`, the state does not refuse `t` as too old. -/
theorem not_before_of_window (F : Nat) (s : OrSwot) (S : Nat → Prop) (h : VersInv F s S) (t : Nat)
    (hF : F % 4 = 0) (ht : ValidStamp t)
    (hS : ∀ m, S m → m < 18446744073709551616 ∧ (node m = node t → dts m < dts t + F)) :
    isBefore s.safe t = false := by
  unfold isBefore
  cases hg : Map.get s.safe (node t) with
  | none => rfl
  | some v =>
    simp only [decide_eq_false_iff_not]
    obtain ⟨m, hm1, hm2, hm3⟩ := h.safe _ _ hg
    rw [hm3]
    rcases hm1 with hm1 | hm1
    · exact not_lt_forgive F t m hF ht (hS m hm1).1 hm2 ((hS m hm1).2 hm2)
    · subst hm1
      have hp : pack 0 0 (node t) = node t := by unfold pack durSecs durFrac; omega
      have hf : forgive F (node t) = node t := by
        unfold forgive
        have hn := node_lt t
        have h1 : dts (node t) = 0 := by unfold dts partsAsDuration seconds fractional; omega
        have h2 : counter (node t) = 0 := by unfold counter; omega
        have h3 : node (node t) = node t := by unfold node; omega
        rw [h1, h2, h3]; split <;> simpa using hp
      rw [hp, hf]
      unfold node; omega

end Datacake.OrSwot
