/-
`newest` (Model/Keyspace.lean, `newest_per_doc` of keyspace/actor.rs — fix D13): what the reduction
of a bulk request to one entry per document guarantees.
-/
import Datacake.Model.Keyspace

namespace Datacake.Keyspace

@[simp] theorem newest_nil {α : Type} (ts : α → Nat) : newest ts ([] : List (Nat × α)) = [] := rfl

@[simp] theorem newest_singleton {α : Type} (ts : α → Nat) (r : Nat × α) : newest ts [r] = [r] := by
  simp [newest]

theorem newest_sublist {α : Type} (ts : α → Nat) : ∀ l : List (Nat × α), (newest ts l).Sublist l
  | [] => List.Sublist.slnil
  | d :: rest => by
    have ih := newest_sublist ts rest
    simp only [newest]
    split
    · exact List.Sublist.cons _ ih
    · exact List.Sublist.cons₂ _ (List.filter_sublist.trans ih)

theorem newest_mem {α : Type} (ts : α → Nat) (l : List (Nat × α)) (d : Nat × α) (h : d ∈ newest ts l) : d ∈ l :=
  (newest_sublist ts l).subset h

/-- One entry per document. -/
theorem newest_nodup {α : Type} (ts : α → Nat) : ∀ l : List (Nat × α), ((newest ts l).map (·.1)).Nodup
  | [] => List.nodup_nil
  | d :: rest => by
    have ih := newest_nodup ts rest
    simp only [newest]
    split
    · exact ih
    · rw [List.map_cons, List.nodup_cons]
      refine ⟨?_, List.Nodup.sublist (List.Sublist.map _ List.filter_sublist) ih⟩
      intro hm
      obtain ⟨e, he, heq⟩ := List.mem_map.1 hm
      have := (List.mem_filter.1 he).2
      simp [heq] at this

/-- A request that names every document once is left as it is. -/
theorem newest_of_nodup {α : Type} (ts : α → Nat) : ∀ l : List (Nat × α), (l.map (·.1)).Nodup → newest ts l = l
  | [], _ => rfl
  | d :: rest, h => by
    rw [List.map_cons, List.nodup_cons] at h
    have ih := newest_of_nodup ts rest h.2
    simp only [newest]
    rw [ih]
    have hno : ∀ e ∈ rest, e.1 ≠ d.1 := fun e he heq => h.1 (List.mem_map.2 ⟨e, he, heq⟩)
    have h1 : rest.any (fun e => e.1 == d.1 && decide (ts d.2 ≤ ts e.2)) = false := by
      rw [List.any_eq_false]
      intro e he
      simp [hno e he]
    rw [h1]
    simp only [Bool.false_eq_true, if_false]
    congr 1
    rw [List.filter_eq_self]
    intro e he
    simp [hno e he]

/-- Nothing newer is dropped: every entry of the request is dominated by the kept entry of its
document. -/
theorem newest_dominates {α : Type} (ts : α → Nat) : ∀ (l : List (Nat × α)) (d : Nat × α), d ∈ l →
    ∃ e ∈ newest ts l, e.1 = d.1 ∧ ts d.2 ≤ ts e.2
  | [], d, h => by cases h
  | x :: rest, d, h => by
    simp only [newest]
    rcases List.mem_cons.1 h with rfl | hr
    · split
      · rename_i hany
        obtain ⟨e, he, hp⟩ := List.any_eq_true.1 hany
        simp only [Bool.and_eq_true, beq_iff_eq, decide_eq_true_eq] at hp
        exact ⟨e, he, hp.1, hp.2⟩
      · exact ⟨d, List.mem_cons_self, rfl, Nat.le_refl _⟩
    · obtain ⟨e, he, hid, hle⟩ := newest_dominates ts rest d hr
      split
      · exact ⟨e, he, hid, hle⟩
      · rename_i hany
        by_cases hx : e.1 = x.1
        · refine ⟨x, List.mem_cons_self, by rw [← hx, hid], ?_⟩
          have : ¬ (ts x.2 ≤ ts e.2) := by
            intro hle2
            apply hany
            exact List.any_eq_true.2 ⟨e, he, by simp [hx, hle2]⟩
          omega
        · exact ⟨e, List.mem_cons_of_mem _ (List.mem_filter.2 ⟨he, by simp [hx]⟩), hid, hle⟩

/-- The kept entry is the newest of its document: no entry of the request beats it. -/
theorem newest_is_max {α : Type} (ts : α → Nat) (l : List (Nat × α)) (e : Nat × α) (he : e ∈ newest ts l)
    (d : Nat × α) (hd : d ∈ l) (hid : d.1 = e.1) : ts d.2 ≤ ts e.2 := by
  obtain ⟨e', he', hid', hle⟩ := newest_dominates ts l d hd
  have : e' = e := by
    have hnd := newest_nodup ts l
    have key : ∀ (L : List (Nat × α)), (L.map (·.1)).Nodup → ∀ a ∈ L, ∀ b ∈ L, a.1 = b.1 → a = b := by
      intro L
      induction L with
      | nil => intro _ a ha; cases ha
      | cons y ys ih =>
        intro hn a ha b hb hab
        rw [List.map_cons, List.nodup_cons] at hn
        rcases List.mem_cons.1 ha with rfl | ha' <;> rcases List.mem_cons.1 hb with rfl | hb'
        · rfl
        · exact absurd (List.mem_map.2 ⟨b, hb', hab.symm⟩) hn.1
        · exact absurd (List.mem_map.2 ⟨a, ha', hab⟩) hn.1
        · exact ih hn.2 a ha' b hb' hab
    exact key _ hnd e' he' e he (by rw [hid', hid])
  rw [← this]; exact hle

end Datacake.Keyspace
