/-
`SafeExact` and `GoodMaxs` (Lemmas/SafeExact.lean) are invariants of `merge` too: `NodeVersions::merge`
raises per-source maxima and then re-runs `compute_safe_last_stamp` for every origin the remote
state mentions; origins it does not mention keep their per-source values and their cut-off.
Together with `safeExact_applyOp` / `safeExact_purge` this makes them invariants of EVERY state that
the public API of `OrSWotSet` can build (insert / delete / purge / merge in any order).
-/
import Datacake.Lemmas.SafeExact

namespace Datacake.OrSwot
open Datacake.Lww Datacake.Map Datacake.Ts

/-- The per-source update of `NodeVersions::merge`: one remote binding. -/
def raise (acc : Map) (p : Nat × Nat) : Map :=
  match acc.get p.1 with
  | some old => if p.2 < old then acc else acc.set p.1 p.2
  | none => acc.set p.1 p.2

theorem go_eq : ∀ (mine theirs : List Map),
    mergeVersions.go mine theirs =
      match mine, theirs with
      | m :: ms, t :: ts => (t.bindings.foldl raise m) :: mergeVersions.go ms ts
      | ms, _ => ms := by
  intro mine theirs
  cases mine with
  | nil => cases theirs <;> simp [mergeVersions.go]
  | cons m ms =>
    cases theirs with
    | nil => simp [mergeVersions.go]
    | cons t ts => simp only [mergeVersions.go]; rfl

theorem raise_get_other (acc : Map) (p : Nat × Nat) (X : Nat) (h : p.1 ≠ X) :
    Map.get (raise acc p) X = Map.get acc X := by
  unfold raise
  split
  · split
    · rfl
    · rw [get_set, if_neg (fun e => h e.symm)]
  · rw [get_set, if_neg (fun e => h e.symm)]

theorem foldl_raise_get_other (bs : List (Nat × Nat)) (m : Map) (X : Nat) (h : ∀ p ∈ bs, p.1 ≠ X) :
    Map.get (bs.foldl raise m) X = Map.get m X := by
  induction bs generalizing m with
  | nil => rfl
  | cons b rest ih =>
    simp only [List.foldl_cons]
    rw [ih _ (fun p hp => h p (List.mem_cons_of_mem _ hp)), raise_get_other _ _ _ (h b List.mem_cons_self)]

/-- The origins a remote state mentions. -/
def mentioned (other : List Map) : List Nat := (other.map (fun t => t.bindings.map Prod.fst)).flatten

theorem go_length (mine theirs : List Map) : (mergeVersions.go mine theirs).length = mine.length := by
  induction mine generalizing theirs with
  | nil => rw [go_eq]
  | cons m ms ih =>
    rw [go_eq]
    cases theirs with
    | nil => rfl
    | cons t ts => simp only [List.length_cons, ih]

theorem go_srcVals_other (mine theirs : List Map) (X : Nat) (hX : X ∉ mentioned theirs) :
    srcVals (mergeVersions.go mine theirs) X = srcVals mine X := by
  induction mine generalizing theirs with
  | nil => rw [go_eq]
  | cons m ms ih =>
    rw [go_eq]
    cases theirs with
    | nil => rfl
    | cons t ts =>
      simp only [mentioned, List.map_cons, List.flatten_cons, List.mem_append, not_or] at hX
      simp only [srcVals, List.map_cons]
      rw [foldl_raise_get_other _ _ _ (fun p hp e => hX.1 (List.mem_map.2 ⟨p, hp, e⟩))]
      have := ih ts hX.2
      simp only [srcVals] at this
      rw [this]

theorem go_get_none (mine theirs : List Map) (X : Nat) (hX : X ∉ mentioned theirs)
    (h : ∀ m ∈ mine, Map.get m X = none) : ∀ m ∈ mergeVersions.go mine theirs, Map.get m X = none := by
  induction mine generalizing theirs with
  | nil => rw [go_eq]; cases theirs <;> exact h
  | cons m ms ih =>
    rw [go_eq]
    cases theirs with
    | nil => exact h
    | cons t ts =>
      simp only [mentioned, List.map_cons, List.flatten_cons, List.mem_append, not_or] at hX
      intro m' hm'
      rcases List.mem_cons.1 hm' with rfl | hm'
      · rw [foldl_raise_get_other _ _ _ (fun p hp e => hX.1 (List.mem_map.2 ⟨p, hp, e⟩))]
        exact h m List.mem_cons_self
      · exact ih ts hX.2 (fun m0 hm0 => h m0 (List.mem_cons_of_mem _ hm0)) m' hm'

/-- Re-running `compute_safe_last_stamp` for a list of origins (the per-source maxima fixed). -/
theorem foldl_computeSafe_get (F : Nat) (maxs : List Map) (nodes : List Nat) (safe : Map) (Y : Nat) :
    Map.get (nodes.foldl (fun sf nd => computeSafe F maxs sf nd) safe) Y =
      match srcVals maxs Y with
      | [] => Map.get safe Y
      | x :: xs => if Y ∈ nodes then some (forgive F (minList x xs)) else Map.get safe Y := by
  induction nodes generalizing safe with
  | nil => cases srcVals maxs Y <;> simp
  | cons nd rest ih =>
    simp only [List.foldl_cons]
    rw [ih, computeSafe_get]
    have hlen : ∀ A B : Nat, (srcVals maxs A).length = (srcVals maxs B).length := by
      intro A B; simp [srcVals]
    cases hY : srcVals maxs Y with
    | nil =>
      have : srcVals maxs nd = [] := by
        have := hlen nd Y; rw [hY] at this; exact List.eq_nil_of_length_eq_zero this
      rw [this]
    | cons x xs =>
      cases hnd : srcVals maxs nd with
      | nil =>
        have := hlen nd Y; rw [hY, hnd] at this; simp at this
      | cons a as =>
        simp only
        by_cases hr : Y ∈ rest
        · simp [hr]
        · by_cases he : Y = nd
          · subst he; rw [hY] at hnd; injection hnd with h1 h2; subst h1; subst h2; simp
          · simp [hr, he]

theorem mergeVersions_eq (F : Nat) (maxs : List Map) (safe : Map) (other : List Map) :
    mergeVersions F maxs safe other =
      (mergeVersions.go maxs other,
       (mentioned other).foldl (fun sf nd => computeSafe F (mergeVersions.go maxs other) sf nd) safe) := rfl

/-- `NodeVersions::merge` keeps the cut-offs exact. -/
theorem safeExact_mergeVersions (F : Nat) (s : OrSwot) (other : List Map) (h : SafeExact F s) :
    SafeExact F { s with maxs := (mergeVersions F s.maxs s.safe other).1,
                         safe := (mergeVersions F s.maxs s.safe other).2 } := by
  rw [mergeVersions_eq]
  constructor
  · intro X v hv
    simp only at hv ⊢
    rw [foldl_computeSafe_get] at hv
    cases hsv : srcVals (mergeVersions.go s.maxs other) X with
    | nil =>
      rw [hsv] at hv
      simp only at hv
      obtain ⟨x, xs, e1, _⟩ := h.some_ X v hv
      have h0 : (srcVals (mergeVersions.go s.maxs other) X).length = 0 := by rw [hsv]; rfl
      have : (srcVals s.maxs X).length = 0 := by
        simp only [srcVals, List.length_map, go_length] at h0 ⊢; exact h0
      rw [e1] at this; simp at this
    | cons x xs =>
      rw [hsv] at hv
      simp only at hv
      by_cases hX : X ∈ mentioned other
      · rw [if_pos hX] at hv
        injection hv with hv
        exact ⟨x, xs, rfl, hv.symm⟩
      · rw [if_neg hX] at hv
        rw [← hsv, go_srcVals_other _ _ _ hX]
        exact h.some_ X v hv
  · intro X hv
    simp only at hv ⊢
    rw [foldl_computeSafe_get] at hv
    cases hsv : srcVals (mergeVersions.go s.maxs other) X with
    | nil =>
      intro m hm
      have h0 : (srcVals (mergeVersions.go s.maxs other) X).length = 0 := by rw [hsv]; rfl
      have : (mergeVersions.go s.maxs other) = [] := by
        apply List.eq_nil_of_length_eq_zero
        simpa [srcVals] using h0
      rw [this] at hm; cases hm
    | cons x xs =>
      rw [hsv] at hv
      simp only at hv
      by_cases hX : X ∈ mentioned other
      · rw [if_pos hX] at hv; cases hv
      · rw [if_neg hX] at hv
        exact go_get_none _ _ _ hX (h.none_ X hv)

/-! ### The entry part of `merge` does not touch the versions -/

theorem mergeStep_versions (st : MergeSt) (it : LogItem) :
    (mergeStep st it).s.maxs = st.s.maxs ∧ (mergeStep st it).s.safe = st.s.safe := by
  unfold mergeStep
  simp only
  split
  · exact ⟨rfl, rfl⟩
  · split
    · split
      · split <;> exact ⟨rfl, rfl⟩
      · exact ⟨rfl, rfl⟩
    · split
      · split <;> split <;> exact ⟨rfl, rfl⟩
      · split <;> exact ⟨rfl, rfl⟩

theorem foldl_mergeStep_versions (log : List LogItem) (st : MergeSt) :
    (log.foldl mergeStep st).s.maxs = st.s.maxs ∧ (log.foldl mergeStep st).s.safe = st.s.safe := by
  induction log generalizing st with
  | nil => exact ⟨rfl, rfl⟩
  | cons it rest ih =>
    simp only [List.foldl_cons]
    obtain ⟨h1, h2⟩ := ih (mergeStep st it)
    obtain ⟨h3, h4⟩ := mergeStep_versions st it
    exact ⟨h1.trans h3, h2.trans h4⟩

theorem leftoverStep_versions (rs : Map) (s : OrSwot) (p : Nat × Nat) :
    (leftoverStep rs s p).maxs = s.maxs ∧ (leftoverStep rs s p).safe = s.safe := by
  unfold leftoverStep
  split
  · exact ⟨rfl, rfl⟩
  · split
    · split <;> exact ⟨rfl, rfl⟩
    · exact ⟨rfl, rfl⟩

theorem foldl_leftoverStep_versions (rs : Map) (l : List (Nat × Nat)) (s : OrSwot) :
    (l.foldl (leftoverStep rs) s).maxs = s.maxs ∧ (l.foldl (leftoverStep rs) s).safe = s.safe := by
  induction l generalizing s with
  | nil => exact ⟨rfl, rfl⟩
  | cons p rest ih =>
    simp only [List.foldl_cons]
    obtain ⟨h1, h2⟩ := ih (leftoverStep rs s p)
    obtain ⟨h3, h4⟩ := leftoverStep_versions rs s p
    exact ⟨h1.trans h3, h2.trans h4⟩

/-- The versions of a merged set are `NodeVersions::merge` of the two versions. -/
theorem merge_versions (F : Nat) (a b : OrSwot) :
    (merge F a b).maxs = (mergeVersions F a.maxs a.safe b.maxs).1 ∧
    (merge F a b).safe = (mergeVersions F a.maxs a.safe b.maxs).2 := by
  unfold merge
  simp only
  obtain ⟨h1, h2⟩ := foldl_leftoverStep_versions b.safe
    (List.foldl mergeStep { s := { a with entries := [] }, old := a.entries }
      (sortLog (b.entries.bindings.map (fun p => ⟨p.1, p.2, false⟩) ++ b.dead.bindings.map (fun p => ⟨p.1, p.2, true⟩)))).old.bindings
    (List.foldl mergeStep { s := { a with entries := [] }, old := a.entries }
      (sortLog (b.entries.bindings.map (fun p => ⟨p.1, p.2, false⟩) ++ b.dead.bindings.map (fun p => ⟨p.1, p.2, true⟩)))).s
  obtain ⟨h3, h4⟩ := foldl_mergeStep_versions
    (sortLog (b.entries.bindings.map (fun p => ⟨p.1, p.2, false⟩) ++ b.dead.bindings.map (fun p => ⟨p.1, p.2, true⟩)))
    { s := { a with entries := [] }, old := a.entries }
  simp only at h3 h4
  rw [h1, h2, h3, h4]
  exact ⟨rfl, rfl⟩

/-- **safeExact_merge**: merging ANY remote state keeps the safe cut-offs exact. -/
theorem safeExact_merge (F : Nat) (a b : OrSwot) (h : SafeExact F a) : SafeExact F (merge F a b) := by
  obtain ⟨h1, h2⟩ := merge_versions F a b
  exact safeExact_congr F { a with maxs := (mergeVersions F a.maxs a.safe b.maxs).1,
                                   safe := (mergeVersions F a.maxs a.safe b.maxs).2 } _ h1 h2
    (safeExact_mergeVersions F a b.maxs h)

/-! ### `GoodMaxs` under merge -/

theorem get_some_mem_bindings_aux : ∀ (f : Nat) (m : Map) (p : Nat × Nat), p ∈ bindingsAux f m → Map.get m p.1 = some p.2 := by
  intro f
  induction f with
  | zero => intro m p hp; simp [bindingsAux] at hp
  | succ f ih =>
    intro m p hp
    cases m with
    | nil => simp [bindingsAux] at hp
    | cons x rest =>
      obtain ⟨k, v⟩ := x
      simp only [bindingsAux, List.mem_cons] at hp
      rcases hp with rfl | hp
      · simp [get_cons]
      · have := ih (erase rest k) p hp
        rw [get_erase] at this
        by_cases hk : p.1 = k
        · rw [if_pos hk] at this; cases this
        · rw [if_neg hk] at this
          rw [get_cons, if_neg (fun e => hk e.symm)]
          exact this

theorem get_of_mem_bindings (m : Map) (p : Nat × Nat) (hp : p ∈ m.bindings) : Map.get m p.1 = some p.2 :=
  get_some_mem_bindings_aux m.length m p hp

def GoodMap (m : Map) : Prop :=
  ∀ X v, Map.get m X = some v → node v = X ∧ v < 18446744073709551616 ∧ fractional v < 250

theorem goodMap_raise (acc : Map) (p : Nat × Nat) (ha : GoodMap acc)
    (hp : node p.2 = p.1 ∧ p.2 < 18446744073709551616 ∧ fractional p.2 < 250) : GoodMap (raise acc p) := by
  intro X v hv
  unfold raise at hv
  split at hv
  · split at hv
    · exact ha X v hv
    · rw [get_set] at hv
      by_cases hX : X = p.1
      · rw [if_pos hX] at hv; injection hv with hv; subst hv; rw [hX]; exact hp
      · rw [if_neg hX] at hv; exact ha X v hv
  · rw [get_set] at hv
    by_cases hX : X = p.1
    · rw [if_pos hX] at hv; injection hv with hv; subst hv; rw [hX]; exact hp
    · rw [if_neg hX] at hv; exact ha X v hv

theorem goodMap_foldl_raise (bs : List (Nat × Nat)) (m : Map) (hm : GoodMap m)
    (hb : ∀ p ∈ bs, node p.2 = p.1 ∧ p.2 < 18446744073709551616 ∧ fractional p.2 < 250) :
    GoodMap (bs.foldl raise m) := by
  induction bs generalizing m with
  | nil => exact hm
  | cons b rest ih =>
    simp only [List.foldl_cons]
    exact ih _ (goodMap_raise m b hm (hb b List.mem_cons_self)) (fun p hp => hb p (List.mem_cons_of_mem _ hp))

theorem goodMaxs_go (mine theirs : List Map) (hm : ∀ m ∈ mine, GoodMap m) (ht : ∀ t ∈ theirs, GoodMap t) :
    ∀ m ∈ mergeVersions.go mine theirs, GoodMap m := by
  induction mine generalizing theirs with
  | nil => rw [go_eq]; cases theirs <;> exact hm
  | cons m ms ih =>
    rw [go_eq]
    cases theirs with
    | nil => exact hm
    | cons t ts =>
      intro m' hm'
      rcases List.mem_cons.1 hm' with rfl | hm'
      · apply goodMap_foldl_raise _ _ (hm m List.mem_cons_self)
        intro p hp
        exact ht t List.mem_cons_self p.1 p.2 (get_of_mem_bindings t p hp)
      · exact ih ts (fun m0 h0 => hm m0 (List.mem_cons_of_mem _ h0)) (fun t0 h0 => ht t0 (List.mem_cons_of_mem _ h0)) m' hm'

/-- **goodMaxs_merge**: per-source maxima stay well-formed stamps of their origin. -/
theorem goodMaxs_merge (F : Nat) (a b : OrSwot) (ha : GoodMaxs a) (hb : GoodMaxs b) : GoodMaxs (merge F a b) := by
  intro m hm
  rw [(merge_versions F a b).1, mergeVersions_eq] at hm
  exact goodMaxs_go a.maxs b.maxs ha hb m hm

end Datacake.OrSwot
