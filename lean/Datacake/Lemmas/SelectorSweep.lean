/-
The fallback sweep of `select_n_nodes`: soundness (it only adds distinct non-local nodes of the
layout, never beyond `n`) and completeness (when it ends with fewer than `n`, every non-local node
of every data centre has been selected).
-/
import Datacake.Lemmas.Selector

namespace Datacake.Selector

theorem nodup_subset_length : ∀ (l1 l2 : List Nat), l1.Nodup → (∀ x ∈ l1, x ∈ l2) → l1.length ≤ l2.length := by
  intro l1
  induction l1 with
  | nil => intro l2 _ _; simp
  | cons a t ih =>
    intro l2 hnd hsub
    rw [List.nodup_cons] at hnd
    have ha : a ∈ l2 := hsub a List.mem_cons_self
    have hsub' : ∀ x ∈ t, x ∈ l2.erase a := by
      intro x hx
      have hxa : x ≠ a := fun e => hnd.1 (e ▸ hx)
      exact (List.mem_erase_of_ne hxa).2 (hsub x (List.mem_cons_of_mem _ hx))
    have := ih (l2.erase a) hnd.2 hsub'
    rw [List.length_erase_of_mem ha] at this
    have hpos : 0 < l2.length := List.length_pos_of_mem ha
    simp only [List.length_cons]
    omega

/-! ### one full turn of a cycler visits every node -/

def norm (c : Cycler) : Nat := if c.cursor ≥ c.nodes.length then 0 else c.cursor

/-- The outputs of `k` calls of `next`. -/
def outs : Nat → Cycler → List (Option Nat)
  | 0, _ => []
  | k + 1, c => c.next.1 :: outs k c.next.2

def iter : Nat → Cycler → Cycler
  | 0, c => c
  | k + 1, c => iter k c.next.2

theorem iter_nodes (k : Nat) (c : Cycler) : (iter k c).nodes = c.nodes := by
  induction k generalizing c with
  | zero => rfl
  | succ k ih => simp only [iter]; rw [ih]; rfl

theorem outs_add (k1 k2 : Nat) (c : Cycler) : outs (k1 + k2) c = outs k1 c ++ outs k2 (iter k1 c) := by
  induction k1 generalizing c with
  | zero => simp [outs, iter]
  | succ k ih =>
    have : k + 1 + k2 = (k + k2) + 1 := by omega
    rw [this]
    simp only [outs, iter, List.cons_append]
    rw [ih]

/-- Without wrapping around, `k` calls return the next `k` nodes in list order and advance the
cursor by `k`. -/
theorem norm_next (c : Cycler) (h : norm c + 1 < c.nodes.length) : norm c.next.2 = norm c + 1 := by
  show (if c.next.2.cursor ≥ c.next.2.nodes.length then 0 else c.next.2.cursor) = norm c + 1
  have h1 : c.next.2.cursor = norm c + 1 := rfl
  have h2 : c.next.2.nodes = c.nodes := rfl
  rw [h1, h2, if_neg (by omega)]

theorem outs_noWrap : ∀ (k : Nat) (c : Cycler), 0 < k → norm c + k ≤ c.nodes.length →
    outs k c = ((c.nodes.drop (norm c)).take k).map some ∧ (iter k c).cursor = norm c + k := by
  intro k
  induction k with
  | zero => intro c h; omega
  | succ k ih =>
    intro c _ hle
    have hlt : norm c < c.nodes.length := by omega
    have hnext1 : c.next.1 = c.nodes[norm c]? := rfl
    have hnextc : c.next.2.cursor = norm c + 1 := rfl
    have hnextn : c.next.2.nodes = c.nodes := rfl
    have hget : c.nodes[norm c]? = some (c.nodes[norm c]'hlt) := List.getElem?_eq_getElem hlt
    have hdrop := List.drop_eq_getElem_cons hlt
    by_cases hk : k = 0
    · subst hk
      simp only [outs, iter]
      refine ⟨?_, by rw [hnextc]⟩
      rw [hnext1, hget, hdrop]
      rfl
    · have hnorm' : norm c.next.2 = norm c + 1 := norm_next c (by omega)
      obtain ⟨h1, h2⟩ := ih c.next.2 (by omega) (by rw [hnorm', hnextn]; omega)
      simp only [outs, iter]
      refine ⟨?_, by rw [h2, hnorm']; omega⟩
      rw [h1, hnext1, hget, hnorm', hnextn, hdrop, List.take_succ_cons, List.map_cons]

/-- **A full turn visits every node.** -/
theorem turn_visits_all (c : Cycler) : ∀ x ∈ c.nodes, some x ∈ outs c.nodes.length c := by
  intro x hx
  have hpos : 0 < c.nodes.length := List.length_pos_of_mem hx
  have hn : norm c < c.nodes.length := by
    unfold norm; split <;> omega
  generalize hk1 : c.nodes.length - norm c = k1
  generalize hk2 : norm c = k2 at hn hk1
  have hsplit : c.nodes.length = k1 + k2 := by omega
  rw [hsplit, outs_add]
  obtain ⟨h1, h2⟩ := outs_noWrap k1 c (by omega) (by rw [hk2]; omega)
  rw [hk2] at h1 h2
  have hx' : x ∈ c.nodes.take k2 ++ c.nodes.drop k2 := by rw [List.take_append_drop]; exact hx
  rcases List.mem_append.1 hx' with hin | hin
  · -- second phase: the cursor stands at the end, the next calls start from index 0
    apply List.mem_append_right
    by_cases h0 : k2 = 0
    · rw [h0] at hin; simp at hin
    · have hnodes := iter_nodes k1 c
      have hcur : (iter k1 c).cursor ≥ (iter k1 c).nodes.length := by rw [h2, hnodes]; omega
      have hnorm2 : norm (iter k1 c) = 0 := by
        show (if (iter k1 c).cursor ≥ (iter k1 c).nodes.length then 0 else (iter k1 c).cursor) = 0
        rw [if_pos hcur]
      obtain ⟨h3, _⟩ := outs_noWrap k2 (iter k1 c) (by omega) (by rw [hnorm2, hnodes]; omega)
      rw [h3, hnorm2, hnodes]
      simp only [List.drop_zero]
      exact List.mem_map.2 ⟨x, hin, rfl⟩
  · apply List.mem_append_left
    rw [h1]
    have : (c.nodes.drop k2).take k1 = c.nodes.drop k2 := by
      apply List.take_of_length_le; simp; omega
    rw [this]
    exact List.mem_map.2 ⟨x, hin, rfl⟩

/-! ### the sweep of one data centre -/

theorem sweepDc_spec (local_ n : Nat) : ∀ (k : Nat) (c : Cycler) (sel : List Nat),
    sel.Nodup → local_ ∉ sel →
    let r := sweepDc local_ n k c sel
    r.1.nodes = c.nodes ∧ r.2.Nodup ∧ local_ ∉ r.2 ∧ (∀ x ∈ r.2, x ∈ sel ∨ x ∈ c.nodes) ∧
    (∀ x ∈ sel, x ∈ r.2) ∧ (sel.length ≤ n → r.2.length ≤ n) := by
  intro k
  induction k with
  | zero => intro c sel hnd hl; exact ⟨rfl, hnd, hl, fun x hx => Or.inl hx, fun x hx => hx, fun h => h⟩
  | succ k ih =>
    intro c sel hnd hl
    simp only [sweepDc]
    by_cases hge : sel.length ≥ n
    · rw [if_pos hge]; exact ⟨rfl, hnd, hl, fun x hx => Or.inl hx, fun x hx => hx, fun h => h⟩
    · rw [if_neg hge]
      cases hn : c.next with
      | mk o c' =>
        have hc' : c'.nodes = c.nodes := by have := next_nodes c; rw [hn] at this; exact this
        cases o with
        | none =>
          simp only
          obtain ⟨h1, h2, h3, h4, h5, h6⟩ := ih c' sel hnd hl
          exact ⟨h1.trans hc', h2, h3, fun x hx => (h4 x hx).elim Or.inl (fun h => Or.inr (hc' ▸ h)), h5, h6⟩
        | some node =>
          simp only
          have hmem : node ∈ c.nodes := next_mem c node (by rw [hn])
          by_cases hskip : node = local_ ∨ sel.contains node = true
          · rw [if_pos hskip]
            obtain ⟨h1, h2, h3, h4, h5, h6⟩ := ih c' sel hnd hl
            exact ⟨h1.trans hc', h2, h3, fun x hx => (h4 x hx).elim Or.inl (fun h => Or.inr (hc' ▸ h)), h5, h6⟩
          · rw [if_neg hskip]
            have hne : node ≠ local_ := fun e => hskip (Or.inl e)
            have hnc : node ∉ sel := fun e => hskip (Or.inr (by simpa using e))
            have hnd' : (sel ++ [node]).Nodup := by
              rw [List.nodup_append]
              exact ⟨hnd, by simp, fun a ha b hb => by
                simp only [List.mem_singleton] at hb; subst hb; exact fun e => hnc (e ▸ ha)⟩
            have hl' : local_ ∉ sel ++ [node] := by
              simp only [List.mem_append, List.mem_singleton, not_or]
              exact ⟨hl, fun e => hne e.symm⟩
            obtain ⟨h1, h2, h3, h4, h5, h6⟩ := ih c' (sel ++ [node]) hnd' hl'
            refine ⟨h1.trans hc', h2, h3, ?_, ?_, ?_⟩
            · intro x hx
              rcases h4 x hx with h | h
              · rcases List.mem_append.1 h with h | h
                · exact Or.inl h
                · simp only [List.mem_singleton] at h; subst h; exact Or.inr hmem
              · exact Or.inr (hc' ▸ h)
            · intro x hx; exact h5 x (List.mem_append_left _ hx)
            · intro _; apply h6; simp only [List.length_append, List.length_singleton]; omega

/-- If the sweep of a data centre ends short of `n`, every output of the cycler that is a
non-local node has been selected. -/
theorem sweepDc_covers_outs (local_ n : Nat) : ∀ (k : Nat) (c : Cycler) (sel : List Nat),
    sel.Nodup → local_ ∉ sel → (sweepDc local_ n k c sel).2.length < n →
    ∀ x, some x ∈ outs k c → x ≠ local_ → x ∈ (sweepDc local_ n k c sel).2 := by
  intro k
  induction k with
  | zero => intro c sel _ _ _ x hx; simp [outs] at hx
  | succ k ih =>
    intro c sel hnd hl hshort x hx hxl
    simp only [sweepDc] at hshort ⊢
    by_cases hge : sel.length ≥ n
    · rw [if_pos hge] at hshort; simp only at hshort; omega
    · rw [if_neg hge] at hshort ⊢
      simp only [outs, List.mem_cons] at hx
      cases hn : c.next with
      | mk o c' =>
        rw [hn] at hshort hx
        cases o with
        | none =>
          simp only at hshort hx ⊢
          rcases hx with hx | hx
          · cases hx
          · exact ih c' sel hnd hl hshort x hx hxl
        | some node =>
          simp only at hshort hx ⊢
          by_cases hskip : node = local_ ∨ sel.contains node = true
          · rw [if_pos hskip] at hshort ⊢
            rcases hx with hx | hx
            · injection hx with hx; subst hx
              rcases hskip with h | h
              · exact absurd h hxl
              · exact (sweepDc_spec local_ n k c' sel hnd hl).2.2.2.2.1 x (by simpa using h)
            · exact ih c' sel hnd hl hshort x hx hxl
          · rw [if_neg hskip] at hshort ⊢
            have hne : node ≠ local_ := fun e => hskip (Or.inl e)
            have hnc : node ∉ sel := fun e => hskip (Or.inr (by simpa using e))
            have hnd' : (sel ++ [node]).Nodup := by
              rw [List.nodup_append]
              exact ⟨hnd, by simp, fun a ha b hb => by
                simp only [List.mem_singleton] at hb; subst hb; exact fun e => hnc (e ▸ ha)⟩
            have hl' : local_ ∉ sel ++ [node] := by
              simp only [List.mem_append, List.mem_singleton, not_or]
              exact ⟨hl, fun e => hne e.symm⟩
            rcases hx with hx | hx
            · injection hx with hx; subst hx
              exact (sweepDc_spec local_ n k c' (sel ++ [x]) hnd' hl').2.2.2.2.1 x (by simp)
            · exact ih c' (sel ++ [node]) hnd' hl' hshort x hx hxl

/-! ### the sweep of all data centres -/

theorem sweep_spec (local_ n : Nat) : ∀ (dcs : Dcs) (sel : List Nat), sel.Nodup → local_ ∉ sel →
    let r := sweep local_ n dcs sel
    layoutOf r.1 = layoutOf dcs ∧ r.2.Nodup ∧ local_ ∉ r.2 ∧ (∀ x ∈ r.2, x ∈ sel ∨ x ∈ allNodes dcs) ∧
    (∀ x ∈ sel, x ∈ r.2) ∧ (sel.length ≤ n → r.2.length ≤ n) := by
  intro dcs
  induction dcs with
  | nil => intro sel hnd hl; exact ⟨rfl, hnd, hl, fun x hx => Or.inl hx, fun x hx => hx, fun h => h⟩
  | cons p rest ih =>
    intro sel hnd hl
    obtain ⟨d, c⟩ := p
    simp only [sweep]
    obtain ⟨a1, a2, a3, a4, a5, a6⟩ := sweepDc_spec local_ n c.nodes.length c sel hnd hl
    obtain ⟨b1, b2, b3, b4, b5, b6⟩ := ih (sweepDc local_ n c.nodes.length c sel).2 a2 a3
    refine ⟨?_, b2, b3, ?_, fun x hx => b5 x (a5 x hx), fun h => b6 (a6 h)⟩
    · simp only [layoutOf, List.map_cons] at b1 ⊢
      rw [a1, b1]
    · intro x hx
      rcases b4 x hx with h | h
      · rcases a4 x h with h | h
        · exact Or.inl h
        · right; simp only [allNodes, List.map_cons, List.flatten_cons, List.mem_append]; exact Or.inl h
      · right; simp only [allNodes, List.map_cons, List.flatten_cons, List.mem_append]; exact Or.inr h

/-- **Completeness of the sweep**: if it ends short of `n`, every non-local node of every data
centre is selected. -/
theorem sweep_covers (local_ n : Nat) : ∀ (dcs : Dcs) (sel : List Nat), sel.Nodup → local_ ∉ sel →
    (sweep local_ n dcs sel).2.length < n →
    ∀ x ∈ allNodes dcs, x ≠ local_ → x ∈ (sweep local_ n dcs sel).2 := by
  intro dcs
  induction dcs with
  | nil => intro sel _ _ _ x hx; simp [allNodes] at hx
  | cons p rest ih =>
    intro sel hnd hl hshort x hx hxl
    obtain ⟨d, c⟩ := p
    simp only [sweep] at hshort ⊢
    obtain ⟨a1, a2, a3, a4, a5, a6⟩ := sweepDc_spec local_ n c.nodes.length c sel hnd hl
    obtain ⟨b1, b2, b3, b4, b5, b6⟩ := sweep_spec local_ n rest (sweepDc local_ n c.nodes.length c sel).2 a2 a3
    simp only [allNodes, List.map_cons, List.flatten_cons, List.mem_append] at hx
    rcases hx with hx | hx
    · -- a node of this data centre: the first sweep did not stop early (the total stayed short)
      apply b5
      apply sweepDc_covers_outs local_ n c.nodes.length c sel hnd hl ?_ x (turn_visits_all c x hx) hxl
      have hmono : (sweepDc local_ n c.nodes.length c sel).2.length ≤ (sweep local_ n rest (sweepDc local_ n c.nodes.length c sel).2).2.length := by
        have hsub : ∀ y ∈ (sweepDc local_ n c.nodes.length c sel).2, y ∈ (sweep local_ n rest (sweepDc local_ n c.nodes.length c sel).2).2 := b5
        exact nodup_subset_length _ _ a2 hsub
      omega
    · exact ih (sweepDc local_ n c.nodes.length c sel).2 a2 a3 hshort x hx hxl

end Datacake.Selector
