/-
Model of the frame layer of `datacake-rpc` (C12) and of the handler registry (C13).

* `crc32` is CRC-32/ISO-HDLC (what `crc32fast::hash` computes), bit by bit.
* `mkFrame` is `rkyv_tooling::to_view_bytes` after serialisation: body ++ little-endian CRC.
* `checkFrame fixed frame` is `DataView::<T>::using` for a message type whose archived root
  occupies `fixed` bytes (`size_of::<Archived<T>>()`): `none` = `InvalidView`.
  `checkFrameLegacy` is the pinned code, without the length guard (defect D3).
* The registry: `services : name ↦ keys`, `handlers : key ↦ handler`, as in `ServerState`.

Bytes are `Nat`s below 256.  No imports: linked into `dcdriver`.
-/
namespace Datacake.Rpc

/-! ### CRC-32 -/

def POLY : BitVec 32 := 0xEDB88320#32

/-- One input bit through the reflected CRC register. -/
def crcBit (r : BitVec 32) (b : Bool) : BitVec 32 :=
  let x := r ^^^ (if b then 1#32 else 0#32)
  if x.getLsbD 0 then (x >>> 1) ^^^ POLY else x >>> 1

/-- The 8 bits of a byte, least significant first. -/
def byteBits (b : Nat) : List Bool := (List.range 8).map (fun i => b.testBit i)

def bitsOf (bytes : List Nat) : List Bool := bytes.flatMap byteBits

def crcRaw (r : BitVec 32) (bits : List Bool) : BitVec 32 := bits.foldl crcBit r

/-- `crc32fast::hash`. -/
def crc32 (bytes : List Nat) : Nat :=
  ((crcRaw 0xFFFFFFFF#32 (bitsOf bytes)) ^^^ 0xFFFFFFFF#32).toNat

/-! ### Frames -/

def le32 (v : Nat) : List Nat := [v % 256, v / 256 % 256, v / 65536 % 256, v / 16777216 % 256]

def fromLe32 (bs : List Nat) : Nat :=
  match bs with
  | [a, b, c, d] => a + 256 * b + 65536 * c + 16777216 * d
  | _ => 0

/-- `to_view_bytes` given the serialised body. -/
def mkFrame (body : List Nat) : List Nat := body ++ le32 (crc32 body)

/-- `DataView::using` (current tree). -/
def checkFrame (fixed : Nat) (frame : List Nat) : Option (List Nat) :=
  if frame.length < 4 then none
  else
    let body := frame.take (frame.length - 4)
    let trailer := frame.drop (frame.length - 4)
    if fromLe32 trailer ≠ crc32 body then none
    else if body.length < fixed then none
    else some body

/-- `DataView::using` since fix D35, for a message type whose archived root has `fixed` bytes and
needs the alignment `align`: the root sits at the end of the body, in a buffer whose start is
aligned for every type (`AlignedVec`: 16), so its position `body.length - fixed` must be a multiple
of `align` - otherwise no reference to it may be formed and the frame is refused.  (`checkFrame`
above is the check before that fix: checksum and minimum length only.) -/
def checkFrameA (fixed align : Nat) (frame : List Nat) : Option (List Nat) :=
  match checkFrame fixed frame with
  | none => none
  | some body => if (body.length - fixed) % align = 0 then some body else none

/-- `DataView::using` of the pinned tree: no length guard before `archived_root`. -/
def checkFrameLegacy (_fixed : Nat) (frame : List Nat) : Option (List Nat) :=
  if frame.length < 4 then none
  else
    let body := frame.take (frame.length - 4)
    let trailer := frame.drop (frame.length - 4)
    if fromLe32 trailer ≠ crc32 body then none
    else some body

/-- Flip bit `i` (0..7) of byte `j` of a buffer. -/
def flipBit (buf : List Nat) (j i : Nat) : List Nat :=
  match buf.drop j with
  | [] => buf
  | x :: rest => buf.take j ++ (x ^^^ (1 <<< i)) :: rest

/-! ### Handler registry (C13) -/

/-- `ServerState`: `services` maps a service name to its handler keys, `handlers` maps a key to
the installed handler (identified by a number: the instance that was added). -/
structure Registry where
  services : List (Nat × List Nat)
  handlers : List (Nat × Nat)

def Registry.empty : Registry := ⟨[], []⟩

def lookup {α : Type} (m : List (Nat × α)) (k : Nat) : Option α :=
  match m with
  | [] => none
  | (k', v) :: rest => if k' = k then some v else lookup rest k

def remove {α : Type} (m : List (Nat × α)) (k : Nat) : List (Nat × α) :=
  m.filter (fun p => p.1 ≠ k)

/-- `ServerState::add_handlers(service_name, handlers)`: every key of the new instance is added
to the service's key set, and the handler map is extended (replacing older handlers of equal key). -/
def addHandlers (st : Registry) (name : Nat) (keys : List Nat) (inst : Nat) : Registry :=
  let old := (lookup st.services name).getD []
  { services := (name, keys ++ old) :: remove st.services name,
    handlers := keys.map (fun k => (k, inst)) ++ st.handlers.filter (fun p => !keys.contains p.1) }

/-- `ServerState::remove_handlers(service)` (current tree): drops the handlers whose key belongs
to the removed service. -/
def removeHandlers (st : Registry) (name : Nat) : Registry :=
  match lookup st.services name with
  | none => st
  | some uris =>
    { services := remove st.services name,
      handlers := st.handlers.filter (fun p => !uris.contains p.1) }

/-- The pinned code (defect D4): the `retain` predicate is inverted. -/
def removeHandlersLegacy (st : Registry) (name : Nat) : Registry :=
  match lookup st.services name with
  | none => st
  | some uris =>
    { services := remove st.services name,
      handlers := st.handlers.filter (fun p => uris.contains p.1) }

/-- `ServerState::get_handler`. -/
def getHandler (st : Registry) (key : Nat) : Option Nat := lookup st.handlers key

/-! ### Request paths (`lib.rs: to_uri_path`, `sanitise`) -/

/-- The bytes `sanitise` copies: ASCII letters, digits, `-` `.` `_` `~` and `:`. -/
def unreserved (b : Nat) : Bool :=
  (65 ≤ b && b ≤ 90) || (97 ≤ b && b ≤ 122) || (48 ≤ b && b ≤ 57) ||
  b == 45 || b == 46 || b == 95 || b == 126 || b == 58

/-- `{:02X}`: one upper-case hexadecimal digit. -/
def hexDigit (n : Nat) : Nat := if n < 10 then 48 + n else 55 + n

/-- One byte of a name: copied, or `%XX`. -/
def encByte (b : Nat) : List Nat :=
  if unreserved b then [b] else [37, hexDigit (b / 16), hexDigit (b % 16)]

/-- `sanitise` (current tree): percent-encode everything but the unreserved bytes. -/
def sanitise (name : List Nat) : List Nat := name.flatMap encByte

/-- `to_uri_path`: `format!("/{}/{}", sanitise(service), sanitise(path))`. -/
def toUri (service path : List Nat) : List Nat := 47 :: (sanitise service ++ 47 :: sanitise path)

/-- The tree before the `fix:` commit for D15: `<` and `>` become `-`, nothing else is touched. -/
def sanitiseLegacy (name : List Nat) : List Nat := name.map (fun b => if b == 60 || b == 62 then 45 else b)

def toUriLegacy (service path : List Nat) : List Nat := 47 :: (sanitiseLegacy service ++ 47 :: sanitiseLegacy path)

/-- What `http::Uri` accepts in a path (RFC 3986 `pchar` and `/`): the bytes that matter here. -/
def uriPathByte (b : Nat) : Bool :=
  unreserved b || b == 37 || b == 47 || b == 33 || b == 36 || (38 ≤ b && b ≤ 44) || b == 59 || b == 61 || b == 64

end Datacake.Rpc
