/-
Protocol-level model of one RPC exchange path (C14): `RpcClient::send` → `Channel::send_msg`
(`send_inner`: one HTTP/2 stream per request, optional `tokio::time::timeout`, error mapping) →
network → server dispatch → handler → reply on the same stream.

The model is a labelled transition system whose labels are exactly the events that `harness-sim`
observes on the real code (`Datacake.Monitor.Ev`).  What it says about the parts that are not this
repository's code is an *assumption*, recorded in the trusted base and checked at run time by trace
inclusion (every observed trace must be a run of this model):

  * a request put on a stream is in the network at most once (`inReq`): the transport may lose it
    or delay it, never duplicate it — so a handler run consumes it (`hbegin` removes it);
  * a reply travels on the stream of its request (`inRep` holds `(id, value)` pairs) and the value
    is the one the handler computed for that request;
  * a completion is either that reply, or a connection error, or — only when a timeout is
    configured — a timeout error, and with a timeout configured it happens no later than
    `send time + tau + slack`.

`exec` is deterministic given the label, so `run` is an executable acceptor.  No imports beyond the
monitor and the association-list map: linked into `dcdriver`.
-/
import Datacake.Basic.Map
import Datacake.Model.Monitor

namespace Datacake.RpcNet
open Datacake Datacake.Monitor

structure Net where
  /-- requests handed to the client, with their send time -/
  sent : Map := []
  /-- requests travelling towards the server (not yet handed to a handler) -/
  inReq : List Nat := []
  /-- handler runs in progress -/
  running : List Nat := []
  /-- requests for which a handler run has begun, ever -/
  begun : List Nat := []
  /-- replies travelling back: (request id, value) -/
  inRep : List (Nat × Nat) := []
  /-- requests whose call has returned to the caller -/
  done : List Nat := []
  deriving Repr

def init : Net := {}

/-- `tokio::time::timeout(tau, fut)`: with a timeout configured the call returns by the deadline
(plus the scheduler's granularity `slack`); without one there is no bound. -/
def deadlineOk (tau slack st t : Nat) : Bool := tau == 0 || decide (t ≤ st + tau + slack)

def exec (tau slack : Nat) (s : Net) : Ev → Option Net
  | .send id t =>
    if Map.get s.sent id = none then some { s with sent := (id, t) :: s.sent, inReq := id :: s.inReq } else none
  | .hbegin id _ =>
    if id ∈ s.inReq then
      some { s with inReq := s.inReq.filter (· ≠ id), running := id :: s.running, begun := id :: s.begun }
    else none
  | .hend id _ =>
    if id ∈ s.running then
      some { s with running := s.running.filter (· ≠ id), inRep := (id, expected id) :: s.inRep }
    else none
  | .done id o t =>
    match Map.get s.sent id with
    | none => none
    | some st =>
      if id ∈ s.done then none
      else if deadlineOk tau slack st t = false then none
      else match o with
        | .reply v =>
          if (id, v) ∈ s.inRep then some { s with inRep := s.inRep.filter (· ≠ (id, v)), done := id :: s.done }
          else none
        | .conn => some { s with done := id :: s.done }
        | .timeout => if tau ≠ 0 then some { s with done := id :: s.done } else none
        | .invalid => none
        | .other => none

/-- Run a whole trace; `none` = the trace is not a behaviour of the protocol model. -/
def run (tau slack : Nat) : Net → List Ev → Option Net
  | s, [] => some s
  | s, e :: rest =>
    match exec tau slack s e with
    | none => none
    | some s' => run tau slack s' rest

/-- Position of the first event the model refuses, for the report. -/
def firstRefused (tau slack : Nat) : Net → List Ev → Nat → Option Nat
  | _, [], _ => none
  | s, e :: rest, n =>
    match exec tau slack s e with
    | none => some n
    | some s' => firstRefused tau slack s' rest (n + 1)

end Datacake.RpcNet
