/-
Model of `datacake-crdt/src/orswot.rs` (`NodeVersions<N>` and `OrSWotSet<N>`), one Lean function
per Rust function, same branch order.

* `F` is `FORGIVENESS_PERIOD` in milliseconds (3 600 000 in product builds, 0 under `cfg(test)` of
  the crdt crate); every function takes it as a parameter and every theorem holds for all `F`.
* `N` (the const generic) is the length of `maxs`.
* Keys and timestamps are `Nat` (`u64`); timestamps are the packed form (Model/Timestamp.lean).
* `tryUpdateMax` is the acceptance rule of the current tree (after the `fix:` commit for defect D1);
  `tryUpdateMaxLegacy` is the pinned rule, kept for negation witnesses only.

No imports beyond the two model files: linked into `dcdriver`.
-/
import Datacake.Basic.Map
import Datacake.Model.Timestamp

namespace Datacake

structure OrSwot where
  entries : Map            -- `entries: BTreeMap<Key, HLCTimestamp>`
  dead : Map               -- `dead: HashMap<Key, HLCTimestamp>`
  maxs : List Map          -- `versions.nodes_max_stamps: [BTreeMap<u8, HLCTimestamp>; N]`
  safe : Map               -- `versions.safe_last_stamps`
  deriving Repr

namespace OrSwot
open Ts

def empty (n : Nat) : OrSwot := ⟨[], [], List.replicate n [], []⟩

/-- `compute_safe_last_stamp`: `if time < FORGIVENESS_PERIOD { new(0, 0, node) } else { new(time - FORGIVENESS_PERIOD,
min.counter(), min.node()) }`. -/
def forgive (F t : Nat) : Nat :=
  if dts t < F then pack 0 0 (node t)      -- younger than the forgiveness period: the very first stamp of the node (fix D17)
  else pack (dts t - F) (counter t) (node t)

/-- The cut-off before the `fix:` commit for D17: `saturating_sub` clamps the time to 0 but the counter
of the newest stamp is kept. -/
def forgiveLegacy (F t : Nat) : Nat := pack (dts t - F) (counter t) (node t)

/-- Minimum of a non-empty list given as head and tail (`Iterator::min`). -/
def minList (x : Nat) (xs : List Nat) : Nat := xs.foldl min x

/-- `NodeVersions::compute_safe_last_stamp`. -/
def computeSafe (F : Nat) (maxs : List Map) (safe : Map) (nd : Nat) : Map :=
  match maxs.map (fun m => (m.get nd).getD (pack 0 0 nd)) with
  | [] => safe
  | x :: xs => safe.set nd (forgive F (minList x xs))

/-- `NodeVersions::is_ts_before_last_observed_event`. -/
def isBefore (safe : Map) (ts : Nat) : Bool :=
  match safe.get (node ts) with
  | some v => decide (ts < v)
  | none => false

def modifyNth (l : List Map) (i : Nat) (f : Map → Map) : List Map :=
  match l, i with
  | [], _ => []
  | x :: xs, 0 => f x :: xs
  | x :: xs, i + 1 => x :: modifyNth xs i f

/-- `NodeVersions::try_update_max_stamp` (current tree): refuses exactly what `will_apply`
refuses — stamps before the per-origin safe cut-off — and otherwise raises the per-source maximum
to `max(old, ts)`.  Returns the new `(maxs, safe)` or `none` for "refused". -/
def tryUpdateMax (F : Nat) (s : OrSwot) (src ts : Nat) : Option (List Map × Map) :=
  if isBefore s.safe ts then none
  else
    let maxs' := modifyNth s.maxs src (fun m =>
      match m.get (node ts) with
      | some old => if old < ts then m.set (node ts) ts else m
      | none => m.set (node ts) ts)
    some (maxs', computeSafe F maxs' s.safe (node ts))

/-- The pinned rule (defect D1): a stamp older than the newest one already seen from the same
origin *on the same source* is refused.  The safe stamp is recomputed on both paths. -/
def tryUpdateMaxLegacy (F : Nat) (s : OrSwot) (src ts : Nat) : (List Map × Map) × Bool :=
  match ((s.maxs.getD src []).get (node ts)) with
  | some old =>
    if ts < old then ((s.maxs, computeSafe F s.maxs s.safe (node ts)), false)
    else
      let maxs' := modifyNth s.maxs src (fun m => m.set (node ts) ts)
      ((maxs', computeSafe F maxs' s.safe (node ts)), true)
  | none =>
    let maxs' := modifyNth s.maxs src (fun m => m.set (node ts) ts)
    ((maxs', computeSafe F maxs' s.safe (node ts)), true)

/-- The part of `insert_with_source` after the version check. -/
def insertCore (s : OrSwot) (k ts : Nat) : OrSwot × Bool :=
  match s.dead.get k with
  | some d =>
    if ts < d then (s, false)          -- removed and re-inserted: unchanged
    else
      let s1 := { s with dead := s.dead.erase k }
      match s1.entries.get k with
      | some v => if v < ts then ({ s1 with entries := s1.entries.set k ts }, true) else (s1, false)
      | none => ({ s1 with entries := s1.entries.set k ts }, true)
  | none =>
    match s.entries.get k with
    | some v => if v < ts then ({ s with entries := s.entries.set k ts }, true) else (s, false)
    | none => ({ s with entries := s.entries.set k ts }, true)

/-- The part of `delete_with_source` after the version check. -/
def deleteCore (s : OrSwot) (k ts : Nat) : OrSwot × Bool :=
  match s.entries.get k with
  | some e =>
    if ts ≤ e then (s, false)          -- "Inserts *always* win on conflicting timestamps."
    else
      let s1 := { s with entries := s.entries.erase k }
      match s1.dead.get k with
      | some v => if v < ts then ({ s1 with dead := s1.dead.set k ts }, true) else (s1, false)
      | none => ({ s1 with dead := s1.dead.set k ts }, true)
  | none =>
    match s.dead.get k with
    | some v => if v < ts then ({ s with dead := s.dead.set k ts }, true) else (s, false)
    | none => ({ s with dead := s.dead.set k ts }, true)

/-- `OrSWotSet::insert_with_source`. -/
def insertWithSource (F : Nat) (s : OrSwot) (src k ts : Nat) : OrSwot × Bool :=
  match tryUpdateMax F s src ts with
  | none => (s, false)
  | some (maxs', safe') => insertCore { s with maxs := maxs', safe := safe' } k ts

/-- `OrSWotSet::delete_with_source`. -/
def deleteWithSource (F : Nat) (s : OrSwot) (src k ts : Nat) : OrSwot × Bool :=
  match tryUpdateMax F s src ts with
  | none => (s, false)
  | some (maxs', safe') => deleteCore { s with maxs := maxs', safe := safe' } k ts

def insertWithSourceLegacy (F : Nat) (s : OrSwot) (src k ts : Nat) : OrSwot × Bool :=
  match tryUpdateMaxLegacy F s src ts with
  | ((maxs', safe'), false) => ({ s with maxs := maxs', safe := safe' }, false)
  | ((maxs', safe'), true) => insertCore { s with maxs := maxs', safe := safe' } k ts

def deleteWithSourceLegacy (F : Nat) (s : OrSwot) (src k ts : Nat) : OrSwot × Bool :=
  match tryUpdateMaxLegacy F s src ts with
  | ((maxs', safe'), false) => ({ s with maxs := maxs', safe := safe' }, false)
  | ((maxs', safe'), true) => deleteCore { s with maxs := maxs', safe := safe' } k ts

/-- `OrSWotSet::will_apply`. -/
def willApply (s : OrSwot) (k ts : Nat) : Bool :=
  if isBefore s.safe ts then false
  else match s.entries.get k with
    | some e => decide (e < ts)
    | none =>
      match s.dead.get k with
      | some d => decide (d < ts)
      | none => true

/-- `OrSWotSet::get`. -/
def get (s : OrSwot) (k : Nat) : Option Nat := s.entries.get k

/-- `check_self_then_insert_to`: does `self` lack `(key, ts)`? -/
def lacks (s : OrSwot) (k ts : Nat) : Bool :=
  match s.entries.get k with
  | some e => decide (e < ts)
  | none =>
    match s.dead.get k with
    | some d => decide (d < ts)
    | none => !isBefore s.safe ts

/-- `OrSWotSet::diff`: `(changes, removals)`. -/
def diff (a b : OrSwot) : List (Nat × Nat) × List (Nat × Nat) :=
  (b.entries.bindings.filter (fun p => lacks a p.1 p.2),
   b.dead.bindings.filter (fun p => lacks a p.1 p.2))

/-- `OrSWotSet::purge_old_deletes`: `(new set, purged tombstones)`. -/
def purgeOldDeletes (s : OrSwot) : OrSwot × List (Nat × Nat) :=
  let all := s.dead.bindings
  ({ s with dead := all.filter (fun p => !isBefore s.safe p.2) },
   all.filter (fun p => isBefore s.safe p.2))

/-- `OrSWotSet::add_raw_tombstones`. -/
def addRawTombstones (s : OrSwot) (ts : List (Nat × Nat)) : OrSwot :=
  { s with dead := ts.foldl (fun d p => d.set p.1 p.2) s.dead }

/-! ### merge -/

structure LogItem where
  key : Nat
  ts : Nat
  isDelete : Bool
  deriving Repr

/-- Stable insertion into a list sorted by `ts` (`sort_by_key` is a stable sort). -/
def insertSorted (x : LogItem) : List LogItem → List LogItem
  | [] => [x]
  | y :: ys => if x.ts < y.ts then x :: y :: ys else y :: insertSorted x ys

def sortLog (l : List LogItem) : List LogItem := l.foldr insertSorted []

/-- State of the first loop of `merge`: the set being built and the not-yet-consumed
`old_entries`. -/
structure MergeSt where
  s : OrSwot
  old : Map

/-- One iteration of the log loop of `merge`. -/
def mergeStep (st : MergeSt) (it : LogItem) : MergeSt :=
  let s := st.s
  if it.isDelete && isBefore s.safe it.ts then st
  else if it.isDelete then
    match s.entries.get it.key with
    | some e =>
      if it.ts < e then st
      else
        let s1 := { s with entries := s.entries.erase it.key }
        let d' := match s1.dead.get it.key with
          | some v => max v it.ts
          | none => it.ts
        { st with s := { s1 with dead := s1.dead.set it.key d' } }
    | none =>
      let d' := match s.dead.get it.key with
        | some v => max v it.ts
        | none => it.ts
      { st with s := { s with dead := s.dead.set it.key d' } }
  else
    let (timestamp, old') := match st.old.get it.key with
      | some e => (max it.ts e, st.old.erase it.key)
      | none => (it.ts, st.old)
    match s.dead.get it.key with
    | some d =>
      if timestamp < d then { s := s, old := old' }
      else { s := { s with dead := s.dead.erase it.key, entries := s.entries.set it.key timestamp },
             old := old' }
    | none => { s := { s with entries := s.entries.set it.key timestamp }, old := old' }

/-- One iteration of the left-over loop of `merge`. -/
def leftoverStep (remoteSafe : Map) (s : OrSwot) (p : Nat × Nat) : OrSwot :=
  if isBefore remoteSafe p.2 then s
  else match s.dead.get p.1 with
    | some d =>
      if p.2 < d then s
      else { s with dead := s.dead.erase p.1, entries := s.entries.set p.1 p.2 }
    | none => { s with entries := s.entries.set p.1 p.2 }

/-- `NodeVersions::merge`. -/
def mergeVersions (F : Nat) (maxs : List Map) (safe : Map) (other : List Map) : List Map × Map :=
  let rec go (mine theirs : List Map) : List Map :=
    match mine, theirs with
    | m :: ms, t :: ts =>
      (t.bindings.foldl (fun acc p =>
        match acc.get p.1 with
        | some old => if p.2 < old then acc else acc.set p.1 p.2
        | none => acc.set p.1 p.2) m) :: go ms ts
    | ms, _ => ms
  let maxs' := go maxs other
  let nodes := (other.map (fun t => t.bindings.map Prod.fst)).flatten
  (maxs', nodes.foldl (fun sf nd => computeSafe F maxs' sf nd) safe)

/-- `OrSWotSet::merge`. -/
def merge (F : Nat) (self other : OrSwot) : OrSwot :=
  let log := sortLog (other.entries.bindings.map (fun p => ⟨p.1, p.2, false⟩) ++
                      other.dead.bindings.map (fun p => ⟨p.1, p.2, true⟩))
  let st0 : MergeSt := { s := { self with entries := [] }, old := self.entries }
  let st1 := log.foldl mergeStep st0
  let s2 := st1.old.bindings.foldl (leftoverStep other.safe) st1.s
  let (maxs', safe') := mergeVersions F s2.maxs s2.safe other.maxs
  { s2 with maxs := maxs', safe := safe' }

end OrSwot
end Datacake
