/-
Model of the two background services of the eventually consistent store that consume membership
changes (`datacake-eventual-consistency/src/replication/distributor.rs: task_distributor_service`
and `poller.rs: replication_cycle`) and of the task that feeds them
(`lib.rs: watch_membership_changes`: every change read from the node's `MembershipChanges` stream
is handed to both services).

Both services own an unbounded FIFO queue and a `live_members` map.  On every tick of their
interval they drain the WHOLE queue in order (`while let Ok(op) = rx.try_recv()`), applying each
membership change (`left` removed, then `joined` inserted) and — the distributor — collecting the
mutations per keyspace; the distributor then sends ONE batch to the members live AFTER the drain,
the poller polls those members.

`α` is the payload of a mutation (a document or its metadata): opaque here.  The per-keyspace maps
are `BTreeMap`s in the code; the model keeps association lists in first-appearance order — the
order of keyspaces inside a batch is not observable (the receiver treats keyspaces independently),
all statements are about lookups.

No imports beyond the membership model: linked into `dcdriver`.
-/
import Datacake.Model.Membership

namespace Datacake.Replication
open Datacake.Membership

/-- `Mutation` of distributor.rs. -/
inductive Mutation (α : Type) where
  | put (ks : String) (doc : α)
  | multiPut (ks : String) (docs : List α)
  | del (ks : String) (doc : α)
  | multiDel (ks : String) (docs : List α)

/-- `Op` of distributor.rs (the poller's `Op` only has `change`). -/
inductive Op (α : Type) where
  | change (d : Delta)
  | mutation (m : Mutation α)

/-- `entry(ks).or_default().extend(docs)` on an association list. -/
def extend {α : Type} (m : List (String × List α)) (ks : String) (docs : List α) : List (String × List α) :=
  match m with
  | [] => [(ks, docs)]
  | (k, v) :: rest => if k = ks then (k, v ++ docs) :: rest else (k, v) :: extend rest ks docs

def lookup {α : Type} (m : List (String × List α)) (ks : String) : Option (List α) :=
  match m with
  | [] => none
  | (k, v) :: rest => if k = ks then some v else lookup rest ks

/-- What one drain accumulates. -/
structure Acc (α : Type) where
  live : List Member
  puts : List (String × List α) := []
  dels : List (String × List α) := []

/-- `register_mutation`. -/
def register {α : Type} (a : Acc α) : Mutation α → Acc α
  | .put ks d => { a with puts := extend a.puts ks [d] }
  | .multiPut ks ds => { a with puts := extend a.puts ks ds }
  | .del ks d => { a with dels := extend a.dels ks [d] }
  | .multiDel ks ds => { a with dels := extend a.dels ks ds }

/-- One queue entry processed by the drain loop. -/
def drainStep {α : Type} (a : Acc α) : Op α → Acc α
  | .change d => { a with live := applyDelta a.live d }
  | .mutation m => register a m

/-- The batch one tick sends, and to whom (`execute_batch` iterates `live_members`). -/
structure Batch (α : Type) where
  targets : List Member
  modified : List (String × List α)
  removed : List (String × List α)

/-- The distributor: its `live_members` map and the queue behind its handle. -/
structure Dist (α : Type) where
  live : List Member := []
  queue : List (Op α) := []

def Dist.enqueue {α : Type} (d : Dist α) (op : Op α) : Dist α := { d with queue := d.queue ++ [op] }

/-- One tick of `task_distributor_service`: drain everything queued, then send one batch — if any
mutation was queued — to the members live after the drain. -/
def Dist.tick {α : Type} (d : Dist α) : Dist α × Option (Batch α) :=
  let a := d.queue.foldl drainStep { live := d.live }
  let batch := if a.puts.isEmpty && a.dels.isEmpty then none
    else some { targets := a.live, modified := a.puts, removed := a.dels }
  ({ live := a.live, queue := [] }, batch)

/-- The poller (`replication_cycle`): `live_members`, the queue, and the node ids the keyspace
tracker holds an entry for (`KeyspaceTracker.inner` keys). -/
structure Poller where
  live : List Member := []
  queue : List Delta := []
  tracked : List Nat := []

/-- One membership change processed by the poller's drain: `left` members are removed from the
live map AND from the tracker, `joined` ones inserted. -/
def pollerStep (p : Poller) (d : Delta) : Poller :=
  { p with live := applyDelta p.live d,
           tracked := p.tracked.filter (fun id => !(d.left.map (·.1)).contains id) }

/-- One cycle: drain, then poll every live member; `polled ok` are the members whose poll and
sync succeeded in this cycle (`set_keyspace` creates/updates their tracker entry). -/
def Poller.cycle (p : Poller) (ok : List Nat) : Poller :=
  let p1 := p.queue.foldl pollerStep { p with queue := [] }
  { p1 with tracked := p1.tracked ++ ((p1.live.map (·.1)).filter (fun id => ok.contains id && !p1.tracked.contains id)) }

/-- `watch_membership_changes` of the store (lib.rs): one read of the node's `MembershipChanges`
stream; the change (if the stream yields one) goes to both services. -/
structure Pipeline (α : Type) where
  fwd : Sub := {}
  dist : Dist α := {}
  poller : Poller := {}

def Pipeline.forward {α : Type} (self : Nat) (p : Pipeline α) (c : Chan) : Pipeline α :=
  match p.fwd.poll self c with
  | (none, _) => p
  | (some d, fwd') =>
    { fwd := fwd', dist := p.dist.enqueue (.change d), poller := { p.poller with queue := p.poller.queue ++ [d] } }

end Datacake.Replication
