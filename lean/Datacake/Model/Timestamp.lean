/-
Model of `datacake-crdt/src/timestamp.rs`.

A timestamp is the packed `u64`, represented as a `Nat` (`Ts`).  The derived `Ord` of the
Rust newtype `HLCTimestamp(u64)` is `<` on that number.  `Duration`s are represented in
milliseconds: every duration the code handles is built from whole seconds and whole
milliseconds (`parts_as_duration`, `MAX_CLOCK_DRIFT`, `FORGIVENESS_PERIOD`, and the wall clock
reading, which `get_datacake_timestamp` normalises to a multiple of 4 ms).

No imports: this file is linked into the `dcdriver` executable.
-/
namespace Datacake

/-- Packed timestamp (`HLCTimestamp.0`). Not an `abbrev`, so that `omega` sees a plain `Nat`. -/
def Ts := Nat

namespace Ts

scoped notation "U64" => (18446744073709551616 : Nat)        -- 2^64
scoped notation "TIMESTAMP_MAX" => (4294967295 : Nat)        -- (1 << 32) - 1
scoped notation "MAX_CLOCK_DRIFT_MS" => (4100000 : Nat)      -- 4_100 s (notation, so that `omega` sees the literal)

/-- `duration_to_parts`: `(as_secs, subsec_millis / 4 as u8)`. -/
def durSecs (ms : Nat) : Nat := ms / 1000
def durFrac (ms : Nat) : Nat := (ms % 1000) / 4

/-- `parts_as_duration(seconds, fractional)` in milliseconds. -/
def partsAsDuration (secs frac : Nat) : Nat := secs * 1000 + frac * 4

/-- `pack(duration, counter, node)`: `(seconds << 32) | (fractional << 24) | (counter << 8) | node`
on `u64`.  The shift of `seconds` drops the bits above 2^64 (Rust `<<` does not check the value,
only the shift amount).  The four fields do not overlap (`fractional < 250`, `counter < 2^16`,
`node < 2^8`), so `|` is `+`. -/
def pack (ms ctr node : Nat) : Nat :=
  (durSecs ms * 4294967296) % 18446744073709551616 + durFrac ms * 16777216 + ctr * 256 + node

def node (t : Nat) : Nat := t % 256
def counter (t : Nat) : Nat := (t / 256) % 65536
def fractional (t : Nat) : Nat := (t / 16777216) % 256
def seconds (t : Nat) : Nat := t / 4294967296

/-- `datacake_timestamp()` in milliseconds. -/
def dts (t : Nat) : Nat := partsAsDuration (seconds t) (fractional t)

inductive Err where
  | duplicatedNode | clockDrift | overflow
  deriving DecidableEq, Repr

/-- Outcome of a call that can also panic (`assert!` in `HLCTimestamp::new`). -/
inductive Res (α : Type) where
  | ok (a : α) | err (e : Err) | panic
  deriving Repr

/-- `HLCTimestamp::new`: asserts `seconds <= TIMESTAMP_MAX`. -/
def new? (ms ctr node : Nat) : Option Nat :=
  if durSecs ms ≤ TIMESTAMP_MAX then some (pack ms ctr node) else none

/-- `DATACAKE_EPOCH` in milliseconds since the UNIX epoch (1 January 2023, 01:01:01 UTC). -/
def DATACAKE_EPOCH_MS : Nat := 1672534861000

/-- `get_datacake_timestamp` for a system clock reading `unixMs` (ms since the UNIX epoch): the time
since the datacake epoch at 4 ms resolution.  A reading BEFORE the epoch reads as the epoch itself
(fix D28; the pinned code subtracted the `Duration`s and panicked on the underflow). -/
def wallOfUnix (unixMs : Nat) : Nat :=
  let d := unixMs - DATACAKE_EPOCH_MS          -- truncated subtraction: `saturating_sub`
  partsAsDuration (durSecs d) (durFrac d)

/-- The pinned conversion: `none` = panic ("overflow when subtracting durations"). -/
def wallOfUnixLegacy (unixMs : Nat) : Option Nat :=
  if unixMs < DATACAKE_EPOCH_MS then none
  else some (partsAsDuration (durSecs (unixMs - DATACAKE_EPOCH_MS)) (durFrac (unixMs - DATACAKE_EPOCH_MS)))

/-- `HLCTimestamp::send`, with the wall-clock reading `wall` (ms, a multiple of 4) as argument.
Returns the new clock value (which is also the returned stamp). -/
def send (c wall : Nat) : Except Err Nat :=
  let tsOld := dts c
  let cOld := counter c
  let tsNew := max tsOld wall
  if tsNew - wall > MAX_CLOCK_DRIFT_MS then .error .clockDrift
  else if durSecs tsNew > TIMESTAMP_MAX then .error .overflow      -- not representable (fix D16)
  else if tsOld = tsNew then
    (if cOld + 1 > 65535 then .error .overflow else .ok (pack tsNew (cOld + 1) (node c)))
  else .ok (pack tsNew 0 (node c))

/-- `send` before the `fix:` commit for D16: no range check, the packed seconds wrap. -/
def sendLegacy (c wall : Nat) : Except Err Nat :=
  let tsOld := dts c
  let cOld := counter c
  let tsNew := max tsOld wall
  if tsNew - wall > MAX_CLOCK_DRIFT_MS then .error .clockDrift
  else if tsOld = tsNew then
    (if cOld + 1 > 65535 then .error .overflow else .ok (pack tsNew (cOld + 1) (node c)))
  else .ok (pack tsNew 0 (node c))

/-- The counter rule of `recv`. -/
def recvCounter (tsNew tsOld tsMsg cOld cMsg : Nat) : Except Err Nat :=
  if tsNew = tsOld ∧ tsNew = tsMsg then
    (if max cOld cMsg + 1 > 65535 then .error .overflow else .ok (max cOld cMsg + 1))
  else if tsNew = tsOld then
    (if cOld + 1 > 65535 then .error .overflow else .ok (cOld + 1))
  else if tsNew = tsMsg then
    (if cMsg + 1 > 65535 then .error .overflow else .ok (cMsg + 1))
  else .ok 0

/-- `HLCTimestamp::recv`.  Result: `(new clock value, returned stamp)`.
The returned stamp is `Self::new(ts_new, self.counter(), msg.node())`, which can panic. -/
def recv (c wall msg : Nat) : Res (Nat × Nat) :=
  if node c = node msg then .err .duplicatedNode
  else
    let tsMsg := dts msg
    let cMsg := counter msg
    if tsMsg - wall > MAX_CLOCK_DRIFT_MS then .err .clockDrift
    else
      let tsOld := dts c
      let cOld := counter c
      let tsNew := max (max tsOld wall) tsMsg
      if tsNew - wall > MAX_CLOCK_DRIFT_MS then .err .clockDrift
      else if durSecs tsNew > TIMESTAMP_MAX then .err .overflow      -- not representable (fix D16)
      else match recvCounter tsNew tsOld tsMsg cOld cMsg with
        | .error e => .err e
        | .ok cNew =>
          let c' := pack tsNew cNew (node c)
          match new? tsNew (counter c') (node msg) with
          | some r => .ok (c', r)
          | none => .panic   -- NB: the clock HAS been updated at this point in the Rust

/-- The archived form: `rkyv` stores the `u64` little-endian. -/
def archive (t : Nat) : List Nat :=
  (List.range 8).map (fun i => (t / 256 ^ i) % 256)

def unarchive (bs : List Nat) : Nat :=
  bs.foldr (fun b acc => b + 256 * acc) 0

/-! ### Text form (`Display` / `FromStr`) over `List Char` -/

def digitChar (d : Nat) : Char :=
  if d = 0 then '0' else if d = 1 then '1' else if d = 2 then '2' else if d = 3 then '3'
  else if d = 4 then '4' else if d = 5 then '5' else if d = 6 then '6' else if d = 7 then '7'
  else if d = 8 then '8' else if d = 9 then '9' else if d = 10 then 'A' else if d = 11 then 'B'
  else if d = 12 then 'C' else if d = 13 then 'D' else if d = 14 then 'E' else 'F'

/-- Digits of `n` in base `b` (2 ≤ b ≤ 16), most significant first, with fuel. -/
def digitsAux (b : Nat) : Nat → Nat → List Char → List Char
  | 0, _, acc => acc
  | fuel + 1, n, acc =>
    if n < b then digitChar n :: acc
    else digitsAux b fuel (n / b) (digitChar (n % b) :: acc)

/-- `{}` / `{:X}` of an unsigned integer. -/
def showNat (b n : Nat) : List Char := digitsAux b (n + 1) n []

/-- `{:0>4}`: left-pad with `'0'` to width 4 (longer strings are not truncated). -/
def pad4 (s : List Char) : List Char := List.replicate (4 - s.length) '0' ++ s

/-- `Display for HLCTimestamp`: `"{}-{:0>4}-{:0>4X}-{:0>4}"`. -/
def display (t : Nat) : List Char :=
  showNat 10 (seconds t) ++ '-' :: pad4 (showNat 10 (fractional t)) ++ '-' ::
    pad4 (showNat 16 (counter t)) ++ '-' :: pad4 (showNat 10 (node t))

/-- Value of a digit character in radix ≤ 16 (`char::to_digit`). -/
def charDigit (b : Nat) (c : Char) : Option Nat :=
  let v :=
    if '0' ≤ c ∧ c ≤ '9' then some (c.toNat - '0'.toNat)
    else if 'a' ≤ c ∧ c ≤ 'f' then some (c.toNat - 'a'.toNat + 10)
    else if 'A' ≤ c ∧ c ≤ 'F' then some (c.toNat - 'A'.toNat + 10)
    else none
  match v with
  | some d => if d < b then some d else none
  | none => none

/-- Accumulate digits; `none` on a bad digit or when the value exceeds `maxv` (overflow). -/
def parseDigits (b maxv : Nat) : List Char → Nat → Option Nat
  | [], acc => some acc
  | c :: cs, acc =>
    match charDigit b c with
    | none => none
    | some d =>
      let acc' := acc * b + d
      if acc' > maxv then none else parseDigits b maxv cs acc'

/-- Rust's `from_str_radix` for an unsigned type with maximum `maxv`: optional leading `+`,
at least one digit, no other sign, overflow is an error. -/
def parseUnsigned (b maxv : Nat) (s : List Char) : Option Nat :=
  match s with
  | [] => none
  | '+' :: rest => (match rest with | [] => none | _ => parseDigits b maxv rest 0)
  | _ => parseDigits b maxv s 0

/-- Splits at the first `'-'`: the text before it, and the text after it if there is one. -/
def breakDash : List Char → List Char × Option (List Char)
  | [] => ([], none)
  | c :: cs =>
    if c = '-' then ([], some cs)
    else ((c :: (breakDash cs).1), (breakDash cs).2)

/-- `s.splitn(n + 1, '-')`. -/
def splitn : Nat → List Char → List (List Char)
  | 0, s => [s]
  | n + 1, s =>
    match breakDash s with
    | (a, none) => [a]
    | (a, some rest) => a :: splitn n rest

inductive ParseRes where
  | ok (t : Nat) | invalid | panic
  deriving DecidableEq, Repr

/-- `FromStr for HLCTimestamp` as in the pinned tree: the fields are parsed, then
`Self::new(parts_as_duration(seconds, fractional), counter, node)` is called, which panics when
the `Duration` addition overflows or when the normalised seconds exceed `TIMESTAMP_MAX`. -/
def fromStrLegacy (s : List Char) : ParseRes :=
  match splitn 3 s with
  | [a, b, c, d] =>
    match parseUnsigned 10 (U64 - 1) a, parseUnsigned 10 255 b,
          parseUnsigned 16 65535 c, parseUnsigned 10 255 d with
    | some secs, some frac, some ctr, some nd =>
      -- Duration::from_secs(secs) + Duration::from_millis(frac*4) panics on overflow of the seconds
      if secs + (frac * 4) / 1000 > U64 - 1 then .panic
      else match new? (partsAsDuration secs frac) ctr nd with
        | some t => .ok t
        | none => .panic
    | _, _, _, _ => .invalid
  | _ => .invalid

/-- `FromStr` after the repair for D2 (out-of-range seconds are `InvalidFormat`) and before the one
for D25: the fields went through a `Duration`, which carries a fractional part of 250..255 over
into the seconds - the text form of a non-canonical stamp did not read back as written. -/
def fromStrNormalising (s : List Char) : ParseRes :=
  match splitn 3 s with
  | [a, b, c, d] =>
    match parseUnsigned 10 (U64 - 1) a, parseUnsigned 10 255 b,
          parseUnsigned 16 65535 c, parseUnsigned 10 255 d with
    | some secs, some frac, some ctr, some nd =>
      if secs > TIMESTAMP_MAX then .invalid
      else match new? (partsAsDuration secs frac) ctr nd with
        | some t => .ok t
        | none => .invalid
    | _, _, _, _ => .invalid
  | _ => .invalid

/-- `FromStr` (current tree, fix D25): the four fields go back exactly where `Display` took them
from: `(seconds << 32) | (fractional << 24) | (counter << 8) | node`. -/
def fromStr (s : List Char) : ParseRes :=
  match splitn 3 s with
  | [a, b, c, d] =>
    match parseUnsigned 10 (U64 - 1) a, parseUnsigned 10 255 b,
          parseUnsigned 16 65535 c, parseUnsigned 10 255 d with
    | some secs, some frac, some ctr, some nd =>
      if secs > TIMESTAMP_MAX then .invalid
      else .ok (secs * 4294967296 + frac * 16777216 + ctr * 256 + nd)
    | _, _, _, _ => .invalid
  | _ => .invalid

end Ts
end Datacake
