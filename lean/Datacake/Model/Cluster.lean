/-
Model of a cluster of `N` nodes of the eventually consistent store, one keyspace
(`datacake-eventual-consistency`: `ReplicatedStoreHandle::put/del/put_many/del_many` applied
locally, the `ConsistencyService` handlers for direct replication and batches, and one
anti-entropy exchange of `replication/poller.rs`: poll → get_state → diff → removals /
modifications, with the poller's per-peer keyspace tracker).

Events are the things the background timers and the network trigger; their order, loss,
duplication and the order of the two halves of an exchange are chosen by the history.

No imports beyond the models: linked into `dcdriver`.
-/
import Datacake.Model.Keyspace

namespace Datacake.Cluster
open Datacake.Keyspace Datacake.OrSwot Datacake.Storage

/-- An operation issued by a client at some node. -/
inductive Issued where
  | put (d : Doc)
  | del (id ts : Nat)
  | mput (ds : List Doc)
  | mdel (ds : List (Nat × Nat))
  deriving Repr

/-- One node: its keyspace (set + store), whether the keyspace actor exists yet, the keyspace's
change stamp (abstracted to a counter: a fresh value at creation and at every
`inc_change_timestamp`), the pending storage fault, and what it recorded about each peer. -/
structure CNode where
  ks : Node := {}
  exists_ : Bool := false
  change : Nat := 0
  failNext : Bool := false
  tracker : List (Option Nat) := []     -- per peer: change stamp of the last successful exchange
  deriving Inhabited

structure Cluster where
  nodes : List CNode := []
  ops : List (Nat × Issued) := []       -- (origin, operation), oldest first
  clockTick : Nat := 1                  -- source of fresh change stamps

def F : Nat := 3600000

def getNode (c : Cluster) (i : Nat) : CNode := c.nodes.getD i default
def setNode (c : Cluster) (i : Nat) (n : CNode) : Cluster := { c with nodes := c.nodes.set i n }

/-- `get_or_create_keyspace` on node `i`. -/
def touch (c : Cluster) (i : Nat) : Cluster :=
  let n := getNode c i
  if n.exists_ then c
  else { setNode c i { n with exists_ := true, change := c.clockTick } with clockTick := c.clockTick + 1 }

def bump (c : Cluster) (i : Nat) : Cluster :=
  let n := getNode c i
  { setNode c i { n with change := c.clockTick } with clockTick := c.clockTick + 1 }

/-- Apply one request to node `i` on source `src`; returns whether the handler returned `Ok`.
A pending fault is consumed by the first storage mutation call. -/
def applyAt (c : Cluster) (i src : Nat) (op : Issued) : Cluster × Bool :=
  let c := touch c i
  let n := getNode c i
  match op with
  | .put d =>
    if !willApply n.ks.set d.1 d.2.1 then (c, true)
    else
      let (ks', out) := onSet F n.ks src d n.failNext
      let c1 := setNode c i { n with ks := ks', failNext := false }
      if out == .ok then (bump c1 i, true) else (c1, false)
  | .del id ts =>
    if !willApply n.ks.set id ts then (c, true)
    else
      let (ks', out) := onDel F n.ks src id ts n.failNext
      let c1 := setNode c i { n with ks := ks', failNext := false }
      if out == .ok then (bump c1 i, true) else (c1, false)
  | .mput ds =>
    -- the bulk storage call is made even for an empty filtered list
    let (ks', out) := onMultiSet F n.ks src ds (if n.failNext then some [] else none)
    let c1 := bump (setNode c i { n with ks := ks', failNext := false }) i
    (c1, out == .ok)
  | .mdel ds =>
    let (ks', out) := onMultiDel F n.ks src ds (if n.failNext then some [] else none)
    let c1 := bump (setNode c i { n with ks := ks', failNext := false }) i
    (c1, out == .ok)

/-- `handle_removals`: a single `Del` for one entry, a `MultiDel` otherwise (nothing when empty). -/
def applyRemovals (c : Cluster) (j : Nat) (removed : List (Nat × Nat)) : Cluster × Bool :=
  match removed with
  | [] => (c, true)
  | [r] => applyAt c j 1 (.del r.1 r.2)
  | rs => applyAt c j 1 (.mdel rs)

/-- `handle_modified`: fetch the listed ids from the peer's store *as it is now*, one `MultiSet`
(nothing is sent when the list is empty). -/
def applyModified (c : Cluster) (j i : Nat) (modified : List (Nat × Nat)) : Cluster × Bool :=
  match modified with
  | [] => (c, true)
  | ms =>
    let peer := (getNode c i).ks.store
    let docs : List Doc := ms.filterMap (fun m =>
      match aget peer.data m.1, aget peer.rows m.1 with
      | some bytes, some (ts, _) => some (m.1, ts, bytes)
      | _, _ => none)
    applyAt c j 1 (.mput docs)

inductive RepairOut where
  | skipped
  | synced (modified removed : Nat)
  | failed
  deriving Repr

/-- One exchange: node `j` repairs from node `i`. -/
def repair (c : Cluster) (j i : Nat) (removalsFirst : Bool) : Cluster × RepairOut :=
  let peer := getNode c i
  let me := getNode c j
  if !peer.exists_ then (c, .skipped)                       -- the peer lists no keyspace
  else if me.tracker.getD i none == some peer.change then (c, .skipped)
  else
    let c := touch c j
    let me := getNode c j
    let lastUpdated := peer.change
    let (modified, removed) := diff me.ks.set peer.ks.set
    let (c1, ok1, ok2) :=
      if removalsFirst then
        let (c1, ok1) := applyRemovals c j removed
        if ok1 then let (c2, ok2) := applyModified c1 j i modified; (c2, ok1, ok2) else (c1, false, false)
      else
        let (c1, ok1) := applyModified c j i modified
        if ok1 then let (c2, ok2) := applyRemovals c1 j removed; (c2, ok1, ok2) else (c1, false, false)
    if ok1 && ok2 then
      let me' := getNode c1 j
      let tr := (List.range (max me'.tracker.length (i + 1))).map (fun x =>
        if x = i then some lastUpdated else me'.tracker.getD x none)
      (setNode c1 j { me' with tracker := tr }, .synced modified.length removed.length)
    else (c1, .failed)

/-- An exchange whose document fetch is refused by the peer (`fetch_docs` is answered with an error:
the peer's storage could not read the documents).  The removal half needs no fetch and runs
(`begin_keyspace_sync` spawns the two halves side by side and lets the removal task finish whatever
happens to the other one); the modification half applies nothing; the exchange reports the failure
and - this is what makes the next poll try again - the tracker keeps what it held.  With nothing to
fetch the exchange is the ordinary one. -/
def repairFetchFail (c : Cluster) (j i : Nat) : Cluster × RepairOut :=
  let peer := getNode c i
  let me := getNode c j
  if !peer.exists_ then (c, .skipped)
  else if me.tracker.getD i none == some peer.change then (c, .skipped)
  else
    let c0 := touch c j
    let dm := diff (getNode c0 j).ks.set peer.ks.set
    if dm.1.isEmpty then repair c j i true
    else ((applyRemovals c0 j dm.2).1, .failed)

/-- Does the exchange ask the peer for documents (so that a refused fetch is met at all)? -/
def repairFetches (c : Cluster) (j i : Nat) : Bool :=
  let peer := getNode c i
  let me := getNode c j
  if !peer.exists_ then false
  else if me.tracker.getD i none == some peer.change then false
  else !(diff (getNode (touch c j) j).ks.set peer.ks.set).1.isEmpty

/-! ### The same exchange in two steps: the peer's store may change between the state snapshot and the document fetch -/

/-- What an exchange has decided once it holds the peer's state: the two lists of the difference,
the peer's change stamp, the order of the halves, and whether the first half succeeded. -/
structure Pending where
  peer : Nat
  modified : List (Nat × Nat)
  removed : List (Nat × Nat)
  lastUpdated : Nat
  removalsFirst : Bool
  deriving Repr

inductive BeginOut where
  | finished (out : RepairOut)        -- nothing to fetch: the exchange is over
  | fetching (p : Pending)            -- the document fetch is on its way to the peer
  deriving Repr

def finishTracker (c : Cluster) (j i lastUpdated : Nat) : Cluster :=
  let me' := getNode c j
  let tr := (List.range (max me'.tracker.length (i + 1))).map (fun x =>
    if x = i then some lastUpdated else me'.tracker.getD x none)
  setNode c j { me' with tracker := tr }

/-- Poll, `GetState`, `Diff`, and whatever precedes the fetch of the documents. -/
def repairBegin (c : Cluster) (j i : Nat) (removalsFirst : Bool) : Cluster × BeginOut :=
  let peer := getNode c i
  let me := getNode c j
  if !peer.exists_ then (c, .finished .skipped)
  else if me.tracker.getD i none == some peer.change then (c, .finished .skipped)
  else
    let c := touch c j
    let me := getNode c j
    let (modified, removed) := diff me.ks.set peer.ks.set
    let p : Pending := ⟨i, modified, removed, peer.change, removalsFirst⟩
    if removalsFirst then
      let (c1, ok1) := applyRemovals c j removed
      if !ok1 then (c1, .finished .failed)
      else if modified.isEmpty then (finishTracker c1 j i peer.change, .finished (.synced 0 removed.length))
      else (c1, .fetching p)
    else if modified.isEmpty then
      let (c1, ok2) := applyRemovals c j removed
      if ok2 then (finishTracker c1 j i peer.change, .finished (.synced 0 removed.length)) else (c1, .finished .failed)
    else (c, .fetching p)

/-- The fetch is answered from the peer's store AS IT IS NOW; then the rest of the exchange. -/
def repairEnd (c : Cluster) (j : Nat) (p : Pending) : Cluster × RepairOut :=
  let (c1, ok1) := applyModified c j p.peer p.modified
  if !ok1 then (c1, .failed)
  else if p.removalsFirst then (finishTracker c1 j p.peer p.lastUpdated, .synced p.modified.length p.removed.length)
  else
    let (c2, ok2) := applyRemovals c1 j p.removed
    if ok2 then (finishTracker c2 j p.peer p.lastUpdated, .synced p.modified.length p.removed.length) else (c2, .failed)

/-- `PurgeDeletes` on node `j` (storage succeeding). -/
def purge (c : Cluster) (j : Nat) : Cluster :=
  let c := touch c j
  let n := getNode c j
  setNode c j { n with ks := (onPurge n.ks none).1 }

/-! ### A write at a consistency level: `handle_consistency_distribution` -/

/-- What the request to one selected replica has done when the deadline of the call passes. -/
inductive Reply where
  | ack        -- the replica's handler returned `Ok`
  | err        -- an error came back (storage error behind a live server, connection refused)
  | silent     -- nothing came back (wedged storage call, frozen process, black-holed connection)
  deriving DecidableEq, Repr

/-- The count arithmetic: `Ok` iff every selected replica acknowledged, otherwise the number that
did and the number selected. -/
def distributeAcks (acks : List Bool) : Except (Nat × Nat) Unit :=
  if (acks.filter id).length = acks.length then .ok () else .error ((acks.filter id).length, acks.length)

/-- `handle_consistency_distribution` (with the deadline of fix D18): a replica that has not
answered when the timeout elapses counts as not having acknowledged. -/
def distribute (rs : List Reply) : Except (Nat × Nat) Unit :=
  distributeAcks (rs.map (fun r => r == .ack))

/-- The pinned loop (`while let Some(res) = requests.next().await`): it waits for every request, so
it returns at all only when no replica stays silent (`none` = the call never returns). -/
def distributeLegacy (rs : List Reply) : Option (Except (Nat × Nat) Unit) :=
  if rs.contains .silent then none else some (distribute rs)

/-- Does the handler reach a storage mutation for this request?  (A refused single write returns
`Ok` without one; the bulk handlers always make the call.) -/
def callsStorage (c : Cluster) (t : Nat) : Issued → Bool
  | .put d => willApply (getNode c t).ks.set d.1 d.2.1
  | .del id ts => willApply (getNode c t).ks.set id ts
  | .mput _ => true
  | .mdel _ => true

/-- The request reaches replica `t`, whose storage call performs the write and then never returns:
the store has the mutation, the handler never gets to update the set or to answer. -/
def hangAt (c : Cluster) (t : Nat) (iss : Issued) : Cluster :=
  let before := (getNode c t).ks.set
  let c' := (applyAt c t 0 iss).1
  let n' := getNode c' t
  setNode c' t { n' with ks := { set := before, store := n'.ks.store } }

/-- One request of the distribution.  `down`: replicas refusing connections; `hangNext`: replicas
whose next storage mutation hangs; `stuck`: replicas already inside a hung handler (their actor
processes nothing further).  Returns the new `stuck` list with the reply. -/
def replicate (c : Cluster) (down hangNext stuck : List Nat) (t : Nat) (iss : Issued) :
    Cluster × List Nat × Reply :=
  if down.contains t then (c, stuck, .err)
  else if stuck.contains t then (c, stuck, .silent)
  else if hangNext.contains t && callsStorage c t iss then (hangAt c t iss, t :: stuck, .silent)
  else
    let (c', ok) := applyAt c t 0 iss
    (c', stuck, if ok then .ack else .err)

/-- The requests to all selected replicas (they are independent: one per replica). -/
def replicateAll (c : Cluster) (down hangNext stuck : List Nat) : List Nat → Issued → Cluster × List Nat × List Reply
  | [], _ => (c, stuck, [])
  | t :: ts, iss =>
    let r1 := replicate c down hangNext stuck t iss
    let r2 := replicateAll r1.1 down hangNext r1.2.1 ts iss
    (r2.1, r2.2.1, r1.2.2 :: r2.2.2)

/-- One batch of the task distributor (`execute_batch`): the mutations queued since the last tick
go to every live member, the replies are only logged.  Since fix D32 each request has a deadline, so
the tick ends whatever the members do and the next batch is sent with the next tick. -/
def broadcast (c : Cluster) (down hangNext stuck : List Nat) (targets : List Nat) (iss : Issued) :
    Cluster × List Nat :=
  let r := replicateAll c down hangNext stuck targets iss
  (r.1, r.2.1)

/-- The batches of successive ticks. -/
def broadcastAll (c : Cluster) (down hangNext stuck : List Nat) (targets : List Nat) :
    List Issued → Cluster × List Nat
  | [] => (c, stuck)
  | iss :: rest =>
    let r := broadcast c down hangNext stuck targets iss
    broadcastAll r.1 down (hangNext.filter (fun t => !r.2.contains t)) r.2 targets rest

/-- The pinned `execute_batch` joined every request without a deadline: the first tick with a silent
member never ended, so no later batch was ever sent - to anybody. -/
def broadcastAllLegacy (c : Cluster) (down hangNext stuck : List Nat) (targets : List Nat) :
    List Issued → Cluster × List Nat
  | [] => (c, stuck)
  | iss :: rest =>
    let r := replicateAll c down hangNext stuck targets iss
    if r.2.2.contains .silent then (r.1, r.2.1)
    else broadcastAllLegacy r.1 down (hangNext.filter (fun t => !r.2.1.contains t)) r.2.1 targets rest

/-- The outcome of a write issued at node `i` at a level whose selected replicas are `targets`. -/
inductive WriteOut where
  | localFailed                       -- the issuer's own handler failed: nothing is sent
  | done (r : Except (Nat × Nat) Unit)
  deriving Repr

/-- `ReplicatedStoreHandle::put / del / put_many / del_many` after node selection: the local
handler, one request per selected replica, `handle_consistency_distribution`.  (The registration
with the task distributor for the later batch broadcast is `ops`: the operation is on record
whatever the outcome.) -/
def write (c : Cluster) (down hangNext stuck : List Nat) (i : Nat) (targets : List Nat) (iss : Issued) :
    Cluster × List Nat × WriteOut :=
  let (c1, okLocal) := applyAt c i 0 iss
  let c1 := { c1 with ops := c1.ops ++ [(i, iss)] }
  if !okLocal then (c1, stuck, .localFailed)
  else
    let (c2, stuck', replies) := replicateAll c1 down hangNext stuck targets iss
    (c2, stuck', .done (distribute replies))

end Datacake.Cluster
