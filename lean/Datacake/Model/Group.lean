/-
Model of `KeyspaceGroup::get_or_create_keyspace` (`datacake-eventual-consistency/src/keyspace/
group.rs`) as a small-step interleaving machine.  Each task runs, in program order,

  0 lookup   (read lock)   — hit: use the actor in the map, skip to 3
  1 spawn    (two awaits: clock, actor spawn; no lock held) — a fresh actor
  2 insert   (write lock)  — current tree: keep an entry another task put there meanwhile
                             (`insertKeep`); pinned tree: overwrite it (`insertLegacy`, defect D7)
  3 send     — one mutation into the mailbox the task obtained
  4 done

A schedule is any list of task ids: each occurrence lets that task take its next step.

No imports: linked into `dcdriver`.
-/
namespace Datacake.Group

structure G where
  map : Option Nat := none            -- the keyspace's entry in `group`: an actor id
  next : Nat := 0                     -- next fresh actor id
  pc : Nat → Nat := fun _ => 0
  created : Nat → Nat := fun _ => 0   -- the actor a task spawned
  held : Nat → Option Nat := fun _ => none   -- the mailbox a task obtained
  sets : Nat → List Nat := fun _ => []       -- per actor: the mutations (task ids) it applied

def upd {α : Type} (f : Nat → α) (k : Nat) (v : α) : Nat → α := fun x => if x = k then v else f x

/-- One step of task `t`; `legacy = true` is the pinned unconditional insert. -/
def step (legacy : Bool) (g : G) (t : Nat) : G :=
  match g.pc t with
  | 0 =>
    match g.map with
    | some a => { g with held := upd g.held t (some a), pc := upd g.pc t 3 }
    | none => { g with pc := upd g.pc t 1 }
  | 1 => { g with created := upd g.created t g.next, next := g.next + 1, pc := upd g.pc t 2 }
  | 2 =>
    match (if legacy then none else g.map) with
    | some a => { g with held := upd g.held t (some a), pc := upd g.pc t 3 }
    | none => { g with map := some (g.created t), held := upd g.held t (some (g.created t)),
                       pc := upd g.pc t 3 }
  | 3 =>
    match g.held t with
    | some a => { g with sets := upd g.sets a (t :: g.sets a), pc := upd g.pc t 4 }
    | none => { g with pc := upd g.pc t 4 }
  | _ => g

def run (legacy : Bool) (schedule : List Nat) : G := schedule.foldl (step legacy) {}

/-- The set peers later synchronise against: the one of the actor in the map. -/
def visible (g : G) : List Nat :=
  match g.map with
  | some a => g.sets a
  | none => []

end Datacake.Group

/-! ### Several keyspace names at once

The same machine with the map the group really holds: keyspace NAME ↦ actor.  `name t` is the
keyspace task `t` uses.  Tasks of different names interfere only through the map and the supply of
fresh actors. -/
namespace Datacake.Group

structure GN where
  map : Nat → Option Nat := fun _ => none    -- keyspace name ↦ actor id
  next : Nat := 0
  pc : Nat → Nat := fun _ => 0
  created : Nat → Nat := fun _ => 0
  held : Nat → Option Nat := fun _ => none
  sets : Nat → List Nat := fun _ => []
  snap : Nat → (Nat → Option Nat) := fun _ => fun _ => none   -- (copy-on-write variant only) the map a task's lookup missed in

/-- One step of task `t` (current tree: the write-locked insert keeps an existing entry OF ITS NAME
and touches no other name). -/
def stepN (name : Nat → Nat) (g : GN) (t : Nat) : GN :=
  match g.pc t with
  | 0 =>
    match g.map (name t) with
    | some a => { g with held := upd g.held t (some a), pc := upd g.pc t 3 }
    | none => { g with pc := upd g.pc t 1 }
  | 1 => { g with created := upd g.created t g.next, next := g.next + 1, pc := upd g.pc t 2 }
  | 2 =>
    match g.map (name t) with
    | some a => { g with held := upd g.held t (some a), pc := upd g.pc t 3 }
    | none => { g with map := upd g.map (name t) (some (g.created t)), held := upd g.held t (some (g.created t)),
                       pc := upd g.pc t 3 }
  | 3 =>
    match g.held t with
    | some a => { g with sets := upd g.sets a (t :: g.sets a), pc := upd g.pc t 4 }
    | none => { g with pc := upd g.pc t 4 }
  | _ => g

def runN (name : Nat → Nat) (schedule : List Nat) : GN := schedule.foldl (stepN name) {}

/-- The set peers synchronise against for keyspace `n`. -/
def visibleN (g : GN) (n : Nat) : List Nat :=
  match g.map n with
  | some a => g.sets a
  | none => []

/-- A copy-on-write map (seeded change C18-rBm1): the map is replaced as a whole; a task builds the
next version from the SNAPSHOT its lookup missed in (taken before the two awaits); the re-check
under the write lock looks at its own name only. -/
def stepCow (name : Nat → Nat) (g : GN) (t : Nat) : GN :=
  match g.pc t with
  | 0 =>
    match g.map (name t) with
    | some a => { g with held := upd g.held t (some a), pc := upd g.pc t 3 }
    | none => { g with snap := upd g.snap t g.map, pc := upd g.pc t 1 }
  | 1 => { g with created := upd g.created t g.next, next := g.next + 1, pc := upd g.pc t 2 }
  | 2 =>
    match g.map (name t) with
    | some a => { g with held := upd g.held t (some a), pc := upd g.pc t 3 }
    | none => { g with map := upd (g.snap t) (name t) (some (g.created t)), held := upd g.held t (some (g.created t)),
                       pc := upd g.pc t 3 }
  | 3 =>
    match g.held t with
    | some a => { g with sets := upd g.sets a (t :: g.sets a), pc := upd g.pc t 4 }
    | none => { g with pc := upd g.pc t 4 }
  | _ => g

def runCow (name : Nat → Nat) (schedule : List Nat) : GN := schedule.foldl (stepCow name) {}

end Datacake.Group
