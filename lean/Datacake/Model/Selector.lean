/-
Model of `datacake-node/src/nodes_selector.rs`: `NodeCycler`, `DCAwareSelector::select_nodes`,
`select_n_nodes` and the selector actor (`SetNodes` / `GetNodes` with its per-level cache).

Addresses and data-centre names are `Nat`s (names ordered as the `BTreeMap` orders them).  The
random `choose_multiple` of `select_n_nodes` is an explicit argument (`choice`: the data centres
picked, in the order the iterator returned them; recorded from the real run by hook H3).
`setNodes` is the current tree (after the `fix:` commit for D10: the map is rebuilt);
`setNodesLegacy` is the pinned behaviour (data centres are only ever inserted).

No imports: linked into `dcdriver`.
-/
namespace Datacake.Selector

structure Cycler where
  cursor : Nat
  nodes : List Nat
  deriving Repr

/-- `Iterator for NodeCycler`. -/
def Cycler.next (c : Cycler) : Option Nat × Cycler :=
  let cur := if c.cursor ≥ c.nodes.length then 0 else c.cursor
  (c.nodes[cur]?, { c with cursor := cur + 1 })

abbrev Dcs := List (Nat × Cycler)     -- sorted by data-centre name

def getDc (dcs : Dcs) (d : Nat) : Option Cycler :=
  match dcs with
  | [] => none
  | (d', c) :: rest => if d' = d then some c else getDc rest d

def setDc (dcs : Dcs) (d : Nat) (c : Cycler) : Dcs :=
  dcs.map (fun p => if p.1 = d then (d, c) else p)

inductive Level where
  | none | one | two | three | quorum | localQuorum | all | eachQuorum
  deriving DecidableEq, Repr

inductive Res where
  | ok (nodes : List Nat)
  | notEnough (live required : Nat)
  | panic
  deriving Repr, DecidableEq

/-- State of the loop of `select_n_nodes`. -/
structure LoopSt where
  dcs : Dcs
  selected : List Nat       -- in push order
  extra : Nat               -- `num_extra_nodes`
  dcCount : Nat             -- `dc_count`
  panicked : Bool := false

/-- The extra-node loop: `for _ in 0..k { if let Some(node) = dc_nodes.next() { … } }`. -/
def extraLoop (local_ : Nat) : Nat → Cycler → List Nat → Nat → Cycler × List Nat × Nat
  | 0, c, sel, extra => (c, sel, extra)
  | k + 1, c, sel, extra =>
    match c.next with
    | (some node, c') =>
      if node = local_ ∨ sel.contains node then extraLoop local_ k c' sel extra
      else extraLoop local_ k c' (sel ++ [node]) (extra - 1)
    | (none, c') => extraLoop local_ k c' sel extra

/-- One iteration of the loop over the selected data centres. -/
def loopStep (local_ : Nat) (st : LoopSt) (d : Nat) : LoopSt :=
  if st.panicked then st else
  match getDc st.dcs d with
  | none => st      -- the selected entries are references into the map: always present
  | some c =>
    match c.next with
    | (none, c1) =>
      { st with dcs := setDc st.dcs d c1, extra := st.extra + 1, dcCount := st.dcCount - 1 }
    | (some node, c1) =>
      let pick : Option (Nat × Cycler) :=
        if node = local_ then
          (if c1.nodes.length ≤ 1 then none
           else match c1.next with
             | (some n2, c2) => some (n2, c2)
             | (none, c2) => some (node, c2))    -- unreachable (`unwrap` on a non-empty cycler)
        else some (node, c1)
      match pick with
      | none =>
        { st with dcs := setDc st.dcs d c1, extra := st.extra + 1, dcCount := st.dcCount - 1 }
      | some (nd, c2) =>
        let sel := st.selected ++ [nd]
        if st.extra = 0 then { st with dcs := setDc st.dcs d c2, selected := sel }
        else if st.dcCount = 0 then { st with panicked := true }   -- `dc_count - 1` underflow
        else
          let perDc := st.extra / max (st.dcCount - 1) 1
          let (c3, sel', extra') := extraLoop local_ perDc c2 sel st.extra
          { st with dcs := setDc st.dcs d c3, selected := sel', extra := extra',
                    dcCount := st.dcCount - 1 }

/-- The fallback sweep over one data centre (current tree, after the `fix:` commit for D11): at
most one full turn of the cycler, taking every node that is neither the local node nor selected
yet, until `n` are selected. -/
def sweepDc (local_ n : Nat) : Nat → Cycler → List Nat → Cycler × List Nat
  | 0, c, sel => (c, sel)
  | k + 1, c, sel =>
    if sel.length ≥ n then (c, sel)
    else match c.next with
      | (some node, c') =>
        if node = local_ ∨ sel.contains node then sweepDc local_ n k c' sel
        else sweepDc local_ n k c' (sel ++ [node])
      | (none, c') => sweepDc local_ n k c' sel

/-- The fallback sweep over all data centres, in map order. -/
def sweep (local_ n : Nat) : Dcs → List Nat → Dcs × List Nat
  | [], sel => ([], sel)
  | (d, c) :: rest, sel =>
    let r := sweepDc local_ n c.nodes.length c sel
    let r2 := sweep local_ n rest r.2
    ((d, r.1) :: r2.1, r2.2)

/-- `select_n_nodes`.  `choice` is used only when there are more eligible data centres than `n`. -/
def selectN (local_ localDc n total : Nat) (dcs : Dcs) (choice : List Nat) : Res × Dcs :=
  let localLen := match getDc dcs localDc with | some c => c.nodes.length | none => 0
  let numOutside := total - localLen
  let canSkip := decide (numOutside ≥ n)
  if canSkip ∧ dcs.length = 0 then (.panic, dcs) else
  let numDcs := if canSkip then dcs.length - 1 else dcs.length
  let filtered := (dcs.filter (fun p => !(canSkip && p.1 == localDc))).map (·.1)
  let (extra0, selectedDcs) := if numDcs ≤ n then (n - numDcs, filtered) else (0, choice)
  let st0 : LoopSt := { dcs := dcs, selected := [], extra := extra0, dcCount := selectedDcs.length }
  let st := selectedDcs.foldl (loopStep local_) st0
  if st.panicked then (.panic, st.dcs)
  else if st.selected.length ≥ n then (.ok st.selected, st.dcs)
  else
    -- a skipped candidate of the extra-node loop is not replaced there: sweep every data centre once more
    let r := sweep local_ n st.dcs st.selected
    if r.2.length ≥ n then (.ok r.2, r.1) else (.notEnough r.2.length n, r.1)

/-- The pinned `select_n_nodes` (defect D11): no fallback sweep.  Kept for the negation witness. -/
def selectNLegacy (local_ localDc n total : Nat) (dcs : Dcs) (choice : List Nat) : Res × Dcs :=
  let localLen := match getDc dcs localDc with | some c => c.nodes.length | none => 0
  let numOutside := total - localLen
  let canSkip := decide (numOutside ≥ n)
  if canSkip ∧ dcs.length = 0 then (.panic, dcs) else
  let numDcs := if canSkip then dcs.length - 1 else dcs.length
  let filtered := (dcs.filter (fun p => !(canSkip && p.1 == localDc))).map (·.1)
  let (extra0, selectedDcs) := if numDcs ≤ n then (n - numDcs, filtered) else (0, choice)
  let st0 : LoopSt := { dcs := dcs, selected := [], extra := extra0, dcCount := selectedDcs.length }
  let st := selectedDcs.foldl (loopStep local_) st0
  if st.panicked then (.panic, st.dcs)
  else if st.selected.length ≥ n then (.ok st.selected, st.dcs)
  else (.notEnough st.selected.length n, st.dcs)

/-- Is `choice` a possible outcome of `choose_multiple(&mut rng, n)` over the data centres
`select_n_nodes` iterates (all of them, minus the local one when enough nodes live outside it)?
Vacuous when the random branch is not taken.  The driver refuses a recorded choice that is not
(the recorder is a hook: this ties what it reports to the iterator of the model). -/
def choiceValid (localDc n total : Nat) (dcs : Dcs) (choice : List Nat) : Bool :=
  let localLen := match getDc dcs localDc with | some c => c.nodes.length | none => 0
  let canSkip := decide (total - localLen ≥ n)
  let numDcs := if canSkip then dcs.length - 1 else dcs.length
  let filtered := (dcs.filter (fun p => !(canSkip && p.1 == localDc))).map (·.1)
  decide (numDcs ≤ n) || (decide (choice.length = n) && choice.all (fun d => filtered.contains d) &&
    choice.all (fun d => choice.count d == 1))

/-- Round-robin over per-DC lists (the `Quorum` branch). -/
def quorumLoop : Nat → List (List Nat) → List Nat → Nat → Res
  | 0, _, sel, majority => .notEnough sel.length majority
  | fuel + 1, its, sel, majority =>
    if sel.length ≥ majority then .ok sel
    else
      let heads := its.filterMap List.head?
      let sel' := sel ++ heads
      if sel'.length = sel.length then .notEnough sel'.length majority
      else quorumLoop fuel (its.map List.tail) sel' majority

/-- `DCAwareSelector::select_nodes`. -/
def selectNodes (local_ localDc total : Nat) (dcs : Dcs) (lvl : Level) (choice : List Nat) :
    Res × Dcs :=
  match lvl with
  | .one => selectN local_ localDc 1 total dcs choice
  | .two => selectN local_ localDc 2 total dcs choice
  | .three => selectN local_ localDc 3 total dcs choice
  | .quorum =>
    let majority := total / 2
    let its := dcs.map (fun p => p.2.nodes.filter (· ≠ local_))
    (quorumLoop (total + 1) its [] majority, dcs)
  | .localQuorum =>
    match getDc dcs localDc with
    | some c => (.ok ((c.nodes.filter (· ≠ local_)).take (c.nodes.length / 2)), dcs)
    | none => (.ok [], dcs)
  | .all => (.ok ((dcs.map (fun p => p.2.nodes)).flatten.filter (· ≠ local_)), dcs)
  | .eachQuorum =>
    (.ok (dcs.map (fun p =>
      let majority := if p.1 = localDc then p.2.nodes.length / 2 else p.2.nodes.length / 2 + 1
      (p.2.nodes.filter (· ≠ local_)).take majority)).flatten, dcs)
  | .none => (.ok [], dcs)

/-! ### The actor -/

structure Actor where
  local_ : Nat
  localDc : Nat
  total : Nat := 0
  dcs : Dcs := []
  cache : List (Level × List Nat) := []

def insertDc (dcs : Dcs) (d : Nat) (c : Cycler) : Dcs :=
  match dcs with
  | [] => [(d, c)]
  | (d', c') :: rest =>
    if d < d' then (d, c) :: (d', c') :: rest
    else if d = d' then (d, c) :: rest
    else (d', c') :: insertDc rest d c

/-- `Op::SetNodes` (current tree): the map is rebuilt from the new layout. -/
def setNodes (a : Actor) (layout : List (Nat × List Nat)) : Actor :=
  { a with total := (layout.map (·.2.length)).sum,
           dcs := layout.foldl (fun m p => insertDc m p.1 ⟨0, p.2⟩) [],
           cache := [] }

/-- `Op::SetNodes` (pinned tree, defect D10): entries are inserted into the old map. -/
def setNodesLegacy (a : Actor) (layout : List (Nat × List Nat)) : Actor :=
  { a with total := (layout.map (·.2.length)).sum,
           dcs := layout.foldl (fun m p => insertDc m p.1 ⟨0, p.2⟩) a.dcs,
           cache := [] }

def cacheGet (cache : List (Level × List Nat)) (l : Level) : Option (List Nat) :=
  match cache with
  | [] => none
  | (l', ns) :: rest => if l' = l then some ns else cacheGet rest l

/-- `Op::GetNodes` with a fresh cache entry honoured (`fresh = true`: younger than 2 s). -/
def getNodes (a : Actor) (lvl : Level) (fresh : Bool) (choice : List Nat) : Res × Actor :=
  match (if fresh then cacheGet a.cache lvl else none) with
  | some ns => (.ok ns, a)
  | none =>
    let (r, dcs') := selectNodes a.local_ a.localDc a.total a.dcs lvl choice
    match r with
    | .ok ns => (r, { a with dcs := dcs', cache := (lvl, ns) :: a.cache.filter (fun p => p.1 ≠ lvl) })
    | _ => (r, { a with dcs := dcs' })

/-! ### The wiring membership → selector (`watch_membership_changes`, datacake-node/src/lib.rs) -/

/-- A live member as the watcher sees it: `(node id, public address, data centre)`. -/
abbrev MemberDc := Nat × Nat × Nat

/-- Members in `BTreeMap<NodeId, _>` iteration order (node ids are the keys: distinct). -/
def insertById (m : MemberDc) : List MemberDc → List MemberDc
  | [] => [m]
  | x :: xs => if m.1 < x.1 then m :: x :: xs else if m.1 = x.1 then m :: xs else x :: insertById m xs

def sortById (ms : List MemberDc) : List MemberDc := ms.foldl (fun acc m => insertById m acc) []

/-- One entry per ADDRESS (fix D21): a peer that re-joined under a new node id can still be listed
under its old one; the first member (in id order) at an address stands for it.  The LOCAL member
always stands for its own address (fix D30: a stale identity of the local node, possibly in another
data centre, must not take the local address away from the local data centre). -/
def keepFirstAddr (self : Nat) : List MemberDc → List Nat → List MemberDc
  | [], _ => []
  | m :: ms, seen =>
    if m.1 != self && seen.contains m.2.1 then keepFirstAddr self ms seen
    else m :: keepFirstAddr self ms (m.2.1 :: seen)

/-- The local member's address, if the snapshot lists the local member. -/
def selfAddr (self : Nat) (ms : List MemberDc) : List Nat :=
  match ms.find? (fun m => m.1 == self) with
  | some m => [m.2.1]
  | none => []

def insertNat (x : Nat) : List Nat → List Nat
  | [] => [x]
  | y :: ys => if x < y then x :: y :: ys else if x = y then y :: ys else y :: insertNat x ys

/-- The data-centre map handed to the selector: `BTreeMap<dc, Vec<addr>>`, addresses pushed in
node-id order (the local node included). -/
def dcLayout (self : Nat) (ms : List MemberDc) : List (Nat × List Nat) :=
  let kept := keepFirstAddr self (sortById ms) (selfAddr self (sortById ms))
  let dcs := (kept.map (·.2.2)).foldr insertNat []
  dcs.map (fun d => (d, (kept.filter (fun m => m.2.2 == d)).map (·.2.1)))

/-- The wiring between the fixes for D21 and D30: first member per address in id order, the local
member like any other. -/
def keepFirstAddrD21 : List MemberDc → List Nat → List MemberDc
  | [], _ => []
  | m :: ms, seen =>
    if seen.contains m.2.1 then keepFirstAddrD21 ms seen else m :: keepFirstAddrD21 ms (m.2.1 :: seen)

def dcLayoutD21 (ms : List MemberDc) : List (Nat × List Nat) :=
  let kept := keepFirstAddrD21 (sortById ms) []
  let dcs := (kept.map (·.2.2)).foldr insertNat []
  dcs.map (fun d => (d, (kept.filter (fun m => m.2.2 == d)).map (·.2.1)))

/-- The pinned wiring (D21): every member's address is pushed, whatever was pushed before. -/
def dcLayoutLegacy (ms : List MemberDc) : List (Nat × List Nat) :=
  let kept := sortById ms
  let dcs := (kept.map (·.2.2)).foldr insertNat []
  dcs.map (fun d => (d, (kept.filter (fun m => m.2.2 == d)).map (·.2.1)))

end Datacake.Selector
