/-
Model of one node's keyspace: the `KeyspaceActor` handlers of
`datacake-eventual-consistency/src/keyspace/actor.rs` over the reference store of
`Model/Storage.lean`, and `KeyspaceGroup::load_states_from_storage`.

A node is `(set, store)` — the ORSWOT set (`NUM_SOURCES = 2`) and one keyspace of the store.
Storage failures are explicit oracle arguments, following the contract written on
`BulkMutationError`: a single call either applies or fails without effect; a bulk call that fails
has applied the documents at some positions of its input (`written`) and reports their ids.

No imports beyond the models: linked into `dcdriver`.
-/
import Datacake.Model.Orswot
import Datacake.Model.Storage

namespace Datacake.Keyspace
open Datacake.OrSwot Datacake.Storage

structure Node where
  set : OrSwot := OrSwot.empty 2
  store : Storage.Keyspace := {}

/-- A document of a request: `(id, ts, bytes)`. -/
abbrev Doc := Nat × Nat × List Nat

inductive Out where
  | ok
  | err (reported : List Nat)     -- storage error; for bulk calls the ids reported as written
  deriving Repr, DecidableEq

def storePut (ks : Storage.Keyspace) (d : Doc) : Storage.Keyspace :=
  { rows := aset ks.rows d.1 (d.2.1, false), data := aset ks.data d.1 d.2.2 }

def storeTomb (ks : Storage.Keyspace) (id ts : Nat) : Storage.Keyspace :=
  { rows := aset ks.rows id (ts, true), data := aerase ks.data id }

/-- `on_set`. `fail = true`: `put_with_ctx` returns an error (nothing written). -/
def onSet (F : Nat) (n : Node) (src : Nat) (d : Doc) (fail : Bool) : Node × Out :=
  if !willApply n.set d.1 d.2.1 then (n, .ok)
  else if fail then (n, .err [])
  else
    ({ set := (insertWithSource F n.set src d.1 d.2.1).1, store := storePut n.store d }, .ok)

/-- `on_del`. -/
def onDel (F : Nat) (n : Node) (src id ts : Nat) (fail : Bool) : Node × Out :=
  if !willApply n.set id ts then (n, .ok)
  else if fail then (n, .err [])
  else ({ set := (deleteWithSource F n.set src id ts).1, store := storeTomb n.store id ts }, .ok)

/-- Stable insertion sort by stamp (`valid_entries.sort_by_key(|entry| entry.1)`). -/
def insertByTs (x : Nat × Nat) : List (Nat × Nat) → List (Nat × Nat)
  | [] => [x]
  | y :: ys => if x.2 < y.2 then x :: y :: ys else y :: insertByTs x ys

def sortByTs (l : List (Nat × Nat)) : List (Nat × Nat) := l.foldr insertByTs []

/-- The elements of `l` at the positions listed in `idxs` that exist, in list order. -/
def pick {α : Type} (l : List α) (idxs : List Nat) : List α :=
  (l.zipIdx.filter (fun p => idxs.contains p.2)).map (·.1)

/-- `newest_per_doc` (fix D13): of the entries of a bulk request that name one document only the
newest stays — the last of them when several carry that newest stamp — in request order. -/
def newest {α : Type} (ts : α → Nat) : List (Nat × α) → List (Nat × α)
  | [] => []
  | d :: rest =>
    let r := newest ts rest
    if r.any (fun e => e.1 == d.1 && decide (ts d.2 ≤ ts e.2)) then r
    else d :: r.filter (fun e => e.1 != d.1)

/-- `on_multi_set` after the request has been reduced to one entry per document (and the whole of
the pinned handler, D13).  `written = none`: the bulk put succeeded; `some idxs`: it failed after
writing the filtered documents at positions `idxs` and reports their ids. -/
def onMultiSetCore (F : Nat) (n : Node) (src : Nat) (docs : List Doc) (written : Option (List Nat)) :
    Node × Out :=
  let valid := docs.filter (fun d => willApply n.set d.1 d.2.1)
  let entries := sortByTs (valid.map (fun d => (d.1, d.2.1)))
  match written with
  | none =>
    ({ set := entries.foldl (fun s e => (insertWithSource F s src e.1 e.2).1) n.set,
       store := valid.foldl storePut n.store }, .ok)
  | some idxs =>
    let w := pick valid idxs
    let reported := w.map (·.1)
    ({ set := (entries.filter (fun e => reported.contains e.1)).foldl
                (fun s e => (insertWithSource F s src e.1 e.2).1) n.set,
       store := w.foldl storePut n.store }, .err reported)

/-- `on_multi_del` after the request has been reduced to one entry per document. -/
def onMultiDelCore (F : Nat) (n : Node) (src : Nat) (docs : List (Nat × Nat)) (written : Option (List Nat)) :
    Node × Out :=
  let valid := docs.filter (fun d => willApply n.set d.1 d.2)
  let entries := sortByTs valid
  match written with
  | none =>
    ({ set := entries.foldl (fun s e => (deleteWithSource F s src e.1 e.2).1) n.set,
       store := valid.foldl (fun ks d => storeTomb ks d.1 d.2) n.store }, .ok)
  | some idxs =>
    let w := pick valid idxs
    let reported := w.map (·.1)
    ({ set := (entries.filter (fun e => reported.contains e.1)).foldl
                (fun s e => (deleteWithSource F s src e.1 e.2).1) n.set,
       store := w.foldl (fun ks d => storeTomb ks d.1 d.2) n.store }, .err reported)

/-- `on_multi_set`: only the newest entry of every document is filtered, stored and recorded. -/
def onMultiSet (F : Nat) (n : Node) (src : Nat) (docs : List Doc) (written : Option (List Nat)) :
    Node × Out :=
  onMultiSetCore F n src (newest (fun (v : Nat × List Nat) => v.1) docs) written

/-- `on_multi_del`. -/
def onMultiDel (F : Nat) (n : Node) (src : Nat) (docs : List (Nat × Nat)) (written : Option (List Nat)) :
    Node × Out :=
  onMultiDelCore F n src (newest (fun (t : Nat) => t) docs) written

/-- `on_purge_tombstones`.  `removed = none`: `remove_tombstones` succeeded; `some idxs`: it failed
after removing the purged keys at positions `idxs` (reported); the others are re-added to the set. -/
def onPurge (n : Node) (removed : Option (List Nat)) : Node × Out :=
  let (s1, purged) := purgeOldDeletes n.set
  match removed with
  | none =>
    ({ set := s1, store := purged.foldl (fun ks p => { ks with rows := aerase ks.rows p.1 }) n.store }, .ok)
  | some idxs =>
    let done := pick purged idxs
    let doneIds := done.map (·.1)
    ({ set := addRawTombstones s1 (purged.filter (fun p => !doneIds.contains p.1)),
       store := done.foldl (fun ks p => { ks with rows := aerase ks.rows p.1 }) n.store }, .err doneIds)

/-- `load_states_from_storage` for one keyspace: metadata sorted by stamp, replayed on source 0. -/
def loadFromStorage (F : Nat) (ks : Storage.Keyspace) : OrSwot :=
  let entries := ks.rows.map (fun p => (p.1, p.2.1, p.2.2))
  let sorted := entries.foldr (fun x acc =>
    let rec ins (x : Nat × Nat × Bool) : List (Nat × Nat × Bool) → List (Nat × Nat × Bool)
      | [] => [x]
      | y :: ys => if x.2.1 < y.2.1 then x :: y :: ys else y :: ins x ys
    ins x acc) []
  sorted.foldl (fun s e =>
    if e.2.2 then (deleteWithSource F s 0 e.1 e.2.1).1 else (insertWithSource F s 0 e.1 e.2.1).1)
    (OrSwot.empty 2)

end Datacake.Keyspace
