/-
Trace monitor for C14 (RPC under network faults).  The simulated runs of `harness-sim`
(datacake-rpc over turmoil) produce event traces; `Spec` states the property declaratively on a
trace, `monitor` is its executable check.

Events (simulated time in ms):
  send id t / hbegin id t / hend id t / done id outcome t
The handler's reply for request `id` is `expected id = id * 7 + 3`.

No imports: linked into `dcdriver`.
-/
namespace Datacake.Monitor

inductive Outcome where
  | reply (v : Nat) | conn | timeout | invalid | other
  deriving DecidableEq, Repr

inductive Ev where
  | send (id t : Nat)
  | hbegin (id t : Nat)
  | hend (id t : Nat)
  | done (id : Nat) (o : Outcome) (t : Nat)
  deriving DecidableEq, Repr

def expected (id : Nat) : Nat := id * 7 + 3

def isSend (id : Nat) : Ev → Bool | .send i _ => i == id | _ => false
def isBegin (id : Nat) : Ev → Bool | .hbegin i _ => i == id | _ => false
def isDone (id : Nat) : Ev → Bool | .done i _ _ => i == id | _ => false

def sendTime (tr : List Ev) (id : Nat) : Option Nat :=
  tr.findSome? (fun e => match e with | .send i t => if i = id then some t else none | _ => none)

/-- Events before position `n`. -/
def before (tr : List Ev) (n : Nat) : List Ev := tr.take n

/-- With a timeout configured, the completion at time `t` is within `tau + slack` of the send. -/
def withinDeadline (tr : List Ev) (tau slack id t : Nat) : Bool :=
  tau == 0 || match sendTime tr id with
    | some st => decide (t ≤ st + tau + slack)
    | none => false

/-- The property on one completion event at position `n` of the trace. `tau = 0`: no client
timeout configured; `slack`: scheduling granularity allowed on top of the timeout. -/
def doneOk (tr : List Ev) (tau slack n id : Nat) (o : Outcome) (t : Nat) : Bool :=
  -- a completion only for a request that was sent, and only once
  ((before tr n).any (isSend id)) && !((before tr n).any (isDone id)) &&
  (match o with
    | .reply v => decide (v = expected id) && (before tr n).any (isBegin id)   -- the reply of THIS request, computed by a handler run
    | .conn => true
    | .timeout => decide (tau ≠ 0)
    | .invalid => false
    | .other => false) &&
  withinDeadline tr tau slack id t

/-- The property on one event at position `n`. -/
def evOk (tr : List Ev) (tau slack n : Nat) : Ev → Bool
  | .done id o t => doneOk tr tau slack n id o t
  | .hbegin id _ => !((before tr n).any (isBegin id)) && (before tr n).any (isSend id)   -- executed at most once, never unasked
  | _ => true

/-- **Spec**: every event of the trace satisfies its clause. -/
def Spec (tr : List Ev) (tau slack : Nat) : Prop :=
  ∀ n e, tr[n]? = some e → evOk tr tau slack n e = true

/-- The executable monitor. -/
def monitor (tr : List Ev) (tau slack : Nat) : Bool :=
  (tr.zipIdx.all (fun p => evOk tr tau slack p.2 p.1))

/-- First offending event, for the report. -/
def firstBad (tr : List Ev) (tau slack : Nat) : Option (Nat × Ev) :=
  (tr.zipIdx.find? (fun p => !evOk tr tau slack p.2 p.1)).map (fun p => (p.2, p.1))

end Datacake.Monitor
