/-
One RPC exchange of `datacake-rpc` at the level of bytes on the wire: the pieces of
`client.rs: send_inner`, `net/server.rs: handle_message / try_handle_request / create_bad_request`,
`handler.rs: PhantomHandler::try_handle`, `request.rs: from_body`, `utils.rs: to_aligned` and the
archive layout of `net/status.rs: Status` (rkyv 0.7, `size_32`, little endian) composed into one
pure function.

* `toAligned` – the receive loop: the body of a request or of a response arrives as a stream of
  chunks (hyper `Body::data()`), `to_aligned` copies them into one aligned buffer.  The code has
  three paths (no chunk, one chunk, two or more) and pre-allocates `first + second + min(hint, 1 MiB)`
  on the third (fix D33); the model keeps the three paths and returns the capacity it reserves.
* `archive` / `readRoot` – the bytes rkyv writes for a `Status { code, message }` and what the
  client reads back from them.  `ArchivedStatus` is 12 bytes, alignment 4: the tag of `ErrorCode`
  (one byte, three bytes padding), then the 8 byte `ArchivedString` representation: a message of up
  to 7 bytes sits inline (bytes, zero filled, length in the last byte, whose top bit is clear); a
  longer one is written first, padded to the alignment of the root, and the representation holds its
  length (u32) and the offset of the bytes RELATIVE TO THE REPRESENTATION (i32, always negative, which
  sets the top bit of the last byte - that bit is how a reader tells the two forms apart).
* `server` / `client` – one request through a server with a handler table and back.

Bytes are `Nat`s below 256 (`List Nat`), as in `Model/Rpc.lean`.  Import-free apart from that file.
-/
import Datacake.Model.Rpc

namespace Datacake.Exchange
open Datacake.Rpc

/-! ### `to_aligned` -/

/-- `MAX_PREALLOCATED_BYTES`. -/
def MAX_PREALLOC : Nat := 1048576

/-- `to_aligned(body)`: the bytes collected from the chunks of a body and the capacity reserved
before the third chunk is read (`hint` = `size_hint().lower()`, i.e. what the peer announced). -/
def toAligned (chunks : List (List Nat)) (hint : Nat) : List Nat × Nat :=
  match chunks with
  | [] => ([], 0)
  | [first] => (first, first.length)
  | first :: second :: rest =>
    let cap := first.length + second.length + min hint MAX_PREALLOC
    (rest.foldl (fun vec buf => vec ++ buf) (first ++ second), cap)

/-- `to_aligned` before fix D33: the announced length sized the buffer. -/
def toAlignedLegacy (chunks : List (List Nat)) (hint : Nat) : List Nat × Nat :=
  match chunks with
  | [] => ([], 0)
  | [first] => (first, first.length)
  | first :: second :: rest =>
    (rest.foldl (fun vec buf => vec ++ buf) (first ++ second), first.length + second.length + hint)

/-! ### The archive of `Status` -/

def zeros (n : Nat) : List Nat := List.replicate n 0

/-- Padding the serializer inserts before a value of alignment 4 written at position `n`. -/
def pad4 (n : Nat) : Nat := (4 - n % 4) % 4

/-- `INLINE_CAPACITY` of `ArchivedStringRepr` with `size_32`. -/
def INLINE_CAP : Nat := 7

/-- `serialize_value(&Status { code, message })`: the archive (without the checksum trailer). -/
def archive (code : Nat) (msg : List Nat) : List Nat :=
  if msg.length ≤ INLINE_CAP then
    [code, 0, 0, 0] ++ (msg ++ zeros (INLINE_CAP - msg.length) ++ [msg.length])
  else
    (msg ++ zeros (pad4 msg.length)) ++
      ([code, 0, 0, 0] ++ (le32 msg.length ++ le32 (4294967296 - (msg.length + pad4 msg.length + 4))))

/-- `to_view_bytes(&status)`: what `create_bad_request` puts on the wire. -/
def statusFrame (code : Nat) (msg : List Nat) : List Nat := mkFrame (archive code msg)

/-- `size_of::<ArchivedStatus>()`, `align_of::<ArchivedStatus>()`. -/
def STATUS_FIXED : Nat := 12
def STATUS_ALIGN : Nat := 4

def byteAt (l : List Nat) (i : Nat) : Nat := l.getD i 0

/-- What `deserialize_view` reads from the body of a status frame: root in the last 12 bytes.  The
reading here is the CHECKED one (tag of a known variant, inline length within the capacity, the
out-of-line bytes inside the buffer and before the root); the code reads an accepted frame without
these checks (a `Status` frame with a matching checksum comes from `to_view_bytes`). -/
def readRoot (body : List Nat) : Option (Nat × List Nat) :=
  if body.length < STATUS_FIXED then none
  else
    let pos := body.length - STATUS_FIXED
    let c := byteAt body pos
    let last := byteAt body (pos + 11)
    if 5 ≤ c then none
    else if last < 128 then
      if last ≤ INLINE_CAP then some (c, (body.drop (pos + 4)).take last) else none
    else
      let len := fromLe32 ((body.drop (pos + 4)).take 4)
      let off := fromLe32 ((body.drop (pos + 8)).take 4)
      let back := 4294967296 - off
      if back ≤ pos + 4 ∧ (pos + 4 - back) + len ≤ pos then
        some (c, (body.drop (pos + 4 - back)).take len)
      else none

/-! ### Server and client -/

/-- `ErrorCode` tags as rkyv writes them. -/
def SERVICE_UNAVAILABLE : Nat := 0
def INTERNAL_ERROR : Nat := 1
def INVALID_PAYLOAD : Nat := 2
def CONNECTION_ERROR : Nat := 3
def TIMEOUT : Nat := 4

/-- `Status::invalid()`'s message: "Invalid message payload was provided to be deserialized."
(UTF-8 bytes, written out so that the kernel can compute with them; the driver compares them with the
string at start-up and the `fail` / `rawframe` cases compare them with what the code sends.) -/
def invalidMsg : List Nat :=
  [73, 110, 118, 97, 108, 105, 100, 32, 109, 101, 115, 115, 97, 103, 101, 32, 112, 97, 121, 108, 111, 97, 100, 32, 119, 97, 115, 32, 112, 114, 111, 118, 105, 100, 101, 100, 32, 116, 111, 32, 98, 101, 32, 100, 101, 115, 101, 114, 105, 97, 108, 105, 122, 101, 100, 46]

/-- `"Unknown service "`. -/
def unknownPrefix : List Nat := [85, 110, 107, 110, 111, 119, 110, 32, 115, 101, 114, 118, 105, 99, 101, 32]

/-- A registered handler: the size and alignment of the archived root of its message type, and what
it answers to the body of a message: a reply archive, or an error status (code, message). -/
structure Handler where
  fixed : Nat
  align : Nat
  run : List Nat → Except (Nat × List Nat) (List Nat)

/-- What the server puts on the wire: HTTP status and the response body (before chunking). -/
structure Response where
  http : Nat
  body : List Nat

/-- `create_bad_request`. -/
def badRequest (code : Nat) (msg : List Nat) : Response := ⟨400, statusFrame code msg⟩

/-- `handle_message`: the request path, the chunks of the request body as they arrive, the length
the peer announced.  Returns the response and the message bodies the handler ran on (at most one). -/
def server (table : List Nat → Option Handler) (path : List Nat) (chunks : List (List Nat)) (hint : Nat) :
    Response × List (List Nat) :=
  match table path with
  | none => (badRequest SERVICE_UNAVAILABLE (unknownPrefix ++ path), [])
  | some h =>
    match checkFrameA h.fixed h.align (toAligned chunks hint).1 with
    | none => (badRequest INVALID_PAYLOAD invalidMsg, [])
    | some body =>
      match h.run body with
      | .ok reply => (⟨200, mkFrame reply⟩, [body])
      | .error (code, msg) => (badRequest code msg, [body])

/-- What `send_inner` hands back (transport failures and the timeout are C14's business). -/
inductive Outcome where
  | reply (body : List Nat)
  | status (code : Nat) (msg : List Nat)
deriving DecidableEq, Repr

/-- `send_inner` after the response head: the body arrives in chunks; a 200 is read as the reply
type (`fixed`, `align` of ITS archived root), anything else as a `Status`. -/
def client (fixed align : Nat) (http : Nat) (chunks : List (List Nat)) (hint : Nat) : Outcome :=
  let buf := (toAligned chunks hint).1
  if http = 200 then
    match checkFrameA fixed align buf with
    | some body => .reply body
    | none => .status INVALID_PAYLOAD invalidMsg
  else
    match checkFrameA STATUS_FIXED STATUS_ALIGN buf with
    | none => .status INVALID_PAYLOAD invalidMsg
    | some body =>
      match readRoot body with
      | some (c, m) => .status c m
      | none => .status INVALID_PAYLOAD invalidMsg

/-- One whole exchange: `reqChunks` and `respChunks` say how the two bodies are cut on the wire
(`cut` below produces the chunks of given sizes). -/
def cut (sizes : List Nat) (bytes : List Nat) : List (List Nat) :=
  match sizes with
  | [] => if bytes.isEmpty then [] else [bytes]
  | n :: rest => if bytes.isEmpty then [] else bytes.take (n + 1) :: cut rest (bytes.drop (n + 1))

/-- Chunks given by cut POSITIONS (sorted, as the harness applies them; positions beyond the end collapse). -/
def cutAt (positions : List Nat) (bytes : List Nat) : List (List Nat) :=
  let ps := (positions.map (fun p => min p bytes.length)) ++ [bytes.length]
  (ps.foldl (fun (acc : List (List Nat) × Nat) p =>
      if acc.2 < p then (acc.1 ++ [(bytes.drop acc.2).take (p - acc.2)], p) else acc) ([], 0)).1

def exchange (table : List Nat → Option Handler) (path : List Nat) (replyFixed replyAlign : Nat)
    (frame : List Nat) (reqCuts respCuts : List Nat) : Outcome × List (List Nat) :=
  let (resp, ran) := server table path (cut reqCuts frame) frame.length
  (client replyFixed replyAlign resp.http (cut respCuts resp.body) resp.body.length, ran)

end Datacake.Exchange
