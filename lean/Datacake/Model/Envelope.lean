/-
The reply of `GetState` (`datacake-eventual-consistency/src/rpc/services/replication_impl.rs:
KeyspaceOrSwotSet { timestamp, last_updated, #[with(Raw)] set: Vec<u8> }`) as bytes on the wire
(rkyv 0.7, `size_32`, little endian), and what `rpc/client.rs: get_state` reads from it.

The archive: the nested state bytes first (position 0), zero padding to the alignment of the root
(8), then the 24 byte root: `timestamp` u64, `last_updated` u64, and the `ArchivedVec<u8>` of the raw
bytes = a relative pointer (i32, relative to ITS OWN position, i.e. root + 16; always negative) and
the length (u32).  `readEnv` is the CHECKED reading (`check_archived_root` since fix D24): the root
position aligned, the nested bytes inside the buffer and in front of the root.

The nested bytes themselves (the archive of the `OrSWotSet`) stay opaque: a byte string.
No imports beyond the RPC model: linked into `dcdriver`.
-/
import Datacake.Model.Exchange

namespace Datacake.Envelope
open Datacake.Rpc Datacake.Exchange

def pad8 (n : Nat) : Nat := (8 - n % 8) % 8

def le64 (v : Nat) : List Nat := le32 (v % 4294967296) ++ le32 (v / 4294967296)

def fromLe64 (bs : List Nat) : Nat := fromLe32 (bs.take 4) + 4294967296 * fromLe32 (bs.drop 4)

def ENV_FIXED : Nat := 24
def ENV_ALIGN : Nat := 8

/-- `serialize_value(&KeyspaceOrSwotSet { timestamp, last_updated, set })`. -/
def archiveEnv (ts lu : Nat) (set : List Nat) : List Nat :=
  (set ++ zeros (pad8 set.length)) ++
    (le64 ts ++ (le64 lu ++ (le32 (4294967296 - (set.length + pad8 set.length + 16)) ++ le32 set.length)))

/-- `to_view_bytes` of the reply. -/
def envFrame (ts lu : Nat) (set : List Nat) : List Nat := mkFrame (archiveEnv ts lu set)

/-- What `get_state` takes from the body of an accepted reply frame: `(timestamp, last_updated,
nested state bytes)` - or nothing, when the root is misplaced, or the nested bytes are declared
outside the buffer / not in front of the root (`check_archived_root` refuses; `Status::invalid`). -/
def readEnv (body : List Nat) : Option (Nat × Nat × List Nat) :=
  if body.length < ENV_FIXED then none
  else
    let pos := body.length - ENV_FIXED
    if pos % ENV_ALIGN ≠ 0 then none
    else
      let ts := fromLe64 ((body.drop pos).take 8)
      let lu := fromLe64 ((body.drop (pos + 8)).take 8)
      let off := fromLe32 ((body.drop (pos + 16)).take 4)
      let len := fromLe32 ((body.drop (pos + 20)).take 4)
      -- a non-negative offset points at or behind the pointer itself: never in front of the root
      if off < 2147483648 then none
      else
        let back := 4294967296 - off
        if back ≤ pos + 16 ∧ (pos + 16 - back) + len ≤ pos then
          some (ts, lu, (body.drop (pos + 16 - back)).take len)
        else none

/-- The whole way of a `GetState` reply: the serving node frames the envelope, the bytes travel in
any chunks, the asking node checks the frame and reads the envelope. -/
def getState (ts lu : Nat) (set : List Nat) (respCuts : List Nat) : Option (Nat × Nat × List Nat) :=
  let frame := envFrame ts lu set
  match client ENV_FIXED ENV_ALIGN 200 (cut respCuts frame) frame.length with
  | .reply body => readEnv body
  | .status _ _ => none

end Datacake.Envelope
