/-
Model of the node clock actor (`datacake-node/src/clock.rs: run_clock`): one `HLCTimestamp` owned
by one task that handles `Get` and `Register` events from a FIFO queue, one at a time.

`Get` runs `send`; `Register(ts)` runs `recv` and ignores a refusal.  Since fix D19 an exhausted
counter no longer stops the actor (`Get`) or drops the registration (`Register`): the clock carries
on with the next instant (`next_instant`: 4 ms later, counter 0).  A `send` that still fails makes
the actor panic (`expect`): the state `none`.

No imports beyond the timestamp model: linked into `dcdriver`.
-/
import Datacake.Model.Timestamp

namespace Datacake.Clock
open Datacake.Ts

/-- `next_instant(ts, node)`: the first stamp of the instant after `ts`, if representable. -/
def nextInstant (t nd : Nat) : Option Nat := new? (dts t + 4) 0 nd

inductive Req where
  | get (wall : Nat)                -- wall: the reading of the wall clock while the event is processed
  | register (wall r : Nat)
  deriving Repr

/-- `Get`: new actor state (`none`: panicked) and the reply. -/
def onGet (c wall : Nat) : Option Nat :=
  match send c wall with
  | .ok c' => some c'
  | .error .overflow =>
    (match nextInstant c (node c) with
     | some n => (match send n wall with
                  | .ok c' => some c'
                  | .error _ => none)
     | none => none)
  | .error _ => none

/-- `Register(r)`: the clock afterwards (the actor never stops here). -/
def onRegister (c wall r : Nat) : Nat :=
  match recv c wall r with
  | .ok (c', _) => c'
  | .err .overflow =>
    (match nextInstant r (node r) with
     | some n => (match recv c wall n with
                  | .ok (c', _) => c'
                  | _ => c)
     | none => c)
  | _ => c

/-- The pinned arms (D19): a failed `send` stops the actor, a refused `recv` is ignored. -/
def onGetLegacy (c wall : Nat) : Option Nat :=
  match send c wall with
  | .ok c' => some c'
  | .error _ => none

def onRegisterLegacy (c wall r : Nat) : Nat :=
  match recv c wall r with
  | .ok (c', _) => c'
  | _ => c

inductive Ev where
  | issued (t : Nat)                -- the reply to a `Get`
  | registered (wall r : Nat)       -- a processed `Register`
  deriving Repr

/-- The actor over a queue of events; a panicked actor processes nothing further. -/
def run : Option Nat → List Req → List Ev
  | none, _ => []
  | some _, [] => []
  | some c, .get w :: rest =>
    (match onGet c w with
     | some c' => .issued c' :: run (some c') rest
     | none => [])
  | some c, .register w r :: rest => .registered w r :: run (some (onRegister c w r)) rest

end Datacake.Clock
