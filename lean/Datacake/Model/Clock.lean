/-
Model of the node clock actor (`datacake-node/src/clock.rs: run_clock`): one `HLCTimestamp` owned
by one task that handles `Get` and `Register` events from a FIFO queue, one at a time.

`Get` runs `send`; `Register(ts)` runs `recv` and ignores a refusal.  Since fix D19 an exhausted
counter no longer drops the registration (`Register`): the clock carries on with the next instant
(`next_instant`: 4 ms later, counter 0); since fix D34 a `Get` whose `send` fails - exhausted counter,
or a wall clock that stepped back by more than the drift - is answered with the stamp following the
clock (`following`).  Only a clock at the very end of the representable time (the year 2159) makes
the actor panic (`expect`): the state `none`.

No imports beyond the timestamp model: linked into `dcdriver`.
-/
import Datacake.Model.Timestamp

namespace Datacake.Clock
open Datacake.Ts

/-- `next_instant(ts, node)`: the first stamp of the instant after `ts`, if representable. -/
def nextInstant (t nd : Nat) : Option Nat := new? (dts t + 4) 0 nd

inductive Req where
  | get (wall : Nat)                -- wall: the reading of the wall clock while the event is processed
  | register (wall r : Nat)
  deriving Repr

/-- `following(ts)`: the stamp after `ts` in the clock's own sequence - the next counter value of its
instant, or the first stamp of the next instant once every counter value is used. -/
def following (c : Nat) : Option Nat :=
  if counter c < 65535 then new? (dts c) (counter c + 1) (node c) else nextInstant c (node c)

/-- `Get`: new actor state (`none`: panicked) and the reply.  Since fix D34 a `send` that fails for
whatever reason (counter exhausted, wall clock stepped back by more than the drift, wall clock beyond
the representable range) is answered with the stamp that follows the clock. -/
def onGet (c wall : Nat) : Option Nat :=
  match send c wall with
  | .ok c' => some c'
  | .error _ => following c

/-- The `Get` arm between the fixes D19 and D34: only an exhausted counter was handled. -/
def onGetD19 (c wall : Nat) : Option Nat :=
  match send c wall with
  | .ok c' => some c'
  | .error .overflow =>
    (match nextInstant c (node c) with
     | some n => (match send n wall with
                  | .ok c' => some c'
                  | .error _ => none)
     | none => none)
  | .error _ => none

/-- `Register(r)`: the clock afterwards (the actor never stops here).  When `recv` finds no counter
value left for the instant of the remote stamp (`Overflow`), the clock moves to the first stamp of
the instant after it, under its own node id, unless it is beyond that already (fix D36: no second
`recv`, which refused that instant when the remote sat exactly at the drift limit). -/
def onRegister (c wall r : Nat) : Nat :=
  match recv c wall r with
  | .ok (c', _) => c'
  | .err .overflow =>
    (match nextInstant r (node c) with
     | some n => if c < n then n else c
     | none => c)
  | _ => c

/-- The `Register` arm between the fixes D19 and D36: the instant after the remote stamp went
through a second `recv`. -/
def onRegisterD19 (c wall r : Nat) : Nat :=
  match recv c wall r with
  | .ok (c', _) => c'
  | .err .overflow =>
    (match nextInstant r (node r) with
     | some n => (match recv c wall n with
                  | .ok (c', _) => c'
                  | _ => c)
     | none => c)
  | _ => c

/-- The pinned arms (D19): a failed `send` stops the actor, a refused `recv` is ignored. -/
def onGetLegacy (c wall : Nat) : Option Nat :=
  match send c wall with
  | .ok c' => some c'
  | .error _ => none

def onRegisterLegacy (c wall r : Nat) : Nat :=
  match recv c wall r with
  | .ok (c', _) => c'
  | _ => c

inductive Ev where
  | issued (t : Nat)                -- the reply to a `Get`
  | registered (wall r : Nat)       -- a processed `Register`
  deriving Repr

/-- The actor over a queue of events; a panicked actor processes nothing further. -/
def run : Option Nat → List Req → List Ev
  | none, _ => []
  | some _, [] => []
  | some c, .get w :: rest =>
    (match onGet c w with
     | some c' => .issued c' :: run (some c') rest
     | none => [])
  | some c, .register w r :: rest => .registered w r :: run (some (onRegister c w r)) rest

end Datacake.Clock
