/-
The reference key-value model of the `Storage` contract
(`datacake-eventual-consistency/src/storage.rs`), against which the three bundled backends
(`MemStore`, `SqliteStorage`, `LmdbStorage`) are compared (C17), and which the node model of
C02/C07/C01 uses as its store.

A store maps a keyspace to its metadata rows `id ↦ (ts, tombstone?)` and its documents
`id ↦ bytes`; `touched` is the set of keyspace names a MUTATING call has ever named (a read does not bring a keyspace into existence: fix D27) (the backends
legitimately differ on whether a merely-read keyspace is listed).

No imports: linked into `dcdriver`.
-/
namespace Datacake.Storage

/-- Association list as a finite map (first binding wins, `set` replaces). -/
def aget {α : Type} (m : List (Nat × α)) (k : Nat) : Option α :=
  match m with
  | [] => none
  | (k', v) :: rest => if k' = k then some v else aget rest k

def aerase {α : Type} (m : List (Nat × α)) (k : Nat) : List (Nat × α) :=
  m.filter (fun p => p.1 ≠ k)

def aset {α : Type} (m : List (Nat × α)) (k : Nat) (v : α) : List (Nat × α) :=
  (k, v) :: aerase m k

structure Keyspace where
  rows : List (Nat × (Nat × Bool)) := []     -- id ↦ (timestamp, is tombstone)
  data : List (Nat × List Nat) := []         -- id ↦ document bytes
  deriving Repr

structure Store where
  spaces : List (Nat × Keyspace) := []
  touched : List Nat := []
  deriving Repr

def Store.ks (s : Store) (k : Nat) : Keyspace := (aget s.spaces k).getD {}

def Store.touch (s : Store) (k : Nat) : Store :=
  if s.touched.contains k then s else { s with touched := k :: s.touched }

def Store.setKs (s : Store) (k : Nat) (ks : Keyspace) : Store :=
  { (s.touch k) with spaces := aset s.spaces k ks }

/-- `Storage::put`: the document and its metadata row (not a tombstone). -/
def put (s : Store) (k id ts : Nat) (bytes : List Nat) : Store :=
  let ks := s.ks k
  s.setKs k { rows := aset ks.rows id (ts, false), data := aset ks.data id bytes }

/-- `Storage::multi_put`: the puts in request order. -/
def multiPut (s : Store) (k : Nat) (docs : List (Nat × Nat × List Nat)) : Store :=
  docs.foldl (fun s d => put s k d.1 d.2.1 d.2.2) (s.touch k)

/-- `Storage::mark_as_tombstone`: the document is dropped and a tombstone row is recorded —
whether or not the document existed (as `test_suite` demands). -/
def markTombstone (s : Store) (k id ts : Nat) : Store :=
  let ks := s.ks k
  s.setKs k { rows := aset ks.rows id (ts, true), data := aerase ks.data id }

def markManyTombstone (s : Store) (k : Nat) (docs : List (Nat × Nat)) : Store :=
  docs.foldl (fun s d => markTombstone s k d.1 d.2) (s.touch k)

/-- `Storage::remove_tombstones` (contract: the ids are tombstones): the rows disappear. -/
def removeTombstones (s : Store) (k : Nat) (ids : List Nat) : Store :=
  let ks := s.ks k
  let ks' := ids.foldl (fun ks id => { ks with rows := aerase ks.rows id }) ks
  -- a keyspace that never existed is not created by a removal
  if (aget s.spaces k).isSome then s.setKs k ks' else s.touch k

/-- `Storage::get`: `(id, ts, bytes)` of a live document. -/
def get (s : Store) (k id : Nat) : Option (Nat × Nat × List Nat) :=
  let ks := s.ks k
  match aget ks.data id, aget ks.rows id with
  | some bytes, some (ts, _) => some (id, ts, bytes)
  | _, _ => none

def multiGet (s : Store) (k : Nat) (ids : List Nat) : List (Nat × Nat × List Nat) :=
  ids.filterMap (get s k)

/-- `Storage::iter_metadata`. -/
def iterMetadata (s : Store) (k : Nat) : List (Nat × Nat × Bool) :=
  (s.ks k).rows.map (fun p => (p.1, p.2.1, p.2.2))

/-- Keyspaces that hold at least one metadata row: every backend must list them. -/
def essential (s : Store) : List Nat :=
  (s.spaces.filter (fun p => !p.2.rows.isEmpty)).map (·.1)

/-- The relation a reported keyspace list must satisfy: no duplicates, every essential keyspace,
nothing that was never mentioned. -/
def listOk (s : Store) (l : List Nat) : Bool :=
  l.eraseDups.length == l.length && (essential s).all (l.contains ·) && l.all (s.touched.contains ·)

end Datacake.Storage
