/-
Model of `datacake-node/src/lib.rs: watch_membership_changes` / `membership_delta`, of the
latest-value channel (`tokio::sync::watch`) the processed snapshots are published on, of the
per-subscriber `MembershipChanges` stream that turns them into deltas, and of a subscriber that
applies each delta it is handed (`left` removed, then `joined` inserted — `distributor.rs` /
`poller.rs`).  `ChanLegacy`/`SubLegacy` are the tree before the `fix:` commit for D9 (the deltas
themselves travelled on the latest-value channel).

A member is `(id, addr)`; a snapshot is the membership map as a list of members with distinct ids
(the local node included).  `watchStep` is the current tree (after the `fix:` commit for D8: a
departed member is looked up in the *previous* snapshot); `watchStepLegacy` is the pinned code
(looked up in the *new* snapshot, where it no longer is).

No imports: linked into `dcdriver`.
-/
namespace Datacake.Membership

abbrev Member := Nat × Nat          -- (node id, public address)
abbrev Snapshot := List Member      -- distinct ids

structure Delta where
  joined : List Member
  left : List Member
  deriving Repr, DecidableEq

def Delta.empty : Delta := ⟨[], []⟩

def lookupId (s : Snapshot) (id : Nat) : Option Member :=
  match s with
  | [] => none
  | m :: rest => if m.1 = id then some m else lookupId rest id

/-- The `(node_id, public_addr)` pairs of the other members (`new_network_set`). -/
def networkSet (self : Nat) (snap : Snapshot) : List Member := snap.filter (fun m => m.1 ≠ self)

def insertSorted (m : Member) : List Member → List Member
  | [] => [m]
  | x :: xs => if m.1 < x.1 ∨ (m.1 = x.1 ∧ m.2 ≤ x.2) then m :: x :: xs else x :: insertSorted m xs

/-- `BTreeSet` iteration order. -/
def sortMembers (l : List Member) : List Member := l.foldr insertSorted []

/-- `a.difference(b)` in `BTreeSet` order. -/
def diffSet (a b : List Member) : List Member := sortMembers (a.filter (fun m => !b.contains m))

/-- Watcher state: the previous network set and the previous snapshot. -/
structure Watcher where
  self : Nat
  lastSet : List Member := []
  lastSnap : Snapshot := []

/-- One iteration of `watch_membership_changes` (current tree). -/
def watchStep (w : Watcher) (snap : Snapshot) : Delta × Watcher :=
  let newSet := networkSet w.self snap
  let left := (diffSet w.lastSet newSet).filterMap (fun m => lookupId w.lastSnap m.1)
  let joined := (diffSet newSet w.lastSet).filterMap (fun m => lookupId snap m.1)
  (⟨joined, left⟩, { w with lastSet := newSet, lastSnap := snap })

/-- The pinned iteration (defect D8): departed members are looked up in the new snapshot. -/
def watchStepLegacy (w : Watcher) (snap : Snapshot) : Delta × Watcher :=
  let newSet := networkSet w.self snap
  let left := (diffSet w.lastSet newSet).filterMap (fun m => lookupId snap m.1)
  let joined := (diffSet newSet w.lastSet).filterMap (fun m => lookupId snap m.1)
  (⟨joined, left⟩, { w with lastSet := newSet, lastSnap := snap })

/-- `membership_delta(self, last, new)`: what left and what joined between two snapshots. -/
def delta (self : Nat) (last snap : Snapshot) : Delta :=
  (watchStep { self := self, lastSet := networkSet self last, lastSnap := last } snap).1

def removeId (l : List Member) (id : Nat) : List Member := l.filter (fun m => m.1 ≠ id)

/-- `for member in left { live.remove(id) }; for member in joined { live.insert(id, addr) }`. -/
def applyDelta (live : List Member) (d : Delta) : List Member :=
  let l1 := d.left.foldl (fun l m => removeId l m.1) live
  d.joined.foldl (fun l m => removeId l m.1 ++ [m]) l1

/-- `tokio::sync::watch`: only the latest value is kept, with a version counter.  The node's
watcher publishes the membership snapshot it has just processed. -/
structure Chan where
  version : Nat := 0
  value : Snapshot := []

def Chan.send (c : Chan) (snap : Snapshot) : Chan := ⟨c.version + 1, snap⟩

/-- A subscriber: the `MembershipChanges` stream (`WatchStream` over the snapshot channel + the
snapshot it handed out last) and the `live_members` map of distributor/poller.
`seen = none` until the first poll: the stream starts by yielding the current value. -/
structure Sub where
  seen : Option Nat := none
  last : Snapshot := []
  live : List Member := []      -- id ↦ addr, distinct ids

/-- One poll of the subscriber's stream: if the channel holds a value not yet seen, the stream
yields the difference between the snapshot it handed out last and that value. -/
def Sub.poll (self : Nat) (s : Sub) (c : Chan) : Option Delta × Sub :=
  if s.seen = some c.version then (none, s)
  else
    let d := delta self s.last c.value
    (some d, { seen := some c.version, last := c.value, live := applyDelta s.live d })

/-! ### The tree before the `fix:` commit for D9: deltas on the latest-value channel -/

structure ChanLegacy where
  version : Nat := 0
  value : Delta := Delta.empty

def ChanLegacy.send (c : ChanLegacy) (d : Delta) : ChanLegacy := ⟨c.version + 1, d⟩

structure SubLegacy where
  seen : Option Nat := none
  live : List Member := []

def SubLegacy.poll (s : SubLegacy) (c : ChanLegacy) : Option Delta × SubLegacy :=
  if s.seen = some c.version then (none, s)
  else (some c.value, { seen := some c.version, live := applyDelta s.live c.value })

end Datacake.Membership
