/-
The last-writer-wins specification.

A key's record is `none` (never written) or `some r` with `r = 2·ts + 1` for "live at `ts`" and
`r = 2·ts` for "tombstone at `ts`": records are ordered by stamp, and at an exact tie an insert
beats a delete (the `<=` in `delete_with_source`).  The specification of a set of operations is,
per key, simply the greatest record — a join-semilattice, so order, grouping and repetition of the
operations cannot matter.

No imports beyond the model: `lww` is also evaluated by `dcdriver` as the oracle.
-/
import Datacake.Model.Orswot

namespace Datacake

/-- An insert or delete of `key` stamped `ts`. -/
structure Op where
  key : Nat
  ts : Nat
  isDel : Bool
  deriving Repr, DecidableEq

namespace Lww

def liveRec (ts : Nat) : Nat := 2 * ts + 1
def deadRec (ts : Nat) : Nat := 2 * ts

def rank (o : Op) : Nat := if o.isDel then deadRec o.ts else liveRec o.ts

/-- Join of a record with a new one: the greater wins. -/
def join (r : Option Nat) (x : Nat) : Option Nat :=
  match r with
  | none => some x
  | some y => some (max y x)

/-- "`x` is strictly newer than the record": the record changes when `x` is joined. -/
def Newer (r : Option Nat) (x : Nat) : Prop := ∀ y, r = some y → y < x

instance (r : Option Nat) (x : Nat) : Decidable (Newer r x) :=
  match r with
  | none => isTrue (by intro y h; cases h)
  | some y => if h : y < x then isTrue (by intro z hz; cases hz; exact h)
              else isFalse (by intro hn; exact h (hn y rfl))

/-- The LWW record of key `k` after the operations `ops` (in any order). -/
def lww (ops : List Op) (k : Nat) : Option Nat :=
  ops.foldl (fun acc o => if o.key = k then join acc (rank o) else acc) none

/-- What a replica state says about key `k`. -/
def view (s : OrSwot) (k : Nat) : Option Nat :=
  match s.entries.get k with
  | some e => some (liveRec e)
  | none =>
    match s.dead.get k with
    | some d => some (deadRec d)
    | none => none

/-- No key is both live and tombstoned. -/
def Disj (s : OrSwot) : Prop := ∀ k, s.entries.get k = none ∨ s.dead.get k = none

end Lww
end Datacake
