/- Generic list lemmas: key-local folds (backbone of `merge`, the bulk handlers and diff
application) and the permutation facts of the insertion sort used for `sort_by_key`. -/
namespace Datacake

/-- A fold whose step touches only the projection at the item's key, over items with pairwise
distinct keys: per key, the result is the one step of that key's item (if any) applied to the
initial projection — independent of the order of the list. -/
theorem foldl_keylocal {σ ι R : Type} (proj : σ → Nat → R) (key : ι → Nat)
    (f : σ → ι → σ) (g : ι → R → R) (Inv : σ → Prop)
    (hinv : ∀ s i, Inv s → Inv (f s i))
    (hloc : ∀ s i k, Inv s → proj (f s i) k = if k = key i then g i (proj s k) else proj s k)
    (L : List ι) (hnd : (L.map key).Nodup) (s : σ) (hs : Inv s) (k : Nat) :
    Inv (L.foldl f s) ∧
    ((∀ i ∈ L, key i ≠ k) → proj (L.foldl f s) k = proj s k) ∧
    (∀ i ∈ L, key i = k → proj (L.foldl f s) k = g i (proj s k)) := by
  induction L generalizing s with
  | nil => exact ⟨hs, fun _ => rfl, fun i hi => by cases hi⟩
  | cons x xs ih =>
    simp only [List.map_cons, List.nodup_cons] at hnd
    obtain ⟨ih0, ih1, ih2⟩ := ih hnd.2 (f s x) (hinv s x hs)
    simp only [List.foldl_cons]
    refine ⟨ih0, ?_, ?_⟩
    · intro hno
      rw [ih1 (fun i hi => hno i (List.mem_cons_of_mem _ hi)), hloc s x k hs]
      have : k ≠ key x := fun h => hno x List.mem_cons_self h.symm
      rw [if_neg this]
    · intro i hi hk
      rcases List.mem_cons.1 hi with rfl | hi
      · have hno : ∀ j ∈ xs, key j ≠ k := by
          intro j hj hjk
          exact hnd.1 (List.mem_map.2 ⟨j, hj, by rw [hjk, hk]⟩)
        rw [ih1 hno, hloc s i k hs, if_pos hk.symm]
      · have hx : k ≠ key x := by
          intro h
          exact hnd.1 (List.mem_map.2 ⟨i, hi, by rw [hk, h]⟩)
        rw [ih2 i hi hk, hloc s x k hs, if_neg hx]

end Datacake
