/-
Finite maps `Nat ↦ Nat` as association lists (models of `BTreeMap` / `HashMap`).

`get` returns the first binding, `set` conses in front (after erasing, so keys stay unique in
practice), `erase` removes every binding of the key.  All lemmas are *unconditional*: no
well-formedness invariant is ever needed, and every theorem of the development is stated through
`get` (observationally), so iteration order never matters.

No imports: linked into `dcdriver`.
-/
namespace Datacake

abbrev Map := List (Nat × Nat)

namespace Map

def get (m : Map) (k : Nat) : Option Nat :=
  match m with
  | [] => none
  | (k', v) :: rest => if k' = k then some v else get rest k

def erase (m : Map) (k : Nat) : Map :=
  match m with
  | [] => []
  | (k', v) :: rest => if k' = k then erase rest k else (k', v) :: erase rest k

def set (m : Map) (k v : Nat) : Map := (k, v) :: erase m k

/-- The bindings of the map, each key once (first occurrence wins, as in `get`).  Structural
recursion on a fuel argument, so that the kernel can evaluate it (`decide` in witnesses). -/
def bindingsAux : Nat → Map → List (Nat × Nat)
  | 0, _ => []
  | _ + 1, [] => []
  | f + 1, (k, v) :: rest => (k, v) :: bindingsAux f (erase rest k)

def bindings (m : Map) : List (Nat × Nat) := bindingsAux m.length m

@[simp] theorem get_nil (k : Nat) : get [] k = none := rfl

theorem get_cons (k' v : Nat) (rest : Map) (k : Nat) :
    get ((k', v) :: rest) k = if k' = k then some v else get rest k := rfl

theorem get_erase (m : Map) (k k' : Nat) :
    get (erase m k) k' = if k' = k then none else get m k' := by
  induction m with
  | nil => simp [erase]
  | cons x xs ih =>
    obtain ⟨a, b⟩ := x
    unfold erase
    by_cases h : a = k
    · rw [if_pos h, ih, get_cons]
      by_cases h2 : k' = k
      · simp [h2]
      · have : a ≠ k' := by omega
        simp [h2, this]
    · rw [if_neg h, get_cons, get_cons, ih]
      by_cases h3 : a = k'
      · have : k' ≠ k := by omega
        simp [h3, this]
      · simp [h3]

theorem get_set (m : Map) (k v k' : Nat) :
    get (set m k v) k' = if k' = k then some v else get m k' := by
  unfold set
  rw [get_cons, get_erase]
  by_cases h : k = k'
  · simp [h]
  · have : k' ≠ k := by omega
    simp [h, this]

theorem erase_length_le (m : Map) (k : Nat) : (erase m k).length ≤ m.length := by
  induction m with
  | nil => simp [erase]
  | cons x xs ih =>
    obtain ⟨a, b⟩ := x
    unfold erase
    split
    · simp only [List.length_cons]; omega
    · simp only [List.length_cons]; omega

theorem mem_bindingsAux : ∀ (f : Nat) (m : Map), m.length ≤ f →
    ∀ k v, (k, v) ∈ bindingsAux f m ↔ get m k = some v := by
  intro f
  induction f with
  | zero =>
    intro m hm k v
    have : m = [] := List.eq_nil_of_length_eq_zero (by omega)
    subst this; simp [bindingsAux]
  | succ f ih =>
    intro m hm k v
    match m, hm with
    | [], _ => simp [bindingsAux]
    | (a, b) :: rest, hm =>
      have hlen : (erase rest a).length ≤ f := by
        have := erase_length_le rest a
        simp only [List.length_cons] at hm
        omega
      simp only [bindingsAux, List.mem_cons, get_cons]
      rw [ih _ hlen k v, get_erase]
      by_cases h : a = k
      · subst h
        simp
        exact eq_comm
      · have hk : k ≠ a := by omega
        simp [h, hk]

/-- `(k, v)` is listed by `bindings` exactly when `get` returns it. -/
theorem mem_bindings (m : Map) (k v : Nat) : (k, v) ∈ bindings m ↔ get m k = some v :=
  mem_bindingsAux m.length m (Nat.le_refl _) k v

theorem bindingsAux_nodup : ∀ (f : Nat) (m : Map), m.length ≤ f →
    ((bindingsAux f m).map Prod.fst).Nodup := by
  intro f
  induction f with
  | zero => intro m _; simp [bindingsAux]
  | succ f ih =>
    intro m hm
    match m, hm with
    | [], _ => simp [bindingsAux]
    | (a, b) :: rest, hm =>
      have hlen : (erase rest a).length ≤ f := by
        have := erase_length_le rest a
        simp only [List.length_cons] at hm
        omega
      simp only [bindingsAux, List.map_cons, List.nodup_cons]
      refine ⟨?_, ih _ hlen⟩
      intro hmem
      rw [List.mem_map] at hmem
      obtain ⟨⟨k, v⟩, hkv, hk⟩ := hmem
      simp only at hk
      subst hk
      have := (mem_bindingsAux f (erase rest k) hlen k v).1 hkv
      rw [get_erase] at this
      simp at this

/-- No key is listed twice. -/
theorem bindings_nodup (m : Map) : ((bindings m).map Prod.fst).Nodup :=
  bindingsAux_nodup m.length m (Nat.le_refl _)

end Map
end Datacake
