import Datacake.Model.Timestamp
