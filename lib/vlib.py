"""Shared machinery of /verif/bin/check (python3 stdlib only).

Flow of one check run (DESIGN.md §1-§3):
  1. lake build of Datacake.Props.<ID> + dcdriver, axiom audit of every theorem in that file
  2. cargo build of the harness against /repo's current working tree (hooks on)
  3. corpus + generated cases through implementation (dcharness) and model (dcdriver)
  4. comparison impl/model (correspondence) and impl/spec (property oracle)
  5. known-finding replays, classification, evidence file, exit status
"""
import hashlib, json, os, re, subprocess, sys, time, concurrent.futures

VERIF = os.path.dirname(os.path.dirname(os.path.abspath(__file__)))
LEAN = os.path.join(VERIF, 'lean')
HARNESS = os.path.join(VERIF, 'harness')
CACHE = os.path.join(VERIF, '.cache')
DRIVER = os.path.join(LEAN, '.lake', 'build', 'bin', 'dcdriver')
HARNESS_BIN = os.path.join(CACHE, 'target', 'debug', 'dcharness')
ALLOWED_AXIOMS = {'propext', 'Classical.choice', 'Quot.sound'}
ENV = dict(os.environ, CARGO_NET_OFFLINE='true')
NPROC = os.cpu_count() or 4

MASK = (1 << 64) - 1


class Rng:
    """SplitMix64; every random choice of a run derives from VERIF_SEED."""

    def __init__(self, seed):
        self.s = seed & MASK

    def next(self):
        self.s = (self.s + 0x9E3779B97F4A7C15) & MASK
        z = self.s
        z = ((z ^ (z >> 30)) * 0xBF58476D1CE4E5B9) & MASK
        z = ((z ^ (z >> 27)) * 0x94D049BB133111EB) & MASK
        return z ^ (z >> 31)

    def below(self, n):
        return self.next() % n if n > 0 else 0

    def range(self, lo, hi):
        """inclusive"""
        return lo + self.below(hi - lo + 1)

    def choice(self, xs):
        return xs[self.below(len(xs))]

    def chance(self, num, den):
        return self.below(den) < num

    def shuffle(self, xs):
        xs = list(xs)
        for i in range(len(xs) - 1, 0, -1):
            j = self.below(i + 1)
            xs[i], xs[j] = xs[j], xs[i]
        return xs

    def fork(self):
        return Rng(self.next())


def sh(cmd, cwd=None, timeout=None, inp=None):
    p = subprocess.run(cmd, cwd=cwd, env=ENV, input=inp, stdout=subprocess.PIPE,
                       stderr=subprocess.STDOUT, timeout=timeout, text=True)
    return p.returncode, p.stdout


# --------------------------------------------------------------------------- Lean side

FORBIDDEN = re.compile(r'\b(sorry|admit|native_decide|bv_decide|implemented_by|unsafe)\b|^axiom\s|maxHeartbeats 0')


def strip_comments(src):
    out, depth, i = [], 0, 0
    while i < len(src):
        if src.startswith('/-', i):
            depth += 1; i += 2; continue
        if src.startswith('-/', i) and depth > 0:
            depth -= 1; i += 2; continue
        if depth == 0:
            if src.startswith('--', i):
                j = src.find('\n', i)
                i = len(src) if j < 0 else j
                continue
            out.append(src[i])
        elif src[i] == '\n':
            out.append('\n')
        i += 1
    return ''.join(out)


def lean_sources():
    res = []
    for root, _, files in os.walk(os.path.join(LEAN, 'Datacake')):
        for f in files:
            if f.endswith('.lean'):
                res.append(os.path.join(root, f))
    return sorted(res)


def forbidden_hits():
    hits = []
    for f in lean_sources():
        body = strip_comments(open(f).read())
        for n, line in enumerate(body.split('\n'), 1):
            if FORBIDDEN.search(line):
                hits.append('%s:%d: %s' % (os.path.relpath(f, VERIF), n, line.strip()))
    return hits


def theorems_of(prop_id):
    """Fully qualified names of the theorems stated in Props/<id>.lean."""
    path = os.path.join(LEAN, 'Datacake', 'Props', prop_id + '.lean')
    body = strip_comments(open(path).read())
    ns, names = [], []
    for line in body.split('\n'):
        m = re.match(r'\s*namespace\s+(\S+)', line)
        if m:
            ns.append(m.group(1)); continue
        m = re.match(r'\s*end\s+(\S+)', line)
        if m and ns and ns[-1] == m.group(1):
            ns.pop(); continue
        m = re.match(r'\s*(?:private\s+|protected\s+)?theorem\s+(\S+)', line)
        if m:
            names.append('.'.join(ns + [m.group(1)]))
    return names


def lean_build_and_audit(prop_id):
    """Returns dict(ok, obligations, discharged, theorems:[(name, axioms)], log, failed:[...])."""
    res = dict(ok=False, obligations=0, discharged=0, theorems=[], log='', failed=[])
    rc, out = sh(['lake', 'build', 'Datacake.Props.' + prop_id, 'dcdriver'], cwd=LEAN, timeout=3000)
    res['log'] = out[-6000:]
    if rc != 0:
        res['failed'].append('lake build Datacake.Props.%s failed' % prop_id)
        for m in re.finditer(r'error: (\S+?):(\d+):\d+: (.*)', out):
            res['failed'].append('%s:%s %s' % m.groups())
        return res
    hits = forbidden_hits()
    if hits:
        res['failed'] += ['forbidden token: ' + h for h in hits]
    names = theorems_of(prop_id)
    os.makedirs(os.path.join(CACHE, 'audit'), exist_ok=True)
    af = os.path.join(CACHE, 'audit', prop_id + '.lean')
    with open(af, 'w') as f:
        f.write('import Datacake.Props.%s\n' % prop_id)
        for n in names:
            f.write('#print axioms %s\n' % n)
    rc, out = sh(['lake', 'env', 'lean', af], cwd=LEAN, timeout=1200)
    if rc != 0:
        res['failed'].append('axiom audit failed to run: ' + out[-800:])
        return res
    flat = re.sub(r'\s+', ' ', out)
    seen = {}
    for m in re.finditer(r"'(\S+)' depends on axioms: \[([^\]]*)\]", flat):
        seen[m.group(1)] = [a.strip() for a in m.group(2).split(',') if a.strip()]
    for m in re.finditer(r"'(\S+)' does not depend on any axioms", flat):
        seen[m.group(1)] = []
    res['obligations'] = len(names)
    for n in names:
        ax = seen.get(n)
        if ax is None:
            res['failed'].append('no audit output for ' + n)
            continue
        res['theorems'].append((n, ax))
        if set(ax) <= ALLOWED_AXIOMS:
            res['discharged'] += 1
        else:
            res['failed'].append('%s uses axioms outside the allow-list: %s' % (n, ax))
    res['ok'] = not res['failed'] and res['obligations'] > 0
    return res


def leanchecker(prop_id):
    rc, out = sh(['lake', 'env', 'leanchecker', 'Datacake.Props.' + prop_id], cwd=LEAN, timeout=3000)
    return rc == 0, out[-2000:]


# --------------------------------------------------------------------------- Rust side

def harness_build(which='harness'):
    d = os.path.join(VERIF, which)
    lock_src = '/repo/Cargo.lock'
    lock_dst = os.path.join(d, 'Cargo.lock')
    if os.path.exists(lock_src) and not os.path.exists(lock_dst):
        import shutil
        shutil.copy(lock_src, lock_dst)
    rc, out = sh(['cargo', 'build', '--offline'], cwd=d, timeout=3000)
    return rc == 0, out[-6000:]


# --------------------------------------------------------------------------- running cases

STALL_SECS = int(os.environ.get('HARNESS_STALL_SECS', '420'))


def _run_chunk(args):
    """Runs one process over a chunk of cases.  The harnesses flush their output after every case; a process that prints
    nothing for STALL_SECS (the longest single case takes about a minute) is hung: it is killed and rc = 'hung'."""
    import threading
    binary, text = args
    p = subprocess.Popen([binary], stdin=subprocess.PIPE, stdout=subprocess.PIPE, stderr=subprocess.PIPE, text=True, env=ENV)
    out_lines, err, last = [], [], [time.time()]

    def feed():
        try:
            p.stdin.write(text); p.stdin.close()
        except Exception:
            pass

    def rd():
        for line in p.stdout:
            out_lines.append(line); last[0] = time.time()

    def rde():
        err.append(p.stderr.read())

    ths = [threading.Thread(target=f, daemon=True) for f in (feed, rd, rde)]
    for t in ths: t.start()
    hung = False
    while True:
        try:
            p.wait(timeout=2); break
        except subprocess.TimeoutExpired:
            if time.time() - last[0] > STALL_SECS:
                hung = True; p.kill(); p.wait(); break
    for t in ths[1:]: t.join(timeout=10)
    return ('hung' if hung else p.returncode), ''.join(out_lines), (err[0] if err else '')[-2000:]


def run_side(binary, cases, jobs=None, per_case_process=False):
    """cases: list of list-of-lines (each begins with 'case ..' and ends with 'end').
    Returns list of list-of-output-lines, same shape.  A crash of the binary inside a chunk is
    bisected down to the case, whose output becomes ['crash'...]."""
    jobs = jobs or NPROC
    n = len(cases)
    if n == 0:
        return []
    if per_case_process:
        chunks = [[i] for i in range(n)]
    else:
        # round-robin: generators emit their expensive families as contiguous blocks, which one worker would otherwise get whole
        k = max(1, min(jobs, n))
        chunks = [list(range(j, n, k)) for j in range(k)]
    results = [None] * n

    def text_of(idx):
        return ''.join('\n'.join(cases[i]) + '\n' for i in idx)

    def split_out(idx, out):
        lines = out.split('\n')
        if lines and lines[-1] == '':
            lines.pop()
        pos, ok = 0, True
        for i in idx:
            k = len(cases[i])
            seg = lines[pos:pos + k]
            pos += k
            if len(seg) != k:
                ok = False
                break
            results[i] = seg
        return ok and pos == len(lines)

    def work(idx):
        rc, out, err = _run_chunk((binary, text_of(idx)))
        if rc == 0 and split_out(idx, out):
            return
        if rc == 'hung':
            # the cases whose output is complete are kept, the first incomplete one is the case that hangs, the rest is run again
            lines = out.split('\n')
            if lines and lines[-1] == '':
                lines.pop()
            pos = 0
            for k, i in enumerate(idx):
                n_i = len(cases[i])
                seg = lines[pos:pos + n_i]
                if len(seg) == n_i and seg[-1] == 'end':
                    results[i] = seg; pos += n_i
                    continue
                results[i] = ['crash rc=hung: no output for %d s (the call never returned); output so far: %s' % (STALL_SECS, ' | '.join(seg)[-300:])] * n_i
                if idx[k + 1:]:
                    work(idx[k + 1:])
                return
            return
        if len(idx) == 1:
            results[idx[0]] = ['crash rc=%s %s' % (rc, err.strip().replace('\n', ' | ')[-300:])] * len(cases[idx[0]])
            return
        mid = len(idx) // 2
        work(idx[:mid]); work(idx[mid:])

    with concurrent.futures.ThreadPoolExecutor(max_workers=jobs) as ex:
        list(ex.map(work, chunks))
    return results


def split_spec(line):
    """driver line 'out\\t#spec x' -> (out, x or None)"""
    if '\t#spec ' in line:
        a, b = line.split('\t#spec ', 1)
        return a, b
    return line, None


class Outcome:
    def __init__(self):
        self.model_disagreements = []   # (case_index, line_index, impl, model)
        self.spec_failures = []         # (case_index, line_index, impl, spec)


def compare(cases, impl, model, out=None):
    out = out or Outcome()
    for ci, (c, a, b) in enumerate(zip(cases, impl, model)):
        for li, (x, y) in enumerate(zip(a, b)):
            m, s = split_spec(y)
            if x != m:
                out.model_disagreements.append((ci, li, x, m))
            if s is not None and s != '-' and x != s:
                out.spec_failures.append((ci, li, x, s))
    return out


def case_hash(case):
    return hashlib.sha1('\n'.join(case[1:]).encode()).hexdigest()[:16]


def load_case_file(path):
    cases, cur = [], None
    for line in open(path):
        line = line.rstrip('\n')
        if not line or line.startswith('#'):
            continue
        if line.startswith('case '):
            cur = [line]
        elif cur is not None:
            cur.append(line)
            if line == 'end':
                cases.append(cur); cur = None
    return cases


def write_case_file(path, cases, header=None):
    os.makedirs(os.path.dirname(path), exist_ok=True)
    with open(path, 'w') as f:
        if header:
            for h in header:
                f.write('# ' + h + '\n')
        for c in cases:
            f.write('\n'.join(c) + '\n')


def corpus_cases(prop_id):
    d = os.path.join(VERIF, 'corpus', prop_id)
    res = []
    if os.path.isdir(d):
        for f in sorted(os.listdir(d)):
            if f.endswith('.case'):
                res += load_case_file(os.path.join(d, f))
    return res


def shrink(case, still_fails, budget=200, removable=None):
    """Greedy delta-debugging on the operation lines of one case (header and 'end' kept).
    `removable(line)` restricts which lines may be deleted (the scaffolding of a case stays)."""
    head, ops, tail = case[0], case[1:-1], case[-1]
    removable = removable or (lambda l: True)
    n = 2
    while budget > 0:
        idx = [i for i, l in enumerate(ops) if removable(l)]
        if not idx:
            break
        size = max(1, len(idx) // n)
        changed = False
        j = 0
        while j < len(idx) and budget > 0:
            drop = set(idx[j:j + size])
            cand = [l for i, l in enumerate(ops) if i not in drop]
            budget -= 1
            if still_fails([head] + cand + [tail]):
                ops = cand; changed = True
                idx = [i for i, l in enumerate(ops) if removable(l)]
            else:
                j += size
        if not changed:
            if size == 1:
                break
            n = min(len(idx), n * 2)
    return [head] + ops + [tail]


# --------------------------------------------------------------------------- known findings

def known_findings(prop_id):
    p = os.path.join(VERIF, 'known_findings.jsonl')
    res = []
    if os.path.exists(p):
        for line in open(p):
            line = line.strip()
            if line:
                e = json.loads(line)
                if e.get('property') == prop_id:
                    res.append(e)
    return res


# --------------------------------------------------------------------------- evidence

def write_evidence(prop_id, tier, seed, coverage, assumptions, wall_s, violations, extra=None):
    os.makedirs(os.path.join(VERIF, 'evidence'), exist_ok=True)
    ev = dict(property_id=prop_id, tier=tier, seed=seed, level='proof', coverage=coverage,
              assumptions=assumptions, wall_s=round(wall_s, 2), violations=violations)
    if extra:
        ev.update(extra)
    with open(os.path.join(VERIF, 'evidence', prop_id + '.json'), 'w') as f:
        json.dump(ev, f, indent=1, sort_keys=True)
        f.write('\n')


# ---- change-directed escalation (DESIGN §11.9) -------------------------------------------------------------------------------------
FINGERPRINTS = os.path.join(VERIF, 'lib', 'fingerprints.json')
REPO = '/repo'
_ALL = ['datacake-crdt', 'datacake-node', 'datacake-rpc', 'datacake-eventual-consistency', 'datacake-sqlite', 'datacake-lmdb']
# the crates whose code a property's check executes (a change anywhere else cannot affect what the check observes)
PROP_CRATES = {
    'C03': ['datacake-crdt'], 'C04': ['datacake-crdt'], 'C05': ['datacake-crdt'], 'C08': ['datacake-crdt'],
    'C09': ['datacake-crdt'], 'C10': ['datacake-crdt'],
    'C11': ['datacake-crdt', 'datacake-node'], 'C15': ['datacake-crdt', 'datacake-node'],
    'C16': ['datacake-crdt', 'datacake-node', 'datacake-rpc', 'datacake-eventual-consistency'],
    'C12': ['datacake-rpc'], 'C13': ['datacake-rpc'], 'C14': ['datacake-rpc'],
    'C17': ['datacake-crdt', 'datacake-eventual-consistency', 'datacake-sqlite', 'datacake-lmdb'],
}


def source_hashes():
    """sha256 of every .rs / Cargo.toml file under the crates' directories in /repo's working tree (target/ excluded)"""
    out = {}
    for crate in _ALL:
        for root, dirs, files in os.walk(os.path.join(REPO, crate)):
            dirs[:] = [d for d in dirs if d not in ('target', '.git')]
            for f in files:
                if f.endswith('.rs') or f == 'Cargo.toml':
                    p = os.path.join(root, f)
                    out[os.path.relpath(p, REPO)] = hashlib.sha256(open(p, 'rb').read()).hexdigest()
    return out


def changed_sources(prop_id):
    """source files of the crates this property's check runs that differ from the fingerprinted tree (the tree the committed
    models, theorems and corpus were last brought up to date with); tests/ and benches/ of the crates are not compiled into the
    harness and do not count"""
    try:
        fp = json.load(open(FINGERPRINTS))['files']
    except Exception:
        return []
    now = source_hashes()
    crates = PROP_CRATES.get(prop_id, _ALL)
    ch = []
    for p in sorted(set(fp) | set(now)):
        parts = p.split('/')
        if parts[0] not in crates or (len(parts) > 1 and parts[1] in ('tests', 'benches', 'examples')):
            continue
        if fp.get(p) != now.get(p):
            ch.append(p)
    return ch
