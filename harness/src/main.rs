//! dcharness: runs the real datacake code on a case file (line protocol, see /verif/DESIGN.md §2).
//!
//! usage: dcharness < cases.txt > impl.txt
//! Every input line is answered by exactly one output line.

use std::io::{self, BufRead, Write};
use std::panic::{catch_unwind, AssertUnwindSafe};

mod actor;
mod cluster;
mod fullstack;
mod faulty;
mod group;
mod node;
mod orswot;
mod rpc;
mod store;
mod ts;

pub trait Domain {
    /// Handles one operation line (already split on whitespace); returns the canonical output.
    fn op(&mut self, toks: &[&str]) -> String;
}

fn new_domain(name: &str, params: &[&str]) -> Option<Box<dyn Domain>> {
    match name {
        "ts" => Some(Box::new(ts::TsDomain::new(params))),
        "orswot" => Some(Box::new(orswot::OrswotDomain::new(params))),
        "rpc" => Some(Box::new(rpc::RpcDomain::new(params))),
        "node" => Some(Box::new(node::NodeDomain::new(params))),
        "store" => Some(Box::new(store::StoreDomain::new(params))),
        "group" => Some(Box::new(group::GroupDomain::new(params))),
        "actor" => Some(Box::new(actor::ActorDomain::new(params))),
        "cluster" => Some(Box::new(cluster::ClusterDomain::new(params))),
        "full" => Some(Box::new(fullstack::FullDomain::new(params))),
        _ => None,
    }
}

/// A `tracing` subscriber that enables every event and span of the datacake crates and throws it away: the arguments of the
/// library's log statements are evaluated exactly as under any real subscriber (an arithmetic overflow or an `unwrap` inside a
/// `warn!(..)` argument is then as visible here as it is to a user who installed one), nothing is formatted or written.
struct EvalLogs;

impl tracing::Subscriber for EvalLogs {
    fn enabled(&self, m: &tracing::Metadata<'_>) -> bool { m.target().starts_with("datacake") }
    fn new_span(&self, _: &tracing::span::Attributes<'_>) -> tracing::span::Id { tracing::span::Id::from_u64(1) }
    fn record(&self, _: &tracing::span::Id, _: &tracing::span::Record<'_>) {}
    fn record_follows_from(&self, _: &tracing::span::Id, _: &tracing::span::Id) {}
    fn event(&self, _: &tracing::Event<'_>) {}
    fn enter(&self, _: &tracing::span::Id) {}
    fn exit(&self, _: &tracing::span::Id) {}
}

pub static PANICS: std::sync::atomic::AtomicUsize = std::sync::atomic::AtomicUsize::new(0);

fn main() {
    let _ = tracing::subscriber::set_global_default(EvalLogs);
    // panics are counted (a panic inside a connection task of the RPC server is otherwise only seen as a dropped connection)
    if std::env::var("DCH_VERBOSE").is_err() {
        std::panic::set_hook(Box::new(|_| { PANICS.fetch_add(1, std::sync::atomic::Ordering::SeqCst); }));
    }
    let stdin = io::stdin();
    let stdout = io::stdout();
    let mut out = io::BufWriter::new(stdout.lock());
    let mut dom: Option<Box<dyn Domain>> = None;
    for line in stdin.lock().lines() {
        let line = line.expect("read");
        let toks: Vec<&str> = line.split_whitespace().collect();
        if toks.is_empty() {
            writeln!(out).unwrap();
            continue;
        }
        match toks[0] {
            "case" => {
                // case <id> <domain> <params...>
                dom = new_domain(toks.get(2).copied().unwrap_or(""), &toks[3.min(toks.len())..]);
                writeln!(out, "case {}", toks.get(1).copied().unwrap_or("?")).unwrap();
            },
            "end" => {
                dom = None;
                writeln!(out, "end").unwrap();
                // the driver's watchdog reads the output case by case: a hung case is the first one without its `end`
                out.flush().unwrap();
            },
            _ => {
                let res = match dom.as_mut() {
                    None => "bad-op".to_string(),
                    Some(d) => {
                        match catch_unwind(AssertUnwindSafe(|| d.op(&toks))) {
                            Ok(s) => s,
                            Err(_) => "panic".to_string(),
                        }
                    },
                };
                writeln!(out, "{}", res).unwrap();
            },
        }
    }
    out.flush().unwrap();
}

pub fn p_u64(s: &str) -> u64 {
    s.parse::<u64>().expect("u64 argument")
}

pub fn unhex(s: &str) -> Vec<u8> {
    if s == "-" {
        return Vec::new();
    }
    (0..s.len() / 2)
        .map(|i| u8::from_str_radix(&s[2 * i..2 * i + 2], 16).expect("hex"))
        .collect()
}

pub fn hex(b: &[u8]) -> String {
    if b.is_empty() {
        return "-".to_string();
    }
    b.iter().map(|x| format!("{:02x}", x)).collect()
}
