//! Domain `full`: REAL nodes (chitchat membership over loopback) with the REAL eventually consistent store extension and all of
//! its background services (task distributor, anti-entropy poller, membership forwarding).  Slow (seconds per case) and
//! timing-based, so the expectations are eventual ones with generous deadlines; it exists to exercise the wiring between the
//! components that the focused domains drive one at a time.
use std::collections::BTreeMap;
use std::net::SocketAddr;
use std::sync::{Arc, Mutex};
use std::time::{Duration, Instant};

use datacake_eventual_consistency::test_utils::MemStore;
use datacake_eventual_consistency::{EventuallyConsistentStoreExtension, ReplicatedKeyspaceHandle};
use datacake_node::{ConnectionConfig, Consistency, DCAwareSelector, DatacakeNode, DatacakeNodeBuilder, NodeId};
use futures::StreamExt;

use crate::rpc::{free_addr, runtime};
use crate::{p_u64, Domain};

pub struct FullDomain;

impl FullDomain {
    pub fn new(_params: &[&str]) -> Self {
        Self
    }
}

async fn connect(id: NodeId, addr: SocketAddr, seeds: Vec<String>) -> Option<DatacakeNode> {
    let cfg = ConnectionConfig::new(addr, addr, seeds);
    DatacakeNodeBuilder::<DCAwareSelector>::new(id, cfg).connect().await.ok()
}

async fn arrives(handle: &ReplicatedKeyspaceHandle<MemStore>, id: u64, within: Duration) -> bool {
    let deadline = Instant::now() + within;
    while Instant::now() < deadline {
        if matches!(handle.get(id).await, Ok(Some(_))) {
            return true;
        }
        tokio::time::sleep(Duration::from_millis(100)).await;
    }
    false
}

/// leave: two nodes with stores (repair every hour: only the distributor delivers); node 2 stops gossiping but its RPC server and
/// store stay reachable; once node 1's membership reports it gone, a Consistency::None write of node 1 must not be sent to it.
async fn leave() -> String {
    let (a1, a2) = (free_addr(), free_addr());
    let (Some(n1), Some(n2)) = (connect(1, a1, vec![a2.to_string()]).await, connect(2, a2, vec![a1.to_string()]).await) else {
        return "full not-started".into();
    };
    if n1.wait_for_nodes([2], Duration::from_secs(30)).await.is_err() || n2.wait_for_nodes([1], Duration::from_secs(30)).await.is_err() {
        return "full not-started".into();
    }
    // a prompt subscriber of node 1's membership changes, applying them as the store's services do
    let view = Arc::new(Mutex::new(BTreeMap::<NodeId, SocketAddr>::new()));
    {
        let view = view.clone();
        let mut changes = n1.membership_changes();
        tokio::spawn(async move {
            while let Some(change) = changes.next().await {
                let mut v = view.lock().unwrap();
                for m in change.left.iter() {
                    v.remove(&m.node_id);
                }
                for m in change.joined.iter() {
                    v.insert(m.node_id, m.public_addr);
                }
            }
        });
    }
    let hour = Duration::from_secs(3600);
    let Ok(s1) = n1.add_extension(EventuallyConsistentStoreExtension::new(MemStore::default()).with_repair_interval(hour)).await else {
        return "full not-started".into();
    };
    let Ok(s2) = n2.add_extension(EventuallyConsistentStoreExtension::new(MemStore::default()).with_repair_interval(hour)).await else {
        return "full not-started".into();
    };
    let (h1, h2) = (s1.handle_with_keyspace("fs"), s2.handle_with_keyspace("fs"));
    tokio::time::sleep(Duration::from_millis(1500)).await;
    let _ = h1.put(1, b"first".to_vec(), Consistency::None).await;
    let sanity = arrives(&h2, 1, Duration::from_secs(6)).await;
    n2.shutdown().await;
    let deadline = Instant::now() + Duration::from_secs(120);
    while view.lock().unwrap().contains_key(&2) && Instant::now() < deadline {
        tokio::time::sleep(Duration::from_millis(200)).await;
    }
    let left_seen = !view.lock().unwrap().contains_key(&2);
    // let the store's own services process the same change, then write
    tokio::time::sleep(Duration::from_millis(1500)).await;
    let _ = h1.put(2, b"second".to_vec(), Consistency::None).await;
    let delivered = arrives(&h2, 2, Duration::from_secs(4)).await;
    n1.shutdown().await;
    format!("full sanity={} left_seen={} delivered_after_leave={}", sanity, left_seen, delivered)
}

/// rejoin: two nodes; node 1 has a membership subscriber and the store; node 2 stops and comes back at once under the SAME id at
/// a NEW address (a restart faster than failure detection); once node 1 has declared the old incarnation dead and membership is
/// quiescent, the subscriber must hold node 2 at its new address and a Consistency::None write of node 1 must reach the new node 2.
async fn rejoin() -> String {
    let (a1, a2, a2new) = (free_addr(), free_addr(), free_addr());
    let (Some(n1), Some(n2)) = (connect(1, a1, vec![a2.to_string()]).await, connect(2, a2, vec![a1.to_string()]).await) else {
        return "full not-started".into();
    };
    if n1.wait_for_nodes([2], Duration::from_secs(30)).await.is_err() || n2.wait_for_nodes([1], Duration::from_secs(30)).await.is_err() {
        return "full not-started".into();
    }
    let view = Arc::new(Mutex::new(BTreeMap::<NodeId, SocketAddr>::new()));
    {
        let view = view.clone();
        let mut changes = n1.membership_changes();
        tokio::spawn(async move {
            while let Some(change) = changes.next().await {
                let mut v = view.lock().unwrap();
                for m in change.left.iter() {
                    v.remove(&m.node_id);
                }
                for m in change.joined.iter() {
                    v.insert(m.node_id, m.public_addr);
                }
            }
        });
    }
    let hour = Duration::from_secs(3600);
    let Ok(s1) = n1.add_extension(EventuallyConsistentStoreExtension::new(MemStore::default()).with_repair_interval(hour)).await else {
        return "full not-started".into();
    };
    tokio::time::sleep(Duration::from_millis(1200)).await;
    let first = view.lock().unwrap().get(&2).copied() == Some(a2);
    n2.shutdown().await;
    let Some(n2b) = connect(2, a2new, vec![a1.to_string()]).await else {
        return "full not-started".into();
    };
    let Ok(s2) = n2b.add_extension(EventuallyConsistentStoreExtension::new(MemStore::default()).with_repair_interval(hour)).await else {
        return "full not-started".into();
    };
    if n2b.wait_for_nodes([1], Duration::from_secs(30)).await.is_err() {
        return "full not-started".into();
    }
    // the old incarnation is declared dead by node 1's failure detector (about 20 s); then let things settle
    let stats = n1.statistics();
    let deadline = Instant::now() + Duration::from_secs(120);
    while stats.num_dead_members() == 0 && Instant::now() < deadline {
        tokio::time::sleep(Duration::from_millis(200)).await;
    }
    let dead_seen = stats.num_dead_members() >= 1 && stats.num_live_members() == 2;
    tokio::time::sleep(Duration::from_secs(4)).await;
    let held = view.lock().unwrap().get(&2).copied();
    let view_s = match held {
        Some(a) if a == a2new => "new",
        Some(a) if a == a2 => "old",
        Some(_) => "other",
        None => "none",
    };
    let (h1, h2) = (s1.handle_with_keyspace("fs"), s2.handle_with_keyspace("fs"));
    let _ = h1.put(5, b"after".to_vec(), Consistency::None).await;
    let delivered = arrives(&h2, 5, Duration::from_secs(6)).await;
    n1.shutdown().await;
    n2b.shutdown().await;
    format!("full first={} dead_seen={} view={} delivered_to_new={}", first, dead_seen, view_s, delivered)
}

/// converge <seed>: three nodes with stores (repair every second); Consistency::None puts and deletes at different nodes; after a
/// few seconds every node must return the same documents, per id the operation issued last.
async fn converge(seed: u64) -> String {
    let addrs = [free_addr(), free_addr(), free_addr()];
    let mut nodes = Vec::new();
    for (i, a) in addrs.iter().enumerate() {
        let seeds = addrs.iter().filter(|x| *x != a).map(|x| x.to_string()).collect();
        match connect((i + 1) as u8, *a, seeds).await {
            Some(n) => nodes.push(n),
            None => return "full not-started".into(),
        }
    }
    for (i, n) in nodes.iter().enumerate() {
        let peers = (1..=3u8).filter(|p| *p != (i + 1) as u8).collect::<Vec<_>>();
        if n.wait_for_nodes(&peers, Duration::from_secs(30)).await.is_err() {
            return "full not-started".into();
        }
    }
    let mut stores = Vec::new();
    for n in nodes.iter() {
        match n.add_extension(EventuallyConsistentStoreExtension::new(MemStore::default()).with_repair_interval(Duration::from_secs(1))).await {
            Ok(s) => stores.push(s),
            Err(_) => return "full not-started".into(),
        }
    }
    let hs: Vec<_> = stores.iter().map(|s| s.handle_with_keyspace("fs")).collect();
    tokio::time::sleep(Duration::from_millis(800)).await;
    // the operations are issued one after the other (so "issued last" is well defined), at pseudo-random nodes
    let mut s = seed;
    let mut expect: BTreeMap<u64, Option<Vec<u8>>> = BTreeMap::new();
    for step in 0..10u64 {
        s = s.wrapping_mul(6364136223846793005).wrapping_add(1442695040888963407);
        let node = ((s >> 33) % 3) as usize;
        let id = 1 + (s >> 40) % 3;
        let level = if (s >> 45) % 4 == 0 { Consistency::All } else { Consistency::None };
        if (s >> 50) % 3 == 0 {
            let _ = hs[node].del(id, level).await;
            expect.insert(id, None);
        } else {
            let data = vec![step as u8, node as u8];
            let _ = hs[node].put(id, data.clone(), level).await;
            expect.insert(id, Some(data));
        }
        tokio::time::sleep(Duration::from_millis(30)).await;
    }
    // distributor tick (1 s) + a few anti-entropy rounds (1 s each)
    let deadline = Instant::now() + Duration::from_secs(12);
    let mut bad = Vec::new();
    loop {
        bad.clear();
        for (j, h) in hs.iter().enumerate() {
            for (id, want) in expect.iter() {
                let got = h.get(*id).await.ok().flatten().map(|d| d.data().to_vec());
                if &got != want {
                    bad.push(format!("node{}:id{}", j + 1, id));
                }
            }
        }
        if bad.is_empty() || Instant::now() >= deadline {
            break;
        }
        tokio::time::sleep(Duration::from_millis(300)).await;
    }
    for n in nodes {
        n.shutdown().await;
    }
    if bad.is_empty() { "full converged".into() } else { format!("full DIVERGED {}", bad.join(",")) }
}

/// joinwrite: nodes 1 and 2 with stores; node 1 writes at Consistency::All every 40 ms, all the time; node 3 joins with a store.
/// A prompt subscriber of node 1's membership changes records WHEN node 1 was told of node 3.  Every write node 1 ISSUED after
/// that moment and that returned Ok must be readable on node 3 the moment it returned (C06: "every other member for
/// All" - the members are those of the moment the write is issued; a selection that outlives a join is too small).
async fn joinwrite() -> String {
    let (a1, a2, a3) = (free_addr(), free_addr(), free_addr());
    let (Some(n1), Some(n2)) = (connect(1, a1, vec![a2.to_string()]).await, connect(2, a2, vec![a1.to_string()]).await) else {
        return "full not-started".into();
    };
    if n1.wait_for_nodes([2], Duration::from_secs(30)).await.is_err() || n2.wait_for_nodes([1], Duration::from_secs(30)).await.is_err() {
        return "full not-started".into();
    }
    let told: Arc<Mutex<Option<Instant>>> = Arc::new(Mutex::new(None));
    {
        let told = told.clone();
        let mut changes = n1.membership_changes();
        tokio::spawn(async move {
            while let Some(change) = changes.next().await {
                if change.joined.iter().any(|m| m.node_id == 3) {
                    let mut t = told.lock().unwrap();
                    if t.is_none() { *t = Some(Instant::now()); }
                }
            }
        });
    }
    let hour = Duration::from_secs(3600);
    let Ok(s1) = n1.add_extension(EventuallyConsistentStoreExtension::new(MemStore::default()).with_repair_interval(hour)).await else {
        return "full not-started".into();
    };
    let Ok(s2) = n2.add_extension(EventuallyConsistentStoreExtension::new(MemStore::default()).with_repair_interval(hour)).await else {
        return "full not-started".into();
    };
    let _keep = s2;
    let h1 = s1.handle_with_keyspace("fs");
    tokio::time::sleep(Duration::from_millis(1200)).await;
    // the writer: (id, issued at, returned Ok)
    let log: Arc<Mutex<Vec<(u64, Instant, bool)>>> = Arc::new(Mutex::new(Vec::new()));
    let stop = Arc::new(std::sync::atomic::AtomicBool::new(false));
    let h3slot: Arc<Mutex<Option<ReplicatedKeyspaceHandle<MemStore>>>> = Arc::new(Mutex::new(None));
    let missing = Arc::new(std::sync::atomic::AtomicU64::new(0));
    let judged = Arc::new(std::sync::atomic::AtomicU64::new(0));
    let writer = {
        let (log, stop, told, h3slot, missing, judged) = (log.clone(), stop.clone(), told.clone(), h3slot.clone(), missing.clone(), judged.clone());
        tokio::spawn(async move {
            let mut id = 1000u64;
            while !stop.load(std::sync::atomic::Ordering::SeqCst) {
                id += 1;
                // read BEFORE the write starts: the selector is given a membership before the subscribers are (set_nodes precedes
                // the publication in the node's membership watcher), so it already knows node 3 when this is set
                let t = *told.lock().unwrap();
                let issued = Instant::now();
                let ok = h1.put(id, vec![id as u8], Consistency::All).await.is_ok();
                log.lock().unwrap().push((id, issued, ok));
                if let (true, Some(_)) = (ok, t) {
                    {
                        let h3 = h3slot.lock().unwrap().clone();
                        if let Some(h3) = h3 {
                            judged.fetch_add(1, std::sync::atomic::Ordering::SeqCst);
                            if !matches!(h3.get(id).await, Ok(Some(_))) {
                                missing.fetch_add(1, std::sync::atomic::Ordering::SeqCst);
                            }
                        }
                    }
                }
                tokio::time::sleep(Duration::from_millis(40)).await;
            }
        })
    };
    // let the writer establish its rhythm, then node 3 joins - at an offset that differs from run to run
    tokio::time::sleep(Duration::from_millis(700 + (a3.port() as u64 % 7) * 130)).await;
    let Some(n3) = connect(3, a3, vec![a1.to_string()]).await else {
        stop.store(true, std::sync::atomic::Ordering::SeqCst);
        return "full not-started".into();
    };
    let Ok(s3) = n3.add_extension(EventuallyConsistentStoreExtension::new(MemStore::default()).with_repair_interval(hour)).await else {
        stop.store(true, std::sync::atomic::Ordering::SeqCst);
        return "full not-started".into();
    };
    *h3slot.lock().unwrap() = Some(s3.handle_with_keyspace("fs"));
    let deadline = Instant::now() + Duration::from_secs(30);
    while told.lock().unwrap().is_none() && Instant::now() < deadline {
        tokio::time::sleep(Duration::from_millis(50)).await;
    }
    let seen = told.lock().unwrap().is_some();
    tokio::time::sleep(Duration::from_millis(3200)).await;
    stop.store(true, std::sync::atomic::Ordering::SeqCst);
    let _ = writer.await;
    let writes = log.lock().unwrap().len();
    n1.shutdown().await;
    n2.shutdown().await;
    n3.shutdown().await;
    format!("full join_seen={} writes={} judged={} missing={}", seen, writes, judged.load(std::sync::atomic::Ordering::SeqCst), missing.load(std::sync::atomic::Ordering::SeqCst))
}

impl Domain for FullDomain {
    fn op(&mut self, t: &[&str]) -> String {
        match t[0] {
            "joinwrite" => runtime().block_on(joinwrite()),
            "leave" => runtime().block_on(leave()),
            "rejoin" => runtime().block_on(rejoin()),
            "converge" => runtime().block_on(converge(p_u64(t[1]))),
            _ => "bad-op".into(),
        }
    }
}
