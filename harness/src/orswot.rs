//! Domain `orswot`: OrSWotSet<N> (C03, C04, C05, C08).  Only observables are printed.
use datacake_crdt::{HLCTimestamp, OrSWotSet};

use crate::{p_u64, Domain};

const FRESH_KEY: u64 = u64::MAX - 7;

enum Set {
    N1(OrSWotSet<1>),
    N2(OrSWotSet<2>),
}

macro_rules! with_set {
    ($s:expr, $v:ident => $e:expr) => {
        match $s {
            Set::N1($v) => $e,
            Set::N2($v) => $e,
        }
    };
}

pub struct OrswotDomain {
    n: usize,
    regs: Vec<Set>,
}

fn ts(s: &str) -> HLCTimestamp {
    HLCTimestamp::from_u64(p_u64(s))
}

fn fmt_pairs(mut v: Vec<(u64, HLCTimestamp)>) -> String {
    if v.is_empty() {
        return "-".to_string();
    }
    v.sort_by_key(|p| (p.0, p.1));
    v.iter().map(|(k, t)| format!("{}:{}", k, t.as_u64())).collect::<Vec<_>>().join(",")
}

pub fn parse_pairs(s: &str) -> Vec<(u64, HLCTimestamp)> {
    if s == "-" {
        return vec![];
    }
    s.split(',')
        .map(|p| {
            let (a, b) = p.split_once(':').expect("pair");
            (p_u64(a), ts(b))
        })
        .collect()
}

impl OrswotDomain {
    pub fn new(params: &[&str]) -> Self {
        let n = params.first().map(|s| p_u64(s) as usize).unwrap_or(1);
        let mut d = Self { n, regs: Vec::new() };
        for _ in 0..4 {
            d.regs.push(d.fresh());
        }
        d
    }

    fn fresh(&self) -> Set {
        if self.n == 1 {
            Set::N1(OrSWotSet::<1>::default())
        } else {
            Set::N2(OrSWotSet::<2>::default())
        }
    }
}

impl Domain for OrswotDomain {
    fn op(&mut self, t: &[&str]) -> String {
        let r = |i: usize| p_u64(t[i]) as usize;
        match t[0] {
            "ins" => {
                let (src, k, stamp) = (r(2), p_u64(t[3]), ts(t[4]));
                with_set!(&mut self.regs[r(1)], s => s.insert_with_source(src, k, stamp)).to_string()
            },
            "del" => {
                let (src, k, stamp) = (r(2), p_u64(t[3]), ts(t[4]));
                with_set!(&mut self.regs[r(1)], s => s.delete_with_source(src, k, stamp)).to_string()
            },
            "will" => {
                let (k, stamp) = (p_u64(t[2]), ts(t[3]));
                with_set!(&self.regs[r(1)], s => s.will_apply(k, stamp)).to_string()
            },
            "get" => {
                let k = p_u64(t[2]);
                match with_set!(&self.regs[r(1)], s => s.get(&k).copied()) {
                    Some(v) => v.as_u64().to_string(),
                    None => "none".to_string(),
                }
            },
            "dump" | "lww" => {
                let (c, d) = match &self.regs[r(1)] {
                    Set::N1(s) => OrSWotSet::<1>::default().diff(s),
                    Set::N2(s) => OrSWotSet::<2>::default().diff(s),
                };
                format!("E {} D {}", fmt_pairs(c), fmt_pairs(d))
            },
            "diff" => {
                let (c, d) = match (&self.regs[r(1)], &self.regs[r(2)]) {
                    (Set::N1(a), Set::N1(b)) => a.diff(b),
                    (Set::N2(a), Set::N2(b)) => a.diff(b),
                    _ => unreachable!(),
                };
                format!("C {} R {}", fmt_pairs(c), fmt_pairs(d))
            },
            "lwwlive" => {
                let (c, _d) = match &self.regs[r(1)] {
                    Set::N1(s) => OrSWotSet::<1>::default().diff(s),
                    Set::N2(s) => OrSWotSet::<2>::default().diff(s),
                };
                format!("E {}", fmt_pairs(c))
            },
            "applydiff" => {
                let (a, b, src, mode) = (r(1), r(2), r(3), p_u64(t[4]));
                let (mut cs, mut rs) = match (&self.regs[a], &self.regs[b]) {
                    (Set::N1(x), Set::N1(y)) => x.diff(y),
                    (Set::N2(x), Set::N2(y)) => x.diff(y),
                    _ => unreachable!(),
                };
                cs.sort_by_key(|p| (p.1, p.0));
                rs.sort_by_key(|p| (p.1, p.0));
                let mut items: Vec<(bool, u64, HLCTimestamp)> = Vec::new();
                if mode == 0 {
                    items.extend(rs.iter().map(|p| (true, p.0, p.1)));
                    items.extend(cs.iter().map(|p| (false, p.0, p.1)));
                } else if mode == 1 {
                    items.extend(cs.iter().map(|p| (false, p.0, p.1)));
                    items.extend(rs.iter().map(|p| (true, p.0, p.1)));
                } else {
                    let mut bits = mode / 2;
                    let (mut i, mut j) = (0, 0);
                    while i < rs.len() || j < cs.len() {
                        let take_r = if i >= rs.len() {
                            false
                        } else if j >= cs.len() {
                            true
                        } else {
                            let b = bits % 2 == 0;
                            bits /= 2;
                            b
                        };
                        if take_r {
                            items.push((true, rs[i].0, rs[i].1));
                            i += 1;
                        } else {
                            items.push((false, cs[j].0, cs[j].1));
                            j += 1;
                        }
                    }
                }
                let mut cnt = 0;
                for (is_del, k, stamp) in items.iter() {
                    let res = if *is_del {
                        with_set!(&mut self.regs[a], s => s.delete_with_source(src, *k, *stamp))
                    } else {
                        with_set!(&mut self.regs[a], s => s.insert_with_source(src, *k, *stamp))
                    };
                    if res {
                        cnt += 1;
                    }
                }
                format!("applied {}/{}", cnt, items.len())
            },
            "merge" => {
                let (a, b) = (r(1), r(2));
                match &self.regs[b] {
                    Set::N1(o) => {
                        let o = o.clone();
                        if let Set::N1(s) = &mut self.regs[a] {
                            s.merge(o)
                        }
                    },
                    Set::N2(o) => {
                        let o = o.clone();
                        if let Set::N2(s) = &mut self.regs[a] {
                            s.merge(o)
                        }
                    },
                }
                "ok".to_string()
            },
            "purge" => {
                let v = with_set!(&mut self.regs[r(1)], s => s.purge_old_deletes());
                fmt_pairs(v)
            },
            "rawtomb" => {
                let v = parse_pairs(t[2]);
                with_set!(&mut self.regs[r(1)], s => s.add_raw_tombstones(v));
                "ok".to_string()
            },
            "copy" => {
                let c = match &self.regs[r(2)] {
                    Set::N1(s) => Set::N1(s.clone()),
                    Set::N2(s) => Set::N2(s.clone()),
                };
                self.regs[r(1)] = c;
                "ok".to_string()
            },
            "reset" => {
                self.regs[r(1)] = self.fresh();
                "ok".to_string()
            },
            "hist" => "ok".to_string(),
            "cut" => {
                // least stamp with node id <n> that is not refused as "before the last observed event",
                // found by bisection with will_apply on a key the set does not hold.
                let node = p_u64(t[2]);
                let reg = &self.regs[r(1)];
                let ok = |x: u64| with_set!(reg, s => s.will_apply(FRESH_KEY, HLCTimestamp::from_u64((x << 8) | node)));
                let (mut lo, mut hi) = (0u64, (1u64 << 56) - 1);
                if !ok(hi) {
                    return "cut none".to_string();
                }
                while lo < hi {
                    let mid = lo + (hi - lo) / 2;
                    if ok(mid) {
                        hi = mid;
                    } else {
                        lo = mid + 1;
                    }
                }
                format!("cut {}", (lo << 8) | node)
            },
            _ => "bad-op".to_string(),
        }
    }
}
