//! Domain `group`: KeyspaceGroup::get_or_create_keyspace under concurrent first use (C18).
use std::marker::PhantomData;
use std::sync::Arc;

use datacake_crdt::OrSWotSet;
use datacake_eventual_consistency::test_utils::MemStore;
use datacake_eventual_consistency::verif::{KeyspaceGroup, Serialize, Set, NUM_SOURCES};
use datacake_eventual_consistency::{Document, Storage};
use datacake_node::Clock;

use crate::{p_u64, Domain};

pub struct GroupDomain;

impl GroupDomain {
    pub fn new(_params: &[&str]) -> Self {
        Self
    }
}

fn lcg(s: &mut u64) -> u64 {
    *s = s.wrapping_mul(6364136223846793005).wrapping_add(1442695040888963407);
    *s >> 33
}

pub fn decode_set(bytes: &[u8]) -> OrSWotSet<NUM_SOURCES> {
    let mut aligned = rkyv::AlignedVec::with_capacity(bytes.len());
    aligned.extend_from_slice(bytes);
    unsafe { rkyv::from_bytes_unchecked(&aligned).expect("decode set") }
}

async fn race(k: u64, seed: u64, maxdelay: u64, names: u64) -> String {
    // task i uses the keyspace `race<i % names>`: with names > 1 several FRESH keyspaces are first used at the same time
    let ksname = move |i: u64| if names <= 1 { "race".to_string() } else { format!("race{}", i % names) };
    use datacake_eventual_consistency::verif::{ConsistencyService, GetState, PutPayload, ReplicationService};
    use datacake_rpc::{Handler, Request};

    let clock = Clock::new(1);
    let store = Arc::new(MemStore::default());
    let group = KeyspaceGroup::new(store.clone(), clock.clone()).await;
    // the three kinds of first users the property names: a client write (the group directly), incoming replication (the
    // ConsistencyService handler of a peer's put), repair (the ReplicationService handler of a peer's GetState)
    let consistency = Arc::new(ConsistencyService::new(group.clone(), datacake_node::RpcNetwork::default()));
    let replication = Arc::new(ReplicationService::new(group.clone()));
    let mut handles = Vec::new();
    let mut s = seed;
    for i in 0..k {
        let (d1, d2) = (lcg(&mut s) % (maxdelay + 1), lcg(&mut s) % (maxdelay + 1));
        let kind = lcg(&mut s) % 3;
        let group = group.clone();
        let clock = clock.clone();
        let consistency = consistency.clone();
        handles.push(tokio::spawn(async move {
            for _ in 0..d1 {
                tokio::task::yield_now().await;
            }
            if kind == 1 {
                // incoming replication
                let ts = clock.get_time().await;
                let document = Document::new(i, ts, vec![i as u8]);
                let req = Request::using_owned(PutPayload { keyspace: ksname(i), ctx: None, document, timestamp: ts }).await;
                return consistency.on_message(req).await.is_ok();
            }
            let ks = group.get_or_create_keyspace(&ksname(i)).await;
            for _ in 0..d2 {
                tokio::task::yield_now().await;
            }
            let doc = Document::new(i, clock.get_time().await, vec![i as u8]);
            let res = ks
                .send(Set { source: 0, doc, ctx: None, _marker: PhantomData::<MemStore> })
                .await;
            res.is_ok()
        }));
    }
    // peers asking for the keyspace state while it is being used for the first time (they write nothing)
    let extras = lcg(&mut s) % 3;
    let mut extra_handles = Vec::new();
    for e in 0..extras {
        let d1 = lcg(&mut s) % (maxdelay + 1);
        let replication = replication.clone();
        let clock = clock.clone();
        extra_handles.push(tokio::spawn(async move {
            for _ in 0..d1 {
                tokio::task::yield_now().await;
            }
            let ts = clock.get_time().await;
            let req = Request::using_owned(GetState { keyspace: ksname(e), timestamp: ts }).await;
            let _ = replication.on_message(req).await;
        }));
    }
    for h in extra_handles {
        let _ = h.await;
    }
    let mut acked = Vec::new();
    for (i, h) in handles.into_iter().enumerate() {
        if h.await.unwrap_or(false) {
            acked.push(i as u64);
        }
    }
    // every keyspace that was used: what a fresh lookup finds under its name, and what storage holds for it
    let mut ids: Vec<u64> = Vec::new();
    let mut stored: Vec<u64> = Vec::new();
    for n in 0..names.max(1).min(k.max(1)) {
        let ks = group.get_or_create_keyspace(&ksname(n)).await;
        let bytes = ks.send(Serialize).await.expect("serialize");
        let set = decode_set(&bytes);
        let (live, _dead) = OrSWotSet::<NUM_SOURCES>::default().diff(&set);
        ids.extend(live.iter().map(|p| p.0));
        stored.extend(store.iter_metadata(&ksname(n)).await.expect("meta").map(|m| m.0));
    }
    ids.sort();
    stored.sort();
    let f = |v: &Vec<u64>| if v.is_empty() { "-".to_string() } else { v.iter().map(|x| x.to_string()).collect::<Vec<_>>().join(",") };
    format!("acked {} set {} stored {}", f(&acked), f(&ids), f(&stored))
}

/// A replicated write from a peer arrives WHILE the store of a restarting node is still loading its persisted keyspaces
/// (after the metadata scan of the keyspace, before its state is installed).  The real node, the real store extension.
async fn startup_race() -> String {
    use std::sync::atomic::Ordering;
    use std::time::Duration;

    use datacake_eventual_consistency::verif::{ConsistencyClient, ReplicationClient};
    use datacake_eventual_consistency::EventuallyConsistentStoreExtension;
    use datacake_node::{ConnectionConfig, DCAwareSelector, DatacakeNodeBuilder, RpcNetwork};

    use crate::faulty::FaultyStore;
    type S = FaultyStore<MemStore>;

    let mem = Arc::new(MemStore::default());
    let seed_clock = Clock::new(9);
    for id in [1u64, 3] {
        let doc = Document::new(id, seed_clock.get_time().await, vec![id as u8]);
        mem.put("ks", doc).await.expect("seed");
    }
    let fs = FaultyStore::new(mem.clone());
    let (gate, reached, gate_meta) = (fs.gate.clone(), fs.reached.clone(), fs.gate_meta.clone());
    gate_meta.store(true, Ordering::SeqCst);
    let addr = crate::rpc::free_addr();
    let node = match DatacakeNodeBuilder::<DCAwareSelector>::new(1, ConnectionConfig::new(addr, addr, Vec::<String>::new())).connect().await {
        Ok(n) => Arc::new(n),
        Err(_) => return "startup not-started".into(),
    };
    let n2 = node.clone();
    let t = tokio::spawn(async move { n2.add_extension(EventuallyConsistentStoreExtension::new(fs)).await.map_err(|e| e.to_string()) });
    let mut waited = 0;
    while !reached.load(Ordering::SeqCst) && waited < 3000 {
        tokio::time::sleep(Duration::from_millis(1)).await;
        waited += 1;
    }
    let clock = Clock::new(2);
    let network = RpcNetwork::default();
    let mut client = ConsistencyClient::<S>::new(clock.clone(), network.get_or_connect(addr));
    let doc2 = Document::new(2, clock.get_time().await, vec![2]);
    let ack = matches!(
        tokio::time::timeout(Duration::from_secs(3), client.put("ks", doc2, 2, crate::rpc::free_addr())).await,
        Ok(Ok(()))
    );
    gate_meta.store(false, Ordering::SeqCst);
    gate.notify_waiters();
    gate.notify_one();
    let store = match tokio::time::timeout(Duration::from_secs(10), t).await {
        Ok(Ok(Ok(store))) => store,
        _ => return format!("startup store-failed ack={}", ack),
    };
    let mut rc = ReplicationClient::<S>::new(clock, network.get_or_connect(addr));
    let visible = match tokio::time::timeout(Duration::from_secs(3), rc.get_state("ks")).await {
        Ok(Ok((_, set))) => set.get(&2).is_some(),
        _ => false,
    };
    drop(store);
    format!("startup ack={} visible={}", ack, visible)
}

impl Domain for GroupDomain {
    fn op(&mut self, t: &[&str]) -> String {
        match t[0] {
            "startup-race" => crate::rpc::runtime().block_on(startup_race()),
            // race <k> <seed> <maxdelay> <threads> [names]   (threads = 0: current_thread runtime; names: how many fresh keyspaces the tasks use)
            "race" => {
                let (k, seed, maxdelay, threads) = (p_u64(t[1]), p_u64(t[2]), p_u64(t[3]), p_u64(t[4]));
                let rt = if threads == 0 {
                    tokio::runtime::Builder::new_current_thread().enable_all().build().unwrap()
                } else {
                    tokio::runtime::Builder::new_multi_thread().worker_threads(threads as usize).enable_all().build().unwrap()
                };
                let names = t.get(5).map(|x| p_u64(x)).unwrap_or(1);
                let out = rt.block_on(race(k, seed, maxdelay, names));
                rt.shutdown_background();
                out
            },
            _ => "bad-op".into(),
        }
    }
}
