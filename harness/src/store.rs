//! Domain `store`: the three bundled `Storage` backends against the reference model (C17).
use std::path::PathBuf;
use std::sync::Arc;

use datacake_crdt::HLCTimestamp;
use datacake_eventual_consistency::test_utils::MemStore;
use datacake_eventual_consistency::{Document, DocumentMetadata, Storage};
use datacake_lmdb::LmdbStorage;
use datacake_sqlite::SqliteStorage;

use crate::rpc::runtime;
use crate::{hex, p_u64, unhex, Domain};

pub fn gen_data(desc: &str) -> Vec<u8> {
    if let Some(rest) = desc.strip_prefix('z') {
        let (size, seed) = rest.split_once(':').expect("z<size>:<seed>");
        let (size, seed) = (p_u64(size), p_u64(seed));
        (0..size).map(|i| ((seed.wrapping_add(i).wrapping_mul(2654435761)) >> 8) as u8).collect()
    } else {
        unhex(desc)
    }
}

/// Canonical print of a payload: hex when short, otherwise length + positional checksum + head.
pub fn show_data(d: &[u8]) -> String {
    if d.len() <= 32 {
        hex(d)
    } else {
        let mut sum: u64 = 0;
        for (i, b) in d.iter().enumerate() {
            sum = (sum + ((i as u64 % 65521) + 1) * (*b as u64)) % 4294967296;
        }
        format!("len{}:sum{}:{}", d.len(), sum, hex(&d[..8]))
    }
}

pub fn ks_name(k: &str) -> String {
    format!("ks-{}", k)
}

pub enum Backend {
    Mem(Arc<MemStore>),
    Sqlite(SqliteStorage),
    Lmdb(LmdbStorage),
}

macro_rules! with_backend {
    ($b:expr, $s:ident => $e:expr) => {
        match $b {
            Backend::Mem($s) => {
                let $s: &MemStore = $s.as_ref();
                $e
            },
            Backend::Sqlite($s) => $e,
            Backend::Lmdb($s) => $e,
        }
    };
}

pub fn scratch_dir(tag: &str) -> PathBuf {
    let base = std::env::var("VERIF_SCRATCH").unwrap_or_else(|_| "/verif/.cache/tmp".to_string());
    let p = PathBuf::from(base).join(format!("{}-{}", std::process::id(), tag));
    let _ = std::fs::remove_dir_all(&p);
    std::fs::create_dir_all(&p).expect("scratch dir");
    p
}

pub fn open_backend(kind: &str, dir: &PathBuf) -> Backend {
    match kind {
        "mem" => Backend::Mem(Arc::new(MemStore::default())),
        "sqlite" => Backend::Sqlite(runtime().block_on(SqliteStorage::open(dir.join("db.sqlite"))).expect("open sqlite")),
        "lmdb" => Backend::Lmdb(runtime().block_on(LmdbStorage::open(dir.join("lmdb"))).expect("open lmdb")),
        _ => panic!("backend"),
    }
}

pub struct StoreDomain {
    kind: String,
    dir: PathBuf,
    backend: Option<Backend>,
}

impl StoreDomain {
    pub fn new(params: &[&str]) -> Self {
        let kind = params.first().copied().unwrap_or("mem").to_string();
        let tag = params.get(1).copied().unwrap_or("x");
        let dir = scratch_dir(&format!("store-{}", tag));
        if kind == "lmdb" {
            std::fs::create_dir_all(dir.join("lmdb")).unwrap();
        }
        let backend = Some(open_backend(&kind, &dir));
        Self { kind, dir, backend }
    }
}

impl Drop for StoreDomain {
    fn drop(&mut self) {
        self.backend = None;
        let _ = std::fs::remove_dir_all(&self.dir);
    }
}

fn parse_docs(s: &str) -> Vec<Document> {
    if s == "-" {
        return vec![];
    }
    s.split(',')
        .map(|p| {
            let mut it = p.splitn(3, ':');
            let id = p_u64(it.next().unwrap());
            let ts = HLCTimestamp::from_u64(p_u64(it.next().unwrap()));
            Document::new(id, ts, gen_data(it.next().unwrap()))
        })
        .collect()
}

fn parse_meta(s: &str) -> Vec<DocumentMetadata> {
    if s == "-" {
        return vec![];
    }
    s.split(',')
        .map(|p| {
            let (a, b) = p.split_once(':').unwrap();
            DocumentMetadata::new(p_u64(a), HLCTimestamp::from_u64(p_u64(b)))
        })
        .collect()
}

fn parse_ids(s: &str) -> Vec<u64> {
    if s == "-" {
        return vec![];
    }
    s.split(',').map(p_u64).collect()
}

pub async fn store_op<S: Storage>(s: &S, t: &[&str]) -> String {
    match t[0] {
        "put" => {
            let doc = Document::new(p_u64(t[2]), HLCTimestamp::from_u64(p_u64(t[3])), gen_data(t[4]));
            match s.put(&ks_name(t[1]), doc).await {
                Ok(()) => "ok".into(),
                Err(e) => format!("err {}", short(&e.to_string())),
            }
        },
        "mput" => match s.multi_put(&ks_name(t[1]), parse_docs(t[2]).into_iter()).await {
            Ok(()) => "ok".into(),
            Err(e) => format!("err {}", short(&e.to_string())),
        },
        "tomb" => match s.mark_as_tombstone(&ks_name(t[1]), p_u64(t[2]), HLCTimestamp::from_u64(p_u64(t[3]))).await {
            Ok(()) => "ok".into(),
            Err(e) => format!("err {}", short(&e.to_string())),
        },
        "mtomb" => match s.mark_many_as_tombstone(&ks_name(t[1]), parse_meta(t[2]).into_iter()).await {
            Ok(()) => "ok".into(),
            Err(e) => format!("err {}", short(&e.to_string())),
        },
        "rmtomb" => match s.remove_tombstones(&ks_name(t[1]), parse_ids(t[2]).into_iter()).await {
            Ok(()) => "ok".into(),
            Err(e) => format!("err {}", short(&e.to_string())),
        },
        "get" => match s.get(&ks_name(t[1]), p_u64(t[2])).await {
            Ok(Some(d)) => format!("doc {}:{}:{}", d.id(), d.last_updated().as_u64(), show_data(d.data())),
            Ok(None) => "none".into(),
            Err(e) => format!("err {}", short(&e.to_string())),
        },
        "mget" => match s.multi_get(&ks_name(t[1]), parse_ids(t[2]).into_iter()).await {
            Ok(it) => {
                let mut v: Vec<(u64, String)> = it
                    .map(|d| (d.id(), format!("{}:{}:{}", d.id(), d.last_updated().as_u64(), show_data(d.data()))))
                    .collect();
                v.sort();
                if v.is_empty() { "docs -".into() } else { format!("docs {}", v.into_iter().map(|x| x.1).collect::<Vec<_>>().join(",")) }
            },
            Err(e) => format!("err {}", short(&e.to_string())),
        },
        "meta" => match s.iter_metadata(&ks_name(t[1])).await {
            Ok(it) => {
                let mut v: Vec<(u64, u64, bool)> = it.map(|(k, ts, tomb)| (k, ts.as_u64(), tomb)).collect();
                v.sort();
                if v.is_empty() {
                    "meta -".into()
                } else {
                    format!("meta {}", v.iter().map(|(k, ts, tb)| format!("{}:{}:{}", k, ts, if *tb { "t" } else { "f" })).collect::<Vec<_>>().join(","))
                }
            },
            Err(e) => format!("err {}", short(&e.to_string())),
        },
        "kslist" => match s.get_keyspace_list().await {
            Ok(mut l) => {
                l.sort();
                if l.is_empty() { "ks -".into() } else { format!("ks {}", l.iter().map(|n| n.trim_start_matches("ks-").to_string()).collect::<Vec<_>>().join(",")) }
            },
            Err(e) => format!("err {}", short(&e.to_string())),
        },
        _ => "bad-op".into(),
    }
}

fn short(s: &str) -> String {
    s.split_whitespace().take(6).collect::<Vec<_>>().join("_")
}

impl Domain for StoreDomain {
    fn op(&mut self, t: &[&str]) -> String {
        if t[0] == "reopen" {
            // close: for LMDB wait until the environment is really closed (its storage thread holds a handle until its queue
            // closes); opening the same environment again while the old handle is still closing is not allowed by LMDB and
            // could show a stale snapshot - a restart is a new process in reality
            let closing = match self.backend.as_ref() {
                Some(Backend::Lmdb(s)) => Some(s.handle().env().clone().prepare_for_closing()),
                _ => None,
            };
            self.backend = None;
            if let Some(ev) = closing {
                ev.wait();
            }
            if self.kind == "mem" {
                return "ok".into(); // nothing persistent: the model treats `reopen` of mem as not generated
            }
            self.backend = Some(open_backend(&self.kind, &self.dir));
            return "ok".into();
        }
        let b = self.backend.as_ref().expect("backend");
        with_backend!(b, s => runtime().block_on(store_op(s, t)))
    }
}
