//! Domain `rpc`: frame layer (C12) and handler registry (C13) of datacake-rpc.
use std::net::SocketAddr;
use std::sync::OnceLock;
use std::time::Duration;

use datacake_rpc::{
    Channel, DataView, ErrorCode, Handler, Request, RpcClient, RpcService, Server, ServiceRegistry,
    Status,
};
use rkyv::{AlignedVec, Archive, Deserialize, Serialize};

use crate::{hex, p_u64, unhex, Domain};

pub fn runtime() -> &'static tokio::runtime::Runtime {
    static RT: OnceLock<tokio::runtime::Runtime> = OnceLock::new();
    RT.get_or_init(|| {
        tokio::runtime::Builder::new_multi_thread()
            .worker_threads(2)
            .enable_all()
            .build()
            .expect("runtime")
    })
}

pub fn free_addr() -> SocketAddr {
    let l = std::net::TcpListener::bind("127.0.0.1:0").expect("bind");
    l.local_addr().expect("addr")
}

/// An RPC server on a free loopback port.  Picking a free port and binding it are two steps; another process on the machine
/// (a parallel worker of this harness, any other test run) can take the port in between, so the pair is retried.
pub async fn listen_free() -> (SocketAddr, Server) {
    let mut last = None;
    for _ in 0..50 {
        let addr = free_addr();
        match Server::listen(addr).await {
            Ok(s) => return (addr, s),
            Err(e) => last = Some(e),
        }
        tokio::time::sleep(std::time::Duration::from_millis(20)).await;
    }
    panic!("no loopback port could be bound: {:?}", last);
}

// ---------------------------------------------------------------- message types

#[repr(C)]
#[derive(Serialize, Deserialize, Archive, PartialEq, Debug, Clone)]
pub struct M1 {
    pub tag: u64,
}

#[repr(C)]
#[derive(Serialize, Deserialize, Archive, PartialEq, Debug, Clone)]
pub struct M2 {
    pub tag: u32,
}

#[repr(C)]
#[derive(Serialize, Deserialize, Archive, PartialEq, Debug, Clone)]
pub struct M3 {
    pub tag: u64,
}

#[repr(C)]
#[derive(Serialize, Deserialize, Archive, PartialEq, Debug, Clone)]
pub struct M4 {
    pub tag: u64,
}

#[repr(C)]
#[derive(Serialize, Deserialize, Archive, PartialEq, Debug, Clone)]
pub struct Big {
    pub words: [u64; 8],
}

#[repr(C)]
#[derive(Serialize, Deserialize, Archive, PartialEq, Debug, Clone)]
pub struct Payload {
    pub id: u64,
    pub name: String,
    pub data: Vec<u8>,
    pub opt: Option<u32>,
    pub nested: Vec<Vec<u16>>,
    pub pairs: std::collections::HashMap<String, u64>,
}

/// A message with SHARED pointers (rkyv writes the pointee once per serialisation and keeps a registry of addresses
/// while it does): the same `Arc` may sit in one message twice and in many messages one after the other.
#[repr(C)]
#[derive(Serialize, Deserialize, Archive, PartialEq, Debug, Clone)]
pub struct SharedMsg {
    pub tag: u64,
    pub pad: Vec<u8>,
    pub a: std::sync::Arc<Vec<u8>>,
    pub b: std::sync::Arc<Vec<u8>>,
    pub name: std::sync::Arc<String>,
}

#[repr(C)]
#[derive(Serialize, Deserialize, Archive, PartialEq, Debug, Clone)]
pub struct Fail {
    pub code: u8,
    pub message: String,
}

/// A message with pointer-width integer fields (C12, known finding F3: rkyv is built with `size_32`).
#[repr(C)]
#[derive(Serialize, Deserialize, Archive, PartialEq, Debug, Clone)]
#[archive(check_bytes)]
pub struct Wide {
    pub offset: usize,
    pub delta: isize,
}

#[datacake_rpc::async_trait]
impl Handler<Wide> for EchoSvc {
    type Reply = String;
    async fn on_message(&self, msg: Request<Wide>) -> Result<Self::Reply, Status> {
        // what the handler observes
        let w: Wide = msg.deserialize_view().map_err(Status::internal)?;
        Ok(format!("{} {}", w.offset, w.delta))
    }
}

/// A request whose reply is `size` bytes, each `id as u8` (C14: faults while a reply BODY is in flight).
#[repr(C)]
#[derive(Serialize, Deserialize, Archive, PartialEq, Debug, Clone)]
#[archive(check_bytes)]
pub struct Fetch {
    pub id: u64,
    pub size: u32,
}

#[datacake_rpc::async_trait]
impl Handler<Fetch> for EchoSvc {
    type Reply = Vec<u8>;
    async fn on_message(&self, msg: Request<Fetch>) -> Result<Self::Reply, Status> {
        let (id, size): (u64, u32) = (msg.id.into(), msg.size.into());
        Ok(vec![id as u8; size as usize])
    }
}

/// A byte-forwarding TCP proxy in front of the server.  Once armed it lets `budget` more bytes of server -> client traffic through
/// and then either goes quiet in both directions (kind 1: a held link / a partition of an established connection) or closes both
/// sockets (kind 2: the connection is torn down).
#[derive(Clone)]
struct ProxyFaults {
    kind: std::sync::Arc<std::sync::atomic::AtomicU8>,
    budget: std::sync::Arc<std::sync::atomic::AtomicI64>,
}

async fn start_proxy(upstream: SocketAddr, faults: ProxyFaults) -> SocketAddr {
    let listener = tokio::net::TcpListener::bind("127.0.0.1:0").await.expect("proxy bind");
    let addr = listener.local_addr().unwrap();
    tokio::spawn(async move {
        loop {
            let Ok((client, _)) = listener.accept().await else { return };
            let Ok(server) = tokio::net::TcpStream::connect(upstream).await else { continue };
            let _ = client.set_nodelay(true);
            let _ = server.set_nodelay(true);
            tokio::spawn(proxy_forward(client, server, faults.clone()));
        }
    });
    addr
}

async fn proxy_forward(mut client: tokio::net::TcpStream, mut server: tokio::net::TcpStream, faults: ProxyFaults) {
    use std::sync::atomic::Ordering;
    use tokio::io::{AsyncReadExt, AsyncWriteExt};
    let mut up = vec![0u8; 16 << 10];
    let mut down = vec![0u8; 16 << 10];
    loop {
        tokio::select! {
            n = client.read(&mut up) => {
                let n = match n { Ok(0) | Err(_) => return, Ok(n) => n };
                if server.write_all(&up[..n]).await.is_err() { return; }
            },
            n = server.read(&mut down) => {
                let n = match n { Ok(0) | Err(_) => return, Ok(n) => n };
                let kind = faults.kind.load(Ordering::SeqCst);
                let mut pass = n;
                if kind != 0 {
                    let left = faults.budget.fetch_sub(n as i64, Ordering::SeqCst);
                    pass = left.clamp(0, n as i64) as usize;
                }
                if client.write_all(&down[..pass]).await.is_err() { return; }
                if pass < n {
                    if kind == 1 { std::future::pending::<()>().await } else { return }
                }
            },
        }
    }
}

fn splitmix(s: &mut u64) -> u64 {
    *s = s.wrapping_add(0x9E3779B97F4A7C15);
    let mut z = *s;
    z = (z ^ (z >> 30)).wrapping_mul(0xBF58476D1CE4E5B9);
    z = (z ^ (z >> 27)).wrapping_mul(0x94D049BB133111EB);
    z ^ (z >> 31)
}

pub fn make_payload(seed: u64, size: usize) -> Payload {
    let mut s = seed;
    let data: Vec<u8> = (0..size).map(|_| splitmix(&mut s) as u8).collect();
    let nlen = (splitmix(&mut s) % 12) as usize;
    let name: String = (0..nlen).map(|_| char::from(b'a' + (splitmix(&mut s) % 26) as u8)).collect();
    let nested = (0..(splitmix(&mut s) % 4)).map(|i| (0..i * 3).map(|j| (j * 7 + i) as u16).collect()).collect();
    // now and then a LARGE nested collection (thousands of heap-allocated elements in one value: the serializer's
    // scratch space is exercised beyond its first tier)
    let npairs = if seed % 5 == 0 && size >= 1000 { 2049 + splitmix(&mut s) % 3000 } else { splitmix(&mut s) % 5 };
    let pairs = (0..npairs).map(|i| (format!("k{}", i), splitmix(&mut s))).collect();
    Payload {
        id: splitmix(&mut s),
        name,
        data,
        opt: if splitmix(&mut s) % 2 == 0 { None } else { Some(splitmix(&mut s) as u32) },
        nested,
        pairs,
    }
}

// ---------------------------------------------------------------- services

macro_rules! svc {
    ($name:ident, $($msg:ty),+) => {
        pub struct $name {
            inst: u64,
        }
        impl RpcService for $name {
            fn service_name() -> &'static str {
                stringify!($name)
            }
            fn register_handlers(registry: &mut ServiceRegistry<Self>) {
                $( registry.add_handler::<$msg>(); )+
            }
        }
        $(
        #[datacake_rpc::async_trait]
        impl Handler<$msg> for $name {
            type Reply = u64;
            async fn on_message(&self, _msg: Request<$msg>) -> Result<Self::Reply, Status> {
                Ok(self.inst)
            }
        }
        )+
    };
}

/// A service type registered under an explicit name (several types may share one name).
macro_rules! svcn {
    ($name:ident, $sname:expr, $($msg:ty),+) => {
        pub struct $name {
            inst: u64,
        }
        impl RpcService for $name {
            fn service_name() -> &'static str {
                $sname
            }
            fn register_handlers(registry: &mut ServiceRegistry<Self>) {
                $( registry.add_handler::<$msg>(); )+
            }
        }
        $(
        #[datacake_rpc::async_trait]
        impl Handler<$msg> for $name {
            type Reply = u64;
            async fn on_message(&self, _msg: Request<$msg>) -> Result<Self::Reply, Status> {
                Ok(self.inst)
            }
        }
        )+
    };
}

svcn!(SvcD, "shared", M1);
svcn!(SvcE, "shared", M2);
svcn!(SvcS, "store", M1, M2, M3, M4);
svcn!(SvcG, "gen<M1>", M1);
// H: the same generic service instantiated with another parameter: the name differs from G's only after the `<`, the message is the same
svcn!(SvcH, "gen<M2>", M1);
// I, J: names that differ only in a character a path sanitiser could fold (`::` vs `_`), same message
svcn!(SvcI, "kv::store", M1);
svcn!(SvcJ, "kv_store", M1);
// K: the name G's sanitised form happens to be; L: a service generic over two parameters (`type_name` puts ", " between them)
svcn!(SvcK, "gen-M1-", M1);
svcn!(SvcL, "pair<M1, M2>", M1);
// X, Y: two distinct names whose request paths for the message type `u64` have the same 64-bit std `DefaultHasher` value
// (`/s438b6a3a7f167ba5/u64` and `/s3e37f0a03b0b3b50/u64`: 0x99206e2c9cfae303), found by a birthday search
svcn!(SvcX, "s438b6a3a7f167ba5", u64);
svcn!(SvcY, "s3e37f0a03b0b3b50", u64);
// Q: a name that is a strict PREFIX of other registered names (`kv` of `kv::store`, `kv_store`)
svcn!(SvcQ, "kv", M1);
// R, T: names that continue Q's with a byte that sorts BEFORE `/` (`-`, `.`): in a sorted map their paths lie between `/kv` and `/kv/`;
// V: `gen`, a strict prefix of the generic names G and H, whose paths continue with `%3C` (`%` sorts before `/` too)
svcn!(SvcR, "kv-admin", M1);
svcn!(SvcT, "kv.internal", M1);
svcn!(SvcV, "gen", M1);
svcn!(SvcP0, "ping-0", M1);
svcn!(SvcP1, "ping-1", M1);
svcn!(SvcP2, "ping-2", M1);
svcn!(SvcP3, "ping-3", M1);
svcn!(SvcP4, "ping-4", M1);
svcn!(SvcP5, "ping-5", M1);
svcn!(SvcP6, "ping-6", M1);
svcn!(SvcP7, "ping-7", M1);

svc!(SvcA, M1);
svc!(SvcB, M1);
svc!(SvcC, M1, M2);

pub struct EchoSvc;

impl RpcService for EchoSvc {
    fn register_handlers(registry: &mut ServiceRegistry<Self>) {
        registry.add_handler::<Payload>();
        registry.add_handler::<Fail>();
        registry.add_handler::<Fetch>();
        registry.add_handler::<Wide>();
        registry.add_handler::<SharedMsg>();
    }
}

#[datacake_rpc::async_trait]
impl Handler<SharedMsg> for EchoSvc {
    type Reply = SharedMsg;
    async fn on_message(&self, msg: Request<SharedMsg>) -> Result<Self::Reply, Status> {
        msg.deserialize_view().map_err(Status::internal)
    }
}

pub static ECHO_RUNS: std::sync::atomic::AtomicUsize = std::sync::atomic::AtomicUsize::new(0);

#[datacake_rpc::async_trait]
impl Handler<Payload> for EchoSvc {
    type Reply = Payload;
    async fn on_message(&self, msg: Request<Payload>) -> Result<Self::Reply, Status> {
        ECHO_RUNS.fetch_add(1, std::sync::atomic::Ordering::SeqCst);
        msg.deserialize_view().map_err(Status::internal)
    }
}

/// What a peer that sends anything it likes looks like, built from the public client API: the request path of
/// EchoSvc's `Payload` handler, the body handed over raw (any bytes, in any chunks, under any announced length).
pub struct RawPeer;

impl RpcService for RawPeer {
    fn service_name() -> &'static str {
        <EchoSvc as RpcService>::service_name()
    }
    fn register_handlers(_registry: &mut ServiceRegistry<Self>) {}
}

#[datacake_rpc::async_trait]
impl Handler<datacake_rpc::Body> for RawPeer {
    type Reply = Payload;
    fn path() -> &'static str {
        <EchoSvc as Handler<Payload>>::path()
    }
    async fn on_message(&self, _msg: Request<datacake_rpc::Body>) -> Result<Self::Reply, Status> {
        unreachable!("client side stub")
    }
}

#[datacake_rpc::async_trait]
impl Handler<Fail> for EchoSvc {
    type Reply = u64;
    async fn on_message(&self, msg: Request<Fail>) -> Result<Self::Reply, Status> {
        let f: Fail = msg.deserialize_view().map_err(Status::internal)?;
        Err(Status { code: code_of(f.code), message: f.message })
    }
}

fn code_of(c: u8) -> ErrorCode {
    match c % 5 {
        0 => ErrorCode::ServiceUnavailable,
        1 => ErrorCode::InternalError,
        2 => ErrorCode::InvalidPayload,
        3 => ErrorCode::ConnectionError,
        _ => ErrorCode::Timeout,
    }
}

fn code_num(c: &ErrorCode) -> u8 {
    match c {
        ErrorCode::ServiceUnavailable => 0,
        ErrorCode::InternalError => 1,
        ErrorCode::InvalidPayload => 2,
        ErrorCode::ConnectionError => 3,
        ErrorCode::Timeout => 4,
    }
}

// ---------------------------------------------------------------- domain

pub struct RpcDomain {
    server: Option<Server>,
    addr: SocketAddr,
    /// one long-lived client channel (connection) per case: `callp` reuses it, `call` opens a fresh one
    chan: Option<Channel>,
}

impl RpcDomain {
    pub fn new(_params: &[&str]) -> Self {
        Self { server: None, addr: "127.0.0.1:1".parse().unwrap(), chan: None }
    }

    fn server(&mut self) -> &Server {
        if self.server.is_none() {
            let (addr, srv) = runtime().block_on(listen_free());
            srv.add_service(EchoSvc);
            self.addr = addr;
            self.server = Some(srv);
        }
        self.server.as_ref().unwrap()
    }
}

impl Drop for RpcDomain {
    fn drop(&mut self) {
        if let Some(s) = self.server.take() {
            s.shutdown();
        }
    }
}

fn aligned(bytes: &[u8]) -> AlignedVec {
    let mut v = AlignedVec::with_capacity(bytes.len().max(16));
    v.extend_from_slice(bytes);
    v
}

fn check_using<T>(fixed: usize, bytes: &[u8]) -> String
where
    T: Archive,
    T::Archived: 'static,
{
    if std::mem::size_of::<rkyv::Archived<T>>() != fixed {
        return format!("bad-fixed {}", std::mem::size_of::<rkyv::Archived<T>>());
    }
    match DataView::<T>::using(aligned(bytes)) {
        Ok(_) => "ok".to_string(),
        Err(_) => "invalid".to_string(),
    }
}

fn status_str(s: &Status) -> String {
    match s.code {
        ErrorCode::ServiceUnavailable => "unavailable".to_string(),
        _ => format!("err:{}", code_num(&s.code)),
    }
}

/// Exhaustive mutation of one valid frame: every single-bit flip (up to `max_flip_bytes` bytes from
/// both ends and a stride in between), every truncation, some extensions.
fn mutate_frame<T>(frame: &[u8]) -> String
where
    T: Archive,
    T::Archived: 'static,
{
    let fixed = std::mem::size_of::<rkyv::Archived<T>>();
    let mut flips = 0u64;
    let mut flips_rejected = 0u64;
    let exhaustive = frame.len() <= 2048;
    let stride = if exhaustive { 1 } else { frame.len() / 512 + 1 };
    let mut buf = frame.to_vec();
    let mut j = 0;
    while j < frame.len() {
        for i in 0..8 {
            buf[j] ^= 1 << i;
            flips += 1;
            if DataView::<T>::using(aligned(&buf)).is_err() {
                flips_rejected += 1;
            }
            buf[j] ^= 1 << i;
        }
        // always cover the last 16 bytes (trailer and root) exhaustively
        j += if j + 16 >= frame.len() { 1 } else { stride };
    }
    let mut truncs = 0u64;
    let mut truncs_short_accepted = 0u64;
    let mut truncs_accepted = 0u64;
    let tstride = if exhaustive { 1 } else { frame.len() / 256 + 1 };
    let mut n = 0;
    while n < frame.len() {
        truncs += 1;
        if DataView::<T>::using(aligned(&frame[..n])).is_ok() {
            truncs_accepted += 1;
            if n < fixed + 4 {
                truncs_short_accepted += 1;
            }
        }
        n += if n < 64 { 1 } else { tstride };
    }
    let mut ext_accepted = 0u64;
    for extra in [1usize, 2, 3, 4, 5, 8, 16] {
        let mut e = frame.to_vec();
        e.extend(std::iter::repeat(0xA5u8).take(extra));
        if DataView::<T>::using(aligned(&e)).is_ok() {
            ext_accepted += 1;
        }
    }
    format!(
        "flips={} flips_accepted={} truncs={} truncs_accepted={} truncs_short_accepted={} ext_accepted={} exhaustive={}",
        flips,
        flips - flips_rejected,
        truncs,
        truncs_accepted,
        truncs_short_accepted,
        ext_accepted,
        exhaustive
    )
}

impl Domain for RpcDomain {
    fn op(&mut self, t: &[&str]) -> String {
        match t[0] {
            // ---- C12, byte level (compared with the Lean model)
            "crc" => crc32fast::hash(&unhex(t[1])).to_string(),
            "alignof" => {
                // alignof <type>: the alignment the archived root of the type needs (the model has a table)
                let a = match t[1] {
                    "M1" => std::mem::align_of::<rkyv::Archived<M1>>(),
                    "M2" => std::mem::align_of::<rkyv::Archived<M2>>(),
                    "Big" => std::mem::align_of::<rkyv::Archived<Big>>(),
                    "Status" => std::mem::align_of::<rkyv::Archived<Status>>(),
                    "Payload" => std::mem::align_of::<rkyv::Archived<Payload>>(),
                    _ => 0,
                };
                format!("align {}", a)
            },
            "check" => {
                // check <type> <fixed> <hexframe>
                let fixed = p_u64(t[2]) as usize;
                let bytes = unhex(t[3]);
                match t[1] {
                    "M1" => check_using::<M1>(fixed, &bytes),
                    "M2" => check_using::<M2>(fixed, &bytes),
                    "Big" => check_using::<Big>(fixed, &bytes),
                    "Status" => check_using::<Status>(fixed, &bytes),
                    "Payload" => check_using::<Payload>(fixed, &bytes),
                    _ => "bad-op".to_string(),
                }
            },
            // ---- C12, value level (implementation-side oracle; rkyv is a codec for the model)
            "roundtrip" => {
                // roundtrip <seed> <size>: Payload through to_view_bytes / DataView::using / deserialize
                let v = make_payload(p_u64(t[1]), p_u64(t[2]) as usize);
                let frame = datacake_rpc::to_view_bytes(&v).expect("serialize");
                let n = frame.len();
                let trailer_ok = n >= 4
                    && u32::from_le_bytes(frame[n - 4..].try_into().unwrap()) == crc32fast::hash(&frame[..n - 4]);
                let view = DataView::<Payload>::using(frame.clone());
                let same = match &view {
                    Ok(view) => view.deserialize_view().map(|d| d == v).unwrap_or(false),
                    Err(_) => false,
                };
                format!(
                    "roundtrip len={} trailer_ok={} same={} {}",
                    n,
                    trailer_ok,
                    same,
                    mutate_frame::<Payload>(&frame)
                )
            },
            // narrow message types: archived roots with alignment below 4 and sizes that are not multiples of 4
            "roundtrip-narrow" => {
                macro_rules! rt {
                    ($ty:ty, $v:expr) => {{
                        let v: $ty = $v;
                        let frame = datacake_rpc::to_view_bytes(&v).expect("serialize");
                        let n = frame.len();
                        let trailer_ok = n >= 4
                            && u32::from_le_bytes(frame[n - 4..].try_into().unwrap()) == crc32fast::hash(&frame[..n - 4]);
                        let same = DataView::<$ty>::using(frame.clone())
                            .map(|view| view.deserialize_view().map(|d| d == v).unwrap_or(false))
                            .unwrap_or(false);
                        format!("roundtrip len={} trailer_ok={} same={} {}", n, trailer_ok, same, mutate_frame::<$ty>(&frame))
                    }};
                }
                let b = unhex(t[2]);
                let at = |i: usize| b.get(i).copied().unwrap_or(0);
                match t[1] {
                    "u8" => rt!(u8, at(0)),
                    "bool" => rt!(bool, at(0) & 1 == 1),
                    "u16" => rt!(u16, u16::from_le_bytes([at(0), at(1)])),
                    "a3" => rt!([u8; 3], [at(0), at(1), at(2)]),
                    "a5" => rt!([u8; 5], [at(0), at(1), at(2), at(3), at(4)]),
                    "a7" => rt!([u8; 7], [at(0), at(1), at(2), at(3), at(4), at(0), at(1)]),
                    // one big nested collection as the whole message: n strings (the serializer's scratch space beyond its first tier)
                    "vs" => rt!(Vec<String>, (0..(at(0) as usize * 256 + at(1) as usize)).map(|i| format!("key-{}", i)).collect()),
                    _ => "bad-op".to_string(),
                }
            },
            // roundtrip-shared <seed> <n> <wire 0|1>: n messages with shared pointers, one after the other ON ONE THREAD, built from a
            // small pool of `Arc`s (the same pointee in consecutive messages at different positions; pointees dropped and
            // re-created in between, so that the allocator hands addresses out again); every one must come back equal - from its
            // frame, and (wire = 1) from the echo handler over loopback.  Whatever a serialisation keeps must not outlive it.
            "roundtrip-shared" => {
                use std::sync::Arc;
                let mut s = p_u64(t[1]);
                let n = p_u64(t[2]) as usize;
                let wire = t[3] == "1";
                let mut pool: Vec<Arc<Vec<u8>>> = (0..3).map(|i| Arc::new(vec![i as u8 + 1; 5 + i * 7])).collect();
                let mut names: Vec<Arc<String>> = (0..2).map(|i| Arc::new(format!("shared-name-{}", i))).collect();
                let (mut ok, mut bad, mut first_bad) = (0usize, 0usize, String::new());
                if wire { self.server(); }
                for k in 0..n {
                    let r = splitmix(&mut s);
                    if r % 4 == 0 {
                        // drop a pointee and make a new one of the same size: very likely at the same address
                        let i = (r >> 8) as usize % pool.len();
                        let len = pool[i].len();
                        pool[i] = Arc::new(vec![0u8; 0]);
                        pool[i] = Arc::new((0..len).map(|j| (j as u64 + r) as u8).collect());
                    }
                    if r % 7 == 0 {
                        let i = (r >> 12) as usize % names.len();
                        names[i] = Arc::new(String::new());
                        names[i] = Arc::new(format!("shared-name-{}", r % 10));
                    }
                    let m = SharedMsg {
                        tag: r,
                        pad: vec![0xEE; (r >> 16) as usize % 96],
                        a: pool[(r >> 24) as usize % pool.len()].clone(),
                        b: pool[(r >> 32) as usize % pool.len()].clone(),
                        name: names[(r >> 40) as usize % names.len()].clone(),
                    };
                    let frame = datacake_rpc::to_view_bytes(&m).expect("serialize");
                    let same = std::panic::catch_unwind(std::panic::AssertUnwindSafe(|| {
                        DataView::<SharedMsg>::using(frame.clone()).map(|v| v.deserialize_view().map(|d| d == m).unwrap_or(false)).unwrap_or(false)
                    })).unwrap_or(false);
                    let same_wire = !wire || {
                        let client = RpcClient::<EchoSvc>::new(Channel::connect(self.addr));
                        match runtime().block_on(client.send(&m)) {
                            Ok(reply) => reply.deserialize_view().map(|d| d == m).unwrap_or(false),
                            Err(_) => false,
                        }
                    };
                    if same && same_wire { ok += 1; } else {
                        bad += 1;
                        if first_bad.is_empty() { first_bad = format!(" first_bad=#{}:frame={}:wire={}", k, same, same_wire); }
                    }
                }
                format!("shared ok={} bad={}{}", ok, bad, first_bad)
            },
            "roundtrip-status" => {
                let v = Status { code: code_of(p_u64(t[1]) as u8), message: String::from_utf8(unhex(t[2])).expect("utf8") };
                let frame = datacake_rpc::to_view_bytes(&v).expect("serialize");
                let same = DataView::<Status>::using(frame.clone())
                    .map(|view| view.deserialize_view().map(|d| d == v).unwrap_or(false))
                    .unwrap_or(false);
                format!("roundtrip len={} trailer_ok=true same={} {}", frame.len(), same, mutate_frame::<Status>(&frame))
            },
            // status-bytes <code> <hexmsg>: the frame the server sends for a handler error (`create_bad_request`), byte for byte;
            // the Lean model (Model/Status.lean) has the archive layout of `Status` and must produce the same bytes.
            // Also what the client side makes of that frame (`DataView::<Status>::using` + deserialize).
            "status-bytes" => {
                let v = Status { code: code_of(p_u64(t[1]) as u8), message: String::from_utf8(unhex(t[2])).expect("utf8") };
                let frame = datacake_rpc::to_view_bytes(&v).expect("serialize");
                let back = match DataView::<Status>::using(frame.clone()) {
                    Ok(view) => match view.deserialize_view() {
                        Ok(d) => format!("{}:{}", code_num(&d.code), crate::hex(d.message.as_bytes())),
                        Err(_) => "undecodable".to_string(),
                    },
                    Err(_) => "invalid".to_string(),
                };
                format!("frame {} back {}", crate::hex(&frame), back)
            },
            // ---- C12 end to end over loopback
            "echo" => {
                let v = make_payload(p_u64(t[1]), p_u64(t[2]) as usize);
                self.server();
                let client = RpcClient::<EchoSvc>::new(Channel::connect(self.addr));
                match runtime().block_on(client.send(&v)) {
                    Ok(reply) => match reply.deserialize_view() {
                        Ok(back) => format!("echo same={}", back == v),
                        Err(_) => "echo undecodable".to_string(),
                    },
                    Err(s) => format!("echo {}", status_str(&s)),
                }
            },
            "rawframe" => {
                // rawframe <seed> <size> <none|trunc:<n>|flip:<bit>> <cuts|-> <declared|-|actual>
                // The frame of a Payload, damaged or not, is sent over the real transport in the given chunks (100 ms apart)
                // under an announced content-length; prints what the sender observed, how many handlers ran, how many panics
                // happened anywhere in the process meanwhile, and the bytes that were sent.
                use std::sync::atomic::Ordering;
                let v = make_payload(p_u64(t[1]), p_u64(t[2]) as usize);
                let mut frame: Vec<u8> = datacake_rpc::to_view_bytes(&v).expect("serialize").to_vec();
                if let Some(n) = t[3].strip_prefix("trunc:") {
                    frame.truncate(p_u64(n) as usize);
                } else if let Some(b) = t[3].strip_prefix("flip:") {
                    let b = p_u64(b) as usize % (frame.len() * 8);
                    frame[b / 8] ^= 1 << (b % 8);
                }
                let mut cuts: Vec<usize> = if t[4] == "-" { vec![] } else { t[4].split(',').map(|c| (p_u64(c) as usize).min(frame.len())).collect() };
                cuts.sort();
                cuts.dedup();
                let mut chunks: Vec<Vec<u8>> = Vec::new();
                let mut prev = 0;
                for c in cuts.into_iter().chain(std::iter::once(frame.len())) {
                    if c > prev { chunks.push(frame[prev..c].to_vec()); prev = c; }
                }
                let declared: Option<u64> = match t[5] { "-" => None, "actual" => Some(frame.len() as u64), x => Some(p_u64(x)) };
                self.server();
                let addr = self.addr;
                let (runs0, panics0) = (ECHO_RUNS.load(Ordering::SeqCst), crate::PANICS.load(Ordering::SeqCst));
                let outcome = runtime().block_on(async move {
                    let client = RpcClient::<RawPeer>::new(Channel::connect(addr));
                    let (mut tx, body) = hyper::Body::channel();
                    let feeder = tokio::spawn(async move {
                        for (k, c) in chunks.into_iter().enumerate() {
                            if k > 0 { tokio::time::sleep(Duration::from_millis(100)).await; }
                            if tx.send_data(bytes::Bytes::from(c)).await.is_err() { return; }
                        }
                        tokio::time::sleep(Duration::from_millis(200)).await;
                        drop(tx);
                    });
                    let mut ctx = client.create_rpc_context();
                    if let Some(len) = declared {
                        ctx = ctx.set_header(http::header::CONTENT_LENGTH, http::HeaderValue::from(len));
                    }
                    let res = tokio::time::timeout(Duration::from_secs(10), ctx.send_owned(datacake_rpc::Body::new(body))).await;
                    feeder.abort();
                    match res {
                        Err(_) => "pending".to_string(),
                        Ok(Ok(reply)) => match reply.deserialize_view() {
                            Ok(back) => if back == v { "echo".to_string() } else { "echo-other".to_string() },
                            Err(_) => "undecodable".to_string(),
                        },
                        Ok(Err(s)) => status_str(&s),
                    }
                });
                // a panicking connection task is noticed by the hook at once; give a slow one a moment
                std::thread::sleep(Duration::from_millis(50));
                format!("rawframe {} runs={} panics={} frame={}", outcome, ECHO_RUNS.load(Ordering::SeqCst) - runs0,
                        crate::PANICS.load(Ordering::SeqCst) - panics0, if frame.is_empty() { "-".to_string() } else { hex(&frame) })
            },
            "wide" => {
                // wide <offset> <delta>: a message with a `usize` and an `isize` field; prints what the handler observed
                let (offset, delta) = (p_u64(t[1]) as usize, t[2].parse::<i64>().expect("delta") as isize);
                self.server();
                let client = RpcClient::<EchoSvc>::new(Channel::connect(self.addr));
                match runtime().block_on(client.send(&Wide { offset, delta })) {
                    Ok(reply) => match reply.deserialize_view() {
                        Ok(seen) => { let seen: String = seen; format!("wide seen={}", seen) },
                        Err(_) => "wide undecodable".to_string(),
                    },
                    Err(s) => format!("wide {}", status_str(&s)),
                }
            },
            "proxy" => {
                // proxy <timeout_ms|0> <reply size> <none|hold|close> <budget bytes>: real transport (hyper over loopback TCP) through
                // the byte proxy; a first large reply goes through unharmed, then the fault is armed (it strikes after `budget`
                // more reply bytes) and the SAME request is made again.  Reports the outcome and whether the call returned within
                // the timeout (+ 400 ms of scheduling slack); a call still pending after 4 s + 4 x timeout is `pending`.
                use std::sync::atomic::Ordering;
                let (tmo_ms, size, budget) = (p_u64(t[1]), p_u64(t[2]) as u32, p_u64(t[4]) as i64);
                let kind: u8 = match t[3] { "hold" => 1, "close" => 2, _ => 0 };
                self.server();
                let upstream = self.addr;
                runtime().block_on(async move {
                    let faults = ProxyFaults { kind: Default::default(), budget: Default::default() };
                    let proxy = start_proxy(upstream, faults.clone()).await;
                    let mut client = RpcClient::<EchoSvc>::new(Channel::connect(proxy));
                    if tmo_ms > 0 { client.set_timeout(Duration::from_millis(tmo_ms)); }
                    match client.send(&Fetch { id: 1, size }).await {
                        Ok(r) if r.len() == size as usize => {},
                        other => return format!("proxy setup-failed {:?}", other.map(|r| r.len()).map_err(|e| e.code)),
                    }
                    faults.budget.store(budget, Ordering::SeqCst);
                    faults.kind.store(kind, Ordering::SeqCst);
                    let start = std::time::Instant::now();
                    let patience = Duration::from_millis(4000 + 4 * tmo_ms);
                    let res = tokio::time::timeout(patience, client.send(&Fetch { id: 2, size })).await;
                    let took = start.elapsed();
                    let out = match res {
                        Err(_) => "pending".to_string(),
                        Ok(Ok(r)) => if r.len() == size as usize && r.iter().all(|b| *b == 2) { "reply".to_string() } else { "wrong-reply".to_string() },
                        Ok(Err(st)) => match st.code {
                            ErrorCode::ConnectionError => "conn".to_string(),
                            ErrorCode::Timeout => "timeout".to_string(),
                            c => format!("code{}", code_num(&c)),
                        },
                    };
                    let bound = tmo_ms == 0 || took <= Duration::from_millis(tmo_ms + 400);
                    format!("proxy {} {}", out, if bound { "in-time" } else { "late" })
                })
            },
            "echo-burst" => {
                // echo-burst <seed> <size> <n>: n echo requests of `size` bytes IN FLIGHT AT ONCE over ONE shared connection (what a
                // node does towards a peer during replication): every reply must equal its own request
                let (seed, size, n) = (p_u64(t[1]), p_u64(t[2]) as usize, p_u64(t[3]));
                self.server();
                let ch = Channel::connect(self.addr);
                let outs: Vec<String> = runtime().block_on(async move {
                    let mut hs = Vec::new();
                    for k in 0..n {
                        let ch = ch.clone();
                        hs.push(tokio::spawn(async move {
                            let v = make_payload(seed.wrapping_add(k), size);
                            let client = RpcClient::<EchoSvc>::new(ch);
                            match client.send(&v).await {
                                Ok(reply) => match reply.deserialize_view() {
                                    Ok(back) => if back == v { "same".to_string() } else { "DIFFERENT".to_string() },
                                    Err(_) => "undecodable".to_string(),
                                },
                                Err(s) => status_str(&s),
                            }
                        }));
                    }
                    let mut outs = Vec::new();
                    for h in hs {
                        outs.push(h.await.unwrap_or_else(|_| "panic".to_string()));
                    }
                    outs
                });
                let mut kinds: Vec<String> = outs.clone();
                kinds.sort();
                kinds.dedup();
                format!("burst {}", kinds.iter().map(|k| format!("{}x{}", outs.iter().filter(|o| *o == k).count(), k)).collect::<Vec<_>>().join(","))
            },
            "fail" => {
                // fail <code> <hexmsg>: the handler returns Err(Status{code,message}); the client must see the same
                let msg = String::from_utf8(unhex(t[2])).expect("utf8");
                let f = Fail { code: p_u64(t[1]) as u8, message: msg };
                self.server();
                let client = RpcClient::<EchoSvc>::new(Channel::connect(self.addr));
                match runtime().block_on(client.send(&f)) {
                    Ok(_) => "fail ok?".to_string(),
                    Err(s) => format!("fail {} {}", code_num(&s.code), hex(s.message.as_bytes())),
                }
            },
            // ---- C13 registry
            "uri" => {
                // uri <hex service name> <hex message name>: the request path the crate builds (hook), as hex
                let dec = |x: &str| String::from_utf8(if x == "-" { Vec::new() } else { crate::unhex(x) }).expect("utf-8 names");
                let path = datacake_rpc::verif::uri_path(&dec(t[1]), &dec(t[2]));
                // the path must also be one the client can build a request for
                let valid = format!("http://127.0.0.1:1{}", path).parse::<http::Uri>().is_ok();
                format!("uri {}{}", crate::hex(path.as_bytes()), if valid { "" } else { " INVALID" })
            },
            "add" => {
                let inst = p_u64(t[2]);
                let srv = self.server();
                match t[1] {
                    "A" => srv.add_service(SvcA { inst }),
                    "B" => srv.add_service(SvcB { inst }),
                    "C" => srv.add_service(SvcC { inst }),
                    "D" => srv.add_service(SvcD { inst }),
                    "E" => srv.add_service(SvcE { inst }),
                    "S" => srv.add_service(SvcS { inst }),
                    "G" => srv.add_service(SvcG { inst }),
                    "H" => srv.add_service(SvcH { inst }),
                    "I" => srv.add_service(SvcI { inst }),
                    "J" => srv.add_service(SvcJ { inst }),
                    "K" => srv.add_service(SvcK { inst }),
                    "L" => srv.add_service(SvcL { inst }),
                    "Q" => srv.add_service(SvcQ { inst }),
                    "R" => srv.add_service(SvcR { inst }),
                    "T" => srv.add_service(SvcT { inst }),
                    "V" => srv.add_service(SvcV { inst }),
                    "X" => srv.add_service(SvcX { inst }),
                    "Y" => srv.add_service(SvcY { inst }),
                    "P0" => srv.add_service(SvcP0 { inst }),
                    "P1" => srv.add_service(SvcP1 { inst }),
                    "P2" => srv.add_service(SvcP2 { inst }),
                    "P3" => srv.add_service(SvcP3 { inst }),
                    "P4" => srv.add_service(SvcP4 { inst }),
                    "P5" => srv.add_service(SvcP5 { inst }),
                    "P6" => srv.add_service(SvcP6 { inst }),
                    "P7" => srv.add_service(SvcP7 { inst }),
                    _ => return "bad-op".to_string(),
                }
                "ok".to_string()
            },
            "remove" => {
                let srv = self.server();
                match t[1] {
                    "A" => srv.remove_service(SvcA::service_name()),
                    "B" => srv.remove_service(SvcB::service_name()),
                    "C" => srv.remove_service(SvcC::service_name()),
                    "D" | "E" => srv.remove_service("shared"),
                    "S" => srv.remove_service("store"),
                    "G" => srv.remove_service(SvcG::service_name()),
                    "H" => srv.remove_service(SvcH::service_name()),
                    "I" => srv.remove_service(SvcI::service_name()),
                    "J" => srv.remove_service(SvcJ::service_name()),
                    "K" => srv.remove_service(SvcK::service_name()),
                    "L" => srv.remove_service(SvcL::service_name()),
                    "Q" => srv.remove_service("kv"),
                    "R" => srv.remove_service("kv-admin"),
                    "T" => srv.remove_service("kv.internal"),
                    "V" => srv.remove_service("gen"),
                    "X" => srv.remove_service("s438b6a3a7f167ba5"),
                    "Y" => srv.remove_service("s3e37f0a03b0b3b50"),
                    "P0" => srv.remove_service("ping-0"),
                    "P1" => srv.remove_service("ping-1"),
                    "P2" => srv.remove_service("ping-2"),
                    "P3" => srv.remove_service("ping-3"),
                    "P4" => srv.remove_service("ping-4"),
                    "P5" => srv.remove_service("ping-5"),
                    "P6" => srv.remove_service("ping-6"),
                    "P7" => srv.remove_service("ping-7"),
                    _ => return "bad-op".to_string(),
                }
                "ok".to_string()
            },
            "call" | "callp" => {
                self.server();
                let ch = if t[0] == "callp" {
                    if self.chan.is_none() {
                        self.chan = Some(Channel::connect(self.addr));
                    }
                    self.chan.clone().unwrap()
                } else {
                    Channel::connect(self.addr)
                };
                let res = match (t[1], t[2]) {
                    ("A", "M1") => runtime().block_on(RpcClient::<SvcA>::new(ch).send(&M1 { tag: 1 })).map(|r| r.deserialize_view().unwrap_or(u64::MAX)),
                    ("B", "M1") => runtime().block_on(RpcClient::<SvcB>::new(ch).send(&M1 { tag: 1 })).map(|r| r.deserialize_view().unwrap_or(u64::MAX)),
                    ("C", "M1") => runtime().block_on(RpcClient::<SvcC>::new(ch).send(&M1 { tag: 1 })).map(|r| r.deserialize_view().unwrap_or(u64::MAX)),
                    ("C", "M2") => runtime().block_on(RpcClient::<SvcC>::new(ch).send(&M2 { tag: 2 })).map(|r| r.deserialize_view().unwrap_or(u64::MAX)),
                    ("D", "M1") => runtime().block_on(RpcClient::<SvcD>::new(ch).send(&M1 { tag: 1 })).map(|r| r.deserialize_view().unwrap_or(u64::MAX)),
                    ("E", "M2") => runtime().block_on(RpcClient::<SvcE>::new(ch).send(&M2 { tag: 2 })).map(|r| r.deserialize_view().unwrap_or(u64::MAX)),
                    ("G", "M1") => runtime().block_on(RpcClient::<SvcG>::new(ch).send(&M1 { tag: 1 })).map(|r| r.deserialize_view().unwrap_or(u64::MAX)),
                    ("H", "M1") => runtime().block_on(RpcClient::<SvcH>::new(ch).send(&M1 { tag: 1 })).map(|r| r.deserialize_view().unwrap_or(u64::MAX)),
                    ("I", "M1") => runtime().block_on(RpcClient::<SvcI>::new(ch).send(&M1 { tag: 1 })).map(|r| r.deserialize_view().unwrap_or(u64::MAX)),
                    ("J", "M1") => runtime().block_on(RpcClient::<SvcJ>::new(ch).send(&M1 { tag: 1 })).map(|r| r.deserialize_view().unwrap_or(u64::MAX)),
                    ("K", "M1") => runtime().block_on(RpcClient::<SvcK>::new(ch).send(&M1 { tag: 1 })).map(|r| r.deserialize_view().unwrap_or(u64::MAX)),
                    ("L", "M1") => runtime().block_on(RpcClient::<SvcL>::new(ch).send(&M1 { tag: 1 })).map(|r| r.deserialize_view().unwrap_or(u64::MAX)),
                    ("S", "M1") => runtime().block_on(RpcClient::<SvcS>::new(ch).send(&M1 { tag: 1 })).map(|r| r.deserialize_view().unwrap_or(u64::MAX)),
                    ("S", "M2") => runtime().block_on(RpcClient::<SvcS>::new(ch).send(&M2 { tag: 2 })).map(|r| r.deserialize_view().unwrap_or(u64::MAX)),
                    ("S", "M3") => runtime().block_on(RpcClient::<SvcS>::new(ch).send(&M3 { tag: 3 })).map(|r| r.deserialize_view().unwrap_or(u64::MAX)),
                    ("S", "M4") => runtime().block_on(RpcClient::<SvcS>::new(ch).send(&M4 { tag: 4 })).map(|r| r.deserialize_view().unwrap_or(u64::MAX)),
                    ("Q", "M1") => runtime().block_on(RpcClient::<SvcQ>::new(ch).send(&M1 { tag: 1 })).map(|r| r.deserialize_view().unwrap_or(u64::MAX)),
                    ("R", "M1") => runtime().block_on(RpcClient::<SvcR>::new(ch).send(&M1 { tag: 1 })).map(|r| r.deserialize_view().unwrap_or(u64::MAX)),
                    ("T", "M1") => runtime().block_on(RpcClient::<SvcT>::new(ch).send(&M1 { tag: 1 })).map(|r| r.deserialize_view().unwrap_or(u64::MAX)),
                    ("V", "M1") => runtime().block_on(RpcClient::<SvcV>::new(ch).send(&M1 { tag: 1 })).map(|r| r.deserialize_view().unwrap_or(u64::MAX)),
                    ("X", "U") => runtime().block_on(RpcClient::<SvcX>::new(ch).send(&7u64)).map(|r| r.deserialize_view().unwrap_or(u64::MAX)),
                    ("Y", "U") => runtime().block_on(RpcClient::<SvcY>::new(ch).send(&7u64)).map(|r| r.deserialize_view().unwrap_or(u64::MAX)),
                    ("P0", "M1") => runtime().block_on(RpcClient::<SvcP0>::new(ch).send(&M1 { tag: 1 })).map(|r| r.deserialize_view().unwrap_or(u64::MAX)),
                    ("P1", "M1") => runtime().block_on(RpcClient::<SvcP1>::new(ch).send(&M1 { tag: 1 })).map(|r| r.deserialize_view().unwrap_or(u64::MAX)),
                    ("P2", "M1") => runtime().block_on(RpcClient::<SvcP2>::new(ch).send(&M1 { tag: 1 })).map(|r| r.deserialize_view().unwrap_or(u64::MAX)),
                    ("P3", "M1") => runtime().block_on(RpcClient::<SvcP3>::new(ch).send(&M1 { tag: 1 })).map(|r| r.deserialize_view().unwrap_or(u64::MAX)),
                    ("P4", "M1") => runtime().block_on(RpcClient::<SvcP4>::new(ch).send(&M1 { tag: 1 })).map(|r| r.deserialize_view().unwrap_or(u64::MAX)),
                    ("P5", "M1") => runtime().block_on(RpcClient::<SvcP5>::new(ch).send(&M1 { tag: 1 })).map(|r| r.deserialize_view().unwrap_or(u64::MAX)),
                    ("P6", "M1") => runtime().block_on(RpcClient::<SvcP6>::new(ch).send(&M1 { tag: 1 })).map(|r| r.deserialize_view().unwrap_or(u64::MAX)),
                    ("P7", "M1") => runtime().block_on(RpcClient::<SvcP7>::new(ch).send(&M1 { tag: 1 })).map(|r| r.deserialize_view().unwrap_or(u64::MAX)),
                    _ => return "bad-op".to_string(),
                };
                match res {
                    Ok(inst) => format!("ok:{}", inst),
                    Err(s) => status_str(&s),
                }
            },
            _ => "bad-op".to_string(),
        }
    }
}
