//! Domain `cluster`: N real nodes (KeyspaceGroup + store + clock + RPC server with the real
//! ConsistencyService / ReplicationService) without chitchat; message fate and repair order are
//! chosen by the case (C01, C06, C19).
use std::marker::PhantomData;
use std::net::SocketAddr;
use std::sync::Arc;
use std::time::Duration;

use datacake_crdt::{HLCTimestamp, OrSWotSet};
use datacake_eventual_consistency::test_utils::MemStore;
use datacake_eventual_consistency::verif::{
    self, BatchPayload, ConsistencyClient, ConsistencyService, Del, DocVec, GetState, KeyspaceGroup,
    KeyspaceOrSwotSet, MultiDel, MultiPutPayload, MultiRemovePayload, MultiSet, PurgeDeletes,
    ReplicationClient, ReplicationService, Serialize, Set, Tracker, NUM_SOURCES,
};
use datacake_eventual_consistency::{Document, DocumentMetadata, Storage, StoreError};
use datacake_node::{Clock, Nodes, RpcNetwork};
use datacake_rpc::{Channel, Handler, Request, RpcService, Server, ServiceRegistry, Status};

use crate::faulty::{Directive, FaultyStore};
use crate::group::decode_set;
use crate::rpc::runtime;
use crate::store::{gen_data, show_data};
use crate::{hex, p_u64, Domain};

type Store = FaultyStore<MemStore>;
/// The keyspace the following requests address (`ks <name>` switches; a node holds many; exchanges cover all of them).
static CUR_KS: parking_lot::Mutex<String> = parking_lot::const_mutex(String::new());

fn ksn() -> String {
    let g = CUR_KS.lock();
    if g.is_empty() { "ks".to_string() } else { g.clone() }
}

struct NodeRt {
    id: u8,
    addr: SocketAddr,
    clock: Clock,
    group: KeyspaceGroup<Store>,
    network: RpcNetwork,
    directive: Arc<parking_lot::Mutex<Directive>>,
    gate: Arc<tokio::sync::Notify>,
    reached: Arc<std::sync::atomic::AtomicBool>,
    gate_fetch: Arc<std::sync::atomic::AtomicBool>,
    fail_read: Arc<std::sync::atomic::AtomicBool>,
    split: Option<tokio::task::JoinHandle<(Tracker, Option<Result<verif::ExchangeReport, anyhow::Error>>)>>,   // a repair in progress (repair-begin .. repair-end)
    tracker: Tracker,      // the poller's keyspace tracker of this node (per-peer entries inside)
    poller: Option<verif::Poller>,   // the real replication cycle service of this node, when a case started it
    _server: Server,
}

#[derive(Clone)]
enum Issued {
    Put(Document),
    Del(DocumentMetadata),
    MPut(Vec<Document>),
    MDel(Vec<DocumentMetadata>),
}

pub struct ClusterDomain {
    nodes: Vec<NodeRt>,
    /// issued operations, per keyspace (indices in `deliver` / `batch` are per keyspace)
    issued: std::collections::HashMap<String, Vec<(usize, Issued)>>,
    fake: Option<(Server, SocketAddr)>,
    /// real task distributor services (C16, consumer side), one per node that started one
    dists: Vec<Option<verif::Distributor>>,
    /// nodes whose address currently refuses connections (crashed, still listed in the membership)
    down: Vec<usize>,
}

impl ClusterDomain {
    pub fn new(_params: &[&str]) -> Self {
        Self { nodes: Vec::new(), issued: std::collections::HashMap::new(), fake: None, dists: Vec::new(), down: Vec::new() }
    }
}

impl Drop for ClusterDomain {
    fn drop(&mut self) {
        datacake_crdt::verif_clock::set_wall_ms(None);
        for d in self.dists.drain(..).flatten() {
            d.kill();
        }
        for n in self.nodes.drain(..) {
            if let Some(p) = n.poller.as_ref() {
                p.kill();
            }
            n._server.shutdown();
        }
        if let Some((s, _)) = self.fake.take() {
            s.shutdown();
        }
    }
}

async fn make_node(id: u8, _n: usize) -> NodeRt {
    let clock = Clock::new(id);
    let fs = FaultyStore::new(Arc::new(MemStore::default()));
    let directive = fs.next.clone();
    let (gate, reached, gate_fetch) = (fs.gate.clone(), fs.reached.clone(), fs.gate_fetch.clone());
    let fail_read = fs.fail_read.clone();
    let group = KeyspaceGroup::new(Arc::new(fs), clock.clone()).await;
    let network = RpcNetwork::default();
    let (addr, server) = crate::rpc::listen_free().await;
    server.add_service(ConsistencyService::new(group.clone(), network.clone()));
    server.add_service(ReplicationService::new(group.clone()));
    NodeRt { id, addr, clock, group, network, directive, gate, reached, gate_fetch, fail_read, split: None, tracker: Tracker::default(), poller: None, _server: server }
}

fn fmt_pairs(mut v: Vec<(u64, HLCTimestamp)>) -> String {
    if v.is_empty() {
        return "-".into();
    }
    v.sort_by_key(|p| (p.0, p.1));
    v.iter().map(|(k, t)| format!("{}:{}", k, t.as_u64())).collect::<Vec<_>>().join(",")
}

fn dump_set(set: &OrSWotSet<NUM_SOURCES>) -> String {
    let (c, d) = OrSWotSet::<NUM_SOURCES>::default().diff(set);
    format!("E {} D {}", fmt_pairs(c), fmt_pairs(d))
}

async fn tmo<T>(f: impl std::future::Future<Output = T>) -> Option<T> {
    tokio::time::timeout(Duration::from_secs(8), f).await.ok()
}

/// A peer that answers `GetState` with a CRC-valid frame whose nested set bytes are not a set (C19).
struct FakeRepl {
    nested: Vec<u8>,
}

impl RpcService for FakeRepl {
    fn service_name() -> &'static str {
        <ReplicationService<Store> as RpcService>::service_name()
    }

    fn register_handlers(registry: &mut ServiceRegistry<Self>) {
        registry.add_handler::<GetState>();
    }
}

#[datacake_rpc::async_trait]
impl Handler<GetState> for FakeRepl {
    type Reply = KeyspaceOrSwotSet;

    async fn on_message(&self, _msg: Request<GetState>) -> Result<Self::Reply, Status> {
        Ok(KeyspaceOrSwotSet {
            timestamp: HLCTimestamp::now(0, 250),
            last_updated: HLCTimestamp::now(0, 250),
            set: self.nested.clone(),
        })
    }
}

/// A peer that answers `GetState` with scripted raw bytes (C19: a CRC-valid reply whose ENVELOPE is not a valid archive).
struct RawRepl {
    reply: Vec<u8>,
}

impl RpcService for RawRepl {
    fn service_name() -> &'static str {
        <ReplicationService<Store> as RpcService>::service_name()
    }

    fn register_handlers(registry: &mut ServiceRegistry<Self>) {
        registry.add_handler::<GetState>();
    }
}

#[datacake_rpc::async_trait]
impl Handler<GetState> for RawRepl {
    type Reply = datacake_rpc::Body;

    async fn on_message(&self, _msg: Request<GetState>) -> Result<Self::Reply, Status> {
        Ok(datacake_rpc::Body::from(self.reply.clone()))
    }
}

impl ClusterDomain {
    async fn read_node(&self, j: usize) -> String {
        let n = &self.nodes[j];
        let ks = n.group.get_or_create_keyspace(&ksn()).await;
        let set = match tmo(ks.send(Serialize)).await {
            Some(Ok(bytes)) => dump_set(&decode_set(&bytes)),
            _ => "unavailable".to_string(),
        };
        let mut meta: Vec<(u64, u64, bool)> = n.group.storage().iter_metadata(&ksn()).await.expect("meta").map(|(k, t, b)| (k, t.as_u64(), b)).collect();
        meta.sort();
        let mut docs = Vec::new();
        for (k, _, tomb) in meta.iter() {
            if !*tomb {
                if let Ok(Some(d)) = n.group.storage().get(&ksn(), *k).await {
                    docs.push(format!("{}:{}:{}", d.id(), d.last_updated().as_u64(), show_data(d.data())));
                }
            }
        }
        let ms = if meta.is_empty() { "-".to_string() } else { meta.iter().map(|(k, ts, tb)| format!("{}:{}:{}", k, ts, if *tb { "t" } else { "f" })).collect::<Vec<_>>().join(",") };
        format!("set {} | store {} | docs {}", set, ms, if docs.is_empty() { "-".to_string() } else { docs.join(",") })
    }

    async fn deliver(&self, to: usize, k: usize) -> String {
        let (from, op) = self.issued.get(&ksn()).expect("ops")[k].clone();
        let src = &self.nodes[from];
        let dst = &self.nodes[to];
        let channel = src.network.get_or_connect(dst.addr);
        let mut client = ConsistencyClient::<Store>::new(src.clock.clone(), channel);
        let r = match op {
            Issued::Put(doc) => tmo(client.put(&ksn(), doc, src.id, src.addr)).await,
            Issued::Del(m) => tmo(client.del(&ksn(), m.id, m.last_updated)).await,
            Issued::MPut(docs) => tmo(client.multi_put(&ksn(), docs.into_iter(), src.id, src.addr)).await,
            Issued::MDel(ms) => tmo(client.multi_del(&ksn(), DocVec::from_vec(ms))).await,
        };
        match r {
            None => "timeout".into(),
            Some(Ok(())) => "ack".into(),
            Some(Err(_)) => "nack".into(),
        }
    }
}

impl Domain for ClusterDomain {
    fn op(&mut self, t: &[&str]) -> String {
        let rt = runtime();
        let u = |i: usize| p_u64(t[i]) as usize;
        match t[0] {
            "ks" => {
                *CUR_KS.lock() = t[1].to_string();
                "ok".into()
            },
            "advance" => {
                // advance <ms>: the wall clock of every node jumps forward (injected, then constant: the hybrid clocks keep
                // stamps strictly increasing through their counters); hour-scale histories run instantly
                let cur = HLCTimestamp::now(0, 0).datacake_timestamp().as_millis() as u64;
                datacake_crdt::verif_clock::set_wall_ms(Some(cur + p_u64(t[1])));
                "ok".into()
            },
            // ---- C16, consumer side: the real task distributor fed with membership changes
            "dist-start" => {
                let i = u(1);
                let n = &self.nodes[i];
                let d = rt.block_on(verif::start_distributor::<Store>(n.clock.clone(), n.network.clone(), n.id, n.addr));
                while self.dists.len() <= i {
                    self.dists.push(None);
                }
                self.dists[i] = Some(d);
                "ok".into()
            },
            "dist-change" => {
                // dist-change <i> <left> <joined>: lists of `<member id>@<node index>` (the node's RPC address), or `-`
                let parse = |x: &str| -> Vec<datacake_node::ClusterMember> {
                    if x == "-" {
                        return vec![];
                    }
                    x.split(',')
                        .map(|m| {
                            let (id, idx) = m.split_once('@').expect("member");
                            datacake_node::ClusterMember::new(p_u64(id) as u8, self.nodes[p_u64(idx) as usize].addr, "dc".to_string())
                        })
                        .collect()
                };
                let change = datacake_node::MembershipChange { left: parse(t[2]), joined: parse(t[3]) };
                self.dists[u(1)].as_ref().expect("dist").membership_change(change);
                "ok".into()
            },
            "dist-burst" => {
                // dist-burst <i> <n>: n Consistency::None writes (another keyspace) are handed to node i's distributor at once,
                // i.e. they all sit in its queue when the next membership change arrives
                let (i, n) = (u(1), p_u64(t[2]));
                let node = &self.nodes[i];
                let ts = rt.block_on(node.clock.get_time());
                let d = self.dists[i].as_ref().expect("dist");
                for k in 0..n {
                    d.put("burst", Document::new(1_000_000 + k, ts, vec![0u8]));
                }
                "ok".into()
            },
            "dist-put" => {
                // dist-put <i> <doc id> <data>: a Consistency::None write of node i handed to its distributor; after the next
                // batching tick, which nodes hold it?
                let (i, id) = (u(1), p_u64(t[2]));
                let n = &self.nodes[i];
                let ts = rt.block_on(n.clock.get_time());
                let doc = Document::new(id, ts, gen_data(t[3]));
                self.dists[i].as_ref().expect("dist").put(&ksn(), doc.clone());
                // one batching tick (1 s) plus the RPCs; poll until the set of holders has been stable for 300 ms
                // (and non-empty, or 2.6 s have passed): robust on a loaded machine
                // `dist-put ... late`: a member of the previous batch stays silent, the tick that sends this write begins once
                // the distributor has given up on it (REQUEST_TIMEOUT, 10 s)
                let late: u64 = if t.get(4) == Some(&"late") { 11_500 } else { 0 };
                let mut got: Vec<String> = Vec::new();
                let mut stable = 0;
                let mut waited = 1100;
                rt.block_on(async { tokio::time::sleep(Duration::from_millis(1100 + late)).await });
                loop {
                    let mut now = Vec::new();
                    for (j, nj) in self.nodes.iter().enumerate() {
                        if let Ok(Some(d)) = rt.block_on(nj.group.storage().get(&ksn(), id)) {
                            if d.last_updated() == ts {
                                now.push(j.to_string());
                            }
                        }
                    }
                    if now == got { stable += 100 } else { stable = 0; got = now; }
                    if (stable >= 300 && (!got.is_empty() || waited >= 2600)) || waited >= 4000 {
                        break;
                    }
                    rt.block_on(async { tokio::time::sleep(Duration::from_millis(100)).await });
                    waited += 100;
                }
                self.issued.entry(ksn()).or_default().push((i, Issued::Put(doc)));
                format!("recv {} ts={}", if got.is_empty() { "-".to_string() } else { got.join(",") }, ts.as_u64())
            },
            "nodes" => {
                let n = u(1);
                for d in self.dists.drain(..).flatten() {
                    d.kill();
                }
                datacake_crdt::verif_clock::set_wall_ms(None);
                let nodes = rt.block_on(async {
                    let mut v = Vec::new();
                    for i in 0..n {
                        v.push(make_node((i + 1) as u8, n).await);
                    }
                    // let the initial (empty) purge round of every group pass
                    tokio::time::sleep(Duration::from_millis(25)).await;
                    v
                });
                self.nodes = nodes;
                self.issued.clear();
                *CUR_KS.lock() = String::new();
                "ok".into()
            },
            // ---- client operations, applied locally exactly as ReplicatedStoreHandle does
            "put" => {
                let (i, id, data) = (u(1), p_u64(t[2]), gen_data(t[3]));
                let n = &self.nodes[i];
                let (ts, ok, doc) = rt.block_on(async {
                    let ts = n.clock.get_time().await;
                    let doc = Document::new(id, ts, data);
                    let ks = n.group.get_or_create_keyspace(&ksn()).await;
                    let r = tmo(ks.send(Set { source: 0, doc: doc.clone(), ctx: None, _marker: PhantomData::<Store> })).await;
                    (ts, matches!(r, Some(Ok(()))), doc)
                });
                self.issued.entry(ksn()).or_default().push((i, Issued::Put(doc)));
                format!("{} op={} ts={}", if ok { "ok" } else { "err" }, self.issued.get(&ksn()).map(|v| v.len()).unwrap_or(0) - 1, ts.as_u64())
            },
            "del" => {
                let (i, id) = (u(1), p_u64(t[2]));
                let n = &self.nodes[i];
                let (ts, ok, m) = rt.block_on(async {
                    let ts = n.clock.get_time().await;
                    let m = DocumentMetadata::new(id, ts);
                    let ks = n.group.get_or_create_keyspace(&ksn()).await;
                    let r = tmo(ks.send(Del { source: 0, doc: m, _marker: PhantomData::<Store> })).await;
                    (ts, matches!(r, Some(Ok(()))), m)
                });
                self.issued.entry(ksn()).or_default().push((i, Issued::Del(m)));
                format!("{} op={} ts={}", if ok { "ok" } else { "err" }, self.issued.get(&ksn()).map(|v| v.len()).unwrap_or(0) - 1, ts.as_u64())
            },
            "mput" => {
                // mput <i> id:data,id:data
                let i = u(1);
                let items: Vec<(u64, Vec<u8>)> = t[2].split(',').map(|p| { let (a, b) = p.split_once(':').unwrap(); (p_u64(a), gen_data(b)) }).collect();
                let n = &self.nodes[i];
                let (ts, ok, docs) = rt.block_on(async {
                    let ts = n.clock.get_time().await;
                    let docs: Vec<Document> = items.into_iter().map(|(id, d)| Document::new(id, ts, d)).collect();
                    let ks = n.group.get_or_create_keyspace(&ksn()).await;
                    let r = tmo(ks.send(MultiSet { source: 0, docs: DocVec::from_vec(docs.clone()), ctx: None, _marker: PhantomData::<Store> })).await;
                    (ts, matches!(r, Some(Ok(()))), docs)
                });
                self.issued.entry(ksn()).or_default().push((i, Issued::MPut(docs)));
                format!("{} op={} ts={}", if ok { "ok" } else { "err" }, self.issued.get(&ksn()).map(|v| v.len()).unwrap_or(0) - 1, ts.as_u64())
            },
            "mdel" => {
                let i = u(1);
                let ids: Vec<u64> = t[2].split(',').map(p_u64).collect();
                let n = &self.nodes[i];
                let (ts, ok, ms) = rt.block_on(async {
                    let ts = n.clock.get_time().await;
                    let ms: Vec<DocumentMetadata> = ids.into_iter().map(|id| DocumentMetadata::new(id, ts)).collect();
                    let ks = n.group.get_or_create_keyspace(&ksn()).await;
                    let r = tmo(ks.send(MultiDel { source: 0, docs: DocVec::from_vec(ms.clone()), _marker: PhantomData::<Store> })).await;
                    (ts, matches!(r, Some(Ok(()))), ms)
                });
                self.issued.entry(ksn()).or_default().push((i, Issued::MDel(ms)));
                format!("{} op={} ts={}", if ok { "ok" } else { "err" }, self.issued.get(&ksn()).map(|v| v.len()).unwrap_or(0) - 1, ts.as_u64())
            },
            // ---- replication messages through the real RPC clients and services
            "deliver" => {
                let (to, k) = (u(1), u(2));
                rt.block_on(self.deliver(to, k))
            },
            "batch" => {
                // batch <from> <to> k1,k2,...: one BatchPayload carrying those operations
                let (from, to) = (u(1), u(2));
                let ks_: Vec<usize> = t[3].split(',').map(|x| p_u64(x) as usize).collect();
                let mut puts: Vec<Document> = Vec::new();
                let mut dels: Vec<DocumentMetadata> = Vec::new();
                for k in ks_ {
                    match self.issued.get(&ksn()).expect("ops")[k].1.clone() {
                        Issued::Put(d) => puts.push(d),
                        Issued::Del(m) => dels.push(m),
                        Issued::MPut(ds) => puts.extend(ds),
                        Issued::MDel(ms) => dels.extend(ms),
                    }
                }
                let src = &self.nodes[from];
                let dst = &self.nodes[to];
                let r = rt.block_on(async {
                    let timestamp = src.clock.get_time().await;
                    let mut modified = DocVec::new();
                    let mut removed = DocVec::new();
                    if !puts.is_empty() {
                        modified.push(MultiPutPayload { keyspace: ksn(), ctx: None, documents: DocVec::from_vec(puts), timestamp });
                    }
                    if !dels.is_empty() {
                        removed.push(MultiRemovePayload { keyspace: ksn(), documents: DocVec::from_vec(dels), timestamp });
                    }
                    let batch = BatchPayload { timestamp, modified, removed };
                    let mut client = ConsistencyClient::<Store>::new(src.clock.clone(), src.network.get_or_connect(dst.addr));
                    tmo(client.apply_batch(&batch)).await
                });
                match r {
                    None => "timeout".into(),
                    Some(Ok(())) => "ack".into(),
                    Some(Err(_)) => "nack".into(),
                }
            },
            // ---- anti-entropy
            "repair" | "repairc" => {
                // repair <j> <i> <removals_first 0|1>: node j repairs from node i
                let (j, i) = (u(1), u(2));
                let (peer_id, peer_addr) = (self.nodes[i].id, self.nodes[i].addr);
                let group = self.nodes[j].group.clone();
                let network = self.nodes[j].network.clone();
                let concurrent = t[0] == "repairc";
                let rf = t.get(3).map(|x| *x == "1").unwrap_or(true);
                let tracker = &mut self.nodes[j].tracker;
                let r = rt.block_on(async {
                    if concurrent {
                        tmo(verif::repair_peer_concurrent(group, network, tracker, peer_id, peer_addr)).await
                    } else {
                        tmo(verif::repair_peer(group, network, tracker, peer_id, peer_addr, rf)).await
                    }
                });
                match r {
                    None => "timeout".into(),
                    Some(Err(e)) => format!("err {}", e.to_string().split_whitespace().take(4).collect::<Vec<_>>().join("_")),
                    Some(Ok(rep)) => {
                        let mut rep = rep;
                        rep.sort();
                        if rep.is_empty() {
                            "skipped".into()
                        } else {
                            format!("synced {}", rep.iter().map(|(k, m, r)| format!("{}:m{}:r{}", k, m, r)).collect::<Vec<_>>().join(","))
                        }
                    },
                }
            },
            // ---- C16, consumer side: the real replication cycle service (poller) fed with membership changes
            "poll-start" => {
                // poll-start <j> <interval ms>: the service sleeps its initial wait (500 ms) before the first tick: membership changes
                // handed to it straight away are all drained, in order, by that first tick
                let j = u(1);
                let n = &self.nodes[j];
                let p = rt.block_on(verif::start_poller::<Store>(n.group.clone(), n.network.clone(), Duration::from_millis(p_u64(t[2]))));
                self.nodes[j].poller = Some(p);
                "ok".into()
            },
            "poll-change" => {
                // poll-change <j> <left> <joined>: lists of `<member id>@<node index>`, or `-`
                let parse = |x: &str| -> Vec<datacake_node::ClusterMember> {
                    if x == "-" {
                        return vec![];
                    }
                    x.split(',')
                        .map(|m| {
                            let (id, idx) = m.split_once('@').expect("member");
                            datacake_node::ClusterMember::new(p_u64(id) as u8, self.nodes[p_u64(idx) as usize].addr, "dc".to_string())
                        })
                        .collect()
                };
                let change = datacake_node::MembershipChange { left: parse(t[2]), joined: parse(t[3]) };
                self.nodes[u(1)].poller.as_ref().expect("poller").membership_change(change);
                "ok".into()
            },
            "poll-wait" => {
                // poll-wait <j> <ms>: let the service run (initial wait + a few ticks), then stop it
                rt.block_on(async { tokio::time::sleep(Duration::from_millis(p_u64(t[2]))).await });
                if let Some(p) = self.nodes[u(1)].poller.take() {
                    p.kill();
                }
                // a tick in progress finishes its exchanges
                rt.block_on(async { tokio::time::sleep(Duration::from_millis(300)).await });
                "ok".into()
            },
            // ---- C01: an exchange that is NOT atomic with respect to the peer: the peer's store changes between the state snapshot
            // (and the difference computed from it) and the document fetch
            "repair-begin" => {
                // repair-begin <j> <i> <removals_first 0|1>: node j starts repairing from node i; node i's next document fetch
                // (Storage::multi_get behind FetchDocs) is held at a gate; returns when the fetch has reached the gate or the
                // exchange has finished without one
                use std::sync::atomic::Ordering;
                let (j, i) = (u(1), u(2));
                let rf = t.get(3).map(|x| *x == "1").unwrap_or(true);
                let (peer_id, peer_addr) = (self.nodes[i].id, self.nodes[i].addr);
                let group = self.nodes[j].group.clone();
                let network = self.nodes[j].network.clone();
                let mut tracker = std::mem::take(&mut self.nodes[j].tracker);
                self.nodes[i].reached.store(false, Ordering::SeqCst);
                self.nodes[i].gate_fetch.store(true, Ordering::SeqCst);
                let h = rt.spawn(async move {
                    let r = tmo(verif::repair_peer(group, network, &mut tracker, peer_id, peer_addr, rf)).await;
                    (tracker, r)
                });
                let reached = self.nodes[i].reached.clone();
                rt.block_on(async {
                    let mut waited = 0;
                    while !reached.load(Ordering::SeqCst) && !h.is_finished() && waited < 4000 {
                        tokio::time::sleep(Duration::from_millis(1)).await;
                        waited += 1;
                    }
                });
                let state = if self.nodes[i].reached.load(Ordering::SeqCst) { "fetching" } else if h.is_finished() { "finished" } else { "stuck" };
                self.nodes[j].split = Some(h);
                format!("begun {}", state)
            },
            "repair-end" => {
                // repair-end <j> <i>: the gate opens, the fetch reads node i's store AS IT IS NOW, the exchange completes
                use std::sync::atomic::Ordering;
                let (j, i) = (u(1), u(2));
                // only a fetch that is waiting at the gate is released: `notify_one` without a waiter would leave a permit
                // behind and let the NEXT gated fetch of this node through at once
                if self.nodes[i].gate_fetch.swap(false, Ordering::SeqCst) == false && self.nodes[i].reached.swap(false, Ordering::SeqCst) {
                    self.nodes[i].gate.notify_one();
                }
                let h = self.nodes[j].split.take().expect("repair in progress");
                let (tracker, r) = rt.block_on(async { h.await.expect("join") });
                self.nodes[j].tracker = tracker;
                match r {
                    None => "timeout".into(),
                    Some(Err(e)) => format!("err {}", e.to_string().split_whitespace().take(4).collect::<Vec<_>>().join("_")),
                    Some(Ok(rep)) => {
                        let mut rep = rep;
                        rep.sort();
                        if rep.is_empty() { "skipped".into() } else { format!("synced {}", rep.iter().map(|(k, m, r)| format!("{}:m{}:r{}", k, m, r)).collect::<Vec<_>>().join(",")) }
                    },
                }
            },
            "repairm" => {
                // repairm <j>: one round of the PRODUCTION loop of node j's poller (`repair_members`) over all other nodes as its live
                // members: per peer poll, diff, both halves concurrently, tracker update on success, errors logged and skipped
                let j = u(1);
                let live: std::collections::BTreeMap<u8, SocketAddr> = self.nodes.iter().enumerate().filter(|(i, _)| *i != j).map(|(_, n)| (n.id, n.addr)).collect();
                let group = self.nodes[j].group.clone();
                let network = self.nodes[j].network.clone();
                let tracker = &mut self.nodes[j].tracker;
                let r = rt.block_on(async { tokio::time::timeout(Duration::from_secs(30), verif::repair_members_once(group, network, tracker, &live)).await });
                if r.is_ok() { "ok".into() } else { "timeout".into() }
            },
            "purge" => {
                let j = u(1);
                let n = &self.nodes[j];
                let r = rt.block_on(async {
                    let ks = n.group.get_or_create_keyspace(&ksn()).await;
                    tmo(ks.send(PurgeDeletes(PhantomData::<Store>))).await
                });
                if matches!(r, Some(Ok(()))) { "ok".into() } else { "err".into() }
            },
            "sel" => "ok".into(),
            "failnext" => {
                // the next storage mutation on node j fails (C06: a replica that cannot acknowledge)
                *self.nodes[u(1)].directive.lock() = Directive::Fail;
                "ok".into()
            },
            "hangnext" => {
                // the next storage mutation on node j is performed and then never returns: the replica stays silent, it neither
                // acknowledges nor answers with an error (wedged disk, frozen process, black-holed connection)
                *self.nodes[u(1)].directive.lock() = Directive::HangAfterWrite;
                "ok".into()
            },
            "unreach" => {
                // node j has crashed but is still selected: connections to it are refused
                if !self.down.contains(&u(1)) { self.down.push(u(1)); }
                "ok".into()
            },
            "reach" => {
                self.down.retain(|x| *x != u(1));
                "ok".into()
            },
            "partialnext" => {
                // partialnext <j> <positions|->: the next BULK storage mutation on node j (a purge's `remove_tombstones`) performs only
                // the items at these positions (ascending key order), reports them and fails
                let l = t[2];
                *self.nodes[u(1)].directive.lock() = Directive::Written(if l == "-" { vec![] } else { l.split(',').map(|v| p_u64(v) as usize).collect() });
                "ok".into()
            },
            "failfetch" => {
                // the next document read on node i's storage fails: a repairing peer's `fetch_docs` is answered with an error
                self.nodes[u(1)].fail_read.store(true, std::sync::atomic::Ordering::SeqCst);
                "ok".into()
            },
            "clearfetch" => {
                self.nodes[u(1)].fail_read.store(false, std::sync::atomic::Ordering::SeqCst);
                "ok".into()
            },
            "clearfail" => {
                *self.nodes[u(1)].directive.lock() = Directive::None;
                "ok".into()
            },
            "read" => rt.block_on(self.read_node(u(1))),
            "converged" => {
                let r = rt.block_on(self.read_node(u(1)));
                format!("docs {}", r.split(" | docs ").nth(1).unwrap_or("-"))
            },
            "get" => {
                let (j, id) = (u(1), p_u64(t[2]));
                match rt.block_on(self.nodes[j].group.storage().get(&ksn(), id)) {
                    Ok(Some(d)) => format!("doc {}:{}:{}", d.id(), d.last_updated().as_u64(), show_data(d.data())),
                    Ok(None) => "none".into(),
                    Err(_) => "err".into(),
                }
            },
            // ---- C06: a write with the replicas the level selected
            "wput" | "wdel" => {
                // wput <i> <targets j,k|-> <id> <data>   /   wdel <i> <targets> <id>
                let i = u(1);
                let targets: Vec<usize> = if t[2] == "-" { vec![] } else { t[2].split(',').map(|x| p_u64(x) as usize).collect() };
                let id = p_u64(t[3]);
                let is_put = t[0] == "wput";
                let data = if is_put { gen_data(t[4]) } else { vec![] };
                let n = &self.nodes[i];
                let addrs: Nodes = targets
                    .iter()
                    .map(|j| if self.down.contains(j) { crate::rpc::free_addr() } else { self.nodes[*j].addr })
                    .collect();
                let (ts, res, issued) = rt.block_on(async {
                    let ts = n.clock.get_time().await;
                    let ks = n.group.get_or_create_keyspace(&ksn()).await;
                    let doc = Document::new(id, ts, data);
                    let meta = DocumentMetadata::new(id, ts);
                    let local_ok = if is_put {
                        matches!(tmo(ks.send(Set { source: 0, doc: doc.clone(), ctx: None, _marker: PhantomData::<Store> })).await, Some(Ok(())))
                    } else {
                        matches!(tmo(ks.send(Del { source: 0, doc: meta, _marker: PhantomData::<Store> })).await, Some(Ok(())))
                    };
                    if !local_ok {
                        return (ts, Err("local".to_string()), if is_put { Issued::Put(doc) } else { Issued::Del(meta) });
                    }
                    let factory = |node: SocketAddr| {
                        let clock = n.clock.clone();
                        let channel = n.network.get_or_connect(node);
                        let doc = doc.clone();
                        let (nid, naddr) = (n.id, n.addr);
                        async move {
                            let mut client = ConsistencyClient::<Store>::new(clock, channel);
                            let r = if is_put { client.put(&ksn(), doc, nid, naddr).await } else { client.del(&ksn(), id, ts).await };
                            r.map_err(|e| StoreError::RpcError(node, e))?;
                            Ok::<_, StoreError<<Store as Storage>::Error>>(())
                        }
                    };
                    let r = match tmo(verif::distribute::<Store, _, _>(addrs, factory)).await {
                        Some(r) => r,
                        // the call is still pending four times the advertised timeout later
                        None => return (ts, Err("blocked".to_string()), if is_put { Issued::Put(doc.clone()) } else { Issued::Del(meta) }),
                    };
                    let r = match r {
                        Ok(()) => Ok(()),
                        Err(StoreError::ConsistencyError(datacake_node::ConsistencyError::ConsistencyFailure { responses, required, .. })) => Err(format!("consistency {}/{}", responses, required)),
                        Err(e) => Err(format!("other {}", e.to_string().split_whitespace().next().unwrap_or(""))),
                    };
                    (ts, r, if is_put { Issued::Put(doc) } else { Issued::Del(meta) })
                });
                self.issued.entry(ksn()).or_default().push((i, issued));
                match res {
                    Ok(()) => format!("ok op={} ts={}", self.issued.get(&ksn()).map(|v| v.len()).unwrap_or(0) - 1, ts.as_u64()),
                    Err(e) => format!("{} op={} ts={}", e, self.issued.get(&ksn()).map(|v| v.len()).unwrap_or(0) - 1, ts.as_u64()),
                }
            },
            // ---- C06: bulk writes (put_many / del_many) with the replicas the level selected
            "wmput" | "wmdel" => {
                // wmput <i> <targets j,k|-> <first id> <count> <data>   /   wmdel <i> <targets> <first id> <count>
                // ids first..first+count-1, ONE stamp for the whole batch, exactly as ReplicatedStoreHandle::put_many/del_many
                let i = u(1);
                let targets: Vec<usize> = if t[2] == "-" { vec![] } else { t[2].split(',').map(|x| p_u64(x) as usize).collect() };
                let (first, count) = (p_u64(t[3]), p_u64(t[4]));
                let is_put = t[0] == "wmput";
                let data = if is_put { gen_data(t[5]) } else { vec![] };
                let n = &self.nodes[i];
                let addrs: Nodes = targets
                    .iter()
                    .map(|j| if self.down.contains(j) { crate::rpc::free_addr() } else { self.nodes[*j].addr })
                    .collect();
                let (ts, res, issued) = rt.block_on(async {
                    let ts = n.clock.get_time().await;
                    let ks = n.group.get_or_create_keyspace(&ksn()).await;
                    let docs: DocVec<Document> = (first..first + count).map(|id| Document::new(id, ts, data.clone())).collect();
                    let metas: DocVec<DocumentMetadata> = (first..first + count).map(|id| DocumentMetadata::new(id, ts)).collect();
                    let issued = if is_put { Issued::MPut(docs.iter().cloned().collect()) } else { Issued::MDel(metas.iter().copied().collect()) };
                    let local_ok = if is_put {
                        matches!(tmo(ks.send(MultiSet { source: 0, docs: docs.clone(), ctx: None, _marker: PhantomData::<Store> })).await, Some(Ok(())))
                    } else {
                        matches!(tmo(ks.send(MultiDel { source: 0, docs: metas.clone(), _marker: PhantomData::<Store> })).await, Some(Ok(())))
                    };
                    if !local_ok {
                        return (ts, Err("local".to_string()), issued);
                    }
                    let factory = |node: SocketAddr| {
                        let clock = n.clock.clone();
                        let channel = n.network.get_or_connect(node);
                        let docs = docs.clone();
                        let metas = metas.clone();
                        let (nid, naddr) = (n.id, n.addr);
                        async move {
                            let mut client = ConsistencyClient::<Store>::new(clock, channel);
                            let r = if is_put { client.multi_put(&ksn(), docs.into_iter(), nid, naddr).await } else { client.multi_del(&ksn(), metas).await };
                            r.map_err(|e| StoreError::RpcError(node, e))?;
                            Ok::<_, StoreError<<Store as Storage>::Error>>(())
                        }
                    };
                    let r = match tmo(verif::distribute::<Store, _, _>(addrs, factory)).await {
                        Some(r) => r,
                        // the call is still pending four times the advertised timeout later
                        None => return (ts, Err("blocked".to_string()), issued),
                    };
                    let r = match r {
                        Ok(()) => Ok(()),
                        Err(StoreError::ConsistencyError(datacake_node::ConsistencyError::ConsistencyFailure { responses, required, .. })) => Err(format!("consistency {}/{}", responses, required)),
                        Err(e) => Err(format!("other {}", e.to_string().split_whitespace().next().unwrap_or(""))),
                    };
                    (ts, r, issued)
                });
                self.issued.entry(ksn()).or_default().push((i, issued));
                match res {
                    Ok(()) => format!("ok op={} ts={}", self.issued.get(&ksn()).map(|v| v.len()).unwrap_or(0) - 1, ts.as_u64()),
                    Err(e) => format!("{} op={} ts={}", e, self.issued.get(&ksn()).map(|v| v.len()).unwrap_or(0) - 1, ts.as_u64()),
                }
            },
            // ---- C01 (poller skip rule): a write processed BETWEEN the two actor messages of the GetState handler
            "staterace" => {
                // staterace <j> <i> <id1> <id2>: node i is kept busy inside a put of id1 (storage gate); node j's
                // GetState request arrives (the handler's first actor message queues behind the put); a put of id2
                // is enqueued behind that; the gate opens.  Mailbox order at i: put id1, handler message 1, put id2,
                // handler message 2.  Reports the reply's change stamp and set against i's final ones.
                use std::sync::atomic::Ordering;
                let (j, i, id1, id2) = (u(1), u(2), p_u64(t[3]), p_u64(t[4]));
                let ni = &self.nodes[i];
                let nj = &self.nodes[j];
                ni.reached.store(false, Ordering::SeqCst);
                *ni.directive.lock() = Directive::Gate;
                let (out, d1, d2) = rt.block_on(async {
                    let ks = ni.group.get_or_create_keyspace(&ksn()).await;
                    let ts1 = ni.clock.get_time().await;
                    let doc1 = Document::new(id1, ts1, vec![1u8]);
                    let ks1 = ks.clone();
                    let d1 = doc1.clone();
                    let t1 = tokio::spawn(async move { ks1.send(Set { source: 0, doc: d1, ctx: None, _marker: PhantomData::<Store> }).await });
                    let mut waited = 0;
                    while !ni.reached.load(Ordering::SeqCst) && waited < 2000 {
                        tokio::time::sleep(Duration::from_millis(1)).await;
                        waited += 1;
                    }
                    let mut client = ReplicationClient::<Store>::new(nj.clock.clone(), nj.network.get_or_connect(ni.addr));
                    let t2 = tokio::spawn(async move { client.get_state(&ksn()).await });
                    tokio::time::sleep(Duration::from_millis(150)).await;
                    let ts2 = ni.clock.get_time().await;
                    let doc2 = Document::new(id2, ts2, vec![2u8]);
                    let ks3 = ks.clone();
                    let d2 = doc2.clone();
                    let t3 = tokio::spawn(async move { ks3.send(Set { source: 0, doc: d2, ctx: None, _marker: PhantomData::<Store> }).await });
                    tokio::time::sleep(Duration::from_millis(50)).await;
                    ni.gate.notify_one();
                    let _ = tmo(t1).await;
                    let _ = tmo(t3).await;
                    let reply = tmo(t2).await;
                    let lfin = ni.group.get_keyspace_info().await.keyspace_timestamps.get(&ksn()).copied();
                    let out = match reply {
                        Some(Ok(Ok((l, set)))) => format!(
                            "race stamp_is_final={} has1={} has2={} ts={} ts2={}",
                            Some(l) == lfin,
                            set.get(&id1).is_some(),
                            set.get(&id2).is_some(),
                            ts1.as_u64(),
                            ts2.as_u64()
                        ),
                        _ => format!("race failed ts={} ts2={}", ts1.as_u64(), ts2.as_u64()),
                    };
                    (out, doc1, doc2)
                });
                *ni.directive.lock() = Directive::None;
                self.issued.entry(ksn()).or_default().push((i, Issued::Put(d1)));
                self.issued.entry(ksn()).or_default().push((i, Issued::Put(d2)));
                out
            },
            // ---- C19: the keyspace state a peer obtains
            "fetchstate" => {
                // fetchstate <j> <i>: node j asks node i for the keyspace state through the real client
                let (j, i) = (u(1), u(2));
                let src = &self.nodes[j];
                let dst = &self.nodes[i];
                let r = rt.block_on(async {
                    let mut client = ReplicationClient::<Store>::new(src.clock.clone(), src.network.get_or_connect(dst.addr));
                    tmo(client.get_state(&ksn())).await
                });
                match r {
                    None => "timeout".into(),
                    Some(Err(e)) => {
                        if std::env::var("DCH_VERBOSE").is_ok() { eprintln!("fetchstate: {:?}", e); }
                        "err".into()
                    },
                    Some(Ok((_, set))) => {
                        let probes = (1..=4u64)
                            .map(|nd| {
                                // least stamp of origin `nd` the received state does not refuse
                                let ok = |x: u64| set.will_apply(u64::MAX - 7, HLCTimestamp::from_u64((x << 8) | nd));
                                let (mut lo, mut hi) = (0u64, (1u64 << 56) - 1);
                                while lo < hi {
                                    let mid = lo + (hi - lo) / 2;
                                    if ok(mid) { hi = mid } else { lo = mid + 1 }
                                }
                                format!("{}", (lo << 8) | nd)
                            })
                            .collect::<Vec<_>>()
                            .join(",");
                        format!("state {} cuts {}", dump_set(&set), probes)
                    },
                }
            },
            "collide" => {
                // collide <n>: the serialisation a peer's GetState waits for (`OrSWotSet::as_bytes`, run inside the keyspace actor),
                // for a tombstone-only state of n ids that all fall into ONE bucket of rkyv's archived hash index, against the
                // same state over ids 1..=n.  Prints the two durations' ratio bucket.
                use std::hash::{Hash, Hasher};
                let n = p_u64(t[1]);
                let h = |key: u64| {
                    let mut hasher = rkyv::collections::hash_index::HashBuilder::with_seeds(0x08576fb6170b5f5f, 0x587775eeb84a7e46, 0xac701115428ee569, 0x910feb91b92bb1cd);
                    key.hash(&mut hasher);
                    hasher.finish()
                };
                let time = |ids: Vec<u64>| {
                    let mut set = datacake_crdt::OrSWotSet::<2>::default();
                    for (k, id) in ids.iter().enumerate() {
                        set.delete(*id, HLCTimestamp::new(Duration::from_secs(5000 + k as u64), 0, 7));
                    }
                    let start = std::time::Instant::now();
                    let bytes = set.as_bytes().expect("ser");
                    let took = start.elapsed();
                    let same = datacake_crdt::OrSWotSet::<2>::from_bytes(&bytes).map(|b| dump_set(&b) == dump_set(&set)).unwrap_or(false);
                    (took, same)
                };
                let colliding: Vec<u64> = (0u64..).filter(|id| h(*id) % n == 0).take(n as usize).collect();
                let (slow, same1) = time(colliding);
                let (fast, same2) = time((1..=n).collect());
                let ratio = slow.as_micros().max(1) / fast.as_micros().max(1);
                let verdict = if slow > Duration::from_millis(100) && ratio > 200 { "stalls" } else { "fine" };
                format!("collide same={} {}", same1 && same2, verdict)
            },
            "localstate" => {
                let i = u(1);
                let n = &self.nodes[i];
                let r = rt.block_on(async {
                    let ks = n.group.get_or_create_keyspace(&ksn()).await;
                    tmo(ks.send(Serialize)).await
                });
                match r {
                    Some(Ok(bytes)) => {
                        let set = decode_set(&bytes);
                        let probes = (1..=4u64)
                            .map(|nd| {
                                let ok = |x: u64| set.will_apply(u64::MAX - 7, HLCTimestamp::from_u64((x << 8) | nd));
                                let (mut lo, mut hi) = (0u64, (1u64 << 56) - 1);
                                while lo < hi {
                                    let mid = lo + (hi - lo) / 2;
                                    if ok(mid) { hi = mid } else { lo = mid + 1 }
                                }
                                format!("{}", (lo << 8) | nd)
                            })
                            .collect::<Vec<_>>()
                            .join(",");
                        format!("state {} cuts {} bytes={}", dump_set(&set), probes, bytes.len())
                    },
                    _ => "err".into(),
                }
            },
            "bulk" => {
                // bulk <i> <n> <seed>: n local puts/deletes on ids 1000.. (state of thousands of entries)
                let (i, n, seed) = (u(1), p_u64(t[2]), p_u64(t[3]));
                let node = &self.nodes[i];
                rt.block_on(async {
                    let ks = node.group.get_or_create_keyspace(&ksn()).await;
                    let mut s = seed;
                    let mut chunk: Vec<Document> = Vec::new();
                    for x in 0..n {
                        s = s.wrapping_mul(6364136223846793005).wrapping_add(1442695040888963407);
                        let ts = node.clock.get_time().await;
                        chunk.push(Document::new(1000 + x, ts, vec![(s >> 40) as u8]));
                        if chunk.len() == 500 || x + 1 == n {
                            let docs = std::mem::take(&mut chunk);
                            let _ = ks.send(MultiSet { source: 0, docs: DocVec::from_vec(docs), ctx: None, _marker: PhantomData::<Store> }).await;
                        }
                    }
                    // every 7th becomes a tombstone
                    let ts = node.clock.get_time().await;
                    let dels: Vec<DocumentMetadata> = (0..n).filter(|x| x % 7 == 3).map(|x| DocumentMetadata::new(1000 + x, ts)).collect();
                    if !dels.is_empty() {
                        let _ = ks.send(MultiDel { source: 0, docs: DocVec::from_vec(dels), _marker: PhantomData::<Store> }).await;
                    }
                });
                "ok".into()
            },
            "badstate" => {
                // badstate <j> <hexnested>: node j asks a peer whose GetState reply is CRC-valid but carries
                // these nested bytes instead of a serialised set
                let j = u(1);
                let nested = crate::unhex(t[2]);
                if let Some((s, _)) = self.fake.take() {
                    s.shutdown();
                }
                let (addr, server) = rt.block_on(crate::rpc::listen_free());
                server.add_service(FakeRepl { nested });
                self.fake = Some((server, addr));
                let src = &self.nodes[j];
                let r = rt.block_on(async {
                    let mut client = ReplicationClient::<Store>::new(src.clock.clone(), Channel::connect(addr));
                    tmo(async { std::panic::AssertUnwindSafe(client.get_state(&ksn())).await }).await
                });
                match r {
                    None => "timeout".into(),
                    Some(Err(_)) => "rejected".into(),
                    Some(Ok((_, set))) => format!("accepted {}", hex(dump_set(&set).as_bytes()).len()),
                }
            },
            "envelope-bytes" => {
                // envelope-bytes <timestamp u64> <last_updated u64> <hex nested bytes|->: the frame of a GetState reply with these
                // fields, byte for byte (`to_view_bytes(&KeyspaceOrSwotSet{..})`); the Lean model (Model/Envelope.lean) has the
                // archive layout of the envelope and must produce the same bytes.  Also whether rkyv's validation - the check
                // `get_state` makes before it follows the envelope - accepts them.
                let env = KeyspaceOrSwotSet { timestamp: HLCTimestamp::from_u64(p_u64(t[1])), last_updated: HLCTimestamp::from_u64(p_u64(t[2])), set: crate::unhex(t[3]) };
                let frame = datacake_rpc::to_view_bytes(&env).expect("view");
                let ok = rkyv::check_archived_root::<KeyspaceOrSwotSet>(&frame[..frame.len() - 4]).is_ok();
                format!("frame {} valid={}", hex(&frame), ok)
            },
            "badenvelope" => {
                // badenvelope <j> <kind> <n>: node j asks a peer whose GetState reply is the byte-exact honest reply for a set of
                // `n` entries with ONE field of the envelope changed and the CRC recomputed:
                //   len  - the declared length of the nested set bytes is 1 GiB
                //   ptr  - the relative pointer to the nested set bytes points far outside the message
                //   shift - one stray byte in front: the root is misplaced
                //   ok   - nothing changed (control: accepted)
                let (j, kind, n) = (u(1), t[2], p_u64(t[3]));
                let mut set = datacake_crdt::OrSWotSet::<2>::default();
                for k in 0..n {
                    set.insert_with_source(0, k, HLCTimestamp::new(Duration::from_secs(5000 + k), 0, 7));
                }
                let nested = rkyv::to_bytes::<_, 4096>(&set).expect("ser").to_vec();
                let honest = KeyspaceOrSwotSet { timestamp: HLCTimestamp::now(0, 250), last_updated: HLCTimestamp::now(0, 250), set: nested };
                let mut reply = datacake_rpc::to_view_bytes(&honest).expect("view").to_vec();
                let end = reply.len();
                // .. | timestamp u64 | last_updated u64 | set.ptr i32 | set.len u32 | crc32 u32
                match kind {
                    "len" => reply[end - 8..end - 4].copy_from_slice(&(1u32 << 30).to_le_bytes()),
                    "ptr" => reply[end - 12..end - 8].copy_from_slice(&(0x7000_0000i32).to_le_bytes()),
                    // shift - one stray byte in front of the honest reply: its root is no longer at an aligned position (D35)
                    "shift" => reply.insert(0, 0xEE),
                    _ => {},
                }
                let end = reply.len();
                let crc = crc32fast::hash(&reply[..end - 4]);
                reply[end - 4..].copy_from_slice(&crc.to_le_bytes());
                if let Some((s, _)) = self.fake.take() {
                    s.shutdown();
                }
                let (addr, server) = rt.block_on(crate::rpc::listen_free());
                server.add_service(RawRepl { reply });
                self.fake = Some((server, addr));
                let src = &self.nodes[j];
                let r = rt.block_on(async {
                    let mut client = ReplicationClient::<Store>::new(src.clock.clone(), Channel::connect(addr));
                    tmo(client.get_state(&ksn())).await
                });
                match r {
                    None => "timeout".into(),
                    Some(Err(_)) => "rejected".into(),
                    Some(Ok((_, set))) => format!("accepted {}", dump_set(&set).split(" D ").next().map(|e| e.matches(":").count()).unwrap_or(0)),
                }
            },
            _ => "bad-op".into(),
        }
    }
}
