//! A fault-injecting `Storage` wrapper: the next mutating call follows a directive taken from the case file.
use std::sync::Arc;

use datacake_crdt::{HLCTimestamp, Key};
use datacake_eventual_consistency::{BulkMutationError, Document, DocumentMetadata, Storage};
use parking_lot::Mutex;

#[derive(Debug, Clone, PartialEq)]
pub enum Directive {
    /// behave normally
    None,
    /// single call: fail without effect; bulk call: fail without writing anything
    Fail,
    /// bulk call: write the items at these positions of the received iterator, report them, fail
    Written(Vec<usize>),
    /// perform the inner write, then never return (the process "crashes" inside the request)
    HangAfterWrite,
    /// (put only) perform the inner write, raise `reached`, and return only when `gate` is notified:
    /// keeps the keyspace actor busy inside one request while other messages queue up behind it
    Gate,
}

#[derive(Debug, thiserror::Error)]
#[error("injected storage failure: {0}")]
pub struct FaultyError(pub String);

pub struct FaultyStore<S: Storage> {
    pub inner: Arc<S>,
    pub next: Arc<Mutex<Directive>>,
    pub gate: Arc<tokio::sync::Notify>,
    pub reached: Arc<std::sync::atomic::AtomicBool>,
    /// when set, `iter_metadata` performs the scan, raises `reached` and returns only when `gate` is notified
    pub gate_meta: Arc<std::sync::atomic::AtomicBool>,
    /// when set, the next `multi_get` raises `reached` and reads only after `gate` is notified (a peer's document fetch
    /// that is overtaken by later mutations of this store)
    pub gate_fetch: Arc<std::sync::atomic::AtomicBool>,
    /// when set, the next `get` / `multi_get` fails (a peer whose document fetch cannot be served: `fetch_docs` answers with an error)
    pub fail_read: Arc<std::sync::atomic::AtomicBool>,
}

impl<S: Storage> FaultyStore<S> {
    pub fn new(inner: Arc<S>) -> Self {
        Self { inner, next: Arc::new(Mutex::new(Directive::None)), gate: Arc::new(tokio::sync::Notify::new()), reached: Arc::new(std::sync::atomic::AtomicBool::new(false)), gate_meta: Arc::new(std::sync::atomic::AtomicBool::new(false)), gate_fetch: Arc::new(std::sync::atomic::AtomicBool::new(false)), fail_read: Arc::new(std::sync::atomic::AtomicBool::new(false)) }
    }

    fn take(&self) -> Directive {
        std::mem::replace(&mut *self.next.lock(), Directive::None)
    }
}

fn wrap<E: std::error::Error>(e: E) -> FaultyError {
    FaultyError(e.to_string())
}

async fn hang() {
    futures::future::pending::<()>().await
}

#[async_trait::async_trait]
impl<S: Storage> Storage for FaultyStore<S> {
    type Error = FaultyError;
    type DocsIter = S::DocsIter;
    type MetadataIter = std::vec::IntoIter<(Key, HLCTimestamp, bool)>;

    async fn get_keyspace_list(&self) -> Result<Vec<String>, Self::Error> {
        self.inner.get_keyspace_list().await.map_err(wrap)
    }

    async fn iter_metadata(&self, keyspace: &str) -> Result<Self::MetadataIter, Self::Error> {
        // the scan is materialised (what a backend reading a snapshot returns)
        let r: Result<Vec<(Key, HLCTimestamp, bool)>, FaultyError> =
            self.inner.iter_metadata(keyspace).await.map(|it| it.collect()).map_err(wrap);
        if self.gate_meta.load(std::sync::atomic::Ordering::SeqCst) {
            self.reached.store(true, std::sync::atomic::Ordering::SeqCst);
            self.gate.notified().await;
        }
        r.map(|v| v.into_iter())
    }

    async fn remove_tombstones(
        &self,
        keyspace: &str,
        keys: impl Iterator<Item = Key> + Send,
    ) -> Result<(), BulkMutationError<Self::Error>> {
        // the set hands the purged tombstones over in hash-map order: positions in a directive refer to ascending key order
        let mut keys: Vec<Key> = keys.collect();
        keys.sort_unstable();
        match self.take() {
            Directive::None | Directive::Gate => self
                .inner
                .remove_tombstones(keyspace, keys.into_iter())
                .await
                .map_err(|e| BulkMutationError::empty_with_error(wrap(e.into_inner()))),
            Directive::Fail => Err(BulkMutationError::empty_with_error(FaultyError("remove".into()))),
            Directive::Written(idx) => {
                let done: Vec<Key> = keys.iter().enumerate().filter(|(i, _)| idx.contains(i)).map(|(_, k)| *k).collect();
                let _ = self.inner.remove_tombstones(keyspace, done.clone().into_iter()).await;
                Err(BulkMutationError::new(FaultyError("remove partial".into()), done))
            },
            Directive::HangAfterWrite => {
                let _ = self.inner.remove_tombstones(keyspace, keys.into_iter()).await;
                hang().await;
                Ok(())
            },
        }
    }

    async fn put(&self, keyspace: &str, document: Document) -> Result<(), Self::Error> {
        match self.take() {
            Directive::None | Directive::Written(_) => self.inner.put(keyspace, document).await.map_err(wrap),
            Directive::Fail => Err(FaultyError("put".into())),
            Directive::HangAfterWrite => {
                let _ = self.inner.put(keyspace, document).await;
                hang().await;
                Ok(())
            },
            Directive::Gate => {
                let r = self.inner.put(keyspace, document).await.map_err(wrap);
                self.reached.store(true, std::sync::atomic::Ordering::SeqCst);
                self.gate.notified().await;
                r
            },
        }
    }

    async fn multi_put(
        &self,
        keyspace: &str,
        documents: impl Iterator<Item = Document> + Send,
    ) -> Result<(), BulkMutationError<Self::Error>> {
        let docs: Vec<Document> = documents.collect();
        match self.take() {
            Directive::None | Directive::Gate => self
                .inner
                .multi_put(keyspace, docs.into_iter())
                .await
                .map_err(|e| BulkMutationError::empty_with_error(wrap(e.into_inner()))),
            Directive::Fail => Err(BulkMutationError::empty_with_error(FaultyError("multi_put".into()))),
            Directive::Written(idx) => {
                let done: Vec<Document> = docs.iter().enumerate().filter(|(i, _)| idx.contains(i)).map(|(_, d)| d.clone()).collect();
                let ids = done.iter().map(|d| d.id()).collect();
                let _ = self.inner.multi_put(keyspace, done.into_iter()).await;
                Err(BulkMutationError::new(FaultyError("multi_put partial".into()), ids))
            },
            Directive::HangAfterWrite => {
                let _ = self.inner.multi_put(keyspace, docs.into_iter()).await;
                hang().await;
                Ok(())
            },
        }
    }

    async fn mark_as_tombstone(&self, keyspace: &str, doc_id: Key, timestamp: HLCTimestamp) -> Result<(), Self::Error> {
        match self.take() {
            Directive::None | Directive::Written(_) | Directive::Gate => self.inner.mark_as_tombstone(keyspace, doc_id, timestamp).await.map_err(wrap),
            Directive::Fail => Err(FaultyError("mark_as_tombstone".into())),
            Directive::HangAfterWrite => {
                let _ = self.inner.mark_as_tombstone(keyspace, doc_id, timestamp).await;
                hang().await;
                Ok(())
            },
        }
    }

    async fn mark_many_as_tombstone(
        &self,
        keyspace: &str,
        documents: impl Iterator<Item = DocumentMetadata> + Send,
    ) -> Result<(), BulkMutationError<Self::Error>> {
        let docs: Vec<DocumentMetadata> = documents.collect();
        match self.take() {
            Directive::None | Directive::Gate => self
                .inner
                .mark_many_as_tombstone(keyspace, docs.into_iter())
                .await
                .map_err(|e| BulkMutationError::empty_with_error(wrap(e.into_inner()))),
            Directive::Fail => Err(BulkMutationError::empty_with_error(FaultyError("mark_many".into()))),
            Directive::Written(idx) => {
                let done: Vec<DocumentMetadata> = docs.iter().enumerate().filter(|(i, _)| idx.contains(i)).map(|(_, d)| *d).collect();
                let ids = done.iter().map(|d| d.id).collect();
                let _ = self.inner.mark_many_as_tombstone(keyspace, done.into_iter()).await;
                Err(BulkMutationError::new(FaultyError("mark_many partial".into()), ids))
            },
            Directive::HangAfterWrite => {
                let _ = self.inner.mark_many_as_tombstone(keyspace, docs.into_iter()).await;
                hang().await;
                Ok(())
            },
        }
    }

    async fn get(&self, keyspace: &str, doc_id: Key) -> Result<Option<Document>, Self::Error> {
        // a fetch of a single document is served by `get`
        if self.gate_fetch.swap(false, std::sync::atomic::Ordering::SeqCst) {
            self.reached.store(true, std::sync::atomic::Ordering::SeqCst);
            self.gate.notified().await;
        }
        if self.fail_read.swap(false, std::sync::atomic::Ordering::SeqCst) {
            return Err(FaultyError("read".into()));
        }
        self.inner.get(keyspace, doc_id).await.map_err(wrap)
    }

    async fn multi_get(&self, keyspace: &str, doc_ids: impl Iterator<Item = Key> + Send) -> Result<Self::DocsIter, Self::Error> {
        if self.gate_fetch.swap(false, std::sync::atomic::Ordering::SeqCst) {
            self.reached.store(true, std::sync::atomic::Ordering::SeqCst);
            self.gate.notified().await;
        }
        if self.fail_read.swap(false, std::sync::atomic::Ordering::SeqCst) {
            return Err(FaultyError("read".into()));
        }
        self.inner.multi_get(keyspace, doc_ids).await.map_err(wrap)
    }
}
