//! Domain `actor`: one node's KeyspaceGroup/KeyspaceActor over a fault-injecting store (C02, C07, C08 through the actor).
use std::marker::PhantomData;
use std::sync::Arc;
use std::time::Duration;

use datacake_crdt::{HLCTimestamp, OrSWotSet};
use datacake_eventual_consistency::test_utils::MemStore;
use datacake_eventual_consistency::verif::{
    Del, DocVec, KeyspaceGroup, MultiDel, MultiSet, PurgeDeletes, Serialize, Set, NUM_SOURCES,
};
use datacake_eventual_consistency::{Document, DocumentMetadata, Storage};
use datacake_node::Clock;
use datacake_lmdb::LmdbStorage;
use datacake_sqlite::SqliteStorage;

use crate::faulty::{Directive, FaultyStore};
use crate::group::decode_set;
use crate::rpc::runtime;
use crate::store::{gen_data, scratch_dir, show_data};
use crate::{p_u64, Domain};

const KS: &str = "ks";

pub enum Inner {
    Mem(Arc<MemStore>),
    Sqlite(Arc<SqliteStorage>),
    Lmdb(Arc<LmdbStorage>),
}

enum Group {
    Mem(KeyspaceGroup<FaultyStore<MemStore>>, Arc<parking_lot::Mutex<Directive>>),
    Sqlite(KeyspaceGroup<FaultyStore<SqliteStorage>>, Arc<parking_lot::Mutex<Directive>>),
    Lmdb(KeyspaceGroup<FaultyStore<LmdbStorage>>, Arc<parking_lot::Mutex<Directive>>),
}

pub struct ActorDomain {
    inner: Inner,
    group: Option<Group>,
    dir: std::path::PathBuf,
    /// the keyspace the following requests address (`ks <name>` switches; a node holds many)
    cur: String,
}

fn new_group(inner: &Inner) -> Group {
    runtime().block_on(async {
        let clock = Clock::new(1);
        let g = match inner {
            Inner::Mem(m) => {
                let fs = FaultyStore::new(m.clone());
                let d = fs.next.clone();
                Group::Mem(KeyspaceGroup::new(Arc::new(fs), clock).await, d)
            },
            Inner::Sqlite(s) => {
                let fs = FaultyStore::new(s.clone());
                let d = fs.next.clone();
                Group::Sqlite(KeyspaceGroup::new(Arc::new(fs), clock).await, d)
            },
            Inner::Lmdb(s) => {
                let fs = FaultyStore::new(s.clone());
                let d = fs.next.clone();
                Group::Lmdb(KeyspaceGroup::new(Arc::new(fs), clock).await, d)
            },
        };
        // `keyspace_purge_task` purges once immediately when it is first scheduled, then hourly; let that
        // first (empty) round pass so that it cannot land in the middle of an observation of this case.
        for _ in 0..5 {
            tokio::time::sleep(Duration::from_millis(5)).await;
        }
        g
    })
}

impl ActorDomain {
    pub fn new(params: &[&str]) -> Self {
        let kind = params.first().copied().unwrap_or("mem");
        let tag = params.get(1).copied().unwrap_or("x");
        let dir = scratch_dir(&format!("actor-{}", tag));
        let inner = match kind {
            "sqlite" => Inner::Sqlite(Arc::new(runtime().block_on(SqliteStorage::open(dir.join("db.sqlite"))).expect("sqlite"))),
            "lmdb" => {
                std::fs::create_dir_all(dir.join("lmdb")).unwrap();
                Inner::Lmdb(Arc::new(runtime().block_on(LmdbStorage::open(dir.join("lmdb"))).expect("lmdb")))
            },
            _ => Inner::Mem(Arc::new(MemStore::default())),
        };
        let group = Some(new_group(&inner));
        Self { inner, group, dir, cur: KS.to_string() }
    }
}

impl Drop for ActorDomain {
    fn drop(&mut self) {
        self.group = None;
        let _ = std::fs::remove_dir_all(&self.dir);
    }
}

/// trailing token: `fail`, `hang`, `w=1,2` / `w=-`, or absent
fn directive(t: &[&str]) -> Directive {
    match t.last().copied() {
        Some("fail") => Directive::Fail,
        Some("hang") => Directive::HangAfterWrite,
        Some(x) if x.starts_with("w=") => {
            let l = &x[2..];
            Directive::Written(if l == "-" { vec![] } else { l.split(',').map(|v| p_u64(v) as usize).collect() })
        },
        _ => Directive::None,
    }
}

fn parse_docs(s: &str) -> DocVec<Document> {
    if s == "-" {
        return DocVec::new();
    }
    s.split(',')
        .map(|p| {
            let mut it = p.splitn(3, ':');
            let id = p_u64(it.next().unwrap());
            let ts = HLCTimestamp::from_u64(p_u64(it.next().unwrap()));
            Document::new(id, ts, gen_data(it.next().unwrap()))
        })
        .collect()
}

fn parse_meta(s: &str) -> DocVec<DocumentMetadata> {
    if s == "-" {
        return DocVec::new();
    }
    s.split(',')
        .map(|p| {
            let (a, b) = p.split_once(':').unwrap();
            DocumentMetadata::new(p_u64(a), HLCTimestamp::from_u64(p_u64(b)))
        })
        .collect()
}

fn fmt_pairs(mut v: Vec<(u64, HLCTimestamp)>) -> String {
    if v.is_empty() {
        return "-".into();
    }
    v.sort_by_key(|p| (p.0, p.1));
    v.iter().map(|(k, t)| format!("{}:{}", k, t.as_u64())).collect::<Vec<_>>().join(",")
}

async fn with_timeout<T>(f: impl std::future::Future<Output = T>) -> Option<T> {
    tokio::time::timeout(Duration::from_millis(1000), f).await.ok()
}

async fn run_op<S: Storage>(
    group: &KeyspaceGroup<S>,
    next: &Arc<parking_lot::Mutex<Directive>>,
    t: &[&str],
    ksname: &str,
) -> String {
    let d = directive(t);
    let is_hang = d == Directive::HangAfterWrite;
    match t[0] {
        "set" => {
            *next.lock() = d;
            let ks = group.get_or_create_keyspace(ksname).await;
            let doc = Document::new(p_u64(t[2]), HLCTimestamp::from_u64(p_u64(t[3])), gen_data(t[4]));
            let r = with_timeout(ks.send(Set { source: p_u64(t[1]) as usize, doc, ctx: None, _marker: PhantomData::<S> })).await;
            *next.lock() = Directive::None;
            match r {
                None => if is_hang { "hung".into() } else { "timeout".into() },
                Some(Ok(())) => "ok".into(),
                Some(Err(_)) => "err".into(),
            }
        },
        "del" => {
            *next.lock() = d;
            let ks = group.get_or_create_keyspace(ksname).await;
            let doc = DocumentMetadata::new(p_u64(t[2]), HLCTimestamp::from_u64(p_u64(t[3])));
            let r = with_timeout(ks.send(Del { source: p_u64(t[1]) as usize, doc, _marker: PhantomData::<S> })).await;
            *next.lock() = Directive::None;
            match r {
                None => if is_hang { "hung".into() } else { "timeout".into() },
                Some(Ok(())) => "ok".into(),
                Some(Err(_)) => "err".into(),
            }
        },
        "mset" => {
            *next.lock() = d;
            let ks = group.get_or_create_keyspace(ksname).await;
            let r = with_timeout(ks.send(MultiSet { source: p_u64(t[1]) as usize, docs: parse_docs(t[2]), ctx: None, _marker: PhantomData::<S> })).await;
            *next.lock() = Directive::None;
            match r {
                None => if is_hang { "hung".into() } else { "timeout".into() },
                Some(Ok(())) => "ok".into(),
                Some(Err(e)) => {
                    let mut ids: Vec<u64> = e.successful_doc_ids().to_vec();
                    ids.sort();
                    format!("err {}", if ids.is_empty() { "-".to_string() } else { ids.iter().map(|x| x.to_string()).collect::<Vec<_>>().join(",") })
                },
            }
        },
        "mdel" => {
            *next.lock() = d;
            let ks = group.get_or_create_keyspace(ksname).await;
            let r = with_timeout(ks.send(MultiDel { source: p_u64(t[1]) as usize, docs: parse_meta(t[2]), _marker: PhantomData::<S> })).await;
            *next.lock() = Directive::None;
            match r {
                None => if is_hang { "hung".into() } else { "timeout".into() },
                Some(Ok(())) => "ok".into(),
                Some(Err(e)) => {
                    let mut ids: Vec<u64> = e.successful_doc_ids().to_vec();
                    ids.sort();
                    format!("err {}", if ids.is_empty() { "-".to_string() } else { ids.iter().map(|x| x.to_string()).collect::<Vec<_>>().join(",") })
                },
            }
        },
        "purge" => {
            *next.lock() = d;
            let ks = group.get_or_create_keyspace(ksname).await;
            let r = with_timeout(ks.send(PurgeDeletes(PhantomData::<S>))).await;
            *next.lock() = Directive::None;
            match r {
                None => if is_hang { "hung".into() } else { "timeout".into() },
                Some(Ok(())) => "ok".into(),
                Some(Err(_)) => "err".into(),
            }
        },
        "state" => {
            let ks = group.get_or_create_keyspace(ksname).await;
            let set = match with_timeout(ks.send(Serialize)).await {
                Some(Ok(bytes)) => {
                    let set = decode_set(&bytes);
                    let (c, dd) = OrSWotSet::<NUM_SOURCES>::default().diff(&set);
                    format!("E {} D {}", fmt_pairs(c), fmt_pairs(dd))
                },
                _ => "unavailable".to_string(),
            };
            let mut meta: Vec<(u64, u64, bool)> = group.storage().iter_metadata(ksname).await.expect("meta").map(|(k, ts, tb)| (k, ts.as_u64(), tb)).collect();
            meta.sort();
            let ms = if meta.is_empty() { "-".to_string() } else { meta.iter().map(|(k, ts, tb)| format!("{}:{}:{}", k, ts, if *tb { "t" } else { "f" })).collect::<Vec<_>>().join(",") };
            format!("set {} | store {}", set, ms)
        },
        "get" => match group.storage().get(ksname, p_u64(t[1])).await {
            Ok(Some(d)) => format!("doc {}:{}:{}", d.id(), d.last_updated().as_u64(), show_data(d.data())),
            Ok(None) => "none".into(),
            Err(_) => "err".into(),
        },
        "load" => match group.load_states_from_storage().await {
            Ok(()) => "ok".into(),
            Err(_) => "err".into(),
        },
        _ => "bad-op".into(),
    }
}

impl Domain for ActorDomain {
    fn op(&mut self, t: &[&str]) -> String {
        if t[0] == "ks" {
            self.cur = t[1].to_string();
            return "ok".into();
        }
        if t[0] == "restart" {
            // the node stops (its group and actors are abandoned) and starts again on the same storage
            self.group = None;
            let g = new_group(&self.inner);
            let r = match &g {
                Group::Mem(g, _) => runtime().block_on(g.load_states_from_storage()).map_err(|e| e.to_string()),
                Group::Sqlite(g, _) => runtime().block_on(g.load_states_from_storage()).map_err(|e| e.to_string()),
                Group::Lmdb(g, _) => runtime().block_on(g.load_states_from_storage()).map_err(|e| e.to_string()),
            };
            self.group = Some(g);
            return if r.is_ok() { "ok".into() } else { "err".into() };
        }
        match self.group.as_ref().expect("group") {
            Group::Mem(g, n) => runtime().block_on(run_op(g, n, t, &self.cur)),
            Group::Sqlite(g, n) => runtime().block_on(run_op(g, n, t, &self.cur)),
            Group::Lmdb(g, n) => runtime().block_on(run_op(g, n, t, &self.cur)),
        }
    }
}
