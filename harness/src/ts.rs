//! Domain `ts`: HLCTimestamp (C09, C10).
use std::str::FromStr;
use std::time::Duration;

use datacake_crdt::{verif_clock, HLCTimestamp, TimestampError};

use crate::{hex, p_u64, unhex, Domain};

pub struct TsDomain {
    clock: HLCTimestamp,
}

impl TsDomain {
    pub fn new(_params: &[&str]) -> Self {
        Self { clock: HLCTimestamp::from_u64(0) }
    }
}

fn err_name(e: &TimestampError) -> &'static str {
    match e {
        TimestampError::DuplicatedNode(_) => "err:dup",
        TimestampError::ClockDrift => "err:drift",
        TimestampError::Overflow => "err:overflow",
    }
}

impl Domain for TsDomain {
    fn op(&mut self, t: &[&str]) -> String {
        match t[0] {
            // stateful clock (C09)
            "init" => {
                self.clock = HLCTimestamp::from_u64(p_u64(t[1]));
                format!("ok clock={}", self.clock.as_u64())
            },
            "send" => {
                verif_clock::set_wall_ms(Some(p_u64(t[1])));
                let r = std::panic::catch_unwind(std::panic::AssertUnwindSafe(|| self.clock.send()));
                verif_clock::set_wall_ms(None);
                match r {
                    Ok(Ok(ts)) => format!("ok {} clock={}", ts.as_u64(), self.clock.as_u64()),
                    Ok(Err(e)) => format!("{} clock={}", err_name(&e), self.clock.as_u64()),
                    Err(_) => format!("panic clock={}", self.clock.as_u64()),
                }
            },
            "send-unix" => {
                // send-unix <ms since the UNIX epoch>: the SYSTEM clock reading is injected (before the conversion to the datacake
                // epoch): readings before 2023-01-01, which the `wall` hook cannot express
                verif_clock::set_unix_ms(Some(p_u64(t[1])));
                let r = std::panic::catch_unwind(std::panic::AssertUnwindSafe(|| self.clock.send()));
                verif_clock::set_unix_ms(None);
                match r {
                    Ok(Ok(ts)) => format!("ok {} clock={}", ts.as_u64(), self.clock.as_u64()),
                    Ok(Err(e)) => format!("{} clock={}", err_name(&e), self.clock.as_u64()),
                    Err(_) => format!("panic clock={}", self.clock.as_u64()),
                }
            },
            "recv" => {
                verif_clock::set_wall_ms(Some(p_u64(t[1])));
                let msg = HLCTimestamp::from_u64(p_u64(t[2]));
                let r = std::panic::catch_unwind(std::panic::AssertUnwindSafe(|| self.clock.recv(&msg)));
                verif_clock::set_wall_ms(None);
                match r {
                    Ok(Ok(ts)) => format!("ok {} clock={}", ts.as_u64(), self.clock.as_u64()),
                    Ok(Err(e)) => format!("{} clock={}", err_name(&e), self.clock.as_u64()),
                    Err(_) => format!("panic clock={}", self.clock.as_u64()),
                }
            },
            // pure functions (C10)
            "fields" => {
                let ts = HLCTimestamp::from_u64(p_u64(t[1]));
                format!(
                    "{} {} {} {} {}",
                    ts.seconds(),
                    ts.fractional(),
                    ts.counter(),
                    ts.node(),
                    ts.datacake_timestamp().as_millis()
                )
            },
            "new" => {
                // new <ms> <ctr> <node>
                let ts = HLCTimestamp::new(
                    Duration::from_millis(p_u64(t[1])),
                    p_u64(t[2]) as u16,
                    p_u64(t[3]) as u8,
                );
                format!("ok {}", ts.as_u64())
            },
            "display" => {
                let ts = HLCTimestamp::from_u64(p_u64(t[1]));
                hex(ts.to_string().as_bytes())
            },
            "parse" => {
                let bytes = unhex(t[1]);
                let s = String::from_utf8(bytes).expect("utf8");
                match HLCTimestamp::from_str(&s) {
                    Ok(ts) => format!("ok {}", ts.as_u64()),
                    Err(_) => "invalid".to_string(),
                }
            },
            "rt" => {
                let ts = HLCTimestamp::from_u64(p_u64(t[1]));
                match HLCTimestamp::from_str(&ts.to_string()) {
                    Ok(ts) => format!("ok {}", ts.as_u64()),
                    Err(_) => "invalid".to_string(),
                }
            },
            "newf" => {
                // newf <secs> <frac> <ctr> <node>: new(parts_as_duration(secs, frac), ctr, node)
                let d = Duration::from_secs(p_u64(t[1])) + Duration::from_millis(p_u64(t[2]) * 4);
                let ts = HLCTimestamp::new(d, p_u64(t[3]) as u16, p_u64(t[4]) as u8);
                format!(
                    "{} {} {} {} {}",
                    ts.seconds(),
                    ts.fractional(),
                    ts.counter(),
                    ts.node(),
                    ts.as_u64()
                )
            },
            "cmp" => {
                let a = HLCTimestamp::from_u64(p_u64(t[1]));
                let b = HLCTimestamp::from_u64(p_u64(t[2]));
                match a.cmp(&b) {
                    std::cmp::Ordering::Less => "lt",
                    std::cmp::Ordering::Equal => "eq",
                    std::cmp::Ordering::Greater => "gt",
                }
                .to_string()
            },
            "archive" => {
                let ts = HLCTimestamp::from_u64(p_u64(t[1]));
                let bytes = rkyv::to_bytes::<_, 64>(&ts).expect("serialize");
                let archived = unsafe { rkyv::archived_root::<HLCTimestamp>(&bytes) };
                format!("{} {}", hex(&bytes), archived.cast().as_u64())
            },
            _ => "bad-op".to_string(),
        }
    }
}
