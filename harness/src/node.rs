//! Domain `node`: node selector (C15), membership watcher (C16), node clock (C11).
use std::borrow::Cow;
use std::collections::BTreeMap;
use std::net::SocketAddr;
use std::time::Duration;

use datacake_crdt::{verif_clock, HLCTimestamp};
use datacake_node::verif::{self, NodeMembership, NodeSelectorHandle};
use datacake_node::{Clock, ClusterMember, Consistency, ConsistencyError, DCAwareSelector, MembershipChanges, Nodes};
use futures::StreamExt;
use tokio::sync::watch;
use tokio_stream::wrappers::WatchStream;

use crate::rpc::runtime;
use crate::{p_u64, Domain};

fn addr(a: u64) -> SocketAddr {
    format!("10.0.{}.{}:5000", a / 256, a % 256).parse().unwrap()
}

fn addr_num(a: &SocketAddr) -> u64 {
    match a.ip() {
        std::net::IpAddr::V4(v4) => {
            let o = v4.octets();
            (o[2] as u64) * 256 + o[3] as u64
        },
        _ => 0,
    }
}

fn dc_name(d: u64) -> String {
    format!("dc-{}", d)
}

fn level(s: &str) -> Consistency {
    match s {
        "none" => Consistency::None,
        "one" => Consistency::One,
        "two" => Consistency::Two,
        "three" => Consistency::Three,
        "quorum" => Consistency::Quorum,
        "localquorum" => Consistency::LocalQuorum,
        "all" => Consistency::All,
        "eachquorum" => Consistency::EachQuorum,
        _ => panic!("level"),
    }
}

/// `dc:addr,addr;dc:addr` or `-`
fn parse_layout(s: &str) -> BTreeMap<Cow<'static, str>, Nodes> {
    let mut m = BTreeMap::new();
    if s == "-" {
        return m;
    }
    for part in s.split(';') {
        let (d, ns) = part.split_once(':').expect("layout");
        let nodes: Nodes = if ns.is_empty() { Nodes::new() } else { ns.split(',').map(|a| addr(p_u64(a))).collect() };
        m.insert(Cow::Owned(dc_name(p_u64(d))), nodes);
    }
    m
}

/// `id:addr[@dc],id:addr[@dc]` or `-` (the data centre of a member is irrelevant for the deltas, it matters for the selector the
/// watcher feeds; dc-0 when not given)
fn parse_snapshot(s: &str) -> NodeMembership {
    let mut m = NodeMembership::new();
    if s == "-" {
        return m;
    }
    for part in s.split(',') {
        let (part, dc) = match part.split_once('@') {
            Some((p, d)) => (p, p_u64(d)),
            None => (part, 0),
        };
        let (id, a) = part.split_once(':').expect("member");
        let id = p_u64(id) as u8;
        m.insert(id, ClusterMember::new(id, addr(p_u64(a)), dc_name(dc)));
    }
    m
}

fn fmt_members(ms: &[ClusterMember]) -> String {
    if ms.is_empty() {
        return "-".to_string();
    }
    ms.iter().map(|m| format!("{}:{}", m.node_id, addr_num(&m.public_addr))).collect::<Vec<_>>().join(",")
}

struct Subscriber {
    stream: MembershipChanges,
    live: BTreeMap<u8, SocketAddr>,
}

pub struct NodeDomain {
    selector: Option<NodeSelectorHandle>,
    members_tx: Option<watch::Sender<NodeMembership>>,
    changes_rx: Option<watch::Receiver<NodeMembership>>,
    probe: Option<watch::Receiver<NodeMembership>>,
    self_id: u8,
    subs: Vec<Subscriber>,
    clock: Option<Clock>,
}

impl NodeDomain {
    pub fn new(_params: &[&str]) -> Self {
        Self { selector: None, members_tx: None, changes_rx: None, probe: None, self_id: 0, subs: Vec::new(), clock: None }
    }
}

impl Domain for NodeDomain {
    fn op(&mut self, t: &[&str]) -> String {
        match t[0] {
            // ------------------------------------------------ selector (C15)
            "sel-init" => {
                let (local, dc) = (addr(p_u64(t[1])), dc_name(p_u64(t[2])));
                let h = runtime().block_on(verif::start_node_selector(local, Cow::Owned(dc), DCAwareSelector::default()));
                self.selector = Some(h);
                verif::take_chosen_dcs();
                "ok".to_string()
            },
            "sel-set" => {
                let layout = parse_layout(t[1]);
                let h = self.selector.as_ref().expect("selector");
                runtime().block_on(verif::set_nodes(h, layout));
                "ok".to_string()
            },
            "sel-get" => {
                let h = self.selector.as_ref().expect("selector").clone();
                verif::take_chosen_dcs();
                let res = runtime().block_on(async move {
                    tokio::time::timeout(Duration::from_secs(5), h.get_nodes(level(t[1]))).await
                });
                let chosen = verif::take_chosen_dcs();
                let choice = match chosen.last() {
                    Some(c) if !c.is_empty() => c.iter().map(|d| d.trim_start_matches("dc-").to_string()).collect::<Vec<_>>().join(","),
                    _ => "-".to_string(),
                };
                match res {
                    Err(_) => "timeout".to_string(),
                    Ok(Ok(nodes)) => {
                        let l = if nodes.is_empty() { "-".to_string() } else { nodes.iter().map(|a| addr_num(a).to_string()).collect::<Vec<_>>().join(",") };
                        format!("ok {} choice={}", l, choice)
                    },
                    Ok(Err(ConsistencyError::NotEnoughNodes { live, required })) => format!("notenough {} {} choice={}", live, required, choice),
                    Ok(Err(e)) => format!("err {:?}", e),
                }
            },
            "sel-expire" => {
                std::thread::sleep(Duration::from_millis(2100));
                "ok".to_string()
            },
            // ------------------------------------------------ membership (C16)
            "mem-init" => {
                let self_id = p_u64(t[1]) as u8;
                let (mtx, mrx) = watch::channel(NodeMembership::new());
                let (ctx, crx) = watch::channel(NodeMembership::new());
                // mem-init <self id> [<self addr> <self dc>]: the selector the watcher feeds is the one `sel-get` asks (C15/C06: the
                // wiring membership -> selector); the local node is at address 100 in dc-0 unless said otherwise
                let local = addr(t.get(2).map(|x| p_u64(x)).unwrap_or(100));
                let local_dc = dc_name(t.get(3).map(|x| p_u64(x)).unwrap_or(0));
                let sel = runtime().block_on(verif::start_node_selector(local, Cow::Owned(local_dc), DCAwareSelector::default()));
                self.selector = Some(sel.clone());
                verif::take_chosen_dcs();
                let mut probe = crx.clone();
                runtime().spawn(verif::run_membership_watcher(self_id, sel, WatchStream::new(mrx), ctx));
                // the watcher first processes the initial (empty) snapshot
                runtime().block_on(async { let _ = tokio::time::timeout(Duration::from_secs(5), probe.changed()).await; });
                self.members_tx = Some(mtx);
                self.changes_rx = Some(crx);
                self.probe = Some(probe);
                self.self_id = self_id;
                self.subs.clear();
                "ok".to_string()
            },
            "mem-snap" => {
                let snap = parse_snapshot(t[1]);
                self.members_tx.as_ref().expect("init").send(snap).expect("watcher alive");
                let probe = self.probe.as_mut().unwrap();
                let ok = runtime().block_on(async { tokio::time::timeout(Duration::from_secs(5), probe.changed()).await });
                match ok {
                    Ok(Ok(())) => {
                        // what the node's watcher published for its subscribers: the membership it has just processed
                        let d = probe.borrow_and_update().clone();
                        format!("published {}", fmt_members(&d.values().cloned().collect::<Vec<_>>()))
                    },
                    _ => "timeout".to_string(),
                }
            },
            "mem-sub" => {
                let rx = self.changes_rx.as_ref().expect("init").clone();
                self.subs.push(Subscriber { stream: verif::membership_changes(self.self_id, rx), live: BTreeMap::new() });
                format!("sub {}", self.subs.len() - 1)
            },
            "mem-read" => {
                let s = &mut self.subs[p_u64(t[1]) as usize];
                let mut seen = Vec::new();
                // give the stream's internal future a chance, then drain what is ready
                runtime().block_on(async {
                    loop {
                        match tokio::time::timeout(Duration::from_millis(20), s.stream.next()).await {
                            Ok(Some(d)) => {
                                for m in d.left.iter() {
                                    s.live.remove(&m.node_id);
                                }
                                for m in d.joined.iter() {
                                    s.live.insert(m.node_id, m.public_addr);
                                }
                                seen.push(format!("[+{} -{}]", fmt_members(&d.joined), fmt_members(&d.left)));
                            },
                            _ => break,
                        }
                    }
                });
                if seen.is_empty() { "read -".to_string() } else { format!("read {}", seen.join("")) }
            },
            "mem-live" => {
                let s = &self.subs[p_u64(t[1]) as usize];
                if s.live.is_empty() {
                    "live -".to_string()
                } else {
                    format!("live {}", s.live.iter().map(|(id, a)| format!("{}:{}", id, addr_num(a))).collect::<Vec<_>>().join(","))
                }
            },
            // ------------------------------------------------ real nodes (C15/C06: the wiring around the selector)
            "realnodes" => {
                // realnodes <n> <mode>: n real DatacakeNodes (chitchat membership over loopback, DCAwareSelector). mode 1: every node
                // listens on 0.0.0.0:<port> and advertises 127.0.0.1:<port> (the usual production layout); mode 0: both the same.
                // Every node then asks its own selector for every level, three times: a selection must never contain the node's own
                // public address, a duplicate or a non-member, and One/Two/Three have exactly that many nodes.
                use datacake_node::{ConnectionConfig, DatacakeNodeBuilder};
                let n = p_u64(t[1]) as usize;
                let mode = p_u64(t[2]);
                let res: Result<Vec<String>, String> = runtime().block_on(async move {
                    let publics: Vec<SocketAddr> = (0..n).map(|_| crate::rpc::free_addr()).collect();
                    let mut nodes = Vec::new();
                    for (i, p) in publics.iter().enumerate() {
                        let listen: SocketAddr = if mode == 1 { ([0, 0, 0, 0], p.port()).into() } else { *p };
                        let seeds = publics.iter().filter(|a| *a != p).map(|a| a.to_string()).collect::<Vec<_>>();
                        let cfg = ConnectionConfig::new(listen, *p, seeds);
                        let node = DatacakeNodeBuilder::<DCAwareSelector>::new((i + 1) as u8, cfg).connect().await.map_err(|e| e.to_string())?;
                        nodes.push(node);
                    }
                    for (i, node) in nodes.iter().enumerate() {
                        let peers = (1..=n as u8).filter(|id| *id != (i + 1) as u8).collect::<Vec<_>>();
                        node.wait_for_nodes(&peers, Duration::from_secs(20)).await.map_err(|e| e.to_string())?;
                    }
                    tokio::time::sleep(Duration::from_millis(600)).await;
                    let mut bad = Vec::new();
                    for (i, node) in nodes.iter().enumerate() {
                        for lvl in [Consistency::One, Consistency::Two, Consistency::Three, Consistency::Quorum, Consistency::LocalQuorum, Consistency::All, Consistency::EachQuorum] {
                            for _ in 0..3 {
                                match node.select_nodes(lvl).await {
                                    Ok(sel) => {
                                        let v: Vec<SocketAddr> = sel.iter().copied().collect();
                                        if v.contains(&publics[i]) {
                                            bad.push(format!("node{}:{:?}:own-address-selected", i + 1, lvl));
                                        }
                                        let mut d = v.clone();
                                        d.sort();
                                        d.dedup();
                                        if d.len() != v.len() {
                                            bad.push(format!("node{}:{:?}:duplicate", i + 1, lvl));
                                        }
                                        if v.iter().any(|a| !publics.contains(a)) {
                                            bad.push(format!("node{}:{:?}:non-member", i + 1, lvl));
                                        }
                                        let want = match lvl { Consistency::One => Some(1), Consistency::Two => Some(2), Consistency::Three => Some(3), _ => None };
                                        if let Some(w) = want {
                                            if v.len() != w {
                                                bad.push(format!("node{}:{:?}:{}-nodes", i + 1, lvl, v.len()));
                                            }
                                        }
                                        // all nodes are in one data centre: a majority counting the issuer means n/2 OTHER nodes
                                        let least = match lvl {
                                            Consistency::Quorum | Consistency::LocalQuorum | Consistency::EachQuorum => n / 2,
                                            Consistency::All => n - 1,
                                            _ => 0,
                                        };
                                        if v.len() < least {
                                            bad.push(format!("node{}:{:?}:{}-nodes-of-{}-required", i + 1, lvl, v.len(), least));
                                        }
                                    },
                                    Err(ConsistencyError::NotEnoughNodes { .. }) => {
                                        let want = match lvl { Consistency::One => 1, Consistency::Two => 2, Consistency::Three => 3, _ => 0 };
                                        if want > 0 && n - 1 >= want {
                                            bad.push(format!("node{}:{:?}:not-enough-with-{}-peers", i + 1, lvl, n - 1));
                                        }
                                    },
                                    Err(e) => bad.push(format!("node{}:{:?}:{}", i + 1, lvl, e.to_string().split_whitespace().next().unwrap_or("err"))),
                                }
                            }
                        }
                    }
                    for node in nodes {
                        node.shutdown().await;
                    }
                    bad.sort();
                    bad.dedup();
                    Ok(bad)
                });
                match res {
                    Ok(bad) if bad.is_empty() => "real ok".to_string(),
                    Ok(bad) => format!("real BAD {}", bad.join(",")),
                    Err(e) => format!("real start-failed {}", e.split_whitespace().take(4).collect::<Vec<_>>().join("_")),
                }
            },
            "realclock" => {
                // realclock <n>: n real nodes; a stamp 60 s ahead is registered with node 1's clock; gossip carries node 1's stamps to the
                // others, whose clocks (the ones `DatacakeNode::clock()` hands to the store) must get past it within a few seconds: the
                // node has ONE clock, shared by the gossip transport and the users
                use datacake_node::{ConnectionConfig, DatacakeNodeBuilder};
                let n = p_u64(t[1]) as usize;
                let res: Result<Vec<String>, String> = runtime().block_on(async move {
                    let publics: Vec<SocketAddr> = (0..n).map(|_| crate::rpc::free_addr()).collect();
                    let mut nodes = Vec::new();
                    for (i, p) in publics.iter().enumerate() {
                        let seeds = publics.iter().filter(|a| *a != p).map(|a| a.to_string()).collect::<Vec<_>>();
                        let cfg = ConnectionConfig::new(*p, *p, seeds);
                        let node = DatacakeNodeBuilder::<DCAwareSelector>::new((i + 1) as u8, cfg).connect().await.map_err(|e| e.to_string())?;
                        nodes.push(node);
                    }
                    for (i, node) in nodes.iter().enumerate() {
                        let peers = (1..=n as u8).filter(|id| *id != (i + 1) as u8).collect::<Vec<_>>();
                        node.wait_for_nodes(&peers, Duration::from_secs(20)).await.map_err(|e| e.to_string())?;
                    }
                    let now = nodes[0].clock().get_time().await;
                    let far = HLCTimestamp::new(now.datacake_timestamp() + Duration::from_secs(60), 0, 250);
                    nodes[0].clock().register_ts(far).await;
                    let mut behind: Vec<String> = Vec::new();
                    for _ in 0..80 {
                        behind.clear();
                        for (j, node) in nodes.iter().enumerate() {
                            if node.clock().get_time().await <= far {
                                behind.push(format!("node{}", j + 1));
                            }
                        }
                        if behind.is_empty() {
                            break;
                        }
                        tokio::time::sleep(Duration::from_millis(100)).await;
                    }
                    // phase 2: every clock's logical time is now pinned at the registered stamp's (the wall clocks are a minute behind), so
                    // stamps only differ in their COUNTER.  Node 1 issues a few thousand stamps; its gossip carries them; the others
                    // must get past the last one too (a remote stamp with the receiver's own time part and a higher counter).
                    if behind.is_empty() {
                        let mut s0 = far;
                        for _ in 0..3000 {
                            s0 = nodes[0].clock().get_time().await;
                        }
                        for _ in 0..80 {
                            behind.clear();
                            for (j, node) in nodes.iter().enumerate().skip(1) {
                                if node.clock().get_time().await <= s0 {
                                    behind.push(format!("node{}-counter", j + 1));
                                }
                            }
                            if behind.is_empty() {
                                break;
                            }
                            tokio::time::sleep(Duration::from_millis(100)).await;
                        }
                    }
                    for node in nodes {
                        node.shutdown().await;
                    }
                    Ok(behind)
                });
                match res {
                    Ok(b) if b.is_empty() => "realclock ok".to_string(),
                    Ok(b) => format!("realclock BAD never-passed-the-registered-stamp:{}", b.join(",")),
                    Err(e) => format!("realclock start-failed {}", e.split_whitespace().take(4).collect::<Vec<_>>().join("_")),
                }
            },
            // ------------------------------------------------ clock (C11)
            "clk-init" => {
                // clk-init <node> <wall>
                verif_clock::set_wall_ms(Some(p_u64(t[2])));
                let node = p_u64(t[1]) as u8;
                let clock = runtime().block_on(async move { Clock::new(node) });
                verif::take_clock_log();
                self.clock = Some(clock);
                format!("ok {}", HLCTimestamp::now(0, node).as_u64())
            },
            "clk-phase" => {
                // clk-phase <wall> <tasks> <calls> <seed>: `tasks` tasks each make `calls` calls (get_time or
                // register_ts of a pseudo-random remote stamp near the wall), concurrently, with the wall fixed.
                let (wall, tasks, calls, seed) = (p_u64(t[1]), p_u64(t[2]), p_u64(t[3]), p_u64(t[4]));
                // mode 0: remote stamps at most 1 s ahead of the wall (or far beyond the drift: refused);
                // mode 1: also exactly at / just below the drift boundary (then the wall must not go backwards)
                let mode = t.get(5).map(|s| p_u64(s)).unwrap_or(0);
                verif_clock::set_wall_ms(Some(wall));
                let clock = self.clock.as_ref().expect("clock").clone();
                let results: Vec<Vec<(u64, u64)>> = runtime().block_on(async move {
                    let mut handles = Vec::new();
                    for task in 0..tasks {
                        let clock = clock.clone();
                        handles.push(tokio::spawn(async move {
                            let mut s = seed.wrapping_add(task.wrapping_mul(0x9E3779B97F4A7C15));
                            let mut out = Vec::new();
                            for _ in 0..calls {
                                s = s.wrapping_mul(6364136223846793005).wrapping_add(1442695040888963407);
                                let r = s >> 33;
                                if r % 4 == 0 {
                                    let off = if mode == 1 {
                                        [0u64, 4, 1000, 4_099_000, 4_100_000, 4_100_004, 10_000_000][(r / 4 % 7) as usize]
                                    } else {
                                        [0u64, 4, 1000, 400, 8, 4_100_004, 10_000_000][(r / 4 % 7) as usize]
                                    };
                                    let back = (r / 64) % 3 == 0;
                                    let ms = if back { wall.saturating_sub(off) } else { wall + off };
                                    let ts = HLCTimestamp::new(Duration::from_millis(ms), (r / 512 % 5) as u16, (200 + r % 3) as u8);
                                    clock.register_ts(ts).await;
                                    out.push((1, ts.as_u64()));
                                    if r % 8 == 0 {
                                        tokio::task::yield_now().await;
                                    }
                                } else {
                                    let ts = clock.get_time().await;
                                    out.push((0, ts.as_u64()));
                                }
                            }
                            out
                        }));
                    }
                    let mut all = Vec::new();
                    for h in handles {
                        all.push(h.await.expect("task"));
                    }
                    // let queued Register events drain
                    let _ = clock.get_time().await;
                    all
                });
                let log = verif::take_clock_log();
                let tasks_s = results
                    .iter()
                    .map(|v| v.iter().map(|(k, x)| format!("{}{}", if *k == 0 { "g" } else { "r" }, x)).collect::<Vec<_>>().join(","))
                    .collect::<Vec<_>>()
                    .join(";");
                let log_s = log.iter().map(|(k, inp, after, _)| format!("{}:{}:{}", k, inp, after)).collect::<Vec<_>>().join(",");
                format!("phase tasks={} log={}", tasks_s, log_s)
            },
            "clk-burst" => {
                // clk-burst <node> <wall> <n> <off>: on a current-thread runtime a FRESH clock gets n get_time requests that
                // are only enqueued (each future polled once, the actor cannot run in between), then one caller registers a
                // remote stamp `off` ms ahead of the wall and asks for the time.  Same output format as clk-phase.
                let (node, wall, n, off) = (p_u64(t[1]) as u8, p_u64(t[2]), p_u64(t[3]) as usize, p_u64(t[4]));
                verif_clock::set_wall_ms(Some(wall));
                verif::take_clock_log();
                let rt2 = tokio::runtime::Builder::new_current_thread().enable_all().build().expect("rt");
                let (reg, got, others) = rt2.block_on(async move {
                    let clock = Clock::new(node);
                    let mut pending = futures::stream::FuturesUnordered::new();
                    for _ in 0..n {
                        let c = clock.clone();
                        pending.push(Box::pin(async move { c.get_time().await }));
                    }
                    // poll every request once: each one enqueues its event and parks
                    let _ = futures::poll!(futures::StreamExt::next(&mut pending));
                    let ts = HLCTimestamp::new(Duration::from_millis(wall + off), 3, 201);
                    clock.register_ts(ts).await;
                    let got = clock.get_time().await;
                    let mut others = Vec::new();
                    while let Some(x) = futures::StreamExt::next(&mut pending).await {
                        others.push(x.as_u64());
                    }
                    (ts.as_u64(), got.as_u64(), others)
                });
                let log = verif::take_clock_log();
                let tasks_s = std::iter::once(format!("r{},g{}", reg, got))
                    .chain(others.iter().map(|x| format!("g{}", x)))
                    .collect::<Vec<_>>()
                    .join(";");
                let log_s = log.iter().map(|(k, inp, after, _)| format!("{}:{}:{}", k, inp, after)).collect::<Vec<_>>().join(",");
                format!("phase tasks={} log={}", tasks_s, log_s)
            },
            "clk-high" => {
                // clk-high <wall> <ctr> <off> <gets>: one caller registers a remote stamp `off` ms ahead of the wall whose COUNTER is
                // `ctr` (near u16::MAX: the actor's back-pressure region), then asks for the time `gets` times.  Same output format
                // as clk-phase.
                let (wall, ctr, off, gets) = (p_u64(t[1]), p_u64(t[2]) as u16, p_u64(t[3]), p_u64(t[4]));
                verif_clock::set_wall_ms(Some(wall));
                let clock = self.clock.as_ref().expect("clock").clone();
                let out: Vec<(u64, u64)> = runtime().block_on(async move {
                    let mut out = Vec::new();
                    let ts = HLCTimestamp::new(Duration::from_millis(wall + off), ctr, 201);
                    clock.register_ts(ts).await;
                    out.push((1, ts.as_u64()));
                    for _ in 0..gets {
                        out.push((0, clock.get_time().await.as_u64()));
                    }
                    out
                });
                let log = verif::take_clock_log();
                let tasks_s = out.iter().map(|(k, x)| format!("{}{}", if *k == 0 { "g" } else { "r" }, x)).collect::<Vec<_>>().join(",");
                let log_s = log.iter().map(|(k, inp, after, _)| format!("{}:{}:{}", k, inp, after)).collect::<Vec<_>>().join(",");
                format!("phase tasks={} log={}", tasks_s, log_s)
            },
            "clk-done" => {
                verif_clock::set_wall_ms(None);
                "ok".to_string()
            },
            _ => "bad-op".to_string(),
        }
    }
}
