//! dcsim: datacake-rpc over a simulated network (turmoil) with scheduled faults (C14).
//!
//! Every `run` line executes one simulation and prints the observed event trace:
//!   S:<id>:<t>           client sends request <id> at simulated ms <t>
//!   B:<id>:<t>           handler begins for <id>
//!   E:<id>:<t>           handler ends for <id> (reply = id * 7 + 3)
//!   D:<id>:<outcome>:<t> client call returned: r<value> | conn | timeout | invalid | other
use std::io::{self, BufRead, Write};
use std::net::{IpAddr, Ipv4Addr, SocketAddr};
use std::sync::{Arc, Mutex};
use std::time::Duration;

use datacake_rpc::{Channel, ErrorCode, Handler, Request, RpcClient, RpcService, Server, ServiceRegistry, Status};
use rkyv::{Archive, Deserialize, Serialize};
use turmoil::{lookup, Builder};

const PORT: u16 = 9999;

#[repr(C)]
#[derive(Serialize, Deserialize, Archive, PartialEq, Debug)]
#[archive(check_bytes)]
pub struct Ask {
    id: u64,
    delay_ms: u64,
}

/// A request whose reply is `size` bytes, each `id as u8`: larger than the initial HTTP/2 window it needs several flights,
/// so that a fault can strike between the response head and the end of the body.
#[repr(C)]
#[derive(Serialize, Deserialize, Archive, PartialEq, Debug)]
#[archive(check_bytes)]
pub struct Fetch {
    id: u64,
    size: u32,
}

/// A request the handler REFUSES with a status whose message is `size` bytes (`'e'` each): an error answer that needs several
/// flights, so that a fault can strike between the response head (400) and the end of the status.
#[repr(C)]
#[derive(Serialize, Deserialize, Archive, PartialEq, Debug)]
#[archive(check_bytes)]
pub struct Refuse {
    id: u64,
    size: u32,
}

/// A long poll: the handler answers once the gate has been opened (by an `Open` request).
#[repr(C)]
#[derive(Serialize, Deserialize, Archive, PartialEq, Debug)]
#[archive(check_bytes)]
pub struct Wait {
    id: u64,
}

/// Opens the gate: every pending and every later `Wait` is answered.
#[repr(C)]
#[derive(Serialize, Deserialize, Archive, PartialEq, Debug)]
#[archive(check_bytes)]
pub struct Open {
    id: u64,
}

type Log = Arc<Mutex<Vec<String>>>;

pub struct Svc {
    log: Log,
    epoch: tokio::time::Instant,
    gate: tokio::sync::watch::Sender<bool>,
}

impl Svc {
    fn new(log: Log) -> Self {
        Self { log, epoch: tokio::time::Instant::now(), gate: tokio::sync::watch::channel(false).0 }
    }
}

impl RpcService for Svc {
    fn register_handlers(registry: &mut ServiceRegistry<Self>) {
        registry.add_handler::<Ask>();
        registry.add_handler::<Fetch>();
        registry.add_handler::<Refuse>();
        registry.add_handler::<Wait>();
        registry.add_handler::<Open>();
    }
}

#[datacake_rpc::async_trait]
impl Handler<Ask> for Svc {
    type Reply = u64;

    async fn on_message(&self, msg: Request<Ask>) -> Result<Self::Reply, Status> {
        let ask: Ask = msg.deserialize_view().map_err(Status::internal)?;
        self.log.lock().unwrap().push(format!("B:{}:{}", ask.id, self.epoch.elapsed().as_millis()));
        if ask.delay_ms > 0 {
            tokio::time::sleep(Duration::from_millis(ask.delay_ms)).await;
        }
        self.log.lock().unwrap().push(format!("E:{}:{}", ask.id, self.epoch.elapsed().as_millis()));
        Ok(ask.id * 7 + 3)
    }
}

#[datacake_rpc::async_trait]
impl Handler<Fetch> for Svc {
    type Reply = Vec<u8>;

    async fn on_message(&self, msg: Request<Fetch>) -> Result<Self::Reply, Status> {
        let (id, size): (u64, u32) = (msg.id.into(), msg.size.into());
        self.log.lock().unwrap().push(format!("B:{}:{}", id, self.epoch.elapsed().as_millis()));
        self.log.lock().unwrap().push(format!("E:{}:{}", id, self.epoch.elapsed().as_millis()));
        Ok(vec![id as u8; size as usize])
    }
}

#[datacake_rpc::async_trait]
impl Handler<Refuse> for Svc {
    type Reply = u64;

    async fn on_message(&self, msg: Request<Refuse>) -> Result<Self::Reply, Status> {
        let (id, size): (u64, u32) = (msg.id.into(), msg.size.into());
        self.log.lock().unwrap().push(format!("B:{}:{}", id, self.epoch.elapsed().as_millis()));
        self.log.lock().unwrap().push(format!("E:{}:{}", id, self.epoch.elapsed().as_millis()));
        Err(Status::internal("e".repeat(size as usize)))
    }
}

#[datacake_rpc::async_trait]
impl Handler<Wait> for Svc {
    type Reply = u64;

    async fn on_message(&self, msg: Request<Wait>) -> Result<Self::Reply, Status> {
        let id: u64 = msg.id.into();
        self.log.lock().unwrap().push(format!("B:{}:{}", id, self.epoch.elapsed().as_millis()));
        let mut rx = self.gate.subscribe();
        while !*rx.borrow_and_update() {
            if rx.changed().await.is_err() { break; }
        }
        self.log.lock().unwrap().push(format!("E:{}:{}", id, self.epoch.elapsed().as_millis()));
        Ok(id * 7 + 3)
    }
}

#[datacake_rpc::async_trait]
impl Handler<Open> for Svc {
    type Reply = u64;

    async fn on_message(&self, msg: Request<Open>) -> Result<Self::Reply, Status> {
        let id: u64 = msg.id.into();
        self.log.lock().unwrap().push(format!("B:{}:{}", id, self.epoch.elapsed().as_millis()));
        self.gate.send_replace(true);
        self.log.lock().unwrap().push(format!("E:{}:{}", id, self.epoch.elapsed().as_millis()));
        Ok(id * 7 + 3)
    }
}

/// runrv <seed> <timeout_ms|0> <waiters> <gap_ms>
/// Concurrent requests of which the earlier ones wait for a later one, on ONE channel and a healthy network (the empty fault
/// schedule): `waiters` long polls (ids 1..) are sent, `gap_ms` later the request that opens the gate (id 100).  HTTP/2 carries
/// each request on its own stream, so every one of them is answered; a call that has not returned 30 simulated seconds
/// later is recorded as `D:<id>:other:<t>` (neither a reply nor an error), with or without a client timeout.
fn runrv(t: &[&str]) -> String {
    let seed: u64 = t[1].parse().unwrap();
    let timeout_ms: u64 = t[2].parse().unwrap();
    let waiters: u64 = t[3].parse().unwrap();
    let gap_ms: u64 = t[4].parse().unwrap();
    let log: Log = Arc::new(Mutex::new(Vec::new()));
    let mut sim = Builder::new()
        .simulation_duration(Duration::from_secs(120))
        .min_message_latency(Duration::from_millis(1))
        .max_message_latency(Duration::from_millis(20))
        .build_with_rng(Box::new(<rand::rngs::StdRng as rand::SeedableRng>::seed_from_u64(seed)));
    let slog = log.clone();
    sim.host("server", move || {
        let slog = slog.clone();
        async move {
            let server = Server::listen((IpAddr::from(Ipv4Addr::UNSPECIFIED), PORT).into()).await?;
            server.add_service(Svc::new(slog));
            tokio::time::sleep(Duration::from_secs(110)).await;
            Ok(())
        }
    });
    let clog = log.clone();
    sim.client("client0", async move {
        let start = tokio::time::Instant::now();
        let addr: SocketAddr = (lookup("server"), PORT).into();
        let mut client = RpcClient::<Svc>::new(Channel::connect(addr));
        if timeout_ms > 0 {
            client.set_timeout(Duration::from_millis(timeout_ms));
        }
        tokio::time::sleep(Duration::from_millis(50)).await;
        fn outcome<T>(res: Result<Result<T, Status>, tokio::time::error::Elapsed>, id: u64) -> String {
            match res {
                Err(_) => "other".to_string(),
                Ok(Ok(_)) => format!("r{}", id * 7 + 3),
                Ok(Err(st)) => match st.code {
                    ErrorCode::ConnectionError => "conn".to_string(),
                    ErrorCode::Timeout => "timeout".to_string(),
                    ErrorCode::InvalidPayload => "invalid".to_string(),
                    _ => "other".to_string(),
                },
            }
        }
        let mut handles = Vec::new();
        for id in 1..=waiters {
            let c = client.clone();
            let l = clog.clone();
            handles.push(tokio::spawn(async move {
                l.lock().unwrap().push(format!("S:{}:{}", id, start.elapsed().as_millis()));
                let res = tokio::time::timeout(Duration::from_secs(30), c.send(&Wait { id })).await;
                let res = res.map(|r| r.and_then(|v| v.deserialize_view().map_err(Status::internal)).and_then(|v: u64| if v == id * 7 + 3 { Ok(()) } else { Err(Status::invalid()) }));
                l.lock().unwrap().push(format!("D:{}:{}:{}", id, outcome(res, id), start.elapsed().as_millis()));
            }));
            // every other case sends the long polls at the very same instant
            if seed % 2 == 0 {
                tokio::time::sleep(Duration::from_millis(3)).await;
            }
        }
        tokio::time::sleep(Duration::from_millis(gap_ms)).await;
        let id = 100u64;
        clog.lock().unwrap().push(format!("S:{}:{}", id, start.elapsed().as_millis()));
        let res = tokio::time::timeout(Duration::from_secs(30), client.send(&Open { id })).await;
        let res = res.map(|r| r.map(|_| ()));
        clog.lock().unwrap().push(format!("D:{}:{}:{}", id, outcome(res, id), start.elapsed().as_millis()));
        for h in handles {
            let _ = h.await;
        }
        Ok(())
    });
    let res = sim.run();
    let events = log.lock().unwrap().clone();
    let status = if res.is_ok() { "done" } else { "simerr" };
    format!("trace {} timeout={} {}", status, timeout_ms, if events.is_empty() { "-".to_string() } else { events.join(" ") })
}

/// runbig <timeout_ms> <reply size> <fault H|P|-> <fault at ms after the request was sent> [err]
/// (`err`: the handler refuses the request with a status of that size instead of answering with a reply of that size)
/// One client, link latency pinned to 10 ms: a small request sets the connection up, then ONE request with a large reply is
/// sent and the fault strikes `at` ms later (request arrives at +10, response head and first flight at +20).  A call that has
/// not returned 30 simulated seconds later is recorded as `D:<id>:other:<t>`.
fn runbig(t: &[&str]) -> String {
    let timeout_ms: u64 = t[1].parse().unwrap();
    let size: u32 = t[2].parse().unwrap();
    let fault = t[3].chars().next().unwrap();
    let fault_at: u64 = t[4].parse().unwrap();
    let refuse = t.get(5) == Some(&"err");
    let log: Log = Arc::new(Mutex::new(Vec::new()));
    let mut sim = Builder::new()
        .simulation_duration(Duration::from_secs(120))
        .min_message_latency(Duration::from_millis(10))
        .max_message_latency(Duration::from_millis(10))
        .build();
    let slog = log.clone();
    sim.host("server", move || {
        let slog = slog.clone();
        async move {
            let server = Server::listen((IpAddr::from(Ipv4Addr::UNSPECIFIED), PORT).into()).await?;
            server.add_service(Svc::new(slog));
            tokio::time::sleep(Duration::from_secs(110)).await;
            Ok(())
        }
    });
    let clog = log.clone();
    sim.client("client0", async move {
        let start = tokio::time::Instant::now();
        let addr: SocketAddr = (lookup("server"), PORT).into();
        let mut client = RpcClient::<Svc>::new(Channel::connect(addr));
        if timeout_ms > 0 {
            client.set_timeout(Duration::from_millis(timeout_ms));
        }
        tokio::time::sleep(Duration::from_millis(50)).await;
        // the connection is set up over a working link
        clog.lock().unwrap().push(format!("S:1:{}", start.elapsed().as_millis()));
        let warm = client.send(&Ask { id: 1, delay_ms: 0 }).await;
        clog.lock().unwrap().push(format!("D:1:{}:{}", if warm.is_ok() { "r10" } else { "conn" }, start.elapsed().as_millis()));
        let id = 2u64;
        let c2 = client.clone();
        let l2 = clog.clone();
        let task = tokio::spawn(async move {
            l2.lock().unwrap().push(format!("S:{}:{}", id, start.elapsed().as_millis()));
            if refuse {
                // the handler's answer is an error status of `size` bytes: it counts as the reply of this request iff it arrives
                // with the handler's code and message
                let res = tokio::time::timeout(Duration::from_secs(30), c2.send(&Refuse { id, size })).await;
                let out = match res {
                    Err(_) => "other".to_string(),
                    Ok(Ok(_)) => "invalid".to_string(),
                    Ok(Err(st)) => match st.code {
                        ErrorCode::ConnectionError => "conn".to_string(),
                        ErrorCode::Timeout => "timeout".to_string(),
                        ErrorCode::InternalError if st.message.len() == size as usize && st.message.bytes().all(|b| b == b'e') => format!("r{}", id * 7 + 3),
                        ErrorCode::InvalidPayload => "invalid".to_string(),
                        _ => "other".to_string(),
                    },
                };
                l2.lock().unwrap().push(format!("D:{}:{}:{}", id, out, start.elapsed().as_millis()));
                return;
            }
            let res = tokio::time::timeout(Duration::from_secs(30), c2.send(&Fetch { id, size })).await;
            let out = match res {
                Err(_) => "other".to_string(),          // still pending: neither a reply nor an error
                Ok(Ok(reply)) => if reply.len() == size as usize && reply.iter().all(|b| *b == id as u8) { format!("r{}", id * 7 + 3) } else { "invalid".to_string() },
                Ok(Err(st)) => match st.code {
                    ErrorCode::ConnectionError => "conn".to_string(),
                    ErrorCode::Timeout => "timeout".to_string(),
                    ErrorCode::InvalidPayload => "invalid".to_string(),
                    _ => "other".to_string(),
                },
            };
            l2.lock().unwrap().push(format!("D:{}:{}:{}", id, out, start.elapsed().as_millis()));
        });
        if fault != '-' {
            tokio::time::sleep(Duration::from_millis(fault_at)).await;
            match fault {
                'H' => turmoil::hold("client0", "server"),
                'P' => turmoil::partition("client0", "server"),
                _ => {},
            }
        }
        let _ = task.await;
        Ok(())
    });
    let res = sim.run();
    let events = log.lock().unwrap().clone();
    let status = if res.is_ok() { "done" } else { "simerr" };
    format!("trace {} timeout={} {}", status, timeout_ms, if events.is_empty() { "-".to_string() } else { events.join(" ") })
}

fn lcg(s: &mut u64) -> u64 {
    *s = s.wrapping_mul(6364136223846793005).wrapping_add(1442695040888963407);
    *s >> 33
}

/// run <seed> <clients> <reqs_per_client> <timeout_ms|0> <faults>
/// faults: comma separated `<t_ms><kind><client>` with kind P(artition) H(old) L(release) X(repair), or `-`
fn run(t: &[&str]) -> String {
    let seed: u64 = t[1].parse().unwrap();
    let clients: u64 = t[2].parse().unwrap();
    let reqs: u64 = t[3].parse().unwrap();
    let timeout_ms: u64 = t[4].parse().unwrap();
    let mut faults: Vec<(u64, char, u64)> = Vec::new();
    if t[5] != "-" {
        for f in t[5].split(',') {
            let pos = f.find(|c: char| c.is_ascii_alphabetic()).unwrap();
            faults.push((f[..pos].parse().unwrap(), f.as_bytes()[pos] as char, f[pos + 1..].parse().unwrap()));
        }
    }
    let log: Log = Arc::new(Mutex::new(Vec::new()));
    let mut sim = Builder::new()
        .simulation_duration(Duration::from_secs(120))
        .min_message_latency(Duration::from_millis(1))
        .max_message_latency(Duration::from_millis(20))
        .build_with_rng(Box::new(<rand::rngs::StdRng as rand::SeedableRng>::seed_from_u64(seed)));

    let slog = log.clone();
    sim.host("server", move || {
        let slog = slog.clone();
        async move {
            let server = Server::listen((IpAddr::from(Ipv4Addr::UNSPECIFIED), PORT).into()).await?;
            server.add_service(Svc::new(slog));
            tokio::time::sleep(Duration::from_secs(110)).await;
            Ok(())
        }
    });

    // the fault injector
    let fl = faults.clone();
    sim.client("chaos", async move {
        let start = tokio::time::Instant::now();
        let mut fl = fl;
        fl.sort();
        for (at, kind, c) in fl {
            let now = start.elapsed().as_millis() as u64;
            if at > now {
                tokio::time::sleep(Duration::from_millis(at - now)).await;
            }
            let name = format!("client{}", c);
            match kind {
                'P' => turmoil::partition(name.as_str(), "server"),
                'H' => turmoil::hold(name.as_str(), "server"),
                'L' => turmoil::release(name.as_str(), "server"),
                'X' => turmoil::repair(name.as_str(), "server"),
                _ => {},
            }
        }
        Ok(())
    });

    for c in 0..clients {
        let clog = log.clone();
        let mut s = seed.wrapping_add(c * 7919);
        sim.client(format!("client{}", c), async move {
            let start = tokio::time::Instant::now();
            let addr: SocketAddr = (lookup("server"), PORT).into();
            let channel = Channel::connect(addr);
            let mut client = RpcClient::<Svc>::new(channel);
            if timeout_ms > 0 {
                client.set_timeout(Duration::from_millis(timeout_ms));
            }
            // a small head start so that the server is listening
            tokio::time::sleep(Duration::from_millis(50)).await;
            let mut handles = Vec::new();
            for r in 0..reqs {
                let id = c * 1000 + r;
                let gap = lcg(&mut s) % 400;
                let delay = [0u64, 0, 5, 300, 2500][(lcg(&mut s) % 5) as usize];
                let concurrent = lcg(&mut s) % 3 == 0;
                tokio::time::sleep(Duration::from_millis(gap)).await;
                let client = client.clone();
                let plog = clog.clone();
                let clog = clog.clone();
                let fut = async move {
                    clog.lock().unwrap().push(format!("S:{}:{}", id, start.elapsed().as_millis()));
                    let res = client.send(&Ask { id, delay_ms: delay }).await;
                    let out = match res {
                        Ok(reply) => match reply.deserialize_view() {
                            Ok(v) => format!("r{}", v),
                            Err(_) => "invalid".to_string(),
                        },
                        Err(st) => match st.code {
                            ErrorCode::ConnectionError => "conn".to_string(),
                            ErrorCode::Timeout => "timeout".to_string(),
                            ErrorCode::InvalidPayload => "invalid".to_string(),
                            _ => "other".to_string(),
                        },
                    };
                    clog.lock().unwrap().push(format!("D:{}:{}:{}", id, out, start.elapsed().as_millis()));
                };
                if concurrent {
                    handles.push(tokio::spawn(fut));
                } else {
                    // without a client timeout a held link would block for ever: bound the wait of the harness
                    let pending = tokio::time::timeout(Duration::from_secs(30), fut).await.is_err();
                    if pending && timeout_ms > 0 {
                        // a client WITH a timeout that is still waiting: neither a reply nor an error
                        plog.lock().unwrap().push(format!("D:{}:other:{}", id, start.elapsed().as_millis()));
                    }
                }
            }
            for h in handles {
                let _ = tokio::time::timeout(Duration::from_secs(30), h).await;
            }
            Ok(())
        });
    }

    let res = sim.run();
    let events = log.lock().unwrap().clone();
    let status = if res.is_ok() { "done" } else { "simerr" };
    format!("trace {} timeout={} {}", status, timeout_ms, if events.is_empty() { "-".to_string() } else { events.join(" ") })
}

fn main() {
    if std::env::var("DCSIM_VERBOSE").is_err() { std::panic::set_hook(Box::new(|_| {})); }
    let stdin = io::stdin();
    let stdout = io::stdout();
    let mut out = io::BufWriter::new(stdout.lock());
    for line in stdin.lock().lines() {
        let line = line.expect("read");
        let toks: Vec<&str> = line.split_whitespace().collect();
        if toks.is_empty() {
            writeln!(out).unwrap();
            continue;
        }
        match toks[0] {
            "case" => writeln!(out, "case {}", toks.get(1).copied().unwrap_or("?")).unwrap(),
            "end" => {
                writeln!(out, "end").unwrap();
                out.flush().unwrap();
            },
            "run" => {
                let r = std::panic::catch_unwind(|| run(&toks)).unwrap_or_else(|_| "panic".to_string());
                writeln!(out, "{}", r).unwrap();
            },
            "runrv" => {
                let r = std::panic::catch_unwind(|| runrv(&toks)).unwrap_or_else(|_| "panic".to_string());
                writeln!(out, "{}", r).unwrap();
            },
            "runbig" => {
                let r = std::panic::catch_unwind(|| runbig(&toks)).unwrap_or_else(|_| "panic".to_string());
                writeln!(out, "{}", r).unwrap();
            },
            _ => writeln!(out, "bad-op").unwrap(),
        }
    }
    out.flush().unwrap();
}
