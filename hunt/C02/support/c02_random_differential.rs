//! scratch: random differential test set vs store (no duplicate ids inside one bulk call).
#![cfg(all(feature = "verif", feature = "test-utils"))]

use std::collections::{BTreeSet, HashSet};
use std::marker::PhantomData;
use std::sync::atomic::{AtomicU64, Ordering};
use std::sync::Arc;
use std::time::Duration;

use datacake_crdt::{HLCTimestamp, Key, OrSWotSet};
use datacake_eventual_consistency::test_utils::MemStore;
use datacake_eventual_consistency::verif::{
    Del,
    DocVec,
    KeyspaceGroup,
    MultiDel,
    MultiSet,
    PurgeDeletes,
    Serialize,
    Set,
    NUM_SOURCES,
};
use datacake_eventual_consistency::{
    BulkMutationError,
    Document,
    DocumentMetadata,
    Storage,
};
use datacake_node::Clock;

static KEYSPACE: &str = "c02";

type View = BTreeSet<(Key, HLCTimestamp, bool)>;

async fn set_view<S: Storage>(group: &KeyspaceGroup<S>) -> View {
    let keyspace = group.get_or_create_keyspace(KEYSPACE).await;
    let bytes = keyspace.send(Serialize).await.expect("serialize set");
    let set = OrSWotSet::<NUM_SOURCES>::from_bytes(&bytes).expect("deserialize set");
    let (live, dead) = OrSWotSet::<NUM_SOURCES>::default().diff(&set);
    live.into_iter()
        .map(|(k, ts)| (k, ts, false))
        .chain(dead.into_iter().map(|(k, ts)| (k, ts, true)))
        .collect()
}

async fn store_view<S: Storage>(group: &KeyspaceGroup<S>) -> View {
    group
        .storage()
        .iter_metadata(KEYSPACE)
        .await
        .expect("iter metadata")
        .collect()
}

struct Rng(u64);
impl Rng {
    fn next(&mut self) -> u64 {
        // splitmix64
        self.0 = self.0.wrapping_add(0x9E3779B97F4A7C15);
        let mut z = self.0;
        z = (z ^ (z >> 30)).wrapping_mul(0xBF58476D1CE4E5B9);
        z = (z ^ (z >> 27)).wrapping_mul(0x94D049BB133111EB);
        z ^ (z >> 31)
    }
    fn below(&mut self, n: u64) -> u64 {
        self.next() % n
    }
}

/// Fails the next operation after `fail_after` more document level writes, if armed.
struct Flaky {
    inner: MemStore,
    // u64::MAX = never fail.
    fail_after: AtomicU64,
}

#[derive(Debug, thiserror::Error)]
#[error("{0}")]
struct StoreFailure(String);

impl Flaky {
    fn tick(&self) -> Result<(), StoreFailure> {
        let v = self.fail_after.load(Ordering::SeqCst);
        if v == u64::MAX {
            return Ok(());
        }
        if v == 0 {
            self.fail_after.store(u64::MAX, Ordering::SeqCst);
            return Err(StoreFailure("injected".into()));
        }
        self.fail_after.store(v - 1, Ordering::SeqCst);
        Ok(())
    }
}

fn conv<E: std::fmt::Display>(e: E) -> StoreFailure {
    StoreFailure(e.to_string())
}

#[async_trait::async_trait]
impl Storage for Flaky {
    type Error = StoreFailure;
    type DocsIter = <MemStore as Storage>::DocsIter;
    type MetadataIter = <MemStore as Storage>::MetadataIter;

    async fn get_keyspace_list(&self) -> Result<Vec<String>, Self::Error> {
        self.inner.get_keyspace_list().await.map_err(conv)
    }

    async fn iter_metadata(
        &self,
        keyspace: &str,
    ) -> Result<Self::MetadataIter, Self::Error> {
        self.inner.iter_metadata(keyspace).await.map_err(conv)
    }

    async fn remove_tombstones(
        &self,
        keyspace: &str,
        keys: impl Iterator<Item = Key> + Send,
    ) -> Result<(), BulkMutationError<Self::Error>> {
        let mut done = Vec::new();
        for key in keys {
            if let Err(e) = self.tick() {
                return Err(BulkMutationError::new(e, done));
            }
            self.inner
                .remove_tombstones(keyspace, [key].into_iter())
                .await
                .map_err(|e| BulkMutationError::new(conv(e), done.clone()))?;
            done.push(key);
        }
        Ok(())
    }

    async fn put(&self, keyspace: &str, document: Document) -> Result<(), Self::Error> {
        self.tick()?;
        self.inner.put(keyspace, document).await.map_err(conv)
    }

    async fn multi_put(
        &self,
        keyspace: &str,
        documents: impl Iterator<Item = Document> + Send,
    ) -> Result<(), BulkMutationError<Self::Error>> {
        let mut done = Vec::new();
        for doc in documents {
            if let Err(e) = self.tick() {
                return Err(BulkMutationError::new(e, done));
            }
            let id = doc.id();
            self.inner
                .put(keyspace, doc)
                .await
                .map_err(|e| BulkMutationError::new(conv(e), done.clone()))?;
            done.push(id);
        }
        Ok(())
    }

    async fn mark_as_tombstone(
        &self,
        keyspace: &str,
        doc_id: Key,
        timestamp: HLCTimestamp,
    ) -> Result<(), Self::Error> {
        self.tick()?;
        self.inner
            .mark_as_tombstone(keyspace, doc_id, timestamp)
            .await
            .map_err(conv)
    }

    async fn mark_many_as_tombstone(
        &self,
        keyspace: &str,
        documents: impl Iterator<Item = DocumentMetadata> + Send,
    ) -> Result<(), BulkMutationError<Self::Error>> {
        let mut done = Vec::new();
        for doc in documents {
            if let Err(e) = self.tick() {
                return Err(BulkMutationError::new(e, done));
            }
            self.inner
                .mark_as_tombstone(keyspace, doc.id, doc.last_updated)
                .await
                .map_err(|e| BulkMutationError::new(conv(e), done.clone()))?;
            done.push(doc.id);
        }
        Ok(())
    }

    async fn get(
        &self,
        keyspace: &str,
        doc_id: Key,
    ) -> Result<Option<Document>, Self::Error> {
        self.inner.get(keyspace, doc_id).await.map_err(conv)
    }

    async fn multi_get(
        &self,
        keyspace: &str,
        doc_ids: impl Iterator<Item = Key> + Send,
    ) -> Result<Self::DocsIter, Self::Error> {
        self.inner.multi_get(keyspace, doc_ids).await.map_err(conv)
    }
}

fn random_ts(rng: &mut Rng, base: Duration) -> HLCTimestamp {
    // Half hour steps over five hours, so that the one hour forgiveness boundary is crossed
    // all the time, plus exact-boundary values.
    let step = rng.below(11);
    let millis = [0u64, 0, 0, 4, 996][rng.below(5) as usize];
    let counter = rng.below(3) as u16;
    let node = rng.below(3) as u8;
    HLCTimestamp::new(
        base + Duration::from_secs(step * 1800) + Duration::from_millis(millis),
        counter,
        node,
    )
}

async fn run(seed: u64, steps: usize, allow_dups: bool) -> Result<(), String> {
    let mut rng = Rng(seed);
    let storage = Arc::new(Flaky {
        inner: MemStore::default(),
        fail_after: AtomicU64::new(u64::MAX),
    });
    let mut group = KeyspaceGroup::new(storage.clone(), Clock::new(0)).await;
    let mut keyspace = group.get_or_create_keyspace(KEYSPACE).await;
    tokio::time::sleep(Duration::from_millis(3)).await;
    let base = if rng.below(2) == 0 {
        Duration::from_secs(0)
    } else {
        Duration::from_secs(100_000)
    };

    let mut log = Vec::new();
    for step in 0..steps {
        let fail = rng.below(4) == 0;
        storage.fail_after.store(
            if fail { rng.below(3) } else { u64::MAX },
            Ordering::SeqCst,
        );
        let source = rng.below(2) as usize;
        let kind = rng.below(10);
        let desc;
        match kind {
            0 | 1 => {
                let doc = Document::new(rng.below(4), random_ts(&mut rng, base), vec![1]);
                desc = format!("set src={source} {:?} fail={fail}", doc.metadata);
                let _ = keyspace
                    .send(Set {
                        source,
                        doc,
                        ctx: None,
                        _marker: PhantomData::<Flaky>,
                    })
                    .await;
            },
            2 | 3 => {
                let doc = DocumentMetadata::new(rng.below(4), random_ts(&mut rng, base));
                desc = format!("del src={source} {:?} fail={fail}", doc);
                let _ = keyspace
                    .send(Del {
                        source,
                        doc,
                        _marker: PhantomData::<Flaky>,
                    })
                    .await;
            },
            4 | 5 => {
                let n = rng.below(4);
                let mut seen = HashSet::new();
                let mut docs = DocVec::new();
                for _ in 0..n {
                    let id = rng.below(4);
                    if !allow_dups && !seen.insert(id) {
                        continue;
                    }
                    docs.push(Document::new(id, random_ts(&mut rng, base), vec![2]));
                }
                desc = format!(
                    "multiset src={source} {:?} fail={fail}",
                    docs.iter().map(|d| d.metadata).collect::<Vec<_>>()
                );
                let _ = keyspace
                    .send(MultiSet {
                        source,
                        docs,
                        ctx: None,
                        _marker: PhantomData::<Flaky>,
                    })
                    .await;
            },
            6 | 7 => {
                let n = rng.below(4);
                let mut seen = HashSet::new();
                let mut docs = DocVec::new();
                for _ in 0..n {
                    let id = rng.below(4);
                    if !allow_dups && !seen.insert(id) {
                        continue;
                    }
                    docs.push(DocumentMetadata::new(id, random_ts(&mut rng, base)));
                }
                desc = format!("multidel src={source} {:?} fail={fail}", docs);
                let _ = keyspace
                    .send(MultiDel {
                        source,
                        docs,
                        _marker: PhantomData::<Flaky>,
                    })
                    .await;
            },
            9 => {
                desc = "restart".to_string();
                storage.fail_after.store(u64::MAX, Ordering::SeqCst);
                group = KeyspaceGroup::new(storage.clone(), Clock::new(0)).await;
                group.load_states_from_storage().await.expect("load");
                keyspace = group.get_or_create_keyspace(KEYSPACE).await;
                tokio::time::sleep(Duration::from_millis(3)).await;
            },
            _ => {
                desc = format!("purge fail={fail}");
                let _ = keyspace.send(PurgeDeletes(PhantomData::<Flaky>)).await;
            },
        }
        log.push(desc);

        let (set, store) = loop {
            let set = set_view(&group).await;
            let store = store_view(&group).await;
            let set2 = set_view(&group).await;
            if set == set2 { break (set, store); }
            println!("seed {seed} step {step}: set changed while observing (background purge)\n   before {set:?}\n   store {store:?}\n   after {set2:?}\n   log {:?}", log);
        };
        if std::env::var("C02_TRACE").is_ok() {
            println!("step {step}: {}\n   set   = {set:?}\n   store = {store:?}", log.last().unwrap());
        }
        if set != store {
            return Err(format!(
                "seed {seed} step {step}: set != store\n set   = {set:?}\n store = {store:?}\n \
                 log:\n  {}",
                log.join("\n  ")
            ));
        }
    }
    Ok(())
}

#[tokio::test]
async fn random_without_duplicate_ids() {
    let mut failures = 0;
    let only: Option<u64> = std::env::var("C02_SEED").ok().map(|v| v.parse().unwrap());
    for seed in 0..1500u64 {
        if only.map(|o| o != seed).unwrap_or(false) { continue; }
        if let Err(e) = run(seed, 40, false).await {
            println!("{e}");
            failures += 1;
            if failures > 2 {
                break;
            }
        }
    }
    assert_eq!(failures, 0);
}

#[tokio::test]
async fn random_with_duplicate_ids() {
    let mut failures = 0;
    for seed in 0..200u64 {
        if let Err(e) = run(seed, 40, true).await {
            if failures == 0 {
                println!("{e}");
            }
            failures += 1;
        }
    }
    println!("{failures} of 200 seeds fail with duplicates allowed");
    assert_eq!(failures, 0);
}
