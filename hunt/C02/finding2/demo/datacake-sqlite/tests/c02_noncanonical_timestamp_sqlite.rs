//! C02 demonstration (finding 2, low severity): with the SQLite store, a single `Set` whose
//! timestamp has a fractional byte >= 250 (a value `HLCTimestamp::from_u64` / the wire format
//! accept, but which `pack()` never produces) is recorded in the set with timestamp `t` while the
//! database reports a different timestamp `t'` for the same document, because the store keeps
//! timestamps as text and `Display`/`FromStr` of `HLCTimestamp` do not round-trip such values.
//!
//! Run with:
//!   cargo test --offline -p datacake-sqlite --features datacake-eventual-consistency/verif \
//!       --test c02_noncanonical_timestamp_sqlite
use std::collections::BTreeSet;
use std::marker::PhantomData;
use std::sync::Arc;

use datacake_crdt::{HLCTimestamp, Key, OrSWotSet};
use datacake_eventual_consistency::verif::{
    KeyspaceGroup,
    Serialize,
    Set,
    CONSISTENCY_SOURCE_ID,
    NUM_SOURCES,
};
use datacake_eventual_consistency::{Document, Storage};
use datacake_node::Clock;
use datacake_sqlite::SqliteStorage;

static KEYSPACE: &str = "c02";

type View = BTreeSet<(Key, HLCTimestamp, bool)>;

#[tokio::test]
async fn set_with_fractional_byte_252_sqlite() {
    let storage = Arc::new(SqliteStorage::open_in_memory().await.unwrap());
    let group = KeyspaceGroup::new(storage, Clock::new(0)).await;
    let keyspace = group.get_or_create_keyspace(KEYSPACE).await;

    // seconds = 1000, fractional = 252, counter = 0, node = 1.
    let ts = HLCTimestamp::from_u64((1000u64 << 32) | (252u64 << 24) | 1);
    println!("timestamp sent      : {ts} (raw {})", ts.as_u64());

    keyspace
        .send(Set {
            source: CONSISTENCY_SOURCE_ID,
            doc: Document::new(1, ts, b"hello".to_vec()),
            ctx: None,
            _marker: PhantomData::<SqliteStorage>,
        })
        .await
        .expect("set succeeds");

    let bytes = keyspace.send(Serialize).await.expect("serialize set");
    let set = OrSWotSet::<NUM_SOURCES>::from_bytes(&bytes).expect("deserialize set");
    let (live, dead) = OrSWotSet::<NUM_SOURCES>::default().diff(&set);
    let set_view: View = live
        .into_iter()
        .map(|(k, ts)| (k, ts, false))
        .chain(dead.into_iter().map(|(k, ts)| (k, ts, true)))
        .collect();
    let store_view: View = group
        .storage()
        .iter_metadata(KEYSPACE)
        .await
        .expect("iter metadata")
        .collect();

    println!("set   = {set_view:?}");
    println!("store = {store_view:?}");
    for (_, ts, _) in store_view.iter() {
        println!("timestamp in storage: {ts} (raw {})", ts.as_u64());
    }
    assert_eq!(
        set_view, store_view,
        "C02: the replicated set and the SQLite store must describe the same thing"
    );
}
