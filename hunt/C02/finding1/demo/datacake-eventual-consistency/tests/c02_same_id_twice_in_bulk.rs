//! C02 demonstration: a bulk request which carries the same document id twice leaves the node's
//! replicated set and its storage describing different things.
//!
//! Run with:
//!   cargo test --offline -p datacake-eventual-consistency --features verif,test-utils \
//!       --test c02_same_id_twice_in_bulk
#![cfg(all(feature = "verif", feature = "test-utils"))]

use std::collections::BTreeSet;
use std::marker::PhantomData;
use std::sync::atomic::{AtomicUsize, Ordering};
use std::sync::Arc;
use std::time::Duration;

use datacake_crdt::{HLCTimestamp, Key, OrSWotSet};
use datacake_eventual_consistency::test_utils::MemStore;
use datacake_eventual_consistency::verif::{
    ConsistencyService,
    KeyspaceGroup,
    MultiDel,
    MultiPutPayload,
    MultiSet,
    Serialize,
    CONSISTENCY_SOURCE_ID,
    NUM_SOURCES,
};
use datacake_eventual_consistency::{
    BulkMutationError,
    Document,
    DocumentMetadata,
    Storage,
};
use datacake_node::{Clock, RpcNetwork};
use datacake_rpc::{Handler, Request};
use smallvec::smallvec;

static KEYSPACE: &str = "c02";

type View = BTreeSet<(Key, HLCTimestamp, bool)>;

/// What the replicated set says: `(id, ts, is_tombstone)` for every live entry and tombstone,
/// read from the deserialised `Serialize` reply (the bytes a peer gets from `GetState`).
async fn set_view<S: Storage>(group: &KeyspaceGroup<S>) -> View {
    let keyspace = group.get_or_create_keyspace(KEYSPACE).await;
    let bytes = keyspace.send(Serialize).await.expect("serialize set");
    let set = OrSWotSet::<NUM_SOURCES>::from_bytes(&bytes).expect("deserialize set");

    // Diffing against an empty set lists every live entry and every tombstone of `set`.
    let (live, dead) = OrSWotSet::<NUM_SOURCES>::default().diff(&set);
    live.into_iter()
        .map(|(k, ts)| (k, ts, false))
        .chain(dead.into_iter().map(|(k, ts)| (k, ts, true)))
        .collect()
}

/// What the storage says.
async fn store_view<S: Storage>(group: &KeyspaceGroup<S>) -> View {
    group
        .storage()
        .iter_metadata(KEYSPACE)
        .await
        .expect("iter metadata")
        .collect()
}

fn ts(secs: u64, node: u8) -> HLCTimestamp {
    // "now", so nothing here is anywhere near the forgiveness cut-off.
    HLCTimestamp::new(
        datacake_crdt::get_datacake_timestamp() + Duration::from_secs(secs),
        0,
        node,
    )
}

/// One MultiSet, id 1 twice, the newer version first (this is what a peer's distributor
/// sends when two `put`s of one key were registered out of order within a batching window).
#[tokio::test]
async fn multi_set_with_the_same_id_twice() {
    let group = KeyspaceGroup::<MemStore>::new_for_test().await;
    let keyspace = group.get_or_create_keyspace(KEYSPACE).await;

    let older = Document::new(1, ts(1, 7), b"older".to_vec());
    let newer = Document::new(1, ts(2, 7), b"newer".to_vec());

    keyspace
        .send(MultiSet {
            source: CONSISTENCY_SOURCE_ID,
            docs: smallvec![newer.clone(), older.clone()],
            ctx: None,
            _marker: PhantomData::<MemStore>,
        })
        .await
        .expect("bulk set succeeds");

    let set = set_view(&group).await;
    let store = store_view(&group).await;
    println!("set   = {set:?}");
    println!("store = {store:?}");
    println!(
        "stored doc = {:?}",
        group.storage().get(KEYSPACE, 1).await.unwrap().map(|d| {
            (
                d.last_updated(),
                String::from_utf8_lossy(d.data()).to_string(),
            )
        })
    );
    assert_eq!(
        set, store,
        "C02: the replicated set and the storage must describe the same thing after a completed \
         bulk set"
    );
}

/// The same through the public RPC surface of a node: the `MultiPutPayload` handler of the
/// consistency service (which is what `ConsistencyClient::multi_put` / `apply_batch` reach).
#[tokio::test]
async fn multi_put_rpc_with_the_same_id_twice() {
    let group = KeyspaceGroup::<MemStore>::new_for_test().await;
    let service = ConsistencyService::new(group.clone(), RpcNetwork::default());

    let older = Document::new(1, ts(1, 7), b"older".to_vec());
    let newer = Document::new(1, ts(2, 7), b"newer".to_vec());

    let req = Request::using_owned(MultiPutPayload {
        keyspace: KEYSPACE.to_string(),
        ctx: None,
        documents: smallvec![newer.clone(), older.clone()],
        timestamp: ts(3, 7),
    })
    .await;
    service.on_message(req).await.expect("rpc succeeds");

    let set = set_view(&group).await;
    let store = store_view(&group).await;
    println!("set   = {set:?}");
    println!("store = {store:?}");
    assert_eq!(
        set, store,
        "C02: the replicated set and the storage must describe the same thing after a completed \
         multi-put RPC"
    );
}

/// One MultiDel, id 1 twice, the newer tombstone first.
#[tokio::test]
async fn multi_del_with_the_same_id_twice() {
    let group = KeyspaceGroup::<MemStore>::new_for_test().await;
    let keyspace = group.get_or_create_keyspace(KEYSPACE).await;

    keyspace
        .send(MultiDel {
            source: CONSISTENCY_SOURCE_ID,
            docs: smallvec![
                DocumentMetadata::new(1, ts(2, 7)),
                DocumentMetadata::new(1, ts(1, 7)),
            ],
            _marker: PhantomData::<MemStore>,
        })
        .await
        .expect("bulk delete succeeds");

    let set = set_view(&group).await;
    let store = store_view(&group).await;
    println!("set   = {set:?}");
    println!("store = {store:?}");
    assert_eq!(
        set, store,
        "C02: the replicated set and the storage must describe the same thing after a completed \
         bulk delete"
    );
}

/// A store which writes documents one at a time and fails (reporting what it wrote) once
/// `budget` documents have been written by a bulk call.
struct FailsPartWay {
    inner: MemStore,
    budget: AtomicUsize,
}

#[derive(Debug, thiserror::Error)]
#[error("{0}")]
struct StoreFailure(String);

#[async_trait::async_trait]
impl Storage for FailsPartWay {
    type Error = StoreFailure;
    type DocsIter = <MemStore as Storage>::DocsIter;
    type MetadataIter = <MemStore as Storage>::MetadataIter;

    async fn get_keyspace_list(&self) -> Result<Vec<String>, Self::Error> {
        self.inner
            .get_keyspace_list()
            .await
            .map_err(|e| StoreFailure(e.to_string()))
    }

    async fn iter_metadata(
        &self,
        keyspace: &str,
    ) -> Result<Self::MetadataIter, Self::Error> {
        self.inner
            .iter_metadata(keyspace)
            .await
            .map_err(|e| StoreFailure(e.to_string()))
    }

    async fn remove_tombstones(
        &self,
        keyspace: &str,
        keys: impl Iterator<Item = Key> + Send,
    ) -> Result<(), BulkMutationError<Self::Error>> {
        self.inner
            .remove_tombstones(keyspace, keys)
            .await
            .map_err(|e| {
                BulkMutationError::empty_with_error(StoreFailure(e.to_string()))
            })
    }

    async fn put(&self, keyspace: &str, document: Document) -> Result<(), Self::Error> {
        self.inner
            .put(keyspace, document)
            .await
            .map_err(|e| StoreFailure(e.to_string()))
    }

    async fn multi_put(
        &self,
        keyspace: &str,
        documents: impl Iterator<Item = Document> + Send,
    ) -> Result<(), BulkMutationError<Self::Error>> {
        let mut written = Vec::new();
        for doc in documents {
            if self.budget.load(Ordering::SeqCst) == 0 {
                return Err(BulkMutationError::new(
                    StoreFailure("disk full".to_string()),
                    written,
                ));
            }
            self.budget.fetch_sub(1, Ordering::SeqCst);
            let id = doc.id();
            self.inner
                .put(keyspace, doc)
                .await
                .map_err(|e| StoreFailure(e.to_string()))
                .map_err(BulkMutationError::empty_with_error)?;
            written.push(id);
        }
        Ok(())
    }

    async fn mark_as_tombstone(
        &self,
        keyspace: &str,
        doc_id: Key,
        timestamp: HLCTimestamp,
    ) -> Result<(), Self::Error> {
        self.inner
            .mark_as_tombstone(keyspace, doc_id, timestamp)
            .await
            .map_err(|e| StoreFailure(e.to_string()))
    }

    async fn mark_many_as_tombstone(
        &self,
        keyspace: &str,
        documents: impl Iterator<Item = DocumentMetadata> + Send,
    ) -> Result<(), BulkMutationError<Self::Error>> {
        self.inner
            .mark_many_as_tombstone(keyspace, documents)
            .await
            .map_err(|e| {
                BulkMutationError::empty_with_error(StoreFailure(e.to_string()))
            })
    }

    async fn get(
        &self,
        keyspace: &str,
        doc_id: Key,
    ) -> Result<Option<Document>, Self::Error> {
        self.inner
            .get(keyspace, doc_id)
            .await
            .map_err(|e| StoreFailure(e.to_string()))
    }

    async fn multi_get(
        &self,
        keyspace: &str,
        doc_ids: impl Iterator<Item = Key> + Send,
    ) -> Result<Self::DocsIter, Self::Error> {
        self.inner
            .multi_get(keyspace, doc_ids)
            .await
            .map_err(|e| StoreFailure(e.to_string()))
    }
}

/// A bulk set in *chronological* order (older first, newer second) which fails after the first
/// document: storage holds the older version and reports id 1 as written; the set nevertheless
/// shows the newer version, which was never written.
#[tokio::test]
async fn multi_set_with_the_same_id_twice_failing_part_way() {
    let storage = Arc::new(FailsPartWay {
        inner: MemStore::default(),
        budget: AtomicUsize::new(1),
    });
    let group = KeyspaceGroup::new(storage, Clock::new(0)).await;
    let keyspace = group.get_or_create_keyspace(KEYSPACE).await;

    let older = Document::new(1, ts(1, 7), b"older".to_vec());
    let newer = Document::new(1, ts(2, 7), b"newer".to_vec());

    let err = keyspace
        .send(MultiSet {
            source: CONSISTENCY_SOURCE_ID,
            docs: smallvec![older.clone(), newer.clone()],
            ctx: None,
            _marker: PhantomData::<FailsPartWay>,
        })
        .await
        .expect_err("bulk set fails part-way");
    assert_eq!(err.successful_doc_ids(), &[1]);

    let set = set_view(&group).await;
    let store = store_view(&group).await;
    println!("set   = {set:?}");
    println!("store = {store:?}");
    assert_eq!(
        set, store,
        "C02: after a bulk set which failed part-way the set must show exactly what storage wrote"
    );
}
