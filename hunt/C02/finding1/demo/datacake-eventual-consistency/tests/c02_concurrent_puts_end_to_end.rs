//! C02 demonstration, end to end through the public API only (plus the `verif` re-export of the
//! replication client, used to read the peer's replicated set the way a peer does).
//!
//! Node 1 of a two node cluster receives concurrent `put`s for the same keys (consistency level
//! `None`, so that peers are updated by node 1's task distributor, as they are for every node
//! not selected by the consistency level). When two `put`s of one key are registered with the
//! distributor in the opposite order of their timestamps, the batch which node 2 receives holds
//! that id twice, newest first, and node 2 ends up with a set that says "newest" and a store
//! that holds the older document.
//!
//! Run with:
//!   cargo test --offline -p datacake-eventual-consistency --features verif,test-utils \
//!       --test c02_concurrent_puts_end_to_end -- --nocapture
#![cfg(all(feature = "verif", feature = "test-utils"))]

use std::collections::BTreeMap;
use std::time::Duration;

use datacake_crdt::{HLCTimestamp, Key, OrSWotSet};
use datacake_eventual_consistency::test_utils::MemStore;
use datacake_eventual_consistency::verif::{ReplicationClient, NUM_SOURCES};
use datacake_eventual_consistency::EventuallyConsistentStoreExtension;
use datacake_node::{
    ConnectionConfig,
    Consistency,
    DCAwareSelector,
    DatacakeNode,
    DatacakeNodeBuilder,
};

static KEYSPACE: &str = "c02-e2e";
const NUM_KEYS: u64 = 300;
const WRITERS_PER_KEY: usize = 4;

#[tokio::test(flavor = "multi_thread", worker_threads = 4)]
async fn concurrent_puts_of_one_key_leave_the_peer_inconsistent() -> anyhow::Result<()> {
    let [node_1, node_2] = connect_cluster().await;

    // The production default: anti entropy once an hour. (It could not repair this anyway, the
    // sets of the two nodes agree.)
    let hour = Duration::from_secs(3600);
    let store_1 = node_1
        .add_extension(
            EventuallyConsistentStoreExtension::new(MemStore::default())
                .with_repair_interval(hour),
        )
        .await?;
    let store_2 = node_2
        .add_extension(
            EventuallyConsistentStoreExtension::new(MemStore::default())
                .with_repair_interval(hour),
        )
        .await?;

    // Let the membership watcher tell the distributor about the peer.
    tokio::time::sleep(Duration::from_secs(2)).await;

    let handle_1 = store_1.handle_with_keyspace(KEYSPACE);
    let handle_2 = store_2.handle_with_keyspace(KEYSPACE);

    let mut tasks = Vec::new();
    for key in 0..NUM_KEYS {
        for writer in 0..WRITERS_PER_KEY {
            let handle = handle_1.clone();
            tasks.push(tokio::spawn(async move {
                handle
                    .put(
                        key,
                        format!("key {key} writer {writer}").into_bytes(),
                        Consistency::None,
                    )
                    .await
                    .expect("put");
            }));
        }
    }
    for task in tasks {
        task.await?;
    }

    // Distributor batches are sent once a second.
    tokio::time::sleep(Duration::from_secs(4)).await;

    // Node 2's replicated set, fetched the way a peer fetches it.
    let channel = node_1.network().get_or_connect(node_2.me().public_addr);
    let mut client = ReplicationClient::<MemStore>::new(node_1.clock().clone(), channel);
    let (_, set) = client.get_state(KEYSPACE).await.expect("get state of node 2");
    let (live, dead) = OrSWotSet::<NUM_SOURCES>::default().diff(&set);
    let set_view: BTreeMap<Key, (HLCTimestamp, bool)> = live
        .into_iter()
        .map(|(k, ts)| (k, (ts, false)))
        .chain(dead.into_iter().map(|(k, ts)| (k, (ts, true))))
        .collect();

    // Node 2's storage.
    let store_view: BTreeMap<Key, (HLCTimestamp, bool)> = store_2
        .handle()
        .iter_metadata(KEYSPACE)
        .await
        .expect("iter metadata")
        .map(|(k, ts, tombstone)| (k, (ts, tombstone)))
        .collect();

    assert_eq!(set_view.len() as u64, NUM_KEYS, "node 2 received every key");

    let mut disagreements = Vec::new();
    for (key, in_set) in set_view.iter() {
        let in_store = store_view.get(key);
        if in_store != Some(in_set) {
            let doc_1 = handle_1.get(*key).await.unwrap().unwrap();
            let doc_2 = handle_2.get(*key).await.unwrap().unwrap();
            disagreements.push(format!(
                "key {key}: node 2 set says {:?}, node 2 store says {:?}; node 1 serves {:?} @ {}, \
                 node 2 serves {:?} @ {}",
                in_set,
                in_store,
                String::from_utf8_lossy(doc_1.data()),
                doc_1.last_updated(),
                String::from_utf8_lossy(doc_2.data()),
                doc_2.last_updated(),
            ));
        }
    }

    println!(
        "{} of {} keys disagree between node 2's set and node 2's store",
        disagreements.len(),
        NUM_KEYS
    );
    for line in disagreements.iter().take(5) {
        println!("  {line}");
    }

    node_1.shutdown().await;
    node_2.shutdown().await;

    assert!(
        disagreements.is_empty(),
        "C02: on node 2 the replicated set and the storage disagree for {} keys",
        disagreements.len()
    );

    Ok(())
}

async fn connect_cluster() -> [DatacakeNode; 2] {
    let node_1_addr = test_helper::get_unused_addr();
    let node_2_addr = test_helper::get_unused_addr();

    let node_1_connection_cfg =
        ConnectionConfig::new(node_1_addr, node_1_addr, [node_2_addr.to_string()]);
    let node_2_connection_cfg =
        ConnectionConfig::new(node_2_addr, node_2_addr, [node_1_addr.to_string()]);

    let node_1 = DatacakeNodeBuilder::<DCAwareSelector>::new(1, node_1_connection_cfg)
        .connect()
        .await
        .unwrap();
    let node_2 = DatacakeNodeBuilder::<DCAwareSelector>::new(2, node_2_connection_cfg)
        .connect()
        .await
        .unwrap();

    node_1
        .wait_for_nodes(&[2], Duration::from_secs(60))
        .await
        .expect("Nodes should connect within timeout.");
    node_2
        .wait_for_nodes(&[1], Duration::from_secs(60))
        .await
        .expect("Nodes should connect within timeout.");

    [node_1, node_2]
}
