//! C02 demonstration against the SQLite store shipped with the project: a bulk set which carries
//! the same document id twice (newer version first) leaves the replicated set at the newer
//! timestamp while the database row holds the older document.
//!
//! Run with:
//!   cargo test --offline -p datacake-sqlite --features datacake-eventual-consistency/verif \
//!       --test c02_same_id_twice_in_bulk_sqlite
use std::collections::BTreeSet;
use std::marker::PhantomData;
use std::sync::Arc;
use std::time::Duration;

use datacake_crdt::{HLCTimestamp, Key, OrSWotSet};
use datacake_eventual_consistency::verif::{
    DocVec,
    KeyspaceGroup,
    MultiSet,
    Serialize,
    CONSISTENCY_SOURCE_ID,
    NUM_SOURCES,
};
use datacake_eventual_consistency::{Document, Storage};
use datacake_node::Clock;
use datacake_sqlite::SqliteStorage;

static KEYSPACE: &str = "c02";

type View = BTreeSet<(Key, HLCTimestamp, bool)>;

fn ts(secs: u64, node: u8) -> HLCTimestamp {
    HLCTimestamp::new(
        datacake_crdt::get_datacake_timestamp() + Duration::from_secs(secs),
        0,
        node,
    )
}

#[tokio::test]
async fn multi_set_with_the_same_id_twice_sqlite() {
    let storage = Arc::new(SqliteStorage::open_in_memory().await.unwrap());
    let group = KeyspaceGroup::new(storage, Clock::new(0)).await;
    let keyspace = group.get_or_create_keyspace(KEYSPACE).await;

    let older = Document::new(1, ts(1, 7), b"older".to_vec());
    let newer = Document::new(1, ts(2, 7), b"newer".to_vec());

    let mut docs = DocVec::new();
    docs.push(newer.clone());
    docs.push(older.clone());
    keyspace
        .send(MultiSet {
            source: CONSISTENCY_SOURCE_ID,
            docs,
            ctx: None,
            _marker: PhantomData::<SqliteStorage>,
        })
        .await
        .expect("bulk set succeeds");

    let bytes = keyspace.send(Serialize).await.expect("serialize set");
    let set = OrSWotSet::<NUM_SOURCES>::from_bytes(&bytes).expect("deserialize set");
    let (live, dead) = OrSWotSet::<NUM_SOURCES>::default().diff(&set);
    let set_view: View = live
        .into_iter()
        .map(|(k, ts)| (k, ts, false))
        .chain(dead.into_iter().map(|(k, ts)| (k, ts, true)))
        .collect();
    let store_view: View = group
        .storage()
        .iter_metadata(KEYSPACE)
        .await
        .expect("iter metadata")
        .collect();

    println!("set   = {set_view:?}");
    println!("store = {store_view:?}");
    assert_eq!(
        set_view, store_view,
        "C02: the replicated set and the SQLite store must describe the same thing"
    );
}
