//! C05 counterexample: after a replica purged a tombstone, the difference it computes against a
//! peer keeps listing that tombstone, applying the difference does not change anything, and
//! the two replicas never expose the same live ids.
//!
//! Only the public API of `datacake-crdt` is used. The set has two sources, as in
//! `datacake-eventual-consistency` (source 0 = direct replication, source 1 = read repair), and
//! the difference is applied the way the keyspace actor applies it (`will_apply` filter, sort
//! by timestamp, `insert_with_source` / `delete_with_source` on the read repair source).
//!
//! The integration test binary links the non-test build of the library, so the forgiveness
//! period is the production value of one hour.
use std::time::Duration;

use datacake_crdt::{HLCTimestamp, Key, OrSWotSet, StateChanges};

type Set = OrSWotSet<2>;

const DIRECT: usize = 0;
const REPAIR: usize = 1;

const K: Key = 7;
const K2: Key = 8;
const K3: Key = 9;
const UNIVERSE: [Key; 3] = [K, K2, K3];

fn ts(secs: u64, node: u8) -> HLCTimestamp {
    HLCTimestamp::new(Duration::from_secs(secs), 0, node)
}

/// What `KeyspaceActor::on_set` / `on_del` do with a directly replicated operation.
fn direct(set: &mut Set, key: Key, ts: HLCTimestamp, is_delete: bool) -> bool {
    if !set.will_apply(key, ts) {
        return false;
    }
    if is_delete {
        set.delete_with_source(DIRECT, key, ts)
    } else {
        set.insert_with_source(DIRECT, key, ts)
    }
}

/// What `KeyspaceActor::on_multi_set` / `on_multi_del` do with one half of a difference.
fn apply_half(set: &mut Set, half: &StateChanges, is_delete: bool) {
    let mut valid: Vec<_> = half
        .iter()
        .copied()
        .filter(|(key, ts)| set.will_apply(*key, *ts))
        .collect();
    valid.sort_by_key(|entry| entry.1);
    for (key, ts) in valid {
        if is_delete {
            set.delete_with_source(REPAIR, key, ts);
        } else {
            set.insert_with_source(REPAIR, key, ts);
        }
    }
}

/// One anti-entropy exchange: `me` computes its difference against `peer` and applies it.
fn repair_from(me: &mut Set, peer: &Set, removals_first: bool) -> (StateChanges, StateChanges) {
    let (modified, removed) = me.diff(peer);
    if removals_first {
        apply_half(me, &removed, true);
        apply_half(me, &modified, false);
    } else {
        apply_half(me, &modified, false);
        apply_half(me, &removed, true);
    }
    (modified, removed)
}

fn live(set: &Set) -> Vec<(Key, HLCTimestamp)> {
    UNIVERSE
        .iter()
        .filter_map(|key| set.get(key).map(|ts| (*key, *ts)))
        .collect()
}

fn scenario(removals_first: bool, purge: bool) {
    // Two writers (node 1 and node 2) and three replicas.
    //
    //   a = insert K  @ 1_000s  by node 1
    //   b = delete K  @ 2_000s  by node 2
    //   c = insert K2 @ 10_000s by node 2
    //   d = insert K3 @ 10_001s by node 2
    //
    // Every replica receives, from every writer, a gap free prefix of that writer's
    // operations, in order:
    //
    //   r1: node 1: (nothing)   node 2: b, c      (d arrives through read repair)
    //   r2: node 1: a           node 2: b, c, d
    //   r3: node 1: a           node 2: (nothing) (r3 was away and comes back late)
    let a = (K, ts(1_000, 1));
    let b = (K, ts(2_000, 2));
    let c = (K2, ts(10_000, 2));
    let d = (K3, ts(10_001, 2));

    let mut r1 = Set::default();
    let mut r2 = Set::default();
    let mut r3 = Set::default();

    assert!(direct(&mut r2, a.0, a.1, false));
    assert!(direct(&mut r3, a.0, a.1, false));

    assert!(direct(&mut r1, b.0, b.1, true));
    assert!(direct(&mut r2, b.0, b.1, true));

    assert!(direct(&mut r1, c.0, c.1, false));
    assert!(direct(&mut r2, c.0, c.1, false));

    assert!(direct(&mut r2, d.0, d.1, false));

    // r1 repairs from r2: it only lacks `d` (r2 holds K as a tombstone, exactly like r1).
    let (modified, removed) = repair_from(&mut r1, &r2, removals_first);
    assert_eq!(modified, vec![d]);
    assert_eq!(removed, vec![]);
    assert_eq!(r1.diff(&r2), (vec![], vec![]), "r1 is in sync with r2");
    assert_eq!(r2.diff(&r1), (vec![], vec![]), "r2 is in sync with r1");
    assert_eq!(live(&r1), live(&r2));

    // The hourly purge task runs on r1. Both sources have seen node 2 at >= 10_000s, so the
    // cut-off for node 2 is 6_400s and the tombstone of K (2_000s) goes.
    if purge {
        assert_eq!(r1.purge_old_deletes(), vec![b]);
    } else {
        // Control: without the purge r1 still holds the tombstone, nothing is fetched from r3,
        // and r1 and r2 stay in sync.
        assert_eq!(repair_from(&mut r1, &r3, removals_first), (vec![], vec![]));
        assert_eq!(r1.diff(&r2), (vec![], vec![]));
        assert_eq!(r2.diff(&r1), (vec![], vec![]));
        assert_eq!(live(&r1), live(&r2));
        return;
    }

    // r3 is back. r1 repairs from it. r1 holds nothing for K any more and has no cut-off
    // for node 1, so the difference lists `a` (as the C05 statement says it should), and
    // r1 applies it.
    let (modified, removed) = repair_from(&mut r1, &r3, removals_first);
    assert_eq!(modified, vec![a]);
    assert_eq!(removed, vec![]);
    assert_eq!(r1.get(&K), Some(&a.1));

    // r1 repairs from r2 again. r2 still holds the tombstone `b`, which is strictly newer than
    // what r1 holds for K, so the difference is exactly { remove K @ b }.
    let before = r2.clone();
    let (modified, removed) = repair_from(&mut r1, &r2, removals_first);
    assert_eq!(modified, vec![]);
    assert_eq!(removed, vec![b]);

    // r2 repairs from r1 as well (it has nothing to fetch).
    let r1_snapshot = r1.clone();
    let (modified, removed) = repair_from(&mut r2, &r1_snapshot, removals_first);
    assert_eq!((modified, removed), (vec![], vec![]));

    // C05: applying the difference leaves nothing further to fetch from that peer ...
    let again = r1.diff(&before);
    // ... and the two replicas expose identical live ids and timestamps.
    let live_r1 = live(&r1);
    let live_r2 = live(&r2);

    let mut problems = Vec::new();
    if again != (vec![], vec![]) {
        problems.push(format!(
            "removals_first={removals_first}: r1 applied its difference against r2 and still \
             has the same difference to fetch: {again:?}"
        ));
    }
    if live_r1 != live_r2 {
        problems.push(format!(
            "removals_first={removals_first}: both replicas applied their difference against \
             the other and expose different live ids: r1 {live_r1:?} vs r2 {live_r2:?}"
        ));
    }
    assert!(problems.is_empty(), "{problems:#?}");
}

#[test]
fn purged_tombstone_is_relisted_forever_removals_first() {
    scenario(true, true);
}

#[test]
fn purged_tombstone_is_relisted_forever_modifications_first() {
    scenario(false, true);
}

/// Control (passes): the same history without the purge on r1.
#[test]
fn control_without_purge_is_fine() {
    scenario(true, false);
    scenario(false, false);
}

/// Same as above, reduced to the second half of the claim only: the live ids.
#[test]
fn purged_tombstone_leaves_replicas_with_different_live_ids() {
    let a = (K, ts(1_000, 1));
    let b = (K, ts(2_000, 2));
    let c = (K2, ts(10_000, 2));
    let d = (K3, ts(10_001, 2));

    let mut r1 = Set::default();
    let mut r2 = Set::default();
    let mut r3 = Set::default();
    direct(&mut r2, a.0, a.1, false);
    direct(&mut r3, a.0, a.1, false);
    direct(&mut r1, b.0, b.1, true);
    direct(&mut r2, b.0, b.1, true);
    direct(&mut r1, c.0, c.1, false);
    direct(&mut r2, c.0, c.1, false);
    direct(&mut r2, d.0, d.1, false);
    repair_from(&mut r1, &r2, true);
    r1.purge_old_deletes();
    repair_from(&mut r1, &r3, true);

    // Ten full rounds between r1 and r2 do not help.
    for _ in 0..10 {
        let r2_snapshot = r2.clone();
        let r1_snapshot = r1.clone();
        repair_from(&mut r1, &r2_snapshot, true);
        repair_from(&mut r2, &r1_snapshot, true);
    }

    assert_eq!(live(&r1), live(&r2));
}
