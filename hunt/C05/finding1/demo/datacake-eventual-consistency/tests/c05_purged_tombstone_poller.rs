//! C05 counterexample, driven through the real keyspace actors, the real replication RPC
//! service and the poller's own exchange code (`repair_peer` is `check_node_changes` +
//! `handle_removals` + `handle_modified`, exposed by the `verif` feature).
//!
//! Run with `--features verif,test-utils`.
#![cfg(all(feature = "verif", feature = "test-utils"))]

use std::marker::PhantomData;
use std::net::SocketAddr;
use std::sync::Arc;
use std::time::Duration;

use datacake_crdt::{HLCTimestamp, Key, OrSWotSet};
use datacake_eventual_consistency::test_utils::MemStore;
use datacake_eventual_consistency::verif::{
    repair_peer,
    Del,
    KeyspaceGroup,
    PurgeDeletes,
    ReplicationService,
    Serialize,
    Set,
    Tracker,
    CONSISTENCY_SOURCE_ID,
    NUM_SOURCES,
};
use datacake_eventual_consistency::{Document, DocumentMetadata, Storage};
use datacake_node::{Clock, RpcNetwork};
use datacake_rpc::Server;

static KEYSPACE: &str = "c05";

const K: Key = 7;
const K2: Key = 8;
const K3: Key = 9;

fn ts(secs: u64, node: u8) -> HLCTimestamp {
    HLCTimestamp::new(Duration::from_secs(secs), 0, node)
}

struct Replica {
    id: u8,
    addr: SocketAddr,
    group: KeyspaceGroup<MemStore>,
    _server: Server,
}

impl Replica {
    async fn start(id: u8) -> Self {
        let addr = test_helper::get_unused_addr();
        let group = KeyspaceGroup::new(Arc::new(MemStore::default()), Clock::new(id)).await;
        let server = Server::listen(addr).await.expect("listen");
        server.add_service(ReplicationService::new(group.clone()));
        Self {
            id,
            addr,
            group,
            _server: server,
        }
    }

    /// A directly replicated put (what the consistency RPC service sends to the actor).
    async fn put(&self, key: Key, ts: HLCTimestamp) {
        let keyspace = self.group.get_or_create_keyspace(KEYSPACE).await;
        keyspace
            .send(Set {
                source: CONSISTENCY_SOURCE_ID,
                doc: Document::new(key, ts, format!("doc-{key}").into_bytes()),
                ctx: None,
                _marker: PhantomData::<MemStore>,
            })
            .await
            .expect("put");
    }

    /// A directly replicated delete.
    async fn del(&self, key: Key, ts: HLCTimestamp) {
        let keyspace = self.group.get_or_create_keyspace(KEYSPACE).await;
        keyspace
            .send(Del {
                source: CONSISTENCY_SOURCE_ID,
                doc: DocumentMetadata::new(key, ts),
                _marker: PhantomData::<MemStore>,
            })
            .await
            .expect("del");
    }

    /// What the hourly purge task sends to every keyspace.
    async fn purge(&self) {
        let keyspace = self.group.get_or_create_keyspace(KEYSPACE).await;
        keyspace
            .send(PurgeDeletes(PhantomData::<MemStore>))
            .await
            .expect("purge");
    }

    async fn state(&self) -> OrSWotSet<NUM_SOURCES> {
        let keyspace = self.group.get_or_create_keyspace(KEYSPACE).await;
        let bytes = keyspace.send(Serialize).await.expect("serialize");
        OrSWotSet::from_bytes(&bytes).expect("deserialize")
    }

    /// One anti-entropy exchange with `peer`, with a fresh tracker so the peer is always polled.
    async fn repair_from(&self, peer: &Replica, removals_first: bool) -> (usize, usize) {
        let report = repair_peer(
            self.group.clone(),
            RpcNetwork::default(),
            &mut Tracker::default(),
            peer.id,
            peer.addr,
            removals_first,
        )
        .await
        .expect("exchange should succeed");

        report
            .into_iter()
            .find(|(keyspace, _, _)| keyspace == KEYSPACE)
            .map(|(_, modified, removed)| (modified, removed))
            .unwrap_or((0, 0))
    }

    async fn live_docs(&self) -> Vec<(Key, HLCTimestamp)> {
        let mut docs = Vec::new();
        for key in [K, K2, K3] {
            if let Some(doc) = self.group.storage().get(KEYSPACE, key).await.unwrap() {
                docs.push((key, doc.last_updated()));
            }
        }
        docs
    }
}

async fn scenario(removals_first: bool) {
    // Writers are node 1 and node 2:
    //   a = put K  @ 1_000s  by node 1
    //   b = del K  @ 2_000s  by node 2
    //   c = put K2 @ 10_000s by node 2
    //   d = put K3 @ 10_001s by node 2
    // Every replica gets a gap free prefix of each writer's operations directly:
    //   r1: node 1: -    node 2: b, c     (d through read repair)
    //   r2: node 1: a    node 2: b, c, d
    //   r3: node 1: a    node 2: -        (away, back late)
    let r1 = Replica::start(11).await;
    let r2 = Replica::start(12).await;
    let r3 = Replica::start(13).await;

    r2.put(K, ts(1_000, 1)).await;
    r3.put(K, ts(1_000, 1)).await;

    r1.del(K, ts(2_000, 2)).await;
    r2.del(K, ts(2_000, 2)).await;

    r1.put(K2, ts(10_000, 2)).await;
    r2.put(K2, ts(10_000, 2)).await;

    r2.put(K3, ts(10_001, 2)).await;

    // r1 <- r2: fetches K3 only. Afterwards the two are in sync.
    assert_eq!(r1.repair_from(&r2, removals_first).await, (1, 0));
    assert_eq!(r1.repair_from(&r2, removals_first).await, (0, 0));
    assert_eq!(r2.repair_from(&r1, removals_first).await, (0, 0));
    assert_eq!(r1.live_docs().await, r2.live_docs().await);

    // The purge task runs on r1 and drops the tombstone of K.
    r1.purge().await;
    assert!(r1.state().await.will_apply(K, ts(1_000, 1)));

    // r3 is back, r1 repairs from it: K @ a is fetched and stored.
    assert_eq!(r1.repair_from(&r3, removals_first).await, (1, 0));
    assert_eq!(r1.state().await.get(&K), Some(&ts(1_000, 1)));

    // r1 <- r2 and r2 <- r1.
    let first = r1.repair_from(&r2, removals_first).await;
    assert_eq!(first, (0, 1), "the difference is {{ remove K @ b }}");
    assert_eq!(r2.repair_from(&r1, removals_first).await, (0, 0));

    // "applying that difference leaves nothing further to fetch from that peer"
    let second = r1.repair_from(&r2, removals_first).await;
    let third = r1.repair_from(&r2, removals_first).await;

    // "two replicas that each apply their difference against the other expose identical
    //  live ids and timestamps"
    let live_r1 = r1.live_docs().await;
    let live_r2 = r2.live_docs().await;

    let mut problems = Vec::new();
    if (second, third) != ((0, 0), (0, 0)) {
        problems.push(format!(
            "r1 applied its difference against r2, yet the next two exchanges list \
             (modified, removed) = {second:?} and {third:?} again"
        ));
    }
    if live_r1 != live_r2 {
        problems.push(format!(
            "r1 and r2 serve different documents: r1 {live_r1:?} vs r2 {live_r2:?}"
        ));
    }
    assert!(problems.is_empty(), "{problems:#?}");
}

#[tokio::test]
async fn poller_relists_refused_tombstone_removals_first() {
    scenario(true).await;
}

#[tokio::test]
async fn poller_relists_refused_tombstone_modifications_first() {
    scenario(false).await;
}
