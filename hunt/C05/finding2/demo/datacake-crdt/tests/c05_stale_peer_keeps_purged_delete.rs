//! C05 counterexample: two replicas each apply their difference against the other, both
//! differences come back empty afterwards ("in sync"), and yet they expose different live ids.
//!
//! Only the public API of `datacake-crdt` is used. The set has two sources, as in
//! `datacake-eventual-consistency` (source 0 = direct replication, source 1 = read repair), and
//! a difference is applied the way the keyspace actor applies it (`will_apply` filter, sort by
//! timestamp, `insert_with_source` / `delete_with_source` on the read repair source).
//!
//! The integration test binary links the non-test build of the library, so the forgiveness
//! period is the production value of one hour.
use std::time::Duration;

use datacake_crdt::{HLCTimestamp, Key, OrSWotSet, StateChanges};

type Set = OrSWotSet<2>;

const DIRECT: usize = 0;
const REPAIR: usize = 1;

const K: Key = 7;
const UNIVERSE: [Key; 5] = [7, 8, 9, 10, 11];

fn ts(secs: u64, node: u8) -> HLCTimestamp {
    HLCTimestamp::new(Duration::from_secs(secs), 0, node)
}

/// What `KeyspaceActor::on_set` / `on_del` do with a directly replicated operation.
fn direct(set: &mut Set, op: (Key, HLCTimestamp), is_delete: bool) -> bool {
    if !set.will_apply(op.0, op.1) {
        return false;
    }
    if is_delete {
        set.delete_with_source(DIRECT, op.0, op.1)
    } else {
        set.insert_with_source(DIRECT, op.0, op.1)
    }
}

/// What `KeyspaceActor::on_multi_set` / `on_multi_del` do with one half of a difference.
fn apply_half(set: &mut Set, half: &StateChanges, is_delete: bool) {
    let mut valid: Vec<_> = half
        .iter()
        .copied()
        .filter(|(key, ts)| set.will_apply(*key, *ts))
        .collect();
    valid.sort_by_key(|entry| entry.1);
    for (key, ts) in valid {
        if is_delete {
            set.delete_with_source(REPAIR, key, ts);
        } else {
            set.insert_with_source(REPAIR, key, ts);
        }
    }
}

/// One anti-entropy exchange: `me` computes its difference against `peer` and applies it.
fn repair_from(me: &mut Set, peer: &Set, removals_first: bool) -> (StateChanges, StateChanges) {
    let (modified, removed) = me.diff(peer);
    if removals_first {
        apply_half(me, &removed, true);
        apply_half(me, &modified, false);
    } else {
        apply_half(me, &modified, false);
        apply_half(me, &removed, true);
    }
    (modified, removed)
}

fn live(set: &Set) -> Vec<(Key, HLCTimestamp)> {
    UNIVERSE
        .iter()
        .filter_map(|key| set.get(key).map(|ts| (*key, *ts)))
        .collect()
}

fn scenario(removals_first: bool, purge: bool) {
    // Two writers (node 1 and node 2) and three replicas.
    //
    //   node 1: a = insert 7 @ 1_000s   e = insert 10 @ 10_000s   f = insert 11 @ 10_001s
    //   node 2: b = delete 7 @ 2_000s   c = insert 8  @ 10_000s   d = insert 9  @ 10_001s
    //
    // Every replica receives, from every writer, a gap free prefix of that writer's
    // operations, in order:
    //
    //   up_to_date: everything
    //   replica:    node 1: a, e      node 2: b, c     (f and d arrive through read repair)
    //   stale:      node 1: a         node 2: nothing  (it was away, and is back now)
    let a = (K, ts(1_000, 1));
    let e = (10, ts(10_000, 1));
    let f = (11, ts(10_001, 1));
    let b = (K, ts(2_000, 2));
    let c = (8, ts(10_000, 2));
    let d = (9, ts(10_001, 2));

    let mut up_to_date = Set::default();
    let mut replica = Set::default();
    let mut stale = Set::default();

    for set in [&mut up_to_date, &mut replica, &mut stale] {
        assert!(direct(set, a, false));
    }
    for set in [&mut up_to_date, &mut replica] {
        assert!(direct(set, b, true));
        assert!(direct(set, c, false));
        assert!(direct(set, e, false));
    }
    assert!(direct(&mut up_to_date, d, false));
    assert!(direct(&mut up_to_date, f, false));

    // `replica` repairs from `up_to_date`: it lacks d and f. Afterwards they are in sync.
    let (modified, removed) = repair_from(&mut replica, &up_to_date, removals_first);
    assert_eq!(modified, vec![d, f]);
    assert_eq!(removed, vec![]);
    assert_eq!(replica.diff(&up_to_date), (vec![], vec![]));
    assert_eq!(up_to_date.diff(&replica), (vec![], vec![]));
    assert_eq!(live(&replica), live(&up_to_date));

    // The hourly purge task runs on `replica`. Both of its sources have seen both writers at
    // >= 10_000s, so both cut-offs are 6_400s and the tombstone of 7 (2_000s) goes.
    if purge {
        assert_eq!(replica.purge_old_deletes(), vec![b]);
    } else {
        // Control: without the purge `stale` is handed the tombstone and everything converges.
        let replica_before = replica.clone();
        assert_eq!(repair_from(&mut replica, &stale.clone(), removals_first), (vec![], vec![]));
        assert_eq!(
            repair_from(&mut stale, &replica_before, removals_first),
            (vec![c, d, e, f], vec![b])
        );
        assert_eq!(replica.diff(&stale), (vec![], vec![]));
        assert_eq!(stale.diff(&replica), (vec![], vec![]));
        assert_eq!(live(&replica), live(&stale));
        return;
    }

    // `stale` is back. It and `replica` each compute and apply their difference against
    // the other.
    let replica_before = replica.clone();
    let stale_before = stale.clone();
    let replica_fetched = repair_from(&mut replica, &stale_before, removals_first);
    let stale_fetched = repair_from(&mut stale, &replica_before, removals_first);

    // `replica` holds nothing for 7 and `a` is older than its cut-off for node 1: not listed.
    assert_eq!(replica_fetched, (vec![], vec![]));
    // `stale` gets the four inserts it missed, and no removal: the tombstone is gone.
    assert_eq!(stale_fetched, (vec![c, d, e, f], vec![]));

    // First half of the claim holds: nothing further to fetch, in either direction.
    assert_eq!(replica.diff(&stale), (vec![], vec![]));
    assert_eq!(stale.diff(&replica), (vec![], vec![]));

    // Second half does not.
    assert_eq!(
        live(&replica),
        live(&stale),
        "removals_first={removals_first}: both replicas applied their difference against the \
         other, neither has anything further to fetch, and they expose different live ids",
    );
}

#[test]
fn in_sync_by_diff_but_different_live_ids_removals_first() {
    scenario(true, true);
}

#[test]
fn in_sync_by_diff_but_different_live_ids_modifications_first() {
    scenario(false, true);
}

/// Control (passes): the same history without the purge on `replica`.
#[test]
fn control_without_purge_is_fine() {
    scenario(true, false);
    scenario(false, false);
}
