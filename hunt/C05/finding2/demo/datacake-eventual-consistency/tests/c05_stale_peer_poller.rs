//! C05 counterexample (two replicas are "in sync" by their differences and still serve
//! different documents), driven through the real keyspace actors, the real replication RPC
//! service and the poller's own exchange code (`repair_peer` is `check_node_changes` +
//! `handle_removals` + `handle_modified`, exposed by the `verif` feature).
//!
//! Run with `--features verif,test-utils`.
#![cfg(all(feature = "verif", feature = "test-utils"))]

use std::marker::PhantomData;
use std::net::SocketAddr;
use std::sync::Arc;
use std::time::Duration;

use datacake_crdt::{HLCTimestamp, Key, OrSWotSet};
use datacake_eventual_consistency::test_utils::MemStore;
use datacake_eventual_consistency::verif::{
    repair_peer,
    Del,
    KeyspaceGroup,
    PurgeDeletes,
    ReplicationService,
    Serialize,
    Set,
    Tracker,
    CONSISTENCY_SOURCE_ID,
    NUM_SOURCES,
};
use datacake_eventual_consistency::{Document, DocumentMetadata, Storage};
use datacake_node::{Clock, RpcNetwork};
use datacake_rpc::Server;

static KEYSPACE: &str = "c05";

const K: Key = 7;
const UNIVERSE: [Key; 5] = [7, 8, 9, 10, 11];

fn ts(secs: u64, node: u8) -> HLCTimestamp {
    HLCTimestamp::new(Duration::from_secs(secs), 0, node)
}

struct Replica {
    id: u8,
    addr: SocketAddr,
    group: KeyspaceGroup<MemStore>,
    _server: Server,
}

impl Replica {
    async fn start(id: u8) -> Self {
        let addr = test_helper::get_unused_addr();
        let group = KeyspaceGroup::new(Arc::new(MemStore::default()), Clock::new(id)).await;
        let server = Server::listen(addr).await.expect("listen");
        server.add_service(ReplicationService::new(group.clone()));
        Self {
            id,
            addr,
            group,
            _server: server,
        }
    }

    /// A directly replicated put (what the consistency RPC service sends to the actor).
    async fn put(&self, key: Key, ts: HLCTimestamp) {
        let keyspace = self.group.get_or_create_keyspace(KEYSPACE).await;
        keyspace
            .send(Set {
                source: CONSISTENCY_SOURCE_ID,
                doc: Document::new(key, ts, format!("doc-{key}").into_bytes()),
                ctx: None,
                _marker: PhantomData::<MemStore>,
            })
            .await
            .expect("put");
    }

    /// A directly replicated delete.
    async fn del(&self, key: Key, ts: HLCTimestamp) {
        let keyspace = self.group.get_or_create_keyspace(KEYSPACE).await;
        keyspace
            .send(Del {
                source: CONSISTENCY_SOURCE_ID,
                doc: DocumentMetadata::new(key, ts),
                _marker: PhantomData::<MemStore>,
            })
            .await
            .expect("del");
    }

    /// What the hourly purge task sends to every keyspace.
    async fn purge(&self) {
        let keyspace = self.group.get_or_create_keyspace(KEYSPACE).await;
        keyspace
            .send(PurgeDeletes(PhantomData::<MemStore>))
            .await
            .expect("purge");
    }

    async fn state(&self) -> OrSWotSet<NUM_SOURCES> {
        let keyspace = self.group.get_or_create_keyspace(KEYSPACE).await;
        let bytes = keyspace.send(Serialize).await.expect("serialize");
        OrSWotSet::from_bytes(&bytes).expect("deserialize")
    }

    /// One anti-entropy exchange with `peer`, with a fresh tracker so the peer is always polled.
    async fn repair_from(&self, peer: &Replica, removals_first: bool) -> (usize, usize) {
        let report = repair_peer(
            self.group.clone(),
            RpcNetwork::default(),
            &mut Tracker::default(),
            peer.id,
            peer.addr,
            removals_first,
        )
        .await
        .expect("exchange should succeed");

        report
            .into_iter()
            .find(|(keyspace, _, _)| keyspace == KEYSPACE)
            .map(|(_, modified, removed)| (modified, removed))
            .unwrap_or((0, 0))
    }

    async fn live_docs(&self) -> Vec<(Key, HLCTimestamp)> {
        let mut docs = Vec::new();
        for key in UNIVERSE {
            if let Some(doc) = self.group.storage().get(KEYSPACE, key).await.unwrap() {
                docs.push((key, doc.last_updated()));
            }
        }
        docs
    }
}

async fn scenario(removals_first: bool) {
    //   node 1: a = put 7 @ 1_000s   e = put 10 @ 10_000s   f = put 11 @ 10_001s
    //   node 2: b = del 7 @ 2_000s   c = put 8  @ 10_000s   d = put 9  @ 10_001s
    // Every replica gets a gap free prefix of each writer's operations directly:
    //   up_to_date: everything
    //   replica:    node 1: a, e     node 2: b, c     (f and d through read repair)
    //   stale:      node 1: a        node 2: -        (away, back late)
    let up_to_date = Replica::start(11).await;
    let replica = Replica::start(12).await;
    let stale = Replica::start(13).await;

    for r in [&up_to_date, &replica, &stale] {
        r.put(K, ts(1_000, 1)).await;
    }
    for r in [&up_to_date, &replica] {
        r.del(K, ts(2_000, 2)).await;
        r.put(8, ts(10_000, 2)).await;
        r.put(10, ts(10_000, 1)).await;
    }
    up_to_date.put(9, ts(10_001, 2)).await;
    up_to_date.put(11, ts(10_001, 1)).await;

    // replica <- up_to_date: fetches 9 and 11. Afterwards the two are in sync.
    assert_eq!(replica.repair_from(&up_to_date, removals_first).await, (2, 0));
    assert_eq!(replica.repair_from(&up_to_date, removals_first).await, (0, 0));
    assert_eq!(up_to_date.repair_from(&replica, removals_first).await, (0, 0));
    assert_eq!(replica.live_docs().await, up_to_date.live_docs().await);

    // The purge task runs on `replica` and drops the tombstone of 7.
    replica.purge().await;
    assert!(replica.state().await.get(&K).is_none());

    // `stale` is back; each side repairs from the other.
    assert_eq!(replica.repair_from(&stale, removals_first).await, (0, 0));
    assert_eq!(stale.repair_from(&replica, removals_first).await, (4, 0));

    // Nothing further to fetch, in either direction ...
    assert_eq!(replica.repair_from(&stale, removals_first).await, (0, 0));
    assert_eq!(stale.repair_from(&replica, removals_first).await, (0, 0));

    // ... and yet:
    assert_eq!(
        replica.live_docs().await,
        stale.live_docs().await,
        "both replicas applied their difference against the other, neither has anything \
         further to fetch, and they serve different documents",
    );
}

#[tokio::test]
async fn poller_in_sync_but_different_documents_removals_first() {
    scenario(true).await;
}

#[tokio::test]
async fn poller_in_sync_but_different_documents_modifications_first() {
    scenario(false).await;
}
