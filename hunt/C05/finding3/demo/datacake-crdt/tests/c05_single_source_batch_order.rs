//! C05 counterexample for the single source set (`OrSWotSet<1>`, the default type parameter of
//! the public CRDT): no purge, no out of order delivery, a replica that is merely behind - and
//! the modifications-first application order does not repair, while removals-first does.
//!
//! The integration test binary links the non-test build of the library, so the forgiveness
//! period is the production value of one hour.
use std::time::Duration;

use datacake_crdt::{HLCTimestamp, Key, OrSWotSet, StateChanges};

type Set = OrSWotSet; // N = 1

fn ts(secs: u64, node: u8) -> HLCTimestamp {
    HLCTimestamp::new(Duration::from_secs(secs), 0, node)
}

/// One half of a difference, applied the way `KeyspaceActor::on_multi_set` / `on_multi_del`
/// apply it: filter by `will_apply`, sort by timestamp, then insert / delete.
fn apply_half(set: &mut Set, half: &StateChanges, is_delete: bool) {
    let mut valid: Vec<_> = half
        .iter()
        .copied()
        .filter(|(key, ts)| set.will_apply(*key, *ts))
        .collect();
    valid.sort_by_key(|entry| entry.1);
    for (key, ts) in valid {
        if is_delete {
            set.delete(key, ts);
        } else {
            set.insert(key, ts);
        }
    }
}

fn live(set: &Set) -> Vec<(Key, HLCTimestamp)> {
    [7u64, 8]
        .iter()
        .filter_map(|key| set.get(key).map(|ts| (*key, *ts)))
        .collect()
}

/// Returns (what is left to fetch after applying, live ids of the replica, live ids of the peer).
fn exchange(removals_first: bool) -> ((StateChanges, StateChanges), Vec<(Key, HLCTimestamp)>, Vec<(Key, HLCTimestamp)>) {
    //   a = insert 7 @  1_000 by node 1
    //   b = delete 7 @  2_000 by node 2
    //   c = insert 8 @ 10_000 by node 2
    // peer:    a, b, c   (everything, in order)
    // replica: a         (a gap free prefix of every writer; it is simply behind)
    let a = (7, ts(1_000, 1));
    let b = (7, ts(2_000, 2));
    let c = (8, ts(10_000, 2));

    let mut peer = Set::default();
    assert!(peer.insert(a.0, a.1));
    assert!(peer.delete(b.0, b.1));
    assert!(peer.insert(c.0, c.1));

    let mut replica = Set::default();
    assert!(replica.insert(a.0, a.1));

    // The difference is exactly what C05's first sentence says.
    let (modified, removed) = replica.diff(&peer);
    assert_eq!(modified, vec![c]);
    assert_eq!(removed, vec![b]);

    if removals_first {
        apply_half(&mut replica, &removed, true);
        apply_half(&mut replica, &modified, false);
    } else {
        apply_half(&mut replica, &modified, false);
        apply_half(&mut replica, &removed, true);
    }

    // The peer has nothing to fetch from the replica, before or after.
    assert_eq!(peer.diff(&replica), (vec![], vec![]));

    (replica.diff(&peer), live(&replica), live(&peer))
}

/// Passes.
#[test]
fn removals_first_repairs() {
    let (left, live_replica, live_peer) = exchange(true);
    assert_eq!(left, (vec![], vec![]));
    assert_eq!(live_replica, live_peer);
}

/// Fails: the same difference, the other order of the two batches.
#[test]
fn modifications_first_does_not_repair() {
    let (left, live_replica, live_peer) = exchange(false);
    let mut problems = Vec::new();
    if left != (vec![], vec![]) {
        problems.push(format!("still to fetch after applying the difference: {left:?}"));
    }
    if live_replica != live_peer {
        problems.push(format!("live ids differ: replica {live_replica:?} vs peer {live_peer:?}"));
    }
    assert!(problems.is_empty(), "{problems:#?}");
}
