//! C16 defect hunt - demonstration.
//!
//! Property C16: a component that subscribes to the membership changes and applies each
//! change it is handed holds, whenever membership is quiescent, exactly the set of other
//! live nodes, "so that replication and repair address exactly the live peers"
//! (observed at: "which peers receive a `Consistency::None` write within the batch window
//! on a public-API cluster").
//!
//! The task distributor is such a component (`live_members` in
//! `replication/distributor.rs`). It applies the membership changes which are queued for it
//! only at the start of a tick, and a tick does not end before *every* peer has answered
//! the batch (`execute_batch` awaits every request, no request has a deadline). One peer
//! which accepts the batch and never answers therefore freezes the distributor's view of the
//! membership: a node which joins afterwards is never added, a node which leaves afterwards
//! is never removed, and no live peer is addressed by any later write.
//!
//! The test builds a public-API cluster, everything is driven through the public API, the
//! only "fault" is a `Storage` on node 3 which stops returning from its write methods.
use std::sync::atomic::{AtomicBool, Ordering};
use std::sync::Arc;
use std::time::Duration;

use datacake_crdt::{HLCTimestamp, Key};
use datacake_eventual_consistency::test_utils::MemStore;
use datacake_eventual_consistency::{
    BulkMutationError,
    Document,
    DocumentMetadata,
    EventuallyConsistentStoreExtension,
    ReplicatedKeyspaceHandle,
    Storage,
};
use datacake_node::{
    ConnectionConfig,
    Consistency,
    DCAwareSelector,
    DatacakeNode,
    DatacakeNodeBuilder,
};

/// A `MemStore` whose write methods stop returning once `silent` is set.
struct SilentStore {
    inner: MemStore,
    silent: Arc<AtomicBool>,
}

impl SilentStore {
    async fn gate(&self) {
        if self.silent.load(Ordering::SeqCst) {
            std::future::pending::<()>().await;
        }
    }
}

#[async_trait::async_trait]
impl Storage for SilentStore {
    type Error = <MemStore as Storage>::Error;
    type DocsIter = <MemStore as Storage>::DocsIter;
    type MetadataIter = <MemStore as Storage>::MetadataIter;

    async fn get_keyspace_list(&self) -> Result<Vec<String>, Self::Error> {
        self.inner.get_keyspace_list().await
    }

    async fn iter_metadata(
        &self,
        keyspace: &str,
    ) -> Result<Self::MetadataIter, Self::Error> {
        self.inner.iter_metadata(keyspace).await
    }

    async fn remove_tombstones(
        &self,
        keyspace: &str,
        keys: impl Iterator<Item = Key> + Send,
    ) -> Result<(), BulkMutationError<Self::Error>> {
        let keys = keys.collect::<Vec<_>>();
        self.inner.remove_tombstones(keyspace, keys.into_iter()).await
    }

    async fn put(&self, keyspace: &str, document: Document) -> Result<(), Self::Error> {
        self.gate().await;
        self.inner.put(keyspace, document).await
    }

    async fn multi_put(
        &self,
        keyspace: &str,
        documents: impl Iterator<Item = Document> + Send,
    ) -> Result<(), BulkMutationError<Self::Error>> {
        let documents = documents.collect::<Vec<_>>();
        self.gate().await;
        self.inner.multi_put(keyspace, documents.into_iter()).await
    }

    async fn mark_as_tombstone(
        &self,
        keyspace: &str,
        doc_id: Key,
        timestamp: HLCTimestamp,
    ) -> Result<(), Self::Error> {
        self.gate().await;
        self.inner
            .mark_as_tombstone(keyspace, doc_id, timestamp)
            .await
    }

    async fn mark_many_as_tombstone(
        &self,
        keyspace: &str,
        documents: impl Iterator<Item = DocumentMetadata> + Send,
    ) -> Result<(), BulkMutationError<Self::Error>> {
        let documents = documents.collect::<Vec<_>>();
        self.gate().await;
        self.inner
            .mark_many_as_tombstone(keyspace, documents.into_iter())
            .await
    }

    async fn get(
        &self,
        keyspace: &str,
        doc_id: Key,
    ) -> Result<Option<Document>, Self::Error> {
        self.inner.get(keyspace, doc_id).await
    }

    async fn multi_get(
        &self,
        keyspace: &str,
        doc_ids: impl Iterator<Item = Key> + Send,
    ) -> Result<Self::DocsIter, Self::Error> {
        let doc_ids = doc_ids.collect::<Vec<_>>();
        self.inner.multi_get(keyspace, doc_ids.into_iter()).await
    }
}

const KEYSPACE: &str = "c16";
/// The distributor sends a batch every second, this is 10 batch windows.
const TEN_BATCH_WINDOWS: Duration = Duration::from_secs(10);

async fn connect(id: u8, addr: std::net::SocketAddr, seeds: &[String]) -> DatacakeNode {
    let cfg = ConnectionConfig::new(addr, addr, seeds);
    DatacakeNodeBuilder::<DCAwareSelector>::new(id, cfg)
        .connect()
        .await
        .expect("connect node")
}

/// The store of one node. The anti-entropy poller runs at its production interval (one
/// hour, the `test-utils` feature would shorten it to a second), what a peer receives within
/// the batch window is therefore what the distributor sent it.
fn extension(
    silent: Option<Arc<AtomicBool>>,
) -> EventuallyConsistentStoreExtension<SilentStore> {
    EventuallyConsistentStoreExtension::new(SilentStore {
        inner: MemStore::default(),
        silent: silent.unwrap_or_default(),
    })
    .with_repair_interval(Duration::from_secs(60 * 60))
}

/// Waits (at most `TEN_BATCH_WINDOWS`) for the document to show up.
async fn receives<S: Storage>(handle: &ReplicatedKeyspaceHandle<S>, doc_id: Key) -> bool {
    let deadline = tokio::time::Instant::now() + TEN_BATCH_WINDOWS;
    loop {
        if handle.get(doc_id).await.expect("get").is_some() {
            return true;
        }
        if tokio::time::Instant::now() >= deadline {
            return false;
        }
        tokio::time::sleep(Duration::from_millis(100)).await;
    }
}

#[derive(Debug, PartialEq, Eq)]
struct Observed {
    /// Baseline, nothing is wrong yet: the write reaches both peers.
    doc1_on_node2: bool,
    doc1_on_node3: bool,
    /// Written while node 3 is (possibly) silent: node 2 is sent the batch as well.
    doc2_on_node2: bool,
    /// Written after node 4 joined and the membership settled at {1, 2, 3, 4}.
    doc3_on_node2: bool,
    doc3_on_node4: bool,
    /// Written after node 3 left and the membership settled at {1, 2, 4}.
    doc4_on_node2: bool,
    doc4_on_node4: bool,
}

async fn scenario(node_3_goes_silent: bool) -> Observed {
    let addr_1 = test_helper::get_unused_addr();
    let addr_2 = test_helper::get_unused_addr();
    let addr_3 = test_helper::get_unused_addr();
    let addr_4 = test_helper::get_unused_addr();
    let seeds = [addr_1.to_string(), addr_2.to_string()];

    let node_1 = connect(1, addr_1, &seeds).await;
    let node_2 = connect(2, addr_2, &seeds).await;
    let node_3 = connect(3, addr_3, &seeds).await;

    let wait = Duration::from_secs(30);
    node_1.wait_for_nodes([2, 3], wait).await.expect("cluster forms");
    node_2.wait_for_nodes([1, 3], wait).await.expect("cluster forms");
    node_3.wait_for_nodes([1, 2], wait).await.expect("cluster forms");

    // Every node runs the same storage type (the RPC service names carry it), only the
    // one of node 3 is ever told to go silent.
    let silent = Arc::new(AtomicBool::new(false));
    let store_1 = node_1.add_extension(extension(None)).await.expect("store 1");
    let store_2 = node_2.add_extension(extension(None)).await.expect("store 2");
    let store_3 = node_3
        .add_extension(extension(Some(silent.clone())))
        .await
        .expect("store 3");

    let handle_1 = store_1.handle_with_keyspace(KEYSPACE);
    let handle_2 = store_2.handle_with_keyspace(KEYSPACE);
    let handle_3 = store_3.handle_with_keyspace(KEYSPACE);

    // Baseline: a `Consistency::None` write on node 1 reaches both live peers within
    // the batch window.
    handle_1
        .put(1, b"one".to_vec(), Consistency::None)
        .await
        .expect("put 1");
    let doc1_on_node2 = receives(&handle_2, 1).await;
    let doc1_on_node3 = receives(&handle_3, 1).await;

    // Node 3 stops answering (its disk hangs, the process is frozen, the network eats the
    // replies ...). It is still a live member as far as the membership layer is concerned.
    if node_3_goes_silent {
        silent.store(true, Ordering::SeqCst);
    }
    handle_1
        .put(2, b"two".to_vec(), Consistency::None)
        .await
        .expect("put 2");
    let doc2_on_node2 = receives(&handle_2, 2).await;

    // Node 4 joins. Wait until every node agrees on the membership {1, 2, 3, 4} and then
    // a few batch windows more: the membership is quiescent.
    let node_4 = connect(4, addr_4, &seeds).await;
    node_4
        .wait_for_nodes([1, 2, 3], wait)
        .await
        .expect("node 4 joins");
    node_1.wait_for_nodes([4], wait).await.expect("node 4 joins");
    node_2.wait_for_nodes([4], wait).await.expect("node 4 joins");
    let store_4 = node_4.add_extension(extension(None)).await.expect("store 4");
    let handle_4 = store_4.handle_with_keyspace(KEYSPACE);
    tokio::time::sleep(Duration::from_secs(3)).await;
    assert_eq!(node_1.statistics().num_live_members(), 4);

    handle_1
        .put(3, b"three".to_vec(), Consistency::None)
        .await
        .expect("put 3");
    let doc3_on_node2 = receives(&handle_2, 3).await;
    let doc3_on_node4 = receives(&handle_4, 3).await;

    // Node 3 disappears. Wait until the membership layer of node 1 reports {1, 2, 4} and
    // then a few batch windows more: the membership is quiescent again.
    node_3.shutdown().await;
    let deadline = tokio::time::Instant::now() + Duration::from_secs(120);
    while node_1.statistics().num_live_members() != 3 {
        assert!(
            tokio::time::Instant::now() < deadline,
            "the membership layer should report that node 3 left"
        );
        tokio::time::sleep(Duration::from_millis(500)).await;
    }
    tokio::time::sleep(Duration::from_secs(3)).await;
    assert_eq!(node_1.statistics().num_live_members(), 3);

    handle_1
        .put(4, b"four".to_vec(), Consistency::None)
        .await
        .expect("put 4");
    let doc4_on_node2 = receives(&handle_2, 4).await;
    let doc4_on_node4 = receives(&handle_4, 4).await;

    Observed {
        doc1_on_node2,
        doc1_on_node3,
        doc2_on_node2,
        doc3_on_node2,
        doc3_on_node4,
        doc4_on_node2,
        doc4_on_node4,
    }
}

const EVERY_LIVE_PEER_IS_ADDRESSED: Observed = Observed {
    doc1_on_node2: true,
    doc1_on_node3: true,
    doc2_on_node2: true,
    doc3_on_node2: true,
    doc3_on_node4: true,
    doc4_on_node2: true,
    doc4_on_node4: true,
};

/// Control: nobody goes silent, the very same schedule satisfies the property.
#[tokio::test(flavor = "multi_thread", worker_threads = 4)]
async fn control_all_peers_answer() {
    let observed = scenario(false).await;
    assert_eq!(observed, EVERY_LIVE_PEER_IS_ADDRESSED);
}

/// The live peers 2 and 4 answer every request, the membership is quiescent when documents
/// 3 and 4 are written, and still neither of them is sent the writes.
#[tokio::test(flavor = "multi_thread", worker_threads = 4)]
async fn one_silent_peer_freezes_the_distributors_membership() {
    let observed = scenario(true).await;
    assert_eq!(observed, EVERY_LIVE_PEER_IS_ADDRESSED);
}
