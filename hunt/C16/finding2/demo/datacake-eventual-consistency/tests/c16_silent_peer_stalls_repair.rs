//! C16 defect hunt - demonstration (second finding, the repair half).
//!
//! Property C16: a component that subscribes to the membership changes and applies each
//! change it is handed holds, whenever membership is quiescent, exactly the set of other
//! live nodes, "so that replication and repair address exactly the live peers".
//!
//! The anti-entropy poller (`replication_cycle` in `replication/poller.rs`) is such a
//! component. It applies the membership changes queued for it only between two repair
//! rounds, a round visits the members one after the other in id order, and the first two
//! requests of a visit (`poll_keyspace`, `get_state` in `check_node_changes`) have no
//! deadline. One peer which accepts `get_state` and never answers therefore ends the
//! poller for good: the peers behind it in id order are never repaired from, a node which
//! joins or leaves afterwards is never added or removed.
//!
//! Public API only. The "fault" is a `Storage` on node 1 which stops returning from its
//! write methods: the keyspace actor of node 1 then sits in that write and never gets to
//! the `get_state` request of a peer.
use std::sync::atomic::{AtomicBool, Ordering};
use std::sync::Arc;
use std::time::Duration;

use datacake_crdt::{HLCTimestamp, Key};
use datacake_eventual_consistency::test_utils::MemStore;
use datacake_eventual_consistency::{
    BulkMutationError,
    Document,
    DocumentMetadata,
    EventuallyConsistentStoreExtension,
    ReplicatedKeyspaceHandle,
    Storage,
};
use datacake_node::{
    ConnectionConfig,
    Consistency,
    DCAwareSelector,
    DatacakeNode,
    DatacakeNodeBuilder,
};

/// A `MemStore` whose write methods stop returning once `silent` is set.
struct SilentStore {
    inner: MemStore,
    silent: Arc<AtomicBool>,
}

impl SilentStore {
    async fn gate(&self) {
        if self.silent.load(Ordering::SeqCst) {
            std::future::pending::<()>().await;
        }
    }
}

#[async_trait::async_trait]
impl Storage for SilentStore {
    type Error = <MemStore as Storage>::Error;
    type DocsIter = <MemStore as Storage>::DocsIter;
    type MetadataIter = <MemStore as Storage>::MetadataIter;

    async fn get_keyspace_list(&self) -> Result<Vec<String>, Self::Error> {
        self.inner.get_keyspace_list().await
    }

    async fn iter_metadata(
        &self,
        keyspace: &str,
    ) -> Result<Self::MetadataIter, Self::Error> {
        self.inner.iter_metadata(keyspace).await
    }

    async fn remove_tombstones(
        &self,
        keyspace: &str,
        keys: impl Iterator<Item = Key> + Send,
    ) -> Result<(), BulkMutationError<Self::Error>> {
        let keys = keys.collect::<Vec<_>>();
        self.inner.remove_tombstones(keyspace, keys.into_iter()).await
    }

    async fn put(&self, keyspace: &str, document: Document) -> Result<(), Self::Error> {
        self.gate().await;
        self.inner.put(keyspace, document).await
    }

    async fn multi_put(
        &self,
        keyspace: &str,
        documents: impl Iterator<Item = Document> + Send,
    ) -> Result<(), BulkMutationError<Self::Error>> {
        let documents = documents.collect::<Vec<_>>();
        self.gate().await;
        self.inner.multi_put(keyspace, documents.into_iter()).await
    }

    async fn mark_as_tombstone(
        &self,
        keyspace: &str,
        doc_id: Key,
        timestamp: HLCTimestamp,
    ) -> Result<(), Self::Error> {
        self.gate().await;
        self.inner
            .mark_as_tombstone(keyspace, doc_id, timestamp)
            .await
    }

    async fn mark_many_as_tombstone(
        &self,
        keyspace: &str,
        documents: impl Iterator<Item = DocumentMetadata> + Send,
    ) -> Result<(), BulkMutationError<Self::Error>> {
        let documents = documents.collect::<Vec<_>>();
        self.gate().await;
        self.inner
            .mark_many_as_tombstone(keyspace, documents.into_iter())
            .await
    }

    async fn get(
        &self,
        keyspace: &str,
        doc_id: Key,
    ) -> Result<Option<Document>, Self::Error> {
        self.inner.get(keyspace, doc_id).await
    }

    async fn multi_get(
        &self,
        keyspace: &str,
        doc_ids: impl Iterator<Item = Key> + Send,
    ) -> Result<Self::DocsIter, Self::Error> {
        let doc_ids = doc_ids.collect::<Vec<_>>();
        self.inner.multi_get(keyspace, doc_ids.into_iter()).await
    }
}

const KEYSPACE: &str = "c16";
/// The repair interval of every node in this test.
const REPAIR_INTERVAL: Duration = Duration::from_secs(1);
const TEN_REPAIR_INTERVALS: Duration = Duration::from_secs(10);

async fn connect(id: u8, addr: std::net::SocketAddr, seeds: &[String]) -> DatacakeNode {
    let cfg = ConnectionConfig::new(addr, addr, seeds);
    DatacakeNodeBuilder::<DCAwareSelector>::new(id, cfg)
        .connect()
        .await
        .expect("connect node")
}

/// Every node runs the same storage type (the RPC service names carry it), only the one of
/// node 1 is ever told to go silent.
fn extension(
    silent: Option<Arc<AtomicBool>>,
) -> EventuallyConsistentStoreExtension<SilentStore> {
    EventuallyConsistentStoreExtension::new(SilentStore {
        inner: MemStore::default(),
        silent: silent.unwrap_or_default(),
    })
    .with_repair_interval(REPAIR_INTERVAL)
}

/// Waits (at most `TEN_REPAIR_INTERVALS`) for the document to show up.
async fn receives<S: Storage>(handle: &ReplicatedKeyspaceHandle<S>, doc_id: Key) -> bool {
    let deadline = tokio::time::Instant::now() + TEN_REPAIR_INTERVALS;
    loop {
        if handle.get(doc_id).await.expect("get").is_some() {
            return true;
        }
        if tokio::time::Instant::now() >= deadline {
            return false;
        }
        tokio::time::sleep(Duration::from_millis(100)).await;
    }
}

#[derive(Debug, PartialEq, Eq)]
struct Observed {
    /// Baseline, nothing is wrong yet: the write of node 2 reaches both peers.
    doc1_on_node1: bool,
    doc1_on_node3: bool,
    /// Node 4 joined later, the membership settled at {1, 2, 3, 4}: its repair (every
    /// second) fetches the document from a live peer which holds it (2 and 3 do).
    doc1_on_node4_after_join: bool,
    /// Node 1 left, the membership settled at {2, 3, 4}: as above.
    doc1_on_node4_after_leave: bool,
}

async fn scenario(node_1_goes_silent: bool) -> Observed {
    let addr_1 = test_helper::get_unused_addr();
    let addr_2 = test_helper::get_unused_addr();
    let addr_3 = test_helper::get_unused_addr();
    let addr_4 = test_helper::get_unused_addr();
    let seeds = [addr_2.to_string(), addr_3.to_string()];

    let node_1 = connect(1, addr_1, &seeds).await;
    let node_2 = connect(2, addr_2, &seeds).await;
    let node_3 = connect(3, addr_3, &seeds).await;

    let wait = Duration::from_secs(30);
    node_1.wait_for_nodes([2, 3], wait).await.expect("cluster forms");
    node_2.wait_for_nodes([1, 3], wait).await.expect("cluster forms");
    node_3.wait_for_nodes([1, 2], wait).await.expect("cluster forms");

    let silent = Arc::new(AtomicBool::new(false));
    let store_1 = node_1
        .add_extension(extension(Some(silent.clone())))
        .await
        .expect("store 1");
    let store_2 = node_2.add_extension(extension(None)).await.expect("store 2");
    let store_3 = node_3.add_extension(extension(None)).await.expect("store 3");

    let handle_1 = store_1.handle_with_keyspace(KEYSPACE);
    let handle_2 = store_2.handle_with_keyspace(KEYSPACE);
    let handle_3 = store_3.handle_with_keyspace(KEYSPACE);

    // Baseline: the document written on node 2 is on every node.
    handle_2
        .put(1, b"one".to_vec(), Consistency::None)
        .await
        .expect("put 1");
    let doc1_on_node1 = receives(&handle_1, 1).await;
    let doc1_on_node3 = receives(&handle_3, 1).await;

    // The storage of node 1 stops returning (its disk hangs ...): a local write of node 1
    // never comes back, its keyspace actor is busy with it for good. Node 1 stays a live
    // member as far as the membership layer is concerned. No other node is writing any more,
    // no distributor is waiting for node 1.
    if node_1_goes_silent {
        silent.store(true, Ordering::SeqCst);
    }
    let local_write = tokio::spawn(async move {
        let _ = handle_1.put(2, b"two".to_vec(), Consistency::None).await;
    });
    tokio::time::sleep(Duration::from_secs(2)).await;

    // Node 4 joins, everybody agrees on {1, 2, 3, 4}: quiescent. Document 1 was written
    // before node 4 existed, repair is the only way it gets there.
    let node_4 = connect(4, addr_4, &seeds).await;
    node_4
        .wait_for_nodes([1, 2, 3], wait)
        .await
        .expect("node 4 joins");
    node_2.wait_for_nodes([4], wait).await.expect("node 4 joins");
    node_3.wait_for_nodes([4], wait).await.expect("node 4 joins");
    let store_4 = node_4.add_extension(extension(None)).await.expect("store 4");
    let handle_4 = store_4.handle_with_keyspace(KEYSPACE);
    let doc1_on_node4_after_join = receives(&handle_4, 1).await;

    // Node 1 disappears. Wait until the membership layer of node 4 reports {2, 3, 4}.
    node_1.shutdown().await;
    let deadline = tokio::time::Instant::now() + Duration::from_secs(120);
    while node_4.statistics().num_live_members() != 3 {
        assert!(
            tokio::time::Instant::now() < deadline,
            "the membership layer should report that node 1 left"
        );
        tokio::time::sleep(Duration::from_millis(500)).await;
    }
    let doc1_on_node4_after_leave = receives(&handle_4, 1).await;

    local_write.abort();
    Observed {
        doc1_on_node1,
        doc1_on_node3,
        doc1_on_node4_after_join,
        doc1_on_node4_after_leave,
    }
}

const REPAIR_ADDRESSES_THE_LIVE_PEERS: Observed = Observed {
    doc1_on_node1: true,
    doc1_on_node3: true,
    doc1_on_node4_after_join: true,
    doc1_on_node4_after_leave: true,
};

/// Control: nobody goes silent, the very same schedule satisfies the property.
#[tokio::test(flavor = "multi_thread", worker_threads = 4)]
async fn control_all_peers_answer() {
    let observed = scenario(false).await;
    assert_eq!(observed, REPAIR_ADDRESSES_THE_LIVE_PEERS);
}

/// The live peers 2 and 3 hold the document and answer every request, the membership is
/// quiescent, node 4 repairs every second - and never asks either of them.
#[tokio::test(flavor = "multi_thread", worker_threads = 4)]
async fn one_silent_peer_ends_the_repair_of_a_node() {
    let observed = scenario(true).await;
    assert_eq!(observed, REPAIR_ADDRESSES_THE_LIVE_PEERS);
}
