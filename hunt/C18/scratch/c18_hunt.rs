#![cfg(all(feature = "verif", feature = "test-utils"))]
//! Scratch hypotheses for C18.

use std::marker::PhantomData;
use std::sync::Arc;

use datacake_crdt::OrSWotSet;
use datacake_eventual_consistency::test_utils::MemStore;
use datacake_eventual_consistency::verif::{
    KeyspaceGroup,
    Serialize,
    Set,
    CONSISTENCY_SOURCE_ID,
    NUM_SOURCES,
};
use datacake_eventual_consistency::Document;
use datacake_node::Clock;

async fn keys_of(group: &KeyspaceGroup<MemStore>, name: &str) -> Vec<u64> {
    let ks = group.get_or_create_keyspace(name).await;
    let bytes = ks.send(Serialize).await.expect("serialize");
    let set = OrSWotSet::<NUM_SOURCES>::from_bytes(&bytes).expect("decode");
    (0..10_000u64).filter(|k| set.get(k).is_some()).collect()
}

/// H1: k concurrent get-or-create + one mutation each on a fresh name.
#[tokio::test(flavor = "multi_thread", worker_threads = 8)]
async fn h1_concurrent_first_use() {
    let group =
        KeyspaceGroup::new(Arc::new(MemStore::default()), Clock::new(0)).await;

    for round in 0..300 {
        let name = format!("fresh-{round}");
        let k = 16u64;
        let barrier = Arc::new(tokio::sync::Barrier::new(k as usize));
        let mut tasks = Vec::new();
        for i in 0..k {
            let group = group.clone();
            let name = name.clone();
            let barrier = barrier.clone();
            tasks.push(tokio::spawn(async move {
                barrier.wait().await;
                let ks = group.get_or_create_keyspace(&name).await;
                let ts = group.clock().get_time().await;
                ks.send(Set {
                    source: CONSISTENCY_SOURCE_ID,
                    doc: Document::new(i, ts, vec![1u8]),
                    ctx: None,
                    _marker: PhantomData::<MemStore>,
                })
                .await
                .expect("set");
            }));
        }
        for t in tasks {
            t.await.unwrap();
        }
        let got = keys_of(&group, &name).await;
        assert_eq!(got, (0..k).collect::<Vec<_>>(), "round {round}");
        let info = group.get_keyspace_info().await;
        assert!(info.keyspace_timestamps.contains_key(&name));
    }
}

/// H2: add_state on a name that is in use.
#[tokio::test]
async fn h2_add_state_replaces() {
    let group =
        KeyspaceGroup::new(Arc::new(MemStore::default()), Clock::new(0)).await;

    let ks = group.get_or_create_keyspace("ks").await;
    let ts = group.clock().get_time().await;
    ks.send(Set {
        source: CONSISTENCY_SOURCE_ID,
        doc: Document::new(1, ts, vec![1u8]),
        ctx: None,
        _marker: PhantomData::<MemStore>,
    })
    .await
    .expect("set");

    let _other = group.add_state("ks", OrSWotSet::default()).await;

    let ts = group.clock().get_time().await;
    ks.send(Set {
        source: CONSISTENCY_SOURCE_ID,
        doc: Document::new(2, ts, vec![1u8]),
        ctx: None,
        _marker: PhantomData::<MemStore>,
    })
    .await
    .expect("set");

    assert_eq!(keys_of(&group, "ks").await, vec![1, 2]);
}

/// H1b: real node; client writes, incoming replication (consistency RPC) and repair-side
/// state requests race on fresh names.
#[tokio::test(flavor = "multi_thread", worker_threads = 8)]
async fn h1b_real_node_mixed_first_use() -> anyhow::Result<()> {
    use datacake_eventual_consistency::verif::{ConsistencyClient, ReplicationClient};
    use datacake_eventual_consistency::EventuallyConsistentStoreExtension;
    use datacake_node::{ConnectionConfig, Consistency, DCAwareSelector, DatacakeNodeBuilder};

    let addr = test_helper::get_unused_addr();
    let cfg = ConnectionConfig::new(addr, addr, Vec::<String>::new());
    let node = DatacakeNodeBuilder::<DCAwareSelector>::new(1, cfg).connect().await?;
    let store = node
        .add_extension(EventuallyConsistentStoreExtension::new(MemStore::default()))
        .await?;
    let remote_clock = Clock::new(2);

    for round in 0..100 {
        let name = format!("fresh-{round}");
        let k = 6u64;
        let barrier = Arc::new(tokio::sync::Barrier::new(3 * k as usize));
        let mut tasks = Vec::new();
        for i in 0..k {
            // client write
            let handle = store.handle();
            let (n, b) = (name.clone(), barrier.clone());
            tasks.push(tokio::spawn(async move {
                b.wait().await;
                handle.put(&n, i, vec![1u8], Consistency::None).await.expect("put");
            }));
            // incoming replication
            let channel = node.network().get_or_connect(addr);
            let rc = remote_clock.clone();
            let (n, b) = (name.clone(), barrier.clone());
            tasks.push(tokio::spawn(async move {
                let mut c = ConsistencyClient::<MemStore>::new(rc.clone(), channel);
                b.wait().await;
                let ts = rc.get_time().await;
                c.put(n, Document::new(100 + i, ts, vec![2u8]), 2, addr).await.expect("rpc put");
            }));
            // repair side state request
            let channel = node.network().get_or_connect(addr);
            let rc = remote_clock.clone();
            let (n, b) = (name.clone(), barrier.clone());
            tasks.push(tokio::spawn(async move {
                let mut c = ReplicationClient::<MemStore>::new(rc, channel);
                b.wait().await;
                c.get_state(n).await.expect("get state");
            }));
        }
        for t in tasks {
            t.await.unwrap();
        }

        let channel = node.network().get_or_connect(addr);
        let mut c = ReplicationClient::<MemStore>::new(remote_clock.clone(), channel);
        let polled = c.poll_keyspace().await.expect("poll");
        assert!(polled.contains_key(&name), "round {round}: not advertised");
        let (last, set) = c.get_state(name.clone()).await.expect("get state");
        assert_eq!(polled[&name], last, "round {round}: advertised stamp differs from the instance's");
        for i in 0..k {
            assert!(set.get(&i).is_some(), "round {round}: client write {i} missing");
            assert!(set.get(&(100 + i)).is_some(), "round {round}: replicated write {i} missing");
        }
    }
    node.shutdown().await;
    Ok(())
}

/// H3: load_states on a name that is in use.
#[tokio::test]
async fn h3_load_states_replaces() {
    let group =
        KeyspaceGroup::new(Arc::new(MemStore::default()), Clock::new(0)).await;

    let ks = group.get_or_create_keyspace("ks").await;
    let ts = group.clock().get_time().await;
    ks.send(Set {
        source: CONSISTENCY_SOURCE_ID,
        doc: Document::new(1, ts, vec![1u8]),
        ctx: None,
        _marker: PhantomData::<MemStore>,
    })
    .await
    .expect("set");

    // storage knows the keyspace by now
    group.load_states_from_storage().await.expect("load");

    let ts = group.clock().get_time().await;
    ks.send(Set {
        source: CONSISTENCY_SOURCE_ID,
        doc: Document::new(2, ts, vec![1u8]),
        ctx: None,
        _marker: PhantomData::<MemStore>,
    })
    .await
    .expect("set");

    assert_eq!(keys_of(&group, "ks").await, vec![1, 2]);
}
