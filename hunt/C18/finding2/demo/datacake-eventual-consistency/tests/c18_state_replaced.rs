//! C18 - "a keyspace has one state": `KeyspaceGroup::add_state` and
//! `KeyspaceGroup::load_states` / `load_states_from_storage` register a NEW instance under a
//! name without looking whether one is registered already (unlike `get_or_create_keyspace`,
//! which re-checks under the write lock). A task that obtained its mailbox before keeps
//! applying - and acknowledging - operations to the instance that was pushed out of the group;
//! the instance a later lookup returns (the one peers are served from) never sees them.
//!
//! Needs `--features verif,test-utils`.
#![cfg(all(feature = "verif", feature = "test-utils"))]

use std::marker::PhantomData;
use std::sync::Arc;

use datacake_crdt::OrSWotSet;
use datacake_eventual_consistency::test_utils::MemStore;
use datacake_eventual_consistency::verif::{
    KeyspaceGroup,
    Serialize,
    Set,
    CONSISTENCY_SOURCE_ID,
    NUM_SOURCES,
};
use datacake_eventual_consistency::Document;
use datacake_node::Clock;

/// The keys in the set of the instance a *later lookup* returns.
async fn keys_of(group: &KeyspaceGroup<MemStore>, name: &str) -> Vec<u64> {
    let ks = group.get_or_create_keyspace(name).await;
    let bytes = ks.send(Serialize).await.expect("serialize");
    let set = OrSWotSet::<NUM_SOURCES>::from_bytes(&bytes).expect("decode");
    (0..100u64).filter(|k| set.get(k).is_some()).collect()
}

async fn put(
    group: &KeyspaceGroup<MemStore>,
    ks: &puppet::ActorMailbox<datacake_eventual_consistency::verif::KeyspaceActor<MemStore>>,
    id: u64,
) {
    let ts = group.clock().get_time().await;
    ks.send(Set {
        source: CONSISTENCY_SOURCE_ID,
        doc: Document::new(id, ts, vec![1u8]),
        ctx: None,
        _marker: PhantomData::<MemStore>,
    })
    .await
    .expect("the mutation is accepted");
}

#[tokio::test]
async fn add_state_pushes_out_the_live_instance() {
    let group = KeyspaceGroup::new(Arc::new(MemStore::default()), Clock::new(0)).await;

    // Task A: first use of the keyspace, one accepted mutation.
    let ks_a = group.get_or_create_keyspace("ks").await;
    put(&group, &ks_a, 1).await;

    // Task B: registers a state for the same name.
    let _ks_b = group.add_state("ks", OrSWotSet::default()).await;

    // Task A still holds its mailbox (as an in-flight `put`/RPC handler does) and goes on.
    put(&group, &ks_a, 2).await;

    assert_eq!(
        keys_of(&group, "ks").await,
        vec![1, 2],
        "accepted mutations are missing from the instance later lookups return",
    );
}

#[tokio::test]
async fn load_states_pushes_out_the_live_instance() {
    let group = KeyspaceGroup::new(Arc::new(MemStore::default()), Clock::new(0)).await;

    let ks_a = group.get_or_create_keyspace("ks").await;
    put(&group, &ks_a, 1).await;

    // The storage knows `ks` by now, so this rebuilds and re-registers it.
    group.load_states_from_storage().await.expect("load");

    put(&group, &ks_a, 2).await;

    assert_eq!(
        keys_of(&group, "ks").await,
        vec![1, 2],
        "accepted mutations are missing from the instance later lookups return",
    );
}
