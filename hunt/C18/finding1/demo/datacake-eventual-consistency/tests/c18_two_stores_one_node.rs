//! C18 - "a keyspace has one state": a node which hosts two eventually consistent stores of
//! the same storage type ends up with two live instances of every keyspace name; the one the
//! client writes of the first store go to is not the one incoming replication is applied to,
//! nor the one peers synchronise against.
//!
//! `two_stores_peer_view` needs `--features verif,test-utils` (it asks the node for its state
//! exactly as a peer's repair cycle does); `two_stores_public_api` needs only `test-utils`.
#![cfg(feature = "test-utils")]

use std::time::Duration;

use datacake_eventual_consistency::test_utils::MemStore;
use datacake_eventual_consistency::EventuallyConsistentStoreExtension;
use datacake_node::{
    ConnectionConfig,
    Consistency,
    DCAwareSelector,
    DatacakeNode,
    DatacakeNodeBuilder,
};

const KEYSPACE: &str = "fresh-keyspace";

/// One node, two stores, observed as a peer observes the node (poll + get state).
#[cfg(feature = "verif")]
#[tokio::test]
async fn two_stores_peer_view() -> anyhow::Result<()> {
    peer_view(true).await
}

/// Control: the very same steps with one store on the node. Passes.
#[cfg(feature = "verif")]
#[tokio::test]
async fn control_one_store_peer_view() -> anyhow::Result<()> {
    peer_view(false).await
}

#[cfg(feature = "verif")]
async fn peer_view(second_store: bool) -> anyhow::Result<()> {
    use datacake_eventual_consistency::verif::ReplicationClient;

    let addr = test_helper::get_unused_addr();
    let cfg = ConnectionConfig::new(addr, addr, Vec::<String>::new());
    let node = DatacakeNodeBuilder::<DCAwareSelector>::new(1, cfg)
        .connect()
        .await?;

    // Two independent stores on the one node (say `users` and `sessions`), both backed by
    // the same storage type.
    let users = node
        .add_extension(EventuallyConsistentStoreExtension::new(MemStore::default()))
        .await?;
    let _sessions = if second_store {
        Some(
            node.add_extension(EventuallyConsistentStoreExtension::new(
                MemStore::default(),
            ))
            .await?,
        )
    } else {
        None
    };

    // First use of the keyspace: a client write through the first store. It is acknowledged.
    let handle = users.handle();
    handle
        .put(KEYSPACE, 1, b"hello".to_vec(), Consistency::None)
        .await
        .expect("the write is accepted");
    assert!(handle.get(KEYSPACE, 1).await?.is_some());

    // What a peer's repair cycle sees when it synchronises against this node.
    let channel = node.network().get_or_connect(addr);
    let mut peer = ReplicationClient::<MemStore>::new(node.clock().clone(), channel);

    let polled = peer.poll_keyspace().await.expect("poll");
    let (_, set) = peer.get_state(KEYSPACE).await.expect("get state");

    assert!(
        set.get(&1).is_some(),
        "the acknowledged write of doc 1 is missing from the set peers synchronise against \
         (keyspaces the node advertised before the state request: {:?})",
        polled.keys().collect::<Vec<_>>(),
    );

    node.shutdown().await;
    Ok(())
}

/// Two nodes, two stores each, public API only: a write of store `users` acknowledged at
/// `Consistency::All` must be readable from store `users` of the other node.
#[tokio::test]
async fn two_stores_public_api() -> anyhow::Result<()> {
    let [node_1, node_2] = connect_cluster().await;

    let users_1 = node_1
        .add_extension(EventuallyConsistentStoreExtension::new(MemStore::default()))
        .await?;
    let sessions_1 = node_1
        .add_extension(EventuallyConsistentStoreExtension::new(MemStore::default()))
        .await?;
    let users_2 = node_2
        .add_extension(EventuallyConsistentStoreExtension::new(MemStore::default()))
        .await?;
    let sessions_2 = node_2
        .add_extension(EventuallyConsistentStoreExtension::new(MemStore::default()))
        .await?;

    users_1
        .handle()
        .put(KEYSPACE, 1, b"hello".to_vec(), Consistency::All)
        .await
        .expect("every replica acknowledged the write");

    // `Consistency::All` was acknowledged, so (as in `test_consistency_all`) the document is
    // readable on the other node at once - from the store it was written to.
    let in_users_2 = users_2.handle().get(KEYSPACE, 1).await?.is_some();
    let in_sessions_2 = sessions_2.handle().get(KEYSPACE, 1).await?.is_some();

    // Give anti-entropy (1s interval with `test-utils`) ample time, then look at where the
    // document has travelled to.
    tokio::time::sleep(Duration::from_secs(6)).await;
    let later = [
        users_1.handle().get(KEYSPACE, 1).await?.is_some(),
        sessions_1.handle().get(KEYSPACE, 1).await?.is_some(),
        users_2.handle().get(KEYSPACE, 1).await?.is_some(),
        sessions_2.handle().get(KEYSPACE, 1).await?.is_some(),
    ];

    assert!(
        in_users_2 && !in_sessions_2 && later == [true, false, true, false],
        "doc 1 was written to store `users` only. Right after the acknowledgement: in `users` \
         of node 2: {in_users_2}, in `sessions` of node 2: {in_sessions_2}. Six seconds later \
         [users@1, sessions@1, users@2, sessions@2] = {later:?}",
    );

    node_1.shutdown().await;
    node_2.shutdown().await;
    Ok(())
}

async fn connect_cluster() -> [DatacakeNode; 2] {
    let node_1_addr = test_helper::get_unused_addr();
    let node_2_addr = test_helper::get_unused_addr();

    let node_1_cfg =
        ConnectionConfig::new(node_1_addr, node_1_addr, [node_2_addr.to_string()]);
    let node_2_cfg =
        ConnectionConfig::new(node_2_addr, node_2_addr, [node_1_addr.to_string()]);

    let node_1 = DatacakeNodeBuilder::<DCAwareSelector>::new(1, node_1_cfg)
        .connect()
        .await
        .unwrap();
    let node_2 = DatacakeNodeBuilder::<DCAwareSelector>::new(2, node_2_cfg)
        .connect()
        .await
        .unwrap();

    node_1
        .wait_for_nodes(&[2], Duration::from_secs(60))
        .await
        .expect("Nodes should connect within timeout.");
    node_2
        .wait_for_nodes(&[1], Duration::from_secs(60))
        .await
        .expect("Nodes should connect within timeout.");

    [node_1, node_2]
}
